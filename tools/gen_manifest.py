#!/usr/bin/env python3
"""Regenerates /verif/MANIFEST.json from the table below and validates it."""
import json, os, sys, subprocess

ROOT = "/verif"
props = [json.loads(l) for l in open(f"{ROOT}/properties.jsonl")]
ids = [p["id"] for p in props]

# property -> (engine, technique, level text, level note, design ref)
CLAIMS = {}
def claim(pid, engine, technique, text, note, ref):
    CLAIMS[pid] = dict(engine=engine, technique=technique, text=text, note=note, ref=ref)

exec(open(f"{ROOT}/tools/claims.py").read())
for _name in ("ROUND3", "ROUND4", "ROUND5", "ROUND6"):
    for _pid, _txt in globals().get(_name, {}).items():
        if _pid in CLAIMS:
            CLAIMS[_pid]["text"] += " " + _txt

hooks_commits = []
hp = f"{ROOT}/tools/hook_commits.txt"
if os.path.exists(hp):
    hooks_commits = [l.split()[0] for l in open(hp) if l.strip() and not l.startswith("#")]

checks = []
for pid in ids:
    if pid not in CLAIMS:
        continue
    c = CLAIMS[pid]
    checks.append({
        "property_id": pid,
        "quick_cmd": f"./check {pid} quick",
        "thorough_cmd": f"./check {pid} thorough",
        "evidence_file": f"/verif/evidence/{pid}.json",
        "replay_cmd_template": f"./check {pid} --replay {{path}}",
        "engine": c["engine"],
        "level_claimed": {"category": "exploration", "text": c["text"], "design_ref": c["ref"]},
        "level_note": c["note"],
        "technique": c["technique"],
    })
na = [{"property_id": pid, "reason": "check not built yet in this round (planned: see DESIGN.md section 6); not claimed until its check exists and is silent on the unchanged tree"}
      for pid in ids if pid not in CLAIMS]
man = {
    "version": 1,
    "setup_cmd": "./setup.sh",
    "hooks": {
        "guard": "verif",
        "enable": "go build tag: every check builds /repo (via the harness module's replace directive) with -tags verif",
        "baseline_off_cmd": "cd /repo && go test -vet=off -count=1 ./...",
        "source_commits": hooks_commits,
        "add_only": True,
    },
    "engines": [
        {"name": "pbt", "path": "harness/internal/pbt", "serves_properties": sorted(CLAIMS), "kind_free_text": "generic case runner on pgregory.net/rapid v1.3.0 + exhaustive enumerators: Gen/Enum -> Case -> Run(oracle); counters, distinct non-trivial hashing, smallest failing case -> replay file"},
        {"name": "driver", "path": "harness/cmd/driver", "serves_properties": sorted(CLAIMS), "kind_free_text": "rebuilds test binaries from /repo's tree, shards processes, writes evidence, maps to exit codes 0/1/2"},
    ] + json.load(open(f"{ROOT}/tools/engines_extra.json")) if os.path.exists(f"{ROOT}/tools/engines_extra.json") else [],
    "checks": checks,
    "not_applicable": na,
    "notes": "All checks: property-based testing / fuzzing (rapid generators, exhaustive enumeration of small finite spaces, controlled-schedule generation, free-running -race stress, native go fuzz in thorough tiers). Exit 2 = inconclusive (never a violation). VERIF_SEED selects the PRNG stream. Known findings live in /verif/known-findings.txt.",
}
if not na:
    man["not_applicable"] = []
json.dump(man, open(f"{ROOT}/MANIFEST.json", "w"), indent=1)
open(f"{ROOT}/MANIFEST.json", "a").write("\n")
# validate
try:
    import jsonschema
    jsonschema.validate(man, json.load(open("/root/.vp/MANIFEST.schema.json")))
    print("MANIFEST valid;", len(checks), "claimed,", len(na), "not claimed")
except ImportError:
    print("jsonschema not importable here; run with python3-vt")
