#!/bin/sh
# tools/finalize.sh : refresh evidence (quick, seed 0), validate evidence + manifest against the schemas
cd /verif || exit 2
unset VERIF_SEED VERIF_REPO VERIF_ALT_TAG
tools/runall.sh quick | tee /tmp/finalize.log | grep -v "rc=0"
python3-vt tools/gen_manifest.py
for f in evidence/*.json; do python3-vt - "$f" <<'PY'
import json,jsonschema,sys
f=sys.argv[1]
e=json.load(open(f))
jsonschema.validate(e, json.load(open('/root/.vp/EVIDENCE.schema.json')))
c=e['coverage']
assert e['tier']=='quick' and e.get('violations',0)==0, f
print(f, 'ok', c['evaluations'], c['distinct_nontrivial'])
PY
done
git status --short | head
