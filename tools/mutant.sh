#!/bin/sh
# tools/mutant.sh <patch.diff> <Cnn> [quick|thorough]  — runs a check against a scratch worktree of /repo
# with the patch applied (never touches /repo's working tree). Prints the check's output and exit code.
set -u
patch=$(readlink -f "$1"); prop=$2; tier=${3:-quick}
wt=$(mktemp -d /tmp/mut.XXXXXX)
git -C /repo worktree add -q --detach "$wt" HEAD >/dev/null 2>&1 || { echo "worktree failed"; exit 2; }
( cd "$wt" && git apply "$patch" ) || { echo "patch does not apply"; git -C /repo worktree remove --force "$wt"; exit 2; }
tag=$(basename "$wt"); VERIF_ALT_TAG="$tag" VERIF_REPO="$wt" /verif/check "$prop" "$tier"; rc=$?
echo "mutant-exit=$rc"
git -C /repo worktree remove --force "$wt"
rm -rf "$wt" "/verif/.work/alt-$tag"
exit $rc
