#!/usr/bin/env python3
"""seedeval.py <agent-out-dir> <seed-id> [tier ...]
Confirms an independently written seeded change (patch.diff + demo + meta.json) in a scratch worktree:
  1. patch applies, builds, existing suite passes WITH the patch
  2. demo fails WITH the patch and passes WITHOUT it
then runs ./check <property> quick (and the further tiers given) against worktree+patch and stores
everything as /verif/seeded/<seed-id>/ (patch.diff, demo, meta.json with what was run and the results)."""
import sys, os, json, subprocess, shutil, tempfile, glob, re, time
src, sid = sys.argv[1], sys.argv[2]
tiers = sys.argv[3:] or ["quick"]
env = dict(os.environ, GOFLAGS="-mod=mod", GOPROXY="off", GOSUMDB="off", GOTOOLCHAIN="local")
meta = json.load(open(f"{src}/meta.json"))
prop = meta["property"]
demo_files = [f for f in glob.glob(f"{src}/*") if os.path.basename(f) not in ("patch.diff", "meta.json")]
wt = tempfile.mkdtemp(prefix="se.", dir="/tmp")
def sh(cmd, cwd=wt, timeout=600):
    try:
        r = subprocess.run(cmd, shell=True, cwd=cwd, env=env, capture_output=True, text=True, timeout=timeout)
        return r.returncode, (r.stdout + r.stderr)
    except subprocess.TimeoutExpired as e:
        return 124, "TIMEOUT " + str(e)
subprocess.check_call(["git", "-C", "/repo", "worktree", "add", "-q", "--detach", wt, "HEAD"], stdout=subprocess.DEVNULL, stderr=subprocess.DEVNULL)
res = {"confirmed_by_harness_author": {}}
c = res["confirmed_by_harness_author"]
try:
    demo_cmd = meta.get("demo_cmd", "")
    # normalise the agent's command: strip trailing remarks, resolve <checkout> and the demo's source path
    for cut in ("   (", "   #", "  (", "  #"):
        if cut in demo_cmd:
            demo_cmd = demo_cmd[:demo_cmd.index(cut)]
    demo_cmd = demo_cmd.replace("<checkout>", wt).strip()
    for f in demo_files:
        bn = os.path.basename(f)
        demo_cmd = re.sub(r"(?<![\w/.-])" + re.escape(bn) + r"(?=\s)", f, demo_cmd, count=1)
    placed = []
    def place_demo():
        pass
    rc, out = sh(f"git apply {src}/patch.diff")
    c["patch_applies"] = rc == 0
    rc, out = sh("go build ./... && go vet ./... 2>&1 | tail -3")
    c["compiles"] = rc == 0
    rc, out = sh("go test -vet=off -count=1 ./... 2>&1 | tail -15", timeout=900)
    c["existing_tests_pass_with_patch"] = rc == 0 and "FAIL" not in out
    place_demo()
    c["demo_cmd"] = demo_cmd
    rc1, out1 = sh(demo_cmd + " 2>&1 | tail -25", timeout=900) if demo_cmd else (0, "no demo_cmd")
    c["demo_fails_with_patch"] = ("FAIL" in out1 or "panic" in out1 or "DATA RACE" in out1 or rc1 != 0) and "no test files" not in out1 and "[setup failed]" not in out1 and "[build failed]" not in out1
    c["demo_output_with_patch"] = out1[-1500:]
    sh(f"git apply -R {src}/patch.diff")
    rc, st = sh("git status --short | grep -v '^??' | head -3")
    c["reverted_cleanly"] = st.strip() == ""
    rc2, out2 = sh(demo_cmd + " 2>&1 | tail -8", timeout=900) if demo_cmd else (0, "")
    c["demo_passes_without_patch"] = rc2 == 0 and "FAIL" not in out2
    c["demo_output_without_patch"] = out2[-600:]
    sh("git checkout -q -- . && git clean -fdq")
    sh(f"git apply {src}/patch.diff")
    checks = {}
    for tier in tiers:
        t0 = time.time()
        r = subprocess.run(["/verif/check", prop, tier], env=dict(env, VERIF_REPO=wt, VERIF_ALT_TAG=os.path.basename(wt)), capture_output=True, text=True)
        lines = [l for l in r.stdout.splitlines() if l.startswith(("VIOLATION", "  unit=", "OK ", "INCONCLUSIVE", "KNOWN"))]
        checks[tier] = {"exit": r.returncode, "wall_s": round(time.time() - t0, 1), "output": [l[:400] for l in lines][:8]}
        if r.returncode == 1:
            break
    res["checks_run"] = {f"./check {prop} {t} (VERIF_REPO=worktree+patch)": v for t, v in checks.items()}
    res["caught"] = next((t for t, v in checks.items() if v["exit"] == 1), None)
finally:
    subprocess.call(["git", "-C", "/repo", "worktree", "remove", "--force", wt])
    shutil.rmtree(wt, ignore_errors=True)
    shutil.rmtree(f"/verif/.work/alt-{os.path.basename(wt)}", ignore_errors=True)
ok = c.get("patch_applies") and c.get("compiles") and c.get("existing_tests_pass_with_patch") and c.get("demo_fails_with_patch") and c.get("demo_passes_without_patch")
res["kept"] = bool(ok)
out = dict(meta, id=sid, origin="independent sub-agent given only the property text and its own worktree", **res)
d = f"/verif/seeded/{sid}"
if ok:
    os.makedirs(d, exist_ok=True)
    shutil.copy(f"{src}/patch.diff", d)
    for f in demo_files:
        shutil.copy(f, d)
    json.dump(out, open(f"{d}/meta.json", "w"), indent=1)
print(json.dumps({"id": sid, "kept": bool(ok), "caught": res.get("caught"), "confirm": {k: v for k, v in c.items() if isinstance(v, bool)},
                  "checks": {k: (v["exit"], v["wall_s"], v["output"][:3]) for k, v in res.get("checks_run", {}).items()}}, indent=1))
if not ok:
    print("DEMO WITH PATCH:", c.get("demo_output_with_patch", "")[-800:])
    print("DEMO WITHOUT:", c.get("demo_output_without_patch", "")[-400:])
