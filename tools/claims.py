# executed by gen_manifest.py
claim("C13", "pbt (E2 enumeration + E1 rapid)",
      "exhaustive enumeration of (n,size) grid + rapid random cases against the partition definitions",
      "Exploration: every (n,size) with n<=40,size<=45 (thorough: n<=120,size<=125) is enumerated and all six functions are compared with the definitions (piece count ceil(n/size), non-empty pieces, concatenation = input, window/pair i = s[i:i+size], Func variants see the same sequence), plus rapid cases up to n=300. The property is a pure function of (n,size), so a small exhaustive grid plus random larger sizes is the natural level; nothing is proved for n beyond the explored range.",
      "Trusts the Go toolchain and the harness's reference loops; element type is int (the functions are type-generic and never inspect elements).",
      "DESIGN.md section 6, C13")
