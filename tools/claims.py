# executed by gen_manifest.py: claim(pid, engine, technique, level text, level note, design ref)
SEQ_NOTE = "Trusts the Go toolchain, rapid v1.3.0's generators and the harness's reference model; verdict is exploration only (no proof)."

claim("C01", "pbt E1 (rapid model-based histories)",
      "model-based property testing: rapid-generated operation histories vs a sorted-multiset model, plus an existential one-tree oracle over the three traversals",
      "Exploration: rapid generates histories of Add/Remove/Contains/Clear/Clone/Walk over 4 element types/comparators and universes of 4..41 values (duplicates and absent values frequent); after EVERY call both the tree and its clone are compared with sorted-multiset models (in-order, Len, Contains over the universe, String, Remove's result) and pre/in/post-order must be explained by one binary tree (backtracking solver, cross-checked against brute force). Universally quantified over histories, so sampling with shrinking is the applicable level.",
      SEQ_NOTE + " Comparators are total orders consistent with == (the statement's domain).",
      "DESIGN.md section 6, C01")
claim("C02", "pbt E2+E1 (structured enumeration + rapid histories)",
      "exhaustive structured insertion/deletion orders for every n<=64 + rapid histories; AVL balance decided on the tree reconstructed from pre+in(+post) order after every operation",
      "Exploration: for every n<=64 and 6x6 structured insertion/deletion patterns (thorough: n up to 4096) and for rapid histories (distinct and duplicate values) the tree is reconstructed from its traversals after every Add/Remove and every node must satisfy |h(l)-h(r)|<=1 (with duplicates: some explaining tree is balanced); depth bound and a comparator-call bound are derived checks.",
      SEQ_NOTE + " With duplicate values the check is existential over the trees consistent with the traversals (sound, slightly weaker).",
      "DESIGN.md section 6, C02")
claim("C07", "pbt E1 (rapid model-based histories)",
      "model-based property testing: rapid histories on slices.Sorted vs a sorted-slice model, strict orders and a weak order",
      "Exploration: rapid histories of Add/Remove/RemoveAt/Index/Contains/Get/Len/String (valid and out-of-range positions, present and absent values, caller scribbling on its input slice) against a sorted-slice model; strict total orders get the full positional contract, a weak order only sortedness+multiset (any equivalent element may be removed).",
      SEQ_NOTE, "DESIGN.md section 6, C07")
claim("C08", "pbt E2+E1 (all shapes enumerated + rapid)",
      "exhaustive enumeration of all shapes up to 7x7 (12x12 thorough) with canonical scripts + rapid op lists, against a grid-of-cells model with unique cell values",
      "Exploration: every width x height in 0..7 (thorough 0..12) with all constructors and canonical scripts (every cell, the whole out-of-bounds ring, all corner orders of Fill, Row/RowSpan liveness both ways, Clone independence) plus rapid op lists; Get over the whole grid is compared with the model after every mutation so aliasing between cells is seen at once.",
      SEQ_NOTE + " RowSpan with x1>x2 is outside the stated domain and not called.", "DESIGN.md section 6, C08")
claim("C11", "pbt E2+E1 (exhaustive short histories + rapid)",
      "exhaustive enumeration of all call sequences up to length 5 (6 thorough) on a 3x3 universe + rapid histories with clones, against a pair-list model with eviction",
      "Exploration: all sequences of Add/RemoveForward/RemoveReverse/Clear up to length 5 on the zero value, and rapid histories over up to 4 live maps created by Clone; after every call every lookup in both directions, Len, Range (full and early stop) are compared with the model and with each other (mutual inverse).",
      SEQ_NOTE, "DESIGN.md section 6, C11")
claim("C12", "pbt E2+E1 (exhaustive small grid + rapid)",
      "exhaustive (len<=8, spare<=3, index) grid + rapid cases with poisoned spare capacity, against fresh-append splice references; aliasing checked by mutation",
      "Exploration: every (length, spare capacity, index[, count]) triple in the small grid for Insert/InsertSlice/Remove/RemoveSlice/Grow/Reverse/Clone/Concat, Fill/Repeat for every length up to 70 (300 thorough), rapid one-op and multi-op sequences; results compared exactly with a reference built from fresh appends, spare capacity poisoned with a sentinel, result/input disjointness checked by writing through each.",
      SEQ_NOTE, "DESIGN.md section 6, C12")
claim("C13", "pbt E2+E1 (grid enumeration + rapid)",
      "exhaustive enumeration of (n,size) grid + rapid random cases against the partition definitions",
      "Exploration: every (n,size) with n<=40,size<=45 (thorough: n<=120,size<=125) is enumerated and all six functions are compared with the definitions (piece count ceil(n/size), non-empty pieces, concatenation = input, window/pair i = s[i:i+size], Func variants see the same sequence), plus rapid cases up to n=300. The property is a pure function of (n,size), so a small exhaustive grid plus random larger sizes is the natural level.",
      SEQ_NOTE + " Element type is int (the functions are type-generic and never inspect elements).",
      "DESIGN.md section 6, C13")
claim("C14", "pbt E2+E1 (exhaustive short inputs + rapid)",
      "exhaustive enumeration of short slices x callback parameters + rapid inputs, each helper compared with a naive reference loop; input-untouched and result-is-new checked by snapshot and mutation",
      "Exploration: every sequence over 0..2 up to length 5 with every callback parameter choice, rapid slices up to length 12 (poisoned spare capacity, nil slices) and rapid maps with duplicate values; every listed helper is compared with its straightforward definition (KeyOf as a validity predicate), the full-capacity input snapshot must be unchanged, every returned slice/map is overwritten to prove it is new (Trim results must be sub-slices).",
      SEQ_NOTE + " Trim*Func follows the parameter name/non-Func behaviour (true => trimmed); one doc sentence says the opposite (upstream doc slip).",
      "DESIGN.md section 6, C14")
claim("C15", "pbt E2+E1 (exhaustive key sequences + rapid)",
      "exhaustive enumeration of short key sequences (binary keys up to length 13, beyond the insertion-sort threshold) + rapid inputs up to 60 elements with many ties; permutation+order+stability oracles, linear-scan lower bound for the searches, same-seed determinism for ShuffleRand",
      "Exploration: each sort must leave a permutation that is ordered in the promised direction; Stable variants must keep equal keys in original order (tagged elements, differential against sort.SliceStable); BinarySearch* compared with a linear-scan lower bound for every target; ShuffleRand twice with identically seeded generators must agree and consume the generator.",
      SEQ_NOTE + " NaN excluded as the statement says.", "DESIGN.md section 6, C15")
claim("C16", "pbt E2+E1 (exhaustive short histories + rapid bursts)",
      "exhaustive enumeration of all insert/remove/peek sequences up to length 10 (12 thorough) for 6 container kinds + rapid burst histories, against slice models",
      "Exploration: every sequence over {insert, remove, peek} up to length 10 on zero-value Queue and nil/empty/spare-capacity Stack, plus rapid histories of fills, drains to empty and refills up to 80 ops; after every call returned values, ok flags, Len and Peek-equals-next-removal are compared with a slice model.",
      SEQ_NOTE, "DESIGN.md section 6, C16")
claim("C20", "pbt E2+E1 (exhaustive 8/16/32-bit sweeps + boundary-dense rapid)",
      "exhaustive sweeps of all int8/uint8/int16/uint16 values, all 8-bit pairs and triples (thorough: all 2^32 int32/uint32 values) + boundary grid and rapid for wide types, against strconv/math-big/definition oracles",
      "Exploration, exhaustive where the domain is small: Abs/Digits10/DigitsSign10/Clamp01 over every 8/16-bit value (32-bit in thorough), Min/Max/Compare/Less/Sum/Product over every 8-bit pair, Clamp over every 8-bit triple; 64-bit, float, complex and string types via a boundary grid (extremes, powers of ten +-1, +-0, +-Inf, subnormals) plus rapid; utility helpers (Coal, Zero, ZeroOf, IsZero with an IsZero method, Tern, TernCast, Ref, DerefZero, IsNil) via rapid.",
      SEQ_NOTE + " 64-bit and floating-point domains are sampled, not exhausted; NaN, Abs(min signed), Clamp with lo>hi are outside the statement.",
      "DESIGN.md section 6, C20")
