# executed by gen_manifest.py: claim(pid, engine, technique, level text, level note, design ref)
SEQ_NOTE = "Trusts the Go toolchain, rapid v1.3.0's generators and the harness's reference model; verdict is exploration only (no proof)."

claim("C01", "pbt E1 (rapid model-based histories)",
      "model-based property testing: rapid-generated operation histories vs a sorted-multiset model, plus an existential one-tree oracle over the three traversals",
      "Exploration: rapid generates histories of Add/Remove/Contains/Clear/Clone/Walk over 4 element types/comparators and universes of 4..41 values (duplicates and absent values frequent); after EVERY call both the tree and its clone are compared with sorted-multiset models (in-order, Len, Contains over the universe, String, Remove's result) and pre/in/post-order must be explained by one binary tree (backtracking solver, cross-checked against brute force). Universally quantified over histories, so sampling with shrinking is the applicable level.",
      SEQ_NOTE + " Comparators are total orders consistent with == (the statement's domain).",
      "DESIGN.md section 6, C01")
claim("C02", "pbt E2+E1 (structured enumeration + rapid histories)",
      "exhaustive structured insertion/deletion orders for every n<=64 + rapid histories; AVL balance decided on the tree reconstructed from pre+in(+post) order after every operation",
      "Exploration: for every n<=64 and 6x6 structured insertion/deletion patterns (thorough: n up to 4096) and for rapid histories (distinct and duplicate values) the tree is reconstructed from its traversals after every Add/Remove and every node must satisfy |h(l)-h(r)|<=1 (with duplicates: some explaining tree is balanced); depth bound and a comparator-call bound are derived checks.",
      SEQ_NOTE + " With duplicate values the check is existential over the trees consistent with the traversals (sound, slightly weaker).",
      "DESIGN.md section 6, C02")
claim("C07", "pbt E1 (rapid model-based histories)",
      "model-based property testing: rapid histories on slices.Sorted vs a sorted-slice model, strict orders and a weak order",
      "Exploration: rapid histories of Add/Remove/RemoveAt/Index/Contains/Get/Len/String (valid and out-of-range positions, present and absent values, caller scribbling on its input slice) against a sorted-slice model; strict total orders get the full positional contract, a weak order only sortedness+multiset (any equivalent element may be removed).",
      SEQ_NOTE, "DESIGN.md section 6, C07")
claim("C08", "pbt E2+E1 (all shapes enumerated + rapid)",
      "exhaustive enumeration of all shapes up to 7x7 (12x12 thorough) with canonical scripts + rapid op lists, against a grid-of-cells model with unique cell values",
      "Exploration: every width x height in 0..7 (thorough 0..12) with all constructors and canonical scripts (every cell, the whole out-of-bounds ring, all corner orders of Fill, Row/RowSpan liveness both ways, Clone independence) plus rapid op lists; Get over the whole grid is compared with the model after every mutation so aliasing between cells is seen at once.",
      SEQ_NOTE + " RowSpan with x1>x2 is outside the stated domain and not called.", "DESIGN.md section 6, C08")
claim("C11", "pbt E2+E1 (exhaustive short histories + rapid)",
      "exhaustive enumeration of all call sequences up to length 5 (6 thorough) on a 3x3 universe + rapid histories with clones, against a pair-list model with eviction",
      "Exploration: all sequences of Add/RemoveForward/RemoveReverse/Clear up to length 5 on the zero value, and rapid histories over up to 4 live maps created by Clone; after every call every lookup in both directions, Len, Range (full and early stop) are compared with the model and with each other (mutual inverse).",
      SEQ_NOTE, "DESIGN.md section 6, C11")
claim("C12", "pbt E2+E1 (exhaustive small grid + rapid)",
      "exhaustive (len<=8, spare<=3, index) grid + rapid cases with poisoned spare capacity, against fresh-append splice references; aliasing checked by mutation",
      "Exploration: every (length, spare capacity, index[, count]) triple in the small grid for Insert/InsertSlice/Remove/RemoveSlice/Grow/Reverse/Clone/Concat, Fill/Repeat for every length up to 70 (300 thorough), rapid one-op and multi-op sequences; results compared exactly with a reference built from fresh appends, spare capacity poisoned with a sentinel, result/input disjointness checked by writing through each.",
      SEQ_NOTE, "DESIGN.md section 6, C12")
claim("C13", "pbt E2+E1 (grid enumeration + rapid)",
      "exhaustive enumeration of (n,size) grid + rapid random cases against the partition definitions",
      "Exploration: every (n,size) with n<=40,size<=45 (thorough: n<=120,size<=125), plus sizes next to MaxInt/2^62/2^32, is enumerated and all six functions are compared with the definitions (piece count ceil(n/size), non-empty pieces, concatenation = input, window/pair i = s[i:i+size], Func variants see the same sequence), plus rapid cases up to n=300. The property is a pure function of (n,size), so a small exhaustive grid plus random larger sizes is the natural level.",
      SEQ_NOTE + " Element type is int (the functions are type-generic and never inspect elements).",
      "DESIGN.md section 6, C13")
claim("C14", "pbt E2+E1 (exhaustive short inputs + rapid)",
      "exhaustive enumeration of short slices x callback parameters + rapid inputs, each helper compared with a naive reference loop; input-untouched and result-is-new checked by snapshot and mutation",
      "Exploration: every sequence over 0..2 up to length 5 with every callback parameter choice, rapid slices up to length 12 (poisoned spare capacity, nil slices) and rapid maps with duplicate values; every listed helper is compared with its straightforward definition (KeyOf as a validity predicate), the full-capacity input snapshot must be unchanged after AND during every call (each callback first checks it), every returned slice/map is overwritten to prove it is new (Trim results must be sub-slices).",
      SEQ_NOTE + " Trim*Func follows the parameter name/non-Func behaviour (true => trimmed); one doc sentence says the opposite (upstream doc slip).",
      "DESIGN.md section 6, C14")
claim("C15", "pbt E2+E1 (exhaustive key sequences + rapid)",
      "exhaustive enumeration of short key sequences (binary keys up to length 13, beyond the insertion-sort threshold) + rapid inputs up to 60 elements with many ties; permutation+order+stability oracles, linear-scan lower bound for the searches, same-seed determinism for ShuffleRand",
      "Exploration: each sort must leave a permutation that is ordered in the promised direction; Stable variants must keep equal keys in original order (tagged elements, differential against sort.SliceStable); BinarySearch* compared with a linear-scan lower bound for every target; ShuffleRand twice with identically seeded generators must agree and consume the generator.",
      SEQ_NOTE + " NaN excluded as the statement says.", "DESIGN.md section 6, C15")
claim("C16", "pbt E2+E1 (exhaustive short histories + rapid bursts)",
      "exhaustive enumeration of all insert/remove/peek sequences up to length 10 (12 thorough) for 6 container kinds + rapid burst histories, against slice models",
      "Exploration: every sequence over {insert, remove, peek} up to length 10 on zero-value Queue and nil/empty/spare-capacity Stack, plus rapid histories of fills, drains to empty and refills up to 80 ops; after every call returned values, ok flags, Len and Peek-equals-next-removal are compared with a slice model.",
      SEQ_NOTE, "DESIGN.md section 6, C16")
claim("C20", "pbt E2+E1 (exhaustive 8/16/32-bit sweeps + boundary-dense rapid)",
      "exhaustive sweeps of all int8/uint8/int16/uint16 values, all 8-bit pairs and triples (thorough: all 2^32 int32/uint32 values) + boundary grid and rapid for wide types, against strconv/math-big/definition oracles",
      "Exploration, exhaustive where the domain is small: Abs/Digits10/DigitsSign10/Clamp01 over every 8/16-bit value (32-bit in thorough), Min/Max/Compare/Less/Sum/Product over every 8-bit pair, Clamp over every 8-bit triple; 64-bit, float, complex and string types via a boundary grid (extremes, powers of ten +-1, +-0, +-Inf, subnormals) plus rapid; utility helpers (Coal, Zero, ZeroOf, IsZero with an IsZero method, Tern, TernCast, Ref, DerefZero, IsNil) via rapid.",
      SEQ_NOTE + " 64-bit and floating-point domains are sampled, not exhausted; NaN, Abs(min signed), Clamp with lo>hi are outside the statement.",
      "DESIGN.md section 6, C20")

CONC_NOTE = "Trusts the Go toolchain/runtime (atomics are sequentially consistent; race detector = happens-before on the schedules that occurred), rapid v1.3.0, the harness's Wing-Gong linearizability checker (cross-checked against porcupine v1.3.0 in its unit test) and the build-tag-guarded hooks in sync2 (add-only; without -tags verif the package is unchanged)."

claim("C03", "pbt E2+E1 (exhaustive subset pairs x build recipes + rapid)",
      "exhaustive enumeration of all ordered pairs of subsets of a 3-element universe (4 thorough) x 7 construction recipes (internal layouts of the concurrent set) x 7 operations + rapid histories, against a bit-set membership model; detachment checked by mutation",
      "Exploration: both Set implementations in all four pairings (and self-aliasing); every operation's result, return value and both operands are compared with a membership model; construction histories drive sync2.Map's read/dirty/nil/expunged/promoted layouts (recorded in the histogram); results are mutated to prove they share no state with the operands.",
      SEQ_NOTE, "DESIGN.md section 6, C03")
claim("C04", "pbt E1 + E3 controlled scheduler + E4 -race stress",
      "model-based rapid op lists (sequential) + generated schedules driving the real code hook by hook (controlled scheduler) + free-running goroutines under the race detector; verdict by per-key linearizability checking of the recorded history and a three-clause Range rule",
      "Exploration of histories AND schedules: the interleaving of sync2.Map's atomic steps is a generated, shrinkable input (E3: 2-4 threads x 1-3 ops over 1-3 keys, setup histories that reach amended/nil/expunged/promoted layouts, <=90 scheduling choices; plus, for a catalogue of small programs, ALL schedules with at most 2 (thorough 3) non-default choices by stateless re-execution); every recorded history incl. a quiescent postlude must be linearizable per key (exact: linearizability is compositional over keys), Range obeys exactly the three listed clauses; E4 repeats the programs free-running under -race (any DATA RACE report is a violation). Not exhaustive over schedules.",
      CONC_NOTE + " E3 explores sequentially-consistent interleavings at hook granularity; Go map iteration order inside dirtyLocked/Range is not controlled (verdicts are computed on the history that actually ran; replay retries).",
      "DESIGN.md section 6, C04")
claim("C05", "pbt E3 controlled scheduler + E4 -race stress",
      "generated schedules (controlled scheduler) and free-running -race repetitions of Set programs; verdict by per-value linearizability against a boolean register with existential outcome assignment for AddSet/RemoveSet/Len counts",
      "Exploration of schedules: Add/Remove/Has/AddSet/RemoveSet/Len programs of 2-4 threads over 1-3 values with generated interleavings, plus bounded-exhaustive enumeration (<=2, thorough <=3 non-default choices) of all schedules of a program catalogue; 'successful Adds and Removes alternate starting with an Add, consistently with real time' is exactly per-value linearizability to a boolean register, checked incl. a quiescent postlude (final membership); bulk counts must equal the successes of SOME linearizable per-element assignment.",
      CONC_NOTE, "DESIGN.md section 6, C05")
claim("C06", "pbt E1 (lock-step differential vs container/list, container/ring)",
      "differential testing: rapid operation sequences applied in lock step to lists.List/Ring and the standard library's container/list, container/ring; return values, lengths, capped traversals and every handle's neighbours compared after every operation",
      "Exploration: 2-3 lists with handle tables (live, removed, foreign, other-list handles; self PushBackList/PushFrontList; zero-value lists) and ring handle tables (nil and zero-value rings, any Link pair, Unlink/Move with any count); one-sided panics are violations, non-terminating structures are caught by step caps / the divergence watchdog.",
      SEQ_NOTE + " Handles orphaned by Init() of a non-empty list make BOTH implementations misbehave and are excluded by construction (counted).",
      "DESIGN.md section 6, C06")
claim("C09", "pbt E3 controlled scheduler + E4 -race stress",
      "generated section programs and schedules on KeyedMutex/KeyedRWMutex under the controlled scheduler with a per-key phase book (exclusion, Try* semantics, cross-key independence via blocked-thread analysis) + free-running -race stress with plain per-key counters",
      "Exploration of schedules: 2-4 threads x nested Lock/TryLock/RLock/TryRLock sections on 1-3 never-seen keys (programs cannot deadlock on a correct implementation by construction), <=120 scheduling choices, plus bounded-exhaustive enumeration of all schedules with <=2 (thorough <=3) non-default choices of a section-program catalogue; never two incompatible holders; Try* false only with an incompatible section present during the call; a thread found blocked at a key-lock hook needs an incompatible holder of THAT key; Try* never blocked in sync.*; no deadlock/panic/fatal error; E4: plain counters under -race + occupancy asserts.",
      CONC_NOTE + " A waiting RWMutex writer is parked before calling Lock in E3, so writer preference inside sync.RWMutex is exercised by E4 only. ClearKey only in quiescence, as the statement restricts.",
      "DESIGN.md section 6, C09")
claim("C10", "pbt E5 (scenario scripts with harness-controlled receivers; crash-prone class in child processes)",
      "rapid-generated scripts of publish/subscribe/unsubscribe steps with drain/gated/never receivers, persistent WithOnly clones and a background goroutine subscribing/unsubscribing concurrently; conservation (exactly-once), order, return-after-hand-off (goroutine-state classifier, no timers as verdicts), timeout accounting, Unsub/WithOnly semantics; known crash class isolated in child processes",
      "Exploration: scripts over all six publish variants, Sub/SubBuf, Unsub (known/removed/foreign/nil), UnsubAll, WithOnly, three timeout configs; each channel's receiver log is compared with what was published to it while subscribed (exactly once, nothing else, Sync order); Wait/Sync returns are checked against buffers / observed blocked until the harness opens a gate; 'lost' is declared only when no PubSub goroutine is in flight. Subscriptions made concurrently by a background goroutine are judged by invocation/response stamps (must / may / must not receive). The two known findings (Unsub vs in-flight asynchronous send; publish through a WithOnly clone whose channel the original has closed - both 'send on closed channel') are excluded by construction from the main search (counted) and re-demonstrated in child processes on every run; any other process death is a violation.",
      "Trusts Go channels/timers (not controlled: async sends are awaited, not scheduled), the goroutine-state parser, and that the harness's own goroutines are leak-free between cases. Liveness ('eventually') is only decided in the negative when nothing is in flight.",
      "DESIGN.md section 6, C10")
claim("C17", "pbt E4 (free-running under -race with a harness gate inside the action)",
      "rapid scenarios of concurrent and late Do callers with per-caller functions held open by a harness gate; exactly-one-invocation, shared results, no return before completion, visibility via a plain flag under the race detector",
      "Exploration: Once1/2/3 x 1-8 early callers x 0-4 late callers x GOMAXPROCS/stagger (one case in six with panicking actions: still exactly one invocation); while the harness keeps the action's gate closed no Do may have returned and no second function may have started (sound: asserted only on observation); afterwards all callers hold the invoked function's values and read a plain completion flag (race detector proves the happens-before edge).",
      "sync.Once's internals are not instrumented: windows inside a single call are reached by free-running repetition only. " + CONC_NOTE,
      "DESIGN.md section 6, C17")
claim("C18", "pbt E1 + E4 -race stress",
      "sequential register model (rapid op lists) + linearizability checking of free-running -race histories for AtomicValue; ownership tokens with CAS marks and plain fields under -race for Pool",
      "Exploration: AtomicValue[T] for int/string/struct against the register model sequentially, and 2-6 goroutines x 1-4 ops x 60 repetitions checked for linearizability (torn/invented values impossible codes); Pool: each Get must CAS the token's owner mark 0->1 (double hand-out fails), plain writes while held, any race report is a violation. This check found a genuine defect (CompareAndSwap failing while current == old), fixed in /repo.",
      "stdlib wrappers are not instrumented: windows inside one call are reached by repetition only. " + CONC_NOTE,
      "DESIGN.md section 6, C18")
claim("C19", "pbt E2 + E5 (exhaustive queued grid + timed scenarios with gates)",
      "exhaustive enumeration of capacity x fill x closed x limit (x spare buffer capacity) for RecvQueued/RecvQueuedFull, concurrent drainers on one channel + rapid scenarios of the timed/context helpers with none/gated/racing peers; conservation oracle on the far side of the channel; blocking established from goroutine state",
      "Exploration, exhaustive for the queued helpers on the small grid: results must be exactly the first min(fill,limit) queued values, the rest still queued, no zero padding after close, never blocking. Timed helpers: true <=> the value is found exactly once on the far side, false <=> not found / nothing consumed; forced outcomes in asymmetric classes; 'must wait' asserted only while the harness itself withholds the peer; either outcome where operation and limit can both be ready.",
      "Trusts Go channels/timers and the goroutine-state parser; racing classes accept either outcome and only check conservation.",
      "DESIGN.md section 6, C19")
