#!/usr/bin/env python3
"""mkmut.py <id> <property> <file> <what>   (old and new text on stdin separated by a line '=====')
Creates /verif/seeded/<id>/{patch.diff,meta.json} from a textual replacement applied in a scratch worktree."""
import sys, subprocess, os, json, tempfile, shutil
mid, prop, path, what = sys.argv[1:5]
old, new = sys.stdin.read().split("\n=====\n")
old = old.rstrip("\n"); new = new.rstrip("\n")
wt = tempfile.mkdtemp(prefix="mk.", dir="/tmp")
subprocess.check_call(["git", "-C", "/repo", "worktree", "add", "-q", "--detach", wt, "HEAD"], stdout=subprocess.DEVNULL, stderr=subprocess.DEVNULL)
try:
    f = os.path.join(wt, path)
    s = open(f).read()
    assert s.count(old) == 1, f"old text occurs {s.count(old)} times"
    open(f, "w").write(s.replace(old, new))
    env = dict(os.environ, GOFLAGS="-mod=mod", GOPROXY="off", GOSUMDB="off", GOTOOLCHAIN="local")
    b = subprocess.run(["go", "build", "./..."], cwd=wt, env=env, capture_output=True, text=True)
    if b.returncode != 0:
        print("DOES NOT COMPILE:\n", b.stderr); sys.exit(1)
    t = subprocess.run(["go", "test", "-vet=off", "-count=1", "./..."], cwd=wt, env=env, capture_output=True, text=True)
    passes = t.returncode == 0
    d = f"/verif/seeded/{mid}"
    os.makedirs(d, exist_ok=True)
    diff = subprocess.run(["git", "-C", wt, "diff"], capture_output=True, text=True).stdout
    open(f"{d}/patch.diff", "w").write(diff)
    json.dump({"id": mid, "property": prop, "what": what, "origin": "own mutant (written by the harness author from DESIGN.md's M list)",
               "compiles": True, "passes_existing_tests": passes}, open(f"{d}/meta.json", "w"), indent=1)
    print(mid, "created; existing tests pass:", passes)
    if not passes:
        print(t.stdout[-800:])
finally:
    subprocess.call(["git", "-C", "/repo", "worktree", "remove", "--force", wt])
    shutil.rmtree(wt, ignore_errors=True)
