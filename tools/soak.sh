#!/bin/sh
# tools/soak.sh <tier> <seed>... : runs every check at the given seeds, prints only what is not OK (soundness soak on the unchanged tree)
tier=$1; shift
bad=0
for s in "$@"; do
  for p in $(ls /verif/harness/props | tr a-z A-Z); do
    out=$(VERIF_SEED=$s /verif/check $p $tier 2>&1); rc=$?
    if [ $rc -ne 0 ]; then bad=$((bad+1)); echo "seed=$s $p rc=$rc"; echo "$out" | grep -E "^VIOLATION|unit=|INCONCL" | cut -c1-400 | head -6; fi
  done
  echo "seed $s done ($bad not-OK so far)"
done
# restore evidence to the canonical seed-0 quick run is the caller's business
