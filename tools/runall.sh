#!/bin/sh
# tools/runall.sh [quick|thorough] [props...] : runs the checks one after another, prints one line each
tier=${1:-quick}; shift
props="$@"; [ -z "$props" ] && props=$(ls /verif/harness/props | tr a-z A-Z)
for p in $props; do
  out=$(/verif/check $p $tier 2>&1); rc=$?
  echo "$p rc=$rc $(echo "$out" | tail -1 | cut -c1-200)"
done
