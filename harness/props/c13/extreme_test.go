package c13

import (
	"fmt"
	"runtime"
	"runtime/debug"
	"sync"
	"syscall"
	"time"
	"unsafe"

	"gopkg.in/typ.v4/slices"
	"verifharness/internal/pbt"
)

// ---------------------------------------------------------------- GOMAXPROCS flipping (Case.Flip)

// startFlipper starts a goroutine that sets runtime.GOMAXPROCS to 2 and 7 in turn until the returned function is
// called (which restores the process's value). Process-wide: only for units without parallel copies.
func startFlipper() (stop func()) {
	quit, done := make(chan struct{}), make(chan struct{})
	go func() {
		defer close(done)
		for i := 0; ; i++ {
			select {
			case <-quit:
				return
			default:
			}
			runtime.GOMAXPROCS(2 + 5*(i%2))
			time.Sleep(20 * time.Microsecond)
		}
	}()
	return func() {
		close(quit)
		<-done
		runtime.GOMAXPROCS(procs0)
	}
}

// ---------------------------------------------------------------- mode "guard"
//
// The backing array of the input lies in memory mapped by the harness, between two pages without any access rights:
// with Place "end" its last element ends exactly where readable memory ends, with "start" its first element starts
// exactly where readable memory starts. A function that touches an element outside the backing array dies with a
// memory fault (turned into a panic by debug.SetPanicOnFault and reported). Elements without pointers only (the
// garbage collector does not look into such memory).

// guarded maps ceil(bytes/page) readable and writable pages (at least one) with an inaccessible page on either side.
func guarded(bytes uintptr) (data []byte, unmap func(), err error) {
	ps := uintptr(syscall.Getpagesize())
	pages := (bytes + ps - 1) / ps
	if pages == 0 {
		pages = 1
	}
	mem, err := syscall.Mmap(-1, 0, int((pages+2)*ps), syscall.PROT_READ|syscall.PROT_WRITE, syscall.MAP_ANON|syscall.MAP_PRIVATE)
	if err != nil {
		return nil, nil, err
	}
	if err = syscall.Mprotect(mem[:ps], syscall.PROT_NONE); err == nil {
		err = syscall.Mprotect(mem[(pages+1)*ps:], syscall.PROT_NONE)
	}
	if err != nil {
		syscall.Munmap(mem)
		return nil, nil, err
	}
	return mem[ps : (pages+1)*ps : (pages+1)*ps], func() { syscall.Munmap(mem) }, nil
}

func runGuard[S ~[]E, E any](k *kind[E], c Case, front, spare int, out *pbt.Outcome) (m string, evals int) {
	n, size := c.N, c.Size
	var z E
	es := unsafe.Sizeof(z)
	if k.zst || !k.raw {
		out.Skipped, out.NonTrivial = true, false
		out.Labels = append(out.Labels, "guard-mode-needs-pointer-free-real-elements")
		return "", 0
	}
	total := front + n + spare
	bytes := uintptr(total) * es
	data, unmap, err := guarded(bytes)
	if err != nil {
		out.Skipped, out.NonTrivial = true, false
		out.Labels = append(out.Labels, "mmap-failed")
		return "", 0
	}
	defer unmap()
	at := uintptr(0) // Place "start"
	place := "start"
	if c.Place != "start" {
		at, place = uintptr(len(data))-bytes, "end"
	}
	back := S(unsafe.Slice((*E)(unsafe.Pointer(unsafe.SliceData(data[at:at:len(data)]))), total))
	const off = 29
	for i := range back {
		back[i] = k.mk(i + off)
	}
	e := formulaEnv[S](k, off)
	s := back[front : front+n : total]
	lo, hi := uintptr(unsafe.Pointer(unsafe.SliceData(data)))+at, uintptr(unsafe.Pointer(unsafe.SliceData(data)))+at+bytes
	ctx := fmt.Sprintf("input in mapped memory, backing array of %d bytes placed at the %s of the readable pages (the pages in front of and behind them are inaccessible): ", bytes, place)
	defer debug.SetPanicOnFault(debug.SetPanicOnFault(true))
	func() {
		defer func() {
			if p := recover(); p != nil {
				if _, ok := p.(abortSentinel); ok {
					panic(p)
				}
				if fa, ok := p.(interface{ Addr() uintptr }); ok {
					a := fa.Addr()
					switch {
					case a >= hi:
						m = fmt.Sprintf("%smemory fault: the call touched memory %d bytes behind the end of the backing array (n=%d,size=%d)", ctx, a-hi, n, size)
					case a < lo:
						m = fmt.Sprintf("%smemory fault: the call touched memory %d bytes in front of the backing array (n=%d,size=%d)", ctx, lo-a, n, size)
					default:
						m = fmt.Sprintf("%smemory fault inside the backing array at byte %d (n=%d,size=%d)", ctx, a-lo, n, size)
					}
					return
				}
				m = fmt.Sprintf("%spanic: %v (n=%d,size=%d)", ctx, p, n, size)
			}
		}()
		var skipped []string
		m, skipped = e.some(c.Fn, ctx, s, front, size)
		out.Labels = append(out.Labels, skipped...)
		if m == "" {
			m = e.err
		}
		if m == "" {
			m = e.unchanged(back)
		}
	}()
	out.Labels = append(out.Labels, "mapped-memory:"+place)
	if bytes > 0 && bytes%uintptr(syscall.Getpagesize()) == 0 {
		out.Labels = append(out.Labels, "mapped-memory:fills-its-pages-exactly")
	}
	out.NonTrivial = m == "" && n >= 2 && (place == "end" && spare == 0 || place == "start" && front == 0)
	return m, e.evals
}

// ---------------------------------------------------------------- mode "local"
//
// The backing array of the input is a LOCAL fixed-size array (or a constant-size make) of the calling function, so
// the compiler may keep it on the goroutine stack if the callee does not let its argument escape. The pieces are
// kept (a) beyond the frame of that function, whose stack memory is then overwritten by other calls, (b) across a
// move of the goroutine stack (forced by a deep recursion) in a fresh goroutine, followed by other goroutines that
// grow through the same stack sizes and overwrite their stacks, and a garbage collection. The pieces must still hold
// the elements of the input (compared by value with the formula the input was made from).

// localCalls: the four functions whose pieces alias the input; fr and fw are the pieces the callbacks were given.
//
//go:noinline
func localCalls[S ~[]E, E any](s S, size int) (r, w, fr, fw []S) {
	r, w = slices.Chunk(s, size), slices.Windowed(s, size)
	slices.ChunkFunc(s, size, func(p S) { fr = append(fr, p) })
	slices.WindowedFunc(s, size, func(p S) { fw = append(fw, p) })
	return
}

type localMid[S any] func(r, w, fr, fw []S)

//go:noinline
func local8[S ~[]E, E any](k *kind[E], off, lo, hi, size int, mid localMid[S]) (r, w, fr, fw []S) {
	var arr [8]E
	for i := range arr {
		arr[i] = k.mk(i + off)
	}
	r, w, fr, fw = localCalls(S(arr[lo:hi]), size)
	if mid != nil {
		mid(r, w, fr, fw)
	}
	return
}

//go:noinline
func local64[S ~[]E, E any](k *kind[E], off, lo, hi, size int, mid localMid[S]) (r, w, fr, fw []S) {
	var arr [64]E
	for i := range arr {
		arr[i] = k.mk(i + off)
	}
	r, w, fr, fw = localCalls(S(arr[lo:hi]), size)
	if mid != nil {
		mid(r, w, fr, fw)
	}
	return
}

//go:noinline
func local1024[S ~[]E, E any](k *kind[E], off, lo, hi, size int, mid localMid[S]) (r, w, fr, fw []S) {
	var arr [1024]E
	for i := range arr {
		arr[i] = k.mk(i + off)
	}
	r, w, fr, fw = localCalls(S(arr[lo:hi]), size)
	if mid != nil {
		mid(r, w, fr, fw)
	}
	return
}

// localMake48: a make with a constant size instead of an array variable.
//
//go:noinline
func localMake48[S ~[]E, E any](k *kind[E], off, lo, hi, size int, mid localMid[S]) (r, w, fr, fw []S) {
	arr := make(S, 48)
	for i := range arr {
		arr[i] = k.mk(i + off)
	}
	r, w, fr, fw = localCalls(arr[lo:hi], size)
	if mid != nil {
		mid(r, w, fr, fw)
	}
	return
}

// scribbleWith is what scribble writes (never changed: a value the compiler cannot know).
var scribbleWith uint64

// scribble overwrites depth*4 KiB of the goroutine stack below the caller's frame with zeroes.
//
//go:noinline
func scribble(depth int) uint64 {
	var pad [508]uint64
	for i := range pad {
		pad[i] = scribbleWith
	}
	if depth > 0 {
		return scribble(depth-1) + pad[depth%len(pad)]
	}
	return pad[3]
}

func runLocal[S ~[]E, E any](k *kind[E], c Case, front, spare int, out *pbt.Outcome) (string, int) {
	n, size := c.N, c.Size
	total := front + n + spare
	var z E
	es := int(unsafe.Sizeof(z))
	if k.zst || total > 1024 || total*es > 160<<10 {
		out.Skipped, out.NonTrivial = true, false
		out.Labels = append(out.Labels, "outside-domain")
		return "", 0
	}
	fn, L, how := local1024[S, E], 1024, "a local array [1024]E"
	switch {
	case c.Var&2 != 0 && total <= 48:
		fn, L, how = localMake48[S, E], 48, "a make(S, 48) local to the caller"
	case total <= 8:
		fn, L, how = local8[S, E], 8, "a local array [8]E"
	case total <= 64:
		fn, L, how = local64[S, E], 64, "a local array [64]E"
	}
	if L*es > 160<<10 {
		out.Skipped, out.NonTrivial = true, false
		out.Labels = append(out.Labels, "outside-domain")
		return "", 0
	}
	// reading a piece that is not part of the input may find anything: faults must end as panics
	defer debug.SetPanicOnFault(debug.SetPanicOnFault(true))
	const off = 41
	e := formulaEnv[S](k, off)
	check := func(when string, r, w, fr, fw []S) string {
		ctx := fmt.Sprintf("input = elements %d..%d of %s, pieces looked at %s: ", front, front+n, how, when)
		if m := e.checkChunks(ctx+"Chunk", front, n, size, r); m != "" {
			return m
		}
		if m := e.checkWindows(ctx+"Windowed", front, n, size, w); m != "" {
			return m
		}
		if m := e.checkChunks(ctx+"pieces kept by the callback of ChunkFunc", front, n, size, fr); m != "" {
			return m
		}
		return e.checkWindows(ctx+"pieces kept by the callback of WindowedFunc", front, n, size, fw)
	}
	doGC := (c.N+c.Size+c.Front+c.Var)%3 == 0 // one case in three also runs a garbage collection
	depth := (L*es)>>12 + 8                   // scribble depth that covers the frame of the function with the array and its callees
	var m string
	if c.Var&1 == 0 {
		out.Labels = append(out.Labels, "pieces-kept-beyond-the-frame")
		scribble(2*depth + 16) // the stack has its final size before the call
		r, w, fr, fw := fn(k, off, front, front+n, size, nil)
		scribble(depth)
		m = check("after the function that owned the array returned and other calls used the stack", r, w, fr, fw)
		if m == "" && doGC {
			runtime.GC()
			scribble(depth)
			m = check("after the function that owned the array returned, other calls used the stack and a garbage collection ran", r, w, fr, fw)
		}
	} else {
		out.Labels = append(out.Labels, "pieces-kept-across-stack-growth")
		done := make(chan string, 1)
		go func() { // a fresh goroutine: a small stack to start with
			res := ""
			defer func() {
				if p := recover(); p != nil {
					res = fmt.Sprintf("input in %s, pieces kept across a growth of the goroutine stack: panic: %v", how, p)
				}
				done <- res
			}()
			defer debug.SetPanicOnFault(debug.SetPanicOnFault(true))
			fn(k, off, front, front+n, size, func(r, w, fr, fw []S) {
				if res = check("right after the calls", r, w, fr, fw); res != "" {
					return
				}
				scribble(4*depth + 64) // the stack has to grow: it is moved
				// other goroutines grow through the same stack sizes and overwrite what they get
				var wg sync.WaitGroup
				for g := 0; g < 3; g++ {
					wg.Add(1)
					go func() { defer wg.Done(); scribble(4*depth + 64) }()
					wg.Wait()
				}
				if res = check("after the goroutine stack of the caller grew (a deep recursion) and other goroutines ran", r, w, fr, fw); res != "" {
					return
				}
				if !doGC {
					return
				}
				runtime.GC()
				res = check("after the goroutine stack of the caller grew (a deep recursion), other goroutines ran and a garbage collection ran", r, w, fr, fw)
			})
		}()
		m = <-done
	}
	out.NonTrivial = m == "" && n >= 1
	out.Labels = append(out.Labels, fmt.Sprintf("local-backing:%d", L))
	return m, e.evals
}

// ---------------------------------------------------------------- steppers: histories over several live slices
//
// A stepper is one live slice of one element type with its expected content; histories (modes "gap", "sleep",
// "twins") alternate between several of them, also between slices of different element types.

type stepper interface {
	call(fn, ctx string, size int) string // the functions selected by fn (see env.some), checked in full
	keep(size int)                        // Chunk, Windowed and Pairs results are kept
	recheck(ctx string) string            // the kept results are still the pieces of the input
	end() (string, int)                   // input unchanged; number of evaluations
}

type typedStepper[S ~[]E, E any] struct {
	e     *env[S, E]
	back  S
	s     S
	base  int
	ksize int
	r, w  []S
	p     [][2]E
	kept  bool
}

func newStepper[S ~[]E, E any](k *kind[E], front, n, spare, off int) stepper {
	e, back := newEnv[S](k, front+n+spare, off)
	return &typedStepper[S, E]{e: e, back: back, s: back[front : front+n], base: front}
}

func (t *typedStepper[S, E]) call(fn, ctx string, size int) string {
	m, _ := t.e.some(fn, ctx, t.s, t.base, size)
	if m == "" {
		m = t.e.err
	}
	return m
}

func (t *typedStepper[S, E]) keep(size int) {
	t.ksize, t.kept = size, true
	t.r, t.w, t.p = slices.Chunk(t.s, size), slices.Windowed(t.s, size), slices.Pairs(t.s)
}

func (t *typedStepper[S, E]) recheck(ctx string) string {
	if !t.kept {
		return ""
	}
	n := len(t.s)
	if m := t.e.checkChunks(ctx+"Chunk", t.base, n, t.ksize, t.r); m != "" {
		return m
	}
	if m := t.e.checkWindows(ctx+"Windowed", t.base, n, t.ksize, t.w); m != "" {
		return m
	}
	return t.e.checkPairs(ctx+"Pairs", t.base, n, t.p)
}

func (t *typedStepper[S, E]) end() (string, int) {
	if t.e.err != "" {
		return t.e.err, t.e.evals
	}
	return t.e.unchanged(t.back), t.e.evals
}

// Three different types that are all called "job" (function-local types: the same printed name c13.job), one of
// them of size zero, and their slice types, also called "jobs".

func jobStepperA(front, n, spare, off int) stepper {
	type job struct{ id int }
	type jobs []job
	k := &kind[job]{name: "job(a)", mk: func(i int) job { return job{i} }, same: func(a, b job) bool { return a == b },
		show: func(j job) string { return fmt.Sprintf("job{%d}", j.id) }}
	return newStepper[jobs](k, front, n, spare, off)
}

func jobStepperB(front, n, spare, off int) stepper {
	type job struct {
		tag string
		id  int32
		w   [2]uint64
	}
	type jobs []job
	k := &kind[job]{name: "job(b)", mk: func(i int) job { return job{"j" + fmt.Sprint(i%10), int32(i), [2]uint64{uint64(i) * 3, ^uint64(i)}} },
		same: func(a, b job) bool { return a == b }, show: func(j job) string { return fmt.Sprintf("job{%q,%d}", j.tag, j.id) }}
	return newStepper[jobs](k, front, n, spare, off)
}

func jobStepperC(front, n, spare, off int) stepper {
	type job struct{ id uint8 }
	k := &kind[job]{name: "job(c)", mk: func(i int) job { return job{uint8(i*5 + 1)} }, same: func(a, b job) bool { return a == b },
		show: func(j job) string { return fmt.Sprintf("job{%d}", j.id) }}
	return newStepper[[]job](k, front, n, spare, off)
}

func jobStepperZ(front, n, spare, off int) stepper {
	type job struct{}
	k := &kind[job]{name: "job(z)", zst: true, mk: zero[job], same: always[job]}
	return newStepper[[]job](k, front, n, spare, off)
}

var jobSteppers = []func(front, n, spare, off int) stepper{jobStepperA, jobStepperB, jobStepperC, jobStepperZ}

var singleFns = []struct{ letter, name string }{{"C", "Chunk"}, {"x", "ChunkFunc"}, {"W", "Windowed"}, {"y", "WindowedFunc"}, {"P", "Pairs"}, {"z", "PairsFunc"}}

// runHistory: modes "gap", "sleep", "twins".
func runHistory[S ~[]E, E any](k *kind[E], c Case, front, spare int, out *pbt.Outcome) (m string, evals int) {
	n, size := c.N, c.Size
	if n > 4096 || front+spare > 64 || c.Reps > 1<<20 || c.Sleep > 20000 {
		out.Skipped, out.NonTrivial = true, false
		out.Labels = append(out.Labels, "outside-domain")
		return "", 0
	}
	a := newStepper[S](k, front, n, spare, 0)
	all := []stepper{a}
	defer func() {
		for _, st := range all {
			m2, ev := st.end()
			evals += ev
			if m == "" {
				m = m2
			}
		}
	}()
	switch c.Mode {
	case "gap":
		// other data: slices of other lengths (own backing arrays), of the same and of other element types
		var others []stepper
		for j := 0; j < 5; j++ {
			others = append(others, newStepper[S](k, j%2, (n+1+j*3)%23, j%3, 100*(j+1)))
		}
		for j, mk := range jobSteppers {
			others = append(others, mk(j%2, (n+2+j)%9, 1, 50*j))
		}
		all = append(all, others...)
		gap := c.Reps
		for _, f := range singleFns {
			if m = a.call(f.letter, "", size); m != "" {
				return
			}
			a.keep(size)
			for g := 0; g < gap; g++ {
				if m = others[g%len(others)].call(f.letter, "other data: ", 1+(size+g)%5); m != "" {
					m = fmt.Sprintf("call %d of %d %s calls on other data between two calls on the same slice: %s", g, gap, f.name, m)
					return
				}
			}
			ctx := fmt.Sprintf("after %d calls of %s on other data (slices of other lengths and element types) since the previous call on this slice: ", gap, f.name)
			if m = a.call(f.letter, ctx, size); m != "" {
				return
			}
			if m = a.recheck(ctx + "results kept from before: "); m != "" {
				return
			}
		}
		out.NonTrivial = gap >= 200
		out.Labels = append(out.Labels, fmt.Sprintf("gap:%d", gap))
	case "sleep":
		b := newStepper[S](k, 1, n+3, 2, 700)
		j := jobSteppers[n%len(jobSteppers)](0, n+1, 1, 30)
		all = append(all, b, j)
		d := time.Duration(c.Sleep) * time.Millisecond
		for round := 0; round < max(1, c.Var); round++ {
			for _, st := range all {
				if m = st.call("", "", size); m != "" {
					return
				}
				st.keep(size)
			}
			time.Sleep(d)
			ctx := fmt.Sprintf("%v of wall-clock time after the previous calls (round %d): ", d, round)
			for _, st := range all {
				if m = st.recheck(ctx + "results kept from before: "); m != "" {
					return
				}
				if m = st.call("", ctx, size); m != "" {
					return
				}
				if m = st.call("", ctx, size+1); m != "" {
					return
				}
			}
		}
		out.NonTrivial = c.Sleep >= 2000
		out.Labels = append(out.Labels, fmt.Sprintf("sleep:%dms", c.Sleep))
	case "twins":
		// slices of several types that are all called "job", used alternately
		var js []stepper
		for j, mk := range jobSteppers {
			js = append(js, mk((front+j)%3, n+j%2, (spare+j)%2, 10*j))
		}
		all = append(all, js...)
		for round := 0; round < 3; round++ {
			sz := size + round%2
			for i, st := range all {
				ctx := fmt.Sprintf("slices of four different element types called job used alternately, round %d, slice %d: ", round, i)
				if m = st.recheck(ctx + "results kept from the round before: "); m != "" {
					return
				}
				if m = st.call("", ctx, sz); m != "" {
					return
				}
				st.keep(sz)
			}
		}
		out.NonTrivial = n >= 1
		out.Labels = append(out.Labels, "types-with-the-same-name")
	}
	return
}

// ---------------------------------------------------------------- mode "kept"
//
// Results of moderate and large size are kept while the same functions run on a second slice of the same length,
// and checked afterwards (a result must not live in memory that the next call uses again).

func runKept[S ~[]E, E any](e *env[S, E], s S, base int, c Case, out *pbt.Outcome) string {
	n, size := len(s), c.Size
	if e.k.zst && max(chunkCount(n, size), windowCount(n, size), pairCount(n)) > zstLimit {
		out.Skipped, out.NonTrivial = true, false
		return ""
	}
	r1, w1, p1 := slices.Chunk(s, size), slices.Windowed(s, size), slices.Pairs(s)
	e2, back2 := newEnv[S](e.k, n+2, 5000)
	t := back2[1 : n+1]
	r2, w2, p2 := slices.Chunk(t, size), slices.Windowed(t, size), slices.Pairs(t)
	ctx := "result kept while the same function ran on a second slice of the same length: "
	if m := e.checkChunks(ctx+"Chunk", base, n, size, r1); m != "" {
		return m
	}
	if m := e.checkWindows(ctx+"Windowed", base, n, size, w1); m != "" {
		return m
	}
	if m := e.checkPairs(ctx+"Pairs", base, n, p1); m != "" {
		return m
	}
	if m := e2.checkChunks("second slice: Chunk", 1, n, size, r2); m != "" {
		return m
	}
	if m := e2.checkWindows("second slice: Windowed", 1, n, size, w2); m != "" {
		return m
	}
	if m := e2.checkPairs("second slice: Pairs", 1, n, p2); m != "" {
		return m
	}
	e.evals += e2.evals
	out.NonTrivial = n >= 30
	out.Labels = append(out.Labels, "kept-across-a-call-on-a-second-slice")
	return e2.unchanged(back2)
}
