package c13

import (
	"fmt"
	"runtime"
	"runtime/debug"
	"unsafe"

	"gopkg.in/typ.v4/slices"
	"verifharness/internal/pbt"
)

// idx reduces a raw callback index modulo the number of callbacks (negative: counted from the end).
func idx(at, count int) int {
	if count <= 0 {
		return -1
	}
	at %= count
	if at < 0 {
		at += count
	}
	return at
}

// ---------------------------------------------------------------- mode "gc"
//
// The input exists only inside the call expression (nothing of the harness refers to it, the oracle recomputes
// the expected elements from the formula), and one callback runs a garbage collection followed by allocations of
// exactly the input's size filled with other values. The statement does not depend on who else refers to the
// input: all later pieces must still be the parts of the input.

// garbageOff: the filler allocations hold the elements made for positions from here on.
const garbageOff = 1<<30 + 12345

//go:noinline
func buildTemp[S ~[]E, E any](k *kind[E], front, n, spare, off int) S {
	back := fill[S](k, front+n+spare, off)
	return back[front : front+n : front+n+spare]
}

//go:noinline
func churn[S ~[]E, E any](k *kind[E], total, count int) []S {
	runtime.GC()
	keep := make([]S, 0, count)
	for j := 0; j < count; j++ {
		keep = append(keep, fill[S](k, total, garbageOff+j*7919))
	}
	return keep
}

func gcAllocs[E any](total, v int) int {
	if v > 0 {
		return min(v, 4096)
	}
	var z E
	bytes := uintptr(total) * unsafe.Sizeof(z)
	switch {
	case bytes <= 1<<10:
		return 256
	case bytes <= 32<<10:
		return 64
	case bytes <= 1<<20:
		return 8
	}
	return 3
}

func runGC[S ~[]E, E any](k *kind[E], c Case, front, spare int, out *pbt.Outcome) (string, int) {
	n, size := c.N, c.Size
	if k.zst {
		out.Skipped, out.NonTrivial = true, false
		out.Labels = append(out.Labels, "gc-mode-needs-real-elements")
		return "", 0
	}
	// a piece that is not part of the input may be arbitrary memory: reading through pointers found there must
	// end as a panic (reported as a violation by pbt), not as the death of the process
	defer debug.SetPanicOnFault(debug.SetPanicOnFault(true))
	const off = 17
	total := front + n + spare
	count := gcAllocs[E](total, c.Var)
	e := formulaEnv[S](k, off)
	// positions: element j of the temporary slice was made as mk(front+j+off); with base = front the
	// environment's absolute position front+j maps to mk(front+j+off).
	base := front
	var keep []S
	what := func(fn string, at int) string {
		return fmt.Sprintf("%s on an input that only the callee refers to (built inside the call expression), garbage collection + %d allocations of the input's size inside callback %d: %s", fn, count, at, fn)
	}
	nt := false
	// Fn in this mode: c, w, p = the phase with ChunkFunc / WindowedFunc / PairsFunc, R = the phase with the three
	// slice-returning functions; "" = all four phases (one collection per phase)
	on := func(letter string) bool { return c.Fn == "" || containsByte(c.Fn, letter[0]) }

	if cnt := chunkCount(n, size); cnt > 0 && on("c") {
		at, i := idx(c.At, cnt), 0
		nt = nt || at < cnt-1
		cb, done := e.chunkVisitor(what("ChunkFunc", at), base, n, size)
		slices.ChunkFunc(buildTemp[S](k, front, n, spare, off), size, func(p S) {
			cb(p)
			if i == at {
				keep = churn[S](k, total, count)
			}
			i++
		})
		runtime.KeepAlive(keep)
		keep = nil
		if m := done(); m != "" {
			return m, e.evals
		}
	}
	if cnt := windowCount(n, size); cnt > 0 && on("w") {
		at, i := idx(c.At, cnt), 0
		nt = nt || at < cnt-1
		cb, done := e.windowVisitor(what("WindowedFunc", at), base, n, size)
		slices.WindowedFunc(buildTemp[S](k, front, n, spare, off), size, func(w S) {
			cb(w)
			if i == at {
				keep = churn[S](k, total, count)
			}
			i++
		})
		runtime.KeepAlive(keep)
		keep = nil
		if m := done(); m != "" {
			return m, e.evals
		}
	}
	if cnt := pairCount(n); cnt > 0 && on("p") {
		at, i := idx(c.At, cnt), 0
		nt = nt || at < cnt-1
		cb, done := e.pairVisitor(what("PairsFunc", at), base, n)
		slices.PairsFunc(buildTemp[S](k, front, n, spare, off), func(a, b E) {
			cb(a, b)
			if i == at {
				keep = churn[S](k, total, count)
			}
			i++
		})
		runtime.KeepAlive(keep)
		keep = nil
		if m := done(); m != "" {
			return m, e.evals
		}
	}
	// the slice-returning variants: the results are looked at after the collection and the allocations
	if on("R") {
		r := slices.Chunk(buildTemp[S](k, front, n, spare, off), size)
		w := slices.Windowed(buildTemp[S](k, front, n, spare, off), size)
		p := slices.Pairs(buildTemp[S](k, front, n, spare, off))
		keep = churn[S](k, total, count)
		ctx := fmt.Sprintf("result of a call on an input that only the callee referred to, looked at after a garbage collection + %d allocations of the input's size: ", count)
		if m := e.checkChunks(ctx+"Chunk", base, n, size, r); m != "" {
			return m, e.evals
		}
		if m := e.checkWindows(ctx+"Windowed", base, n, size, w); m != "" {
			return m, e.evals
		}
		if m := e.checkPairs(ctx+"Pairs", base, n, p); m != "" {
			return m, e.evals
		}
		runtime.KeepAlive(keep)
		nt = nt || n >= 1
	}
	if c.Fn != "" {
		out.Labels = append(out.Labels, "phases:"+c.Fn)
	}
	out.NonTrivial = nt
	if nt {
		out.Labels = append(out.Labels, "callbacks-after-the-collection")
	}
	var z E
	switch bytes := uintptr(total) * unsafe.Sizeof(z); {
	case bytes <= 1<<10:
		out.Labels = append(out.Labels, "input<=1KiB")
	case bytes <= 32<<10:
		out.Labels = append(out.Labels, "input<=32KiB(small-object)")
	case bytes <= 1<<20:
		out.Labels = append(out.Labels, "input<=1MiB(large-object)")
	default:
		out.Labels = append(out.Labels, "input>1MiB")
	}
	return e.err, e.evals
}

func containsByte(s string, b byte) bool {
	for i := 0; i < len(s); i++ {
		if s[i] == b {
			return true
		}
	}
	return false
}

// ---------------------------------------------------------------- mode "abort"
//
// A call of a ...Func variant is aborted by its callback (panic recovered by the caller, or runtime.Goexit of the
// calling goroutine); afterwards all six functions must work on the same and on an independent slice.

type abortSentinel struct{}

// aborted runs f; reports whether f was left through the sentinel panic / Goexit.
func aborted(goexit bool, f func()) (ab bool) {
	if goexit {
		done := make(chan bool, 1)
		go func() {
			normal := false
			defer func() { done <- !normal }()
			f()
			normal = true
		}()
		return <-done
	}
	defer func() {
		if p := recover(); p != nil {
			if _, ok := p.(abortSentinel); !ok {
				panic(p)
			}
			ab = true
		}
	}()
	f()
	return false
}

func abortNow(goexit bool) {
	if goexit {
		runtime.Goexit()
	}
	panic(abortSentinel{})
}

func runAbort[S ~[]E, E any](e *env[S, E], s S, base int, c Case, out *pbt.Outcome) string {
	n, size := len(s), c.Size
	goexit := c.Var == 1
	how := "panic in (recovered by the caller)"
	if goexit {
		how = "runtime.Goexit in"
		out.Labels = append(out.Labels, "abort:goexit")
	} else {
		out.Labels = append(out.Labels, "abort:panic")
	}
	e2, back2 := newEnv[S](e.k, n+3, 500)
	t := back2[1 : n+2]
	after := func(fn string, at int) string {
		ctx := fmt.Sprintf("after a %s(n=%d,size=%d) call that was aborted by %s callback %d: ", fn, n, size, how, at)
		if m, _ := e.six(ctx, s, base, size); m != "" {
			return m
		}
		m, _ := e2.six(ctx+"independent second slice: ", t, 1, size)
		return m
	}
	some := false
	if cnt := chunkCount(n, size); cnt > 0 {
		at, i := idx(c.At, cnt), 0
		cb, _ := e.chunkVisitor("ChunkFunc", base, n, size)
		ab := aborted(goexit, func() {
			slices.ChunkFunc(s, size, func(p S) {
				cb(p)
				if i == at {
					abortNow(goexit)
				}
				i++
			})
		})
		if e.err != "" {
			return e.err
		}
		if !ab {
			return fmt.Sprintf("ChunkFunc(n=%d,size=%d): returned after %d callback invocations, callback %d of %d never happened", n, size, i, at, cnt)
		}
		if m := after("ChunkFunc", at); m != "" {
			return m
		}
		some = true
	}
	if cnt := windowCount(n, size); cnt > 0 {
		at, i := idx(c.At, cnt), 0
		cb, _ := e.windowVisitor("WindowedFunc", base, n, size)
		ab := aborted(goexit, func() {
			slices.WindowedFunc(s, size, func(w S) {
				cb(w)
				if i == at {
					abortNow(goexit)
				}
				i++
			})
		})
		if e.err != "" {
			return e.err
		}
		if !ab {
			return fmt.Sprintf("WindowedFunc(n=%d,size=%d): returned after %d callback invocations, callback %d of %d never happened", n, size, i, at, cnt)
		}
		if m := after("WindowedFunc", at); m != "" {
			return m
		}
		some = true
	}
	if cnt := pairCount(n); cnt > 0 {
		at, i := idx(c.At, cnt), 0
		cb, _ := e.pairVisitor("PairsFunc", base, n)
		ab := aborted(goexit, func() {
			slices.PairsFunc(s, func(a, b E) {
				cb(a, b)
				if i == at {
					abortNow(goexit)
				}
				i++
			})
		})
		if e.err != "" {
			return e.err
		}
		if !ab {
			return fmt.Sprintf("PairsFunc(n=%d): returned after %d callback invocations, callback %d of %d never happened", n, i, at, cnt)
		}
		if m := after("PairsFunc", at); m != "" {
			return m
		}
		some = true
	}
	out.NonTrivial = some
	if !some {
		out.Labels = append(out.Labels, "no-callback-to-abort")
	}
	e.evals += e2.evals
	if e2.err != "" {
		return e2.err
	}
	return e2.unchanged(back2)
}

// ---------------------------------------------------------------- mode "repeat"
//
// The same cheap calls many times over (more than 2^16), alternately on two live slices; the results of the very
// first calls are kept and looked at again at the end.

func runRepeat[S ~[]E, E any](e *env[S, E], s S, base int, c Case, out *pbt.Outcome) string {
	n, size, reps := len(s), c.Size, c.Reps
	if reps > 1<<22 || n > 64 {
		out.Skipped, out.NonTrivial = true, false
		out.Labels = append(out.Labels, "outside-domain")
		return ""
	}
	e2, back2 := newEnv[S](e.k, n+3, 500)
	t := back2[1 : n+2]
	r1, w1, p1 := slices.Chunk(s, size), slices.Windowed(s, size), slices.Pairs(s)
	kept := func(ctx string) string {
		if m := e.checkChunks(ctx+"Chunk", base, n, size, r1); m != "" {
			return m
		}
		if m := e.checkWindows(ctx+"Windowed", base, n, size, w1); m != "" {
			return m
		}
		return e.checkPairs(ctx+"Pairs", base, n, p1)
	}
	// first half: calls only; then the kept results are looked at; second half: the caller also changes elements of
	// the first slice in place between the calls (every call must work from the input as it is now); the pairs kept
	// from the very first call are values and must still be what they were
	half := reps / 2
	e0 := &env[S, E]{k: e.k}
	for r := 0; r < reps; r++ {
		if r == half {
			if m := kept(fmt.Sprintf("kept from before %d further calls: ", half)); m != "" {
				return m
			}
			e0.orig = append([]E(nil), e.orig...)
		}
		var m string
		sz := size + r/2%2 // the same slice with two sizes in turn
		if r%2 == 0 {
			if !e.k.zst && e.orig != nil && n > 0 && r >= half && r%8 == 6 {
				v := e.k.mk(base + r%n + 9000 + r)
				s[r%n], e.orig[base+r%n] = v, v
			}
			m, _ = e.some(c.Fn, "", s, base, sz)
		} else {
			m, _ = e2.some(c.Fn, "independent second slice: ", t, 1, sz)
		}
		if m != "" {
			return fmt.Sprintf("repetition %d (of %d, alternating between two slices and two sizes, from repetition %d on with elements of the first slice changed in place between calls; all repetitions before gave the right answer): %s", r, reps, half, m)
		}
	}
	if e0.orig != nil || e.k.zst {
		if m := e0.checkPairs(fmt.Sprintf("kept from before %d further calls: Pairs", reps), base, n, p1); m != "" {
			return m
		}
	}
	out.NonTrivial = reps > 1<<16
	out.Labels = append(out.Labels, sizeClass("repetitions", reps))
	e.evals += e2.evals
	if e2.err != "" {
		return e2.err
	}
	return e2.unchanged(back2)
}

// ---------------------------------------------------------------- mode "wrap"
//
// More than 2^32 repetitions of one cheap call, or one call with more than 2^32 callbacks on a slice of a zero-size
// type; tight loops (no per-call allocation by the harness). Fn is one letter: c, w, p = ChunkFunc, WindowedFunc,
// PairsFunc; C, W, P = Chunk, Windowed, Pairs.

func runWrap[S ~[]E, E any](k *kind[E], c Case, out *pbt.Outcome) (string, int) {
	n, size, reps := c.N, c.Size, max(c.Reps, 1)
	var per int
	switch c.Fn {
	case "c", "C":
		per = chunkCount(n, size)
	case "w", "W":
		per = windowCount(n, size)
	case "p", "P":
		per = pairCount(n)
	default:
		out.Skipped = true
		return "", 0
	}
	returning := c.Fn[0] < 'a'
	if per > 0 && reps > (1<<34)/per || returning && per > 1<<20 || !k.zst && n > 1<<20 {
		out.Skipped, out.NonTrivial = true, false
		out.Labels = append(out.Labels, "outside-domain")
		return "", 0
	}
	e := formulaEnv[S](k, 0)
	s := fill[S](k, n, 0)
	i, bad := 0, -1
	evals := reps
	fail := func(fn string, r, got int) string {
		if bad >= 0 {
			return fmt.Sprintf("%s(n=%d,size=%d) repetition %d (of %d on the same slice; all repetitions before gave the right answer): piece %d is not the expected part of the input", fn, n, size, r, reps, bad)
		}
		return fmt.Sprintf("%s(n=%d,size=%d) repetition %d (of %d on the same slice; all repetitions before gave the right answer): %d pieces, want %d", fn, n, size, r, reps, got, per)
	}
	last := n - (per-1)*size // length of the last chunk
	// ends: the piece has the wanted length and its first and last element are the expected ones (the pieces of this
	// mode are one or two elements long, or of a zero-size type)
	ends := func(p S, wl, pos int) bool {
		if len(p) != wl {
			return false
		}
		if k.zst || wl == 0 {
			return true
		}
		return e.is(p[0], pos) && (wl == 1 || e.is(p[wl-1], pos+wl-1))
	}
	switch c.Fn {
	case "c":
		cb := func(p S) {
			wl := size
			if i == per-1 {
				wl = last
			}
			if bad < 0 && (i >= per || !ends(p, wl, i*size)) {
				bad = i
			}
			i++
		}
		for r := 0; r < reps; r++ {
			i = 0
			slices.ChunkFunc(s, size, cb)
			if i != per || bad >= 0 {
				return fail("ChunkFunc", r, i), evals
			}
		}
	case "w":
		cb := func(w S) {
			if bad < 0 && (i >= per || !ends(w, size, i)) {
				bad = i
			}
			i++
		}
		for r := 0; r < reps; r++ {
			i = 0
			slices.WindowedFunc(s, size, cb)
			if i != per || bad >= 0 {
				return fail("WindowedFunc", r, i), evals
			}
		}
	case "p":
		cb := func(a, b E) {
			if !k.zst && bad < 0 && (i >= per || !e.is(a, i) || !e.is(b, i+1)) {
				bad = i
			}
			i++
		}
		for r := 0; r < reps; r++ {
			i = 0
			slices.PairsFunc(s, cb)
			if i != per || bad >= 0 {
				return fail("PairsFunc", r, i), evals
			}
		}
	case "C":
		for r := 0; r < reps; r++ {
			ps := slices.Chunk(s, size)
			for j := 0; j < len(ps) && j < per && bad < 0; j++ {
				wl := size
				if j == per-1 {
					wl = last
				}
				if !ends(ps[j], wl, j*size) {
					bad = j
				}
			}
			if len(ps) != per || bad >= 0 {
				return fail("Chunk", r, len(ps)), evals
			}
		}
	case "W":
		for r := 0; r < reps; r++ {
			ws := slices.Windowed(s, size)
			for j := 0; j < len(ws) && j < per && bad < 0; j++ {
				if !ends(ws[j], size, j) {
					bad = j
				}
			}
			if len(ws) != per || bad >= 0 {
				return fail("Windowed", r, len(ws)), evals
			}
		}
	case "P":
		for r := 0; r < reps; r++ {
			ps := slices.Pairs(s)
			for j := 0; j < len(ps) && j < per && bad < 0 && !k.zst; j++ {
				if !e.is(ps[j][0], j) || !e.is(ps[j][1], j+1) {
					bad = j
				}
			}
			if len(ps) != per || bad >= 0 {
				return fail("Pairs", r, len(ps)), evals
			}
		}
	}
	out.NonTrivial = reps > 1<<32 || per > 1<<32
	out.Labels = append(out.Labels, "fn:"+c.Fn, sizeClass("repetitions", reps), sizeClass("pieces-per-call", per))
	return "", evals
}
