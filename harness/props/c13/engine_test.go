package c13

import (
	"fmt"
	"math"
	"runtime"
	"strconv"
	"strings"
	"unsafe"

	"gopkg.in/typ.v4/slices"
	"verifharness/internal/pbt"
)

// Case is one input for all six functions. The zero values of the optional
// fields reproduce the original case format {n,size,spare} (int elements).
type Case struct {
	N     int    `json:"n"`                  // slice length
	Size  int    `json:"size"`               // >= 1
	Spare int    `json:"spare"`              // spare capacity behind the slice
	Front int    `json:"front,omitempty"`    // elements of the backing array in front of the slice
	Kind  string `json:"kind,omitempty"`     // element kind, "" = int
	Named bool   `json:"named,omitempty"`    // slice type is a named type (sl[E]) instead of []E
	Mode  string `json:"mode,omitempty"`     // "" = plain, "nested" = re-entrant callbacks + kept results, "gc", "abort", "repeat", "wrap" (modes_test.go), "deep", "guard", "local", "gap", "sleep", "twins", "kept" (extreme_test.go)
	Size2 int    `json:"size2,omitempty"`    // inner size of the nested mode
	Procs int    `json:"procs,omitempty"`    // > 0: runtime.GOMAXPROCS(Procs) for the duration of the case
	Fn    string `json:"fn,omitempty"`       // "" = all; otherwise a subset of "c" (Chunk, ChunkFunc), "w" (Windowed, WindowedFunc), "p" (Pairs, PairsFunc); capital letter = the slice-returning function alone, "x", "y", "z" = ChunkFunc, WindowedFunc, PairsFunc alone
	At    int    `json:"at,omitempty"`       // gc/abort mode: index (mod number of callbacks) of the callback that collects garbage / aborts
	Var   int    `json:"var,omitempty"`      // abort mode: 0 = panic, 1 = runtime.Goexit; gc mode: number of same-sized allocations after the collection (0 = default); local mode: bit 0 = across stack growth (else beyond the frame), bit 1 = constant-size make; sleep mode: rounds
	Reps  int    `json:"reps,omitempty"`     // repeat/wrap/gap mode: number of repetitions (gap: calls on other data in between)
	Flip  bool   `json:"flip,omitempty"`     // another goroutine flips runtime.GOMAXPROCS between 2 and 7 while the case runs
	Place string `json:"place,omitempty"`    // guard mode: "end" = the backing array ends where readable memory ends, "start" = it starts where readable memory starts
	Sleep int    `json:"sleep_ms,omitempty"` // sleep mode: milliseconds of wall-clock time between the calls
}

// sl is the named slice type used when Case.Named is set.
type sl[E any] []E

// kind describes an element type: how the element at absolute position i of
// the backing array is made, and when two elements are "the same element".
type kind[E any] struct {
	name string
	zst  bool // zero-size type: elements carry no information, only counts and lengths are checked
	raw  bool // elements hold no pointers: slices of them may live in memory the garbage collector does not know (guard mode)
	mk   func(i int) E
	same func(a, b E) bool
	show func(E) string // deterministic rendering for messages (nil: positions only)
	// eqs (optional): index of the first j with p[j] != want[j] under same, or -1; one call per piece instead of
	// two indirect calls per element.
	eqs func(p, want []E) int
	// eqPairs (optional): all pairs ps[i] == {want[i], want[i+1]} under same (len(want) = len(ps)+1).
	eqPairs func(ps [][2]E, want []E) bool
	// at: "a is (by value) the element made for position i" - used when the oracle keeps no copy of the input and
	// recomputes the expected element from the formula; nil = same(a, mk(i)).
	at func(a E, i int) bool
}

type (
	ncElem struct {
		id int
		f  func()
		s  []int
	}
	wideElem struct {
		pad [15]int64
		id  int64
	}
	xwideElem struct { // 1040 bytes, not a power of two
		pad [129]int64
		id  int64
	}
	b3Elem [3]uint8 // size 3, alignment 1
	zPad   struct {
		_ [0]string
		_ struct{}
	}
	zArrz [3]struct{}
)

func eqsOf[E comparable](p, want []E) int {
	for j := range p {
		if p[j] != want[j] {
			return j
		}
	}
	return -1
}

func eqPairsOf[E comparable](ps [][2]E, want []E) bool {
	for i := range ps {
		if ps[i][0] != want[i] || ps[i][1] != want[i+1] {
			return false
		}
	}
	return true
}

func always[E any](a, b E) bool { return true }
func zero[E any](int) (z E)     { return }

var (
	kInt = &kind[int]{name: "int", mk: func(i int) int { return i }, same: func(a, b int) bool { return a == b }, show: strconv.Itoa}
	kStr = &kind[string]{name: "string", mk: func(i int) string {
		if i%7 == 3 {
			return ""
		}
		return "s" + strconv.Itoa(i)
	}, same: func(a, b string) bool { return a == b }, show: strconv.Quote}
	kF64 = &kind[float64]{name: "f64", mk: func(i int) float64 {
		switch i % 5 {
		case 1:
			return math.NaN()
		case 2:
			return math.Copysign(0, -1)
		case 3:
			return 0
		}
		return float64(i)
	}, same: func(a, b float64) bool { return math.Float64bits(a) == math.Float64bits(b) },
		show: func(f float64) string { return fmt.Sprintf("%v(%#x)", f, math.Float64bits(f)) }}
	kPtr = &kind[*int]{name: "ptr", mk: func(i int) *int {
		if i%4 == 2 {
			return nil
		}
		p := new(int)
		*p = i
		return p
	}, same: func(a, b *int) bool { return a == b },
		at: func(a *int, i int) bool {
			if i%4 == 2 {
				return a == nil
			}
			return a != nil && *a == i
		}}
	kNc = &kind[ncElem]{name: "nc", mk: func(i int) ncElem {
		e := ncElem{id: i}
		if i%2 == 1 {
			e.f = func() {}
		}
		if i%3 != 0 {
			e.s = make([]int, i%3)
		}
		return e
	}, same: func(a, b ncElem) bool {
		return a.id == b.id && (a.f == nil) == (b.f == nil) && len(a.s) == len(b.s) && (a.s == nil) == (b.s == nil)
	}, show: func(e ncElem) string { return "#" + strconv.Itoa(e.id) }}
	kWide = &kind[wideElem]{name: "wide", mk: func(i int) wideElem {
		e := wideElem{id: int64(i)}
		e.pad[0], e.pad[14] = ^int64(i), int64(i)*3
		return e
	}, same: func(a, b wideElem) bool { return a == b }, show: func(e wideElem) string { return "#" + strconv.FormatInt(e.id, 10) }}
	kXWide = &kind[xwideElem]{name: "xwide", mk: func(i int) xwideElem {
		e := xwideElem{id: int64(i)}
		e.pad[0], e.pad[64], e.pad[128] = ^int64(i), int64(i)*5, int64(i)*3
		return e
	}, same: func(a, b xwideElem) bool { return a == b }, show: func(e xwideElem) string { return "#" + strconv.FormatInt(e.id, 10) }}
	kB3 = &kind[b3Elem]{name: "b3", mk: func(i int) b3Elem { return b3Elem{uint8(i), uint8(i >> 8), uint8(i>>16) ^ 0x5a} },
		same: func(a, b b3Elem) bool { return a == b }, show: func(e b3Elem) string { return fmt.Sprintf("%v", [3]uint8(e)) }}
	kI32 = &kind[int32]{name: "i32", mk: func(i int) int32 { return int32(i) + 1 }, same: func(a, b int32) bool { return a == b },
		show: func(v int32) string { return strconv.Itoa(int(v)) }}
	kU8 = &kind[uint8]{name: "u8", mk: func(i int) uint8 { return uint8(i*7 + i/256) }, same: func(a, b uint8) bool { return a == b },
		show: func(b uint8) string { return strconv.Itoa(int(b)) }}
	kIface = &kind[any]{name: "iface", mk: func(i int) any {
		switch i % 4 {
		case 1:
			return nil
		case 2:
			return "s" + strconv.Itoa(i)
		case 3:
			return []int{i}
		}
		return i
	}, same: func(a, b any) bool {
		switch x := a.(type) {
		case nil:
			return b == nil
		case int:
			y, ok := b.(int)
			return ok && x == y
		case string:
			y, ok := b.(string)
			return ok && x == y
		case []int:
			y, ok := b.([]int)
			return ok && len(x) == 1 && len(y) == 1 && &x[0] == &y[0]
		}
		return false
	}, at: func(a any, i int) bool {
		switch i % 4 {
		case 1:
			return a == nil
		case 2:
			y, ok := a.(string)
			return ok && y == "s"+strconv.Itoa(i)
		case 3:
			y, ok := a.([]int)
			return ok && len(y) == 1 && y[0] == i
		}
		y, ok := a.(int)
		return ok && y == i
	}}
	kZStruct = &kind[struct{}]{name: "z-struct", zst: true, mk: zero[struct{}], same: always[struct{}]}
	kZArr0   = &kind[[0]int]{name: "z-arr0", zst: true, mk: zero[[0]int], same: always[[0]int]}
	kZNc     = &kind[[0]func()]{name: "z-nc", zst: true, mk: zero[[0]func()], same: always[[0]func()]}
	kZPad    = &kind[zPad]{name: "z-pad", zst: true, mk: zero[zPad], same: always[zPad]}
	kZArrz   = &kind[zArrz]{name: "z-arrz", zst: true, mk: zero[zArrz], same: always[zArrz]}
)

var allKinds = []string{"int", "string", "f64", "ptr", "nc", "wide", "xwide", "u8", "b3", "i32", "iface", "z-struct", "z-arr0", "z-nc", "z-pad", "z-arrz"}

func init() {
	kInt.eqs, kStr.eqs, kPtr.eqs, kWide.eqs, kXWide.eqs, kU8.eqs, kB3.eqs, kI32.eqs = eqsOf[int], eqsOf[string], eqsOf[*int], eqsOf[wideElem], eqsOf[xwideElem], eqsOf[uint8], eqsOf[b3Elem], eqsOf[int32]
	kInt.eqPairs, kStr.eqPairs, kPtr.eqPairs, kWide.eqPairs, kXWide.eqPairs, kU8.eqPairs, kB3.eqPairs, kI32.eqPairs = eqPairsOf[int], eqPairsOf[string], eqPairsOf[*int], eqPairsOf[wideElem], eqPairsOf[xwideElem], eqPairsOf[uint8], eqPairsOf[b3Elem], eqPairsOf[int32]
	kInt.raw, kF64.raw, kWide.raw, kXWide.raw, kU8.raw, kB3.raw, kI32.raw = true, true, true, true, true, true, true
	if unsafe.Sizeof(struct{}{})+unsafe.Sizeof([0]int{})+unsafe.Sizeof([0]func(){})+unsafe.Sizeof(zPad{})+unsafe.Sizeof(zArrz{}) != 0 {
		panic("c13: a zero-size kind is not zero-size")
	}
}

// Run executes one case.
func Run(c Case) pbt.Outcome {
	switch c.Kind {
	case "", "int":
		return dispatch(c, kInt)
	case "string":
		return dispatch(c, kStr)
	case "f64":
		return dispatch(c, kF64)
	case "ptr":
		return dispatch(c, kPtr)
	case "nc":
		return dispatch(c, kNc)
	case "wide":
		return dispatch(c, kWide)
	case "u8":
		return dispatch(c, kU8)
	case "xwide":
		return dispatch(c, kXWide)
	case "b3":
		return dispatch(c, kB3)
	case "i32":
		return dispatch(c, kI32)
	case "iface":
		return dispatch(c, kIface)
	case "z-struct":
		return dispatch(c, kZStruct)
	case "z-arr0":
		return dispatch(c, kZArr0)
	case "z-nc":
		return dispatch(c, kZNc)
	case "z-pad":
		return dispatch(c, kZPad)
	case "z-arrz":
		return dispatch(c, kZArrz)
	}
	return pbt.Outcome{Skipped: true, Labels: []string{"unknown-kind"}}
}

func dispatch[E any](c Case, k *kind[E]) pbt.Outcome {
	if c.Named {
		return runKind[sl[E]](c, k)
	}
	return runKind[[]E](c, k)
}

// zstLimit: largest number of pieces of a zero-size type a function is asked to produce (its result
// container and its loop are proportional to that number although the input itself costs nothing).
const zstLimit = 1 << 16

// zstFuncLimit: the same for the ...Func variants (time only).
const zstFuncLimit = 1<<17 + 16

// maxRealN bounds the length of slices of real (non-zero-size) elements (replay files are external input).
const maxRealN = 1<<25 + 64

// fullCompare: up to this many element comparisons per Windowed/WindowedFunc call every element of every
// window is compared; beyond, 64 positions spread over each window (both ends included).
const fullCompare = 1 << 20

func chunkCount(n, size int) int {
	if n == 0 {
		return 0
	}
	want := n / size // not (n+size-1)/size: that overflows for sizes near MaxInt
	if n%size != 0 {
		want++
	}
	return want
}

func windowCount(n, size int) int {
	if n < size {
		return 0
	}
	return n - size + 1
}

func pairCount(n int) int {
	if n < 2 {
		return 0
	}
	return n - 1
}

// env is the expected content of one backing array.
type env[S ~[]E, E any] struct {
	k     *kind[E]
	orig  []E // expected element per absolute position (nil for zero-size kinds and for formula environments)
	off   int // formula environments: the element at absolute position i was made as k.mk(i+off)
	evals int
	err   string // first violation seen inside callbacks
	limit int    // > 0: replaces zstFuncLimit and zstLimit (deep mode)
}

// formulaEnv keeps no copy of the input: expected elements are recomputed from k.mk (by value, see kind.at).
func formulaEnv[S ~[]E, E any](k *kind[E], off int) *env[S, E] { return &env[S, E]{k: k, off: off} }

// fill makes the backing array of a formula environment.
func fill[S ~[]E, E any](k *kind[E], total, off int) S {
	back := make(S, total)
	if !k.zst {
		for i := range back {
			back[i] = k.mk(i + off)
		}
	}
	return back
}

// is: a is the element expected at absolute position pos.
func (e *env[S, E]) is(a E, pos int) bool {
	if e.orig != nil {
		return e.k.same(a, e.orig[pos])
	}
	if e.k.at != nil {
		return e.k.at(a, pos+e.off)
	}
	return e.k.same(a, e.k.mk(pos+e.off))
}

func (e *env[S, E]) wantAt(pos int) E {
	if e.orig != nil {
		return e.orig[pos]
	}
	return e.k.mk(pos + e.off)
}

func newEnv[S ~[]E, E any](k *kind[E], total, offset int) (*env[S, E], S) {
	e := &env[S, E]{k: k}
	back := make(S, total)
	if !k.zst {
		e.orig = make([]E, total)
		for i := range e.orig {
			e.orig[i] = k.mk(i + offset)
		}
		copy(back, e.orig)
	}
	return e, back
}

func (e *env[S, E]) fail(format string, a ...any) string {
	m := fmt.Sprintf(format, a...)
	if e.err == "" {
		e.err = m
	}
	return m
}

// mismatch returns the first checked index j where p[j] is not the element at absolute position base+j, or -1.
func (e *env[S, E]) mismatch(p S, base int, sampled bool) int {
	if e.k.zst {
		return -1
	}
	L := len(p)
	if (!sampled || L <= 80) && e.orig != nil && e.k.eqs != nil && base >= 0 && base+L <= len(e.orig) {
		return e.k.eqs(p, e.orig[base:base+L])
	}
	if !sampled || L <= 80 {
		for j := 0; j < L; j++ {
			if !e.is(p[j], base+j) {
				return j
			}
		}
		return -1
	}
	for j := 0; j < 8; j++ {
		if !e.is(p[j], base+j) {
			return j
		}
	}
	for t := 0; t < 48; t++ {
		j := 8 + t*(L-16)/48
		if !e.is(p[j], base+j) {
			return j
		}
	}
	for j := L - 8; j < L; j++ {
		if !e.is(p[j], base+j) {
			return j
		}
	}
	return -1
}

func (e *env[S, E]) elemMsg(got E, pos int) string {
	if e.k.show == nil {
		return fmt.Sprintf("is not input element %d", pos)
	}
	return fmt.Sprintf("= %s, want %s (input element %d)", e.k.show(got), e.k.show(e.wantAt(pos)), pos)
}

func lens[S ~[]E, E any](ps []S) string {
	var b strings.Builder
	b.WriteString("lengths [")
	for i, p := range ps {
		if i == 10 {
			fmt.Fprintf(&b, " ... %d in total", len(ps))
			break
		}
		if i > 0 {
			b.WriteByte(' ')
		}
		b.WriteString(strconv.Itoa(len(p)))
	}
	b.WriteByte(']')
	return b.String()
}

// piece checks one chunk/window: length and content.
func (e *env[S, E]) piece(what string, i int, p S, wantLen, base int, sampled bool) string {
	if len(p) != wantLen {
		if len(p) == 0 {
			return fmt.Sprintf("%s %d is empty, want length %d", what, i, wantLen)
		}
		return fmt.Sprintf("%s %d has length %d, want %d", what, i, len(p), wantLen)
	}
	if j := e.mismatch(p, base, sampled); j >= 0 {
		return fmt.Sprintf("%s %d element %d %s", what, i, j, e.elemMsg(p[j], base+j))
	}
	return ""
}

func chunkLen(i, want, n, size int) int {
	if i == want-1 {
		return n - (want-1)*size
	}
	return size
}

// checkChunks: pieces must be the ceil(n/size) consecutive chunks of the n elements starting at absolute position base.
func (e *env[S, E]) checkChunks(name string, base, n, size int, pieces []S) string {
	e.evals++
	want := chunkCount(n, size)
	if len(pieces) != want {
		return e.fail("%s(n=%d,size=%d): %d pieces, want ceil(n/size)=%d: %s", name, n, size, len(pieces), want, lens(pieces))
	}
	// a first look at the result the moment it is returned, last piece first (a result that is still being
	// filled in when the function returns is most likely incomplete at its far end), then every piece in order
	for i := want - 1; i >= 0 && want > prepass; i -= want/64 + 1 {
		if m := e.piece("piece", i, pieces[i], chunkLen(i, want, n, size), base+i*size, true); m != "" {
			return e.fail("%s(n=%d,size=%d): right after the call returned: %s: %s", name, n, size, m, lens(pieces))
		}
	}
	for i, p := range pieces {
		if m := e.piece("piece", i, p, chunkLen(i, want, n, size), base+i*size, false); m != "" {
			return e.fail("%s(n=%d,size=%d): %s: %s", name, n, size, m, lens(pieces))
		}
	}
	return ""
}

// prepass: results with more pieces than this get the last-first look before the full check.
const prepass = 256

// chunkVisitor checks the callback sequence of ChunkFunc at the time of each call.
func (e *env[S, E]) chunkVisitor(name string, base, n, size int) (cb func(S), done func() string) {
	e.evals++
	want := chunkCount(n, size)
	i, err := 0, ""
	cb = func(p S) {
		if err == "" {
			if i >= want {
				err = e.fail("%s(n=%d,size=%d): call %d (piece of length %d) after all %d pieces were delivered", name, n, size, i, len(p), want)
			} else if m := e.piece("piece", i, p, chunkLen(i, want, n, size), base+i*size, false); m != "" {
				err = e.fail("%s(n=%d,size=%d): %s", name, n, size, m)
			}
		}
		i++
	}
	done = func() string {
		if err == "" && i != want {
			err = e.fail("%s(n=%d,size=%d): %d callback invocations, want ceil(n/size)=%d", name, n, size, i, want)
		}
		return err
	}
	return
}

func (e *env[S, E]) sampled(n, size int) bool {
	want := windowCount(n, size)
	return !e.k.zst && want > 0 && want > fullCompare/size
}

func (e *env[S, E]) checkWindows(name string, base, n, size int, ws []S) string {
	e.evals++
	want := windowCount(n, size)
	if len(ws) != want {
		return e.fail("%s(n=%d,size=%d): %d windows, want %d: %s", name, n, size, len(ws), want, lens(ws))
	}
	sampled := e.sampled(n, size)
	for i := want - 1; i >= 0 && want > prepass; i -= want/64 + 1 {
		if m := e.piece("window", i, ws[i], size, base+i, true); m != "" {
			return e.fail("%s(n=%d,size=%d): right after the call returned: %s", name, n, size, m)
		}
	}
	for i, w := range ws {
		if m := e.piece("window", i, w, size, base+i, sampled); m != "" {
			return e.fail("%s(n=%d,size=%d): %s", name, n, size, m)
		}
	}
	return ""
}

func (e *env[S, E]) windowVisitor(name string, base, n, size int) (cb func(S), done func() string) {
	e.evals++
	want := windowCount(n, size)
	sampled := e.sampled(n, size)
	i, err := 0, ""
	cb = func(w S) {
		if err == "" {
			if i >= want {
				err = e.fail("%s(n=%d,size=%d): call %d (window of length %d) after all %d windows were delivered", name, n, size, i, len(w), want)
			} else if m := e.piece("window", i, w, size, base+i, sampled); m != "" {
				err = e.fail("%s(n=%d,size=%d): %s", name, n, size, m)
			}
		}
		i++
	}
	done = func() string {
		if err == "" && i != want {
			err = e.fail("%s(n=%d,size=%d): %d callback invocations, want %d windows", name, n, size, i, want)
		}
		return err
	}
	return
}

func (e *env[S, E]) pair(i int, a, b E, base int) string {
	if e.k.zst {
		return ""
	}
	if !e.is(a, base+i) {
		return fmt.Sprintf("pair %d first %s", i, e.elemMsg(a, base+i))
	}
	if !e.is(b, base+i+1) {
		return fmt.Sprintf("pair %d second %s", i, e.elemMsg(b, base+i+1))
	}
	return ""
}

func (e *env[S, E]) checkPairs(name string, base, n int, ps [][2]E) string {
	e.evals++
	want := pairCount(n)
	if len(ps) != want {
		return e.fail("%s(n=%d): %d pairs, want %d", name, n, len(ps), want)
	}
	for i := want - 1; i >= 0 && want > prepass; i -= want/64 + 1 {
		if m := e.pair(i, ps[i][0], ps[i][1], base); m != "" {
			return e.fail("%s(n=%d): right after the call returned: %s", name, n, m)
		}
	}
	if e.orig != nil && e.k.eqPairs != nil && want > 0 && base >= 0 && base+want+1 <= len(e.orig) && e.k.eqPairs(ps, e.orig[base:base+want+1]) {
		return ""
	}
	for i, p := range ps {
		if m := e.pair(i, p[0], p[1], base); m != "" {
			return e.fail("%s(n=%d): %s", name, n, m)
		}
	}
	return ""
}

func (e *env[S, E]) pairVisitor(name string, base, n int) (cb func(a, b E), done func() string) {
	e.evals++
	want := pairCount(n)
	i, err := 0, ""
	cb = func(a, b E) {
		if err == "" {
			if i >= want {
				err = e.fail("%s(n=%d): call %d after all %d pairs were delivered", name, n, i, want)
			} else if m := e.pair(i, a, b, base); m != "" {
				err = e.fail("%s(n=%d): %s", name, n, m)
			}
		}
		i++
	}
	done = func() string {
		if err == "" && i != want {
			err = e.fail("%s(n=%d): %d callback invocations, want %d pairs", name, n, i, want)
		}
		return err
	}
	return
}

// unchanged: the backing array (slice, front and spare part) still holds what it held.
func (e *env[S, E]) unchanged(back S) string {
	if e.k.zst {
		return ""
	}
	for i := range back {
		if !e.is(back[i], i) {
			return e.fail("input modified: backing element %d %s", i, e.elemMsg(back[i], i))
		}
	}
	return ""
}

func (e *env[S, E]) feasible(count int) bool { return !e.k.zst || count <= max(zstLimit, e.limit) }

// feasibleFunc: the ...Func variants need no memory per piece, only time.
func (e *env[S, E]) feasibleFunc(count int) bool {
	return !e.k.zst || count <= max(zstFuncLimit, e.limit)
}

// all six functions on s, which must be the n elements at absolute positions base.. of e; ctx prefixes messages.
// Returns the first violation and the names of the functions that were skipped as infeasible.
func (e *env[S, E]) six(ctx string, s S, base, size int) (string, []string) {
	return e.some("", ctx, s, base, size)
}

// some: the functions selected by fn: "" = all six; "c", "w", "p" select a function with its Func variant;
// "C", "W", "P" the slice-returning function alone; "x", "y", "z" ChunkFunc, WindowedFunc, PairsFunc alone.
//
// A Func variant that would have to make more callbacks than feasible (zero-size element types with astronomically
// large lengths) is still called: callback number abortAt(n) leaves the call by a sentinel panic that the harness
// recovers, the callbacks up to there are checked (label aborted:*).
func (e *env[S, E]) some(fn, ctx string, s S, base, size int) (string, []string) {
	n := len(s)
	var skipped []string
	on := func(letters string) bool { return fn == "" || strings.ContainsAny(fn, letters) }
	if cnt := chunkCount(n, size); e.feasibleFunc(cnt) {
		if !on("cC") {
		} else if e.feasible(cnt) {
			if m := e.checkChunks(ctx+"Chunk", base, n, size, slices.Chunk(s, size)); m != "" {
				return m, nil
			}
		} else {
			skipped = append(skipped, "skip:chunk-result-only")
		}
		if on("cx") {
			cb, done := e.chunkVisitor(ctx+"ChunkFunc", base, n, size)
			slices.ChunkFunc(s, size, cb)
			if m := done(); m != "" {
				return m, nil
			}
		}
	} else if on("cx") {
		at, i := abortAt(n), 0
		cb, _ := e.chunkVisitor(ctx+"ChunkFunc", base, n, size)
		ab := aborted(false, func() {
			slices.ChunkFunc(s, size, func(p S) {
				cb(p)
				if i == at {
					abortNow(false)
				}
				i++
			})
		})
		if e.err != "" {
			return e.err, nil
		}
		if !ab {
			return e.fail("%sChunkFunc(n=%d,size=%d): returned after %d callback invocations, want %d (callback %d was to leave the call by a panic)", ctx, n, size, i, cnt, at), nil
		}
		skipped = append(skipped, "aborted:chunk")
	} else if on("C") {
		skipped = append(skipped, "skip:chunk")
	}
	if cnt := windowCount(n, size); e.feasibleFunc(cnt) {
		if !on("wW") {
		} else if e.feasible(cnt) {
			if m := e.checkWindows(ctx+"Windowed", base, n, size, slices.Windowed(s, size)); m != "" {
				return m, nil
			}
		} else {
			skipped = append(skipped, "skip:windowed-result-only")
		}
		if on("wy") {
			cb, done := e.windowVisitor(ctx+"WindowedFunc", base, n, size)
			slices.WindowedFunc(s, size, cb)
			if m := done(); m != "" {
				return m, nil
			}
		}
	} else if on("wy") {
		at, i := abortAt(n), 0
		cb, _ := e.windowVisitor(ctx+"WindowedFunc", base, n, size)
		ab := aborted(false, func() {
			slices.WindowedFunc(s, size, func(w S) {
				cb(w)
				if i == at {
					abortNow(false)
				}
				i++
			})
		})
		if e.err != "" {
			return e.err, nil
		}
		if !ab {
			return e.fail("%sWindowedFunc(n=%d,size=%d): returned after %d callback invocations, want %d (callback %d was to leave the call by a panic)", ctx, n, size, i, cnt, at), nil
		}
		skipped = append(skipped, "aborted:windowed")
	} else if on("W") {
		skipped = append(skipped, "skip:windowed")
	}
	if cnt := pairCount(n); e.feasibleFunc(cnt) {
		// Pairs of a zero-size type costs no memory either
		if on("pP") {
			if m := e.checkPairs(ctx+"Pairs", base, n, slices.Pairs(s)); m != "" {
				return m, nil
			}
		}
		if on("pz") {
			cb, done := e.pairVisitor(ctx+"PairsFunc", base, n)
			slices.PairsFunc(s, cb)
			if m := done(); m != "" {
				return m, nil
			}
		}
	} else if on("pz") {
		at, i := abortAt(n), 0
		cb, _ := e.pairVisitor(ctx+"PairsFunc", base, n)
		ab := aborted(false, func() {
			slices.PairsFunc(s, func(a, b E) {
				cb(a, b)
				if i == at {
					abortNow(false)
				}
				i++
			})
		})
		if e.err != "" {
			return e.err, nil
		}
		if !ab {
			return e.fail("%sPairsFunc(n=%d): returned after %d callback invocations, want %d (callback %d was to leave the call by a panic)", ctx, n, i, cnt, at), nil
		}
		skipped = append(skipped, "aborted:pairs")
	} else if on("P") {
		skipped = append(skipped, "skip:pairs")
	}
	return "", skipped
}

// abortAt: the callback that aborts an infeasibly long call (a few hundred, depending on n).
func abortAt(n int) int { return 257 + n%97 }

func sizeClass(prefix string, v int) string {
	switch {
	case v < 32:
		return prefix + "<32"
	case v < 1024:
		return prefix + "<2^10"
	case v < 1<<16:
		return prefix + "<2^16"
	case v < 1<<31:
		return prefix + "<2^31"
	case v < 1<<53:
		return prefix + "<2^53"
	}
	return prefix + ">=2^53"
}

// procs0 is the GOMAXPROCS value of the process (read-only after initialisation; cases with Procs restore it).
var procs0 = runtime.GOMAXPROCS(0)

// maxBytes bounds the memory of one backing array (replay files are external input).
const maxBytes = 1 << 29

func runKind[S ~[]E, E any](c Case, k *kind[E]) pbt.Outcome {
	n, size, front, spare := c.N, c.Size, c.Front, c.Spare
	if n < 0 || size < 1 || front < 0 || spare < 0 || c.Procs < 0 || c.Procs > 256 || c.Reps < 0 {
		return pbt.Outcome{Skipped: true, Labels: []string{"outside-domain"}}
	}
	if k.zst {
		// any length and capacity up to MaxInt costs nothing
		if front > math.MaxInt-n || spare > math.MaxInt-n-front {
			front, spare = 0, 0
		}
	} else {
		var z E
		if n > maxRealN || front > maxRealN || spare > maxRealN || front+n+spare > maxRealN+16 || uintptr(front+n+spare)*unsafe.Sizeof(z) > maxBytes {
			return pbt.Outcome{Skipped: true, Labels: []string{"outside-domain"}}
		}
	}
	var out pbt.Outcome
	if n >= 1 && (n%size >= 2 || size > n) {
		out.NonTrivial = true
	}
	switch {
	case size > n:
		out.Labels = append(out.Labels, "size>n")
	case n%size == 0:
		out.Labels = append(out.Labels, "rem=0")
	case n%size == 1:
		out.Labels = append(out.Labels, "rem=1")
	default:
		out.Labels = append(out.Labels, "rem>=2")
	}
	out.Labels = append(out.Labels, "kind:"+k.name, sizeClass("n", n), sizeClass("windows", windowCount(n, size)), sizeClass("chunks", chunkCount(n, size)))
	if c.Named {
		out.Labels = append(out.Labels, "named-slice-type")
	}
	if !k.zst {
		var z E
		if unused := uintptr(front+spare) * unsafe.Sizeof(z); unused > 1<<20 {
			out.Labels = append(out.Labels, "unused-capacity>1MiB")
		}
	} else if front+spare > 1<<20 {
		out.Labels = append(out.Labels, "unused-capacity"+sizeClass("", front+spare))
	}
	if c.Procs > 0 {
		runtime.GOMAXPROCS(c.Procs)
		defer runtime.GOMAXPROCS(procs0)
		out.Labels = append(out.Labels, "gomaxprocs="+strconv.Itoa(c.Procs))
	}
	if c.Flip {
		defer startFlipper()()
		out.Labels = append(out.Labels, "gomaxprocs-flipping-2<->7-meanwhile")
	}
	finish := func(m string, evals int) pbt.Outcome {
		out.Evals = evals
		if m != "" {
			return pbt.Outcome{Violation: fmt.Sprintf("[%s elements, front=%d spare=%d named=%v] %s", k.name, front, spare, c.Named, m), Labels: out.Labels, Evals: evals}
		}
		return out
	}
	switch c.Mode {
	case "gc":
		return finish(runGC[S](k, c, front, spare, &out))
	case "wrap":
		return finish(runWrap[S](k, c, &out))
	case "guard":
		return finish(runGuard[S](k, c, front, spare, &out))
	case "local":
		return finish(runLocal[S](k, c, front, spare, &out))
	case "gap", "sleep", "twins":
		return finish(runHistory[S](k, c, front, spare, &out))
	}

	var e *env[S, E]
	var back S
	if !k.zst && front+spare > 1<<12 {
		// big unused parts: no second copy of the array, expected elements are recomputed
		e, back = formulaEnv[S](k, 0), fill[S](k, front+n+spare, 0)
	} else {
		e, back = newEnv[S](k, front+n+spare, 0)
	}
	if c.Mode == "deep" {
		e.limit = maxRealN
	}
	s := back[front : front+n]
	if n == 0 && front+spare == 0 {
		s = nil
		out.Labels = append(out.Labels, "nil-slice")
	}

	var m string
	switch c.Mode {
	case "nested":
		m = runNested(e, s, front, c)
	case "abort":
		m = runAbort(e, s, front, c, &out)
	case "repeat":
		m = runRepeat(e, s, front, c, &out)
	case "kept":
		m = runKept(e, s, front, c, &out)
	default:
		var skipped []string
		m, skipped = e.some(c.Fn, "", s, front, size)
		if c.Fn != "" {
			out.Labels = append(out.Labels, "only:"+c.Fn)
		}
		if len(skipped) > 0 {
			out.Labels = append(out.Labels, skipped...)
			full := 0
			for _, l := range skipped {
				if strings.HasPrefix(l, "skip:") && !strings.HasSuffix(l, "-result-only") {
					full++
				}
			}
			if full == 3 || (c.Fn != "" && full == len(c.Fn)) {
				out.Skipped = true
				out.NonTrivial = false
			}
		}
	}
	if m == "" {
		m = e.err
	}
	if m == "" {
		m = e.unchanged(back)
	}
	if m == "" && len(s) != n {
		m = "harness: slice length changed"
	}
	return finish(m, e.evals)
}

// runNested: the callbacks call the functions again; results of earlier calls are checked after later calls.
func runNested[S ~[]E, E any](e *env[S, E], s S, base int, c Case) string {
	n, size, size2 := len(s), c.Size, c.Size2
	if size2 < 1 {
		size2 = 1
	}
	if n > 4096 {
		return "" // quadratic mode: small inputs only
	}
	// a second, independent live slice that is used alternately with the first one
	e3, back3 := newEnv[S](e.k, n+size2+2, 1000)
	t3 := back3[1 : n+size2]
	inner := func(ctx string, piece S, pbase int) {
		if e.err != "" || e3.err != "" {
			return
		}
		if m, _ := e.six(ctx, piece, pbase, size2); m != "" {
			return
		}
		// and the whole input again, with the outer size, while the outer call is in progress
		if m, _ := e.six(ctx+"whole input: ", s, base, size); m != "" {
			return
		}
		// and an independent slice
		if m, _ := e3.six(ctx+"independent second slice: ", t3, 1, size2); m != "" {
			e.fail("%s", m)
		}
	}

	{
		cb, done := e.chunkVisitor("ChunkFunc", base, n, size)
		i := 0
		slices.ChunkFunc(s, size, func(p S) {
			cb(p)
			inner(fmt.Sprintf("inside ChunkFunc(n=%d,size=%d) callback %d: ", n, size, i), p, base+i*size)
			i++
		})
		if m := done(); m != "" {
			return m
		}
	}
	{
		cb, done := e.windowVisitor("WindowedFunc", base, n, size)
		i := 0
		slices.WindowedFunc(s, size, func(w S) {
			cb(w)
			inner(fmt.Sprintf("inside WindowedFunc(n=%d,size=%d) callback %d: ", n, size, i), w, base+i)
			i++
		})
		if m := done(); m != "" {
			return m
		}
	}
	{
		cb, done := e.pairVisitor("PairsFunc", base, n)
		i := 0
		slices.PairsFunc(s, func(a, b E) {
			cb(a, b)
			if i+2 <= n {
				inner(fmt.Sprintf("inside PairsFunc(n=%d) callback %d: ", n, i), s[i:i+2], base+i)
			}
			i++
		})
		if m := done(); m != "" {
			return m
		}
	}
	if e.err != "" {
		return e.err
	}

	// kept results
	r1, w1, p1 := slices.Chunk(s, size), slices.Windowed(s, size), slices.Pairs(s)
	n2 := n + size2
	e2, back2 := newEnv[S](e.k, n2+1, 100)
	t := back2[1:]
	r2, w2, p2 := slices.Chunk(t, size2), slices.Windowed(t, size2), slices.Pairs(t)
	check1 := func(when string) string {
		if m := e.checkChunks("Chunk result "+when, base, n, size, r1); m != "" {
			return m
		}
		if m := e.checkWindows("Windowed result "+when, base, n, size, w1); m != "" {
			return m
		}
		return e.checkPairs("Pairs result "+when, base, n, p1)
	}
	if m := check1("after the same functions ran on another slice"); m != "" {
		return m
	}
	if m := e2.checkChunks("Chunk", 1, n2, size2, r2); m != "" {
		return m
	}
	if m := e2.checkWindows("Windowed", 1, n2, size2, w2); m != "" {
		return m
	}
	if m := e2.checkPairs("Pairs", 1, n2, p2); m != "" {
		return m
	}
	e.evals += e2.evals
	// the caller owns the returned containers: overwrite the second set
	for i := range r2 {
		r2[i] = nil
	}
	for i := range w2 {
		w2[i] = t
	}
	for i := range p2 {
		p2[i] = [2]E{}
	}
	r2, w2, p2 = append(r2[:0], t, t), append(w2[:0], t, t), append(p2[:0], [2]E{}, [2]E{})
	// ... and up to their capacity (containers of different results must not share memory)
	r2, w2, p2 = r2[:cap(r2)], w2[:cap(w2)], p2[:cap(p2)]
	for i := range r2 {
		r2[i] = t
	}
	for i := range w2 {
		w2[i] = t
	}
	for i := range p2 {
		p2[i] = [2]E{}
	}
	if m := check1("after the caller overwrote the results of later calls"); m != "" {
		return m
	}
	if m, _ := e.six("after the caller overwrote earlier results: ", s, base, size); m != "" {
		return m
	}
	// the caller changes the elements in place: every function must work from the input as it is now
	// (a result remembered for "the same slice" would be stale)
	if !e.k.zst && e.orig != nil && n > 0 {
		for i := range s {
			v := e.k.mk(base + i + 7000)
			s[i], e.orig[base+i] = v, v
		}
		if m, _ := e.six("after the caller changed the elements of the input in place: ", s, base, size); m != "" {
			return m
		}
		if m, _ := e.six("after the caller changed the elements of the input in place: ", s, base, size2); m != "" {
			return m
		}
	}
	e.evals += e3.evals
	if m := e3.unchanged(back3); m != "" {
		return "independent second slice: " + m
	}
	return e2.unchanged(back2)
}
