package c13

// C13.mega: results with 2^14 .. 2^23 pieces (tiled / blocked / parallel fast paths of the slice-returning
// functions only show above such piece counts), on element types int8, uint8, uint16, float32 (values that are
// not exactly representable decimal fractions) and int. Self-contained: it does not use the generic engine
// because every element of every piece is compared in full here (no sampling), which needs comparable types.

import (
	"fmt"
	"math/bits"
	"testing"

	"gopkg.in/typ.v4/slices"
	"verifharness/internal/pbt"
)

// MegaCase is one case of C13.mega.
type MegaCase struct {
	Kind string // u8, i8, u16, f32, int
	Fn   string // pairs, chunk, windowed
	N    int
	Size int
}

func megaHash(i int) uint32 {
	h := uint32(i) * 2654435761
	h ^= h >> 15
	h *= 2246822519
	h ^= h >> 13
	return h
}

func runMega(c MegaCase) pbt.Outcome {
	switch c.Kind {
	case "u8":
		return megaRun(c, func(i int) uint8 { return uint8(megaHash(i) >> 8) })
	case "i8":
		return megaRun(c, func(i int) int8 { return int8(megaHash(i) >> 8) })
	case "u16":
		return megaRun(c, func(i int) uint16 { return uint16(megaHash(i) >> 4) })
	case "f32":
		return megaRun(c, func(i int) float32 { return float32(int32(megaHash(i)>>20)-2048) * 0.1 })
	case "int":
		return megaRun(c, func(i int) int { return i*7 - 1<<40 })
	}
	return pbt.Fail("unknown kind %q", c.Kind)
}

func megaRun[E comparable](c MegaCase, val func(i int) E) pbt.Outcome {
	n, size := c.N, c.Size
	s := make([]E, n)
	for i := range s {
		s[i] = val(i)
	}
	out := pbt.Outcome{}
	fail := func(format string, a ...any) pbt.Outcome {
		out.Violation = fmt.Sprintf("%s of %d %s elements (element i = f(i), see megaHash), size %d: ", c.Fn, n, c.Kind, size) + fmt.Sprintf(format, a...)
		return out
	}
	// same: piece p is s[base:base+want] (by identity, or else element by element).
	same := func(p []E, base, want int) string {
		if len(p) != want {
			return fmt.Sprintf("has length %d, want %d", len(p), want)
		}
		if want > 0 && &p[0] == &s[base] {
			return ""
		}
		for j, v := range p {
			if v != s[base+j] {
				return fmt.Sprintf("element %d is %v, want s[%d] = %v", j, v, base+j, s[base+j])
			}
		}
		return ""
	}
	pieces := 0
	switch c.Fn {
	case "pairs":
		pieces = max(n-1, 0)
		ps := slices.Pairs(s)
		if len(ps) != pieces {
			return fail("Pairs returned %d pairs, want %d", len(ps), pieces)
		}
		for i, p := range ps {
			if p[0] != s[i] || p[1] != s[i+1] {
				return fail("Pairs: pair %d is %v, want [s[%d] s[%d]] = [%v %v]", i, p, i, i+1, s[i], s[i+1])
			}
		}
		i, bad := 0, ""
		slices.PairsFunc(s, func(a, b E) {
			if bad == "" && (i >= pieces || a != s[i] || b != s[i+1]) {
				bad = fmt.Sprintf("PairsFunc: callback %d got [%v %v], Pairs returned %d pairs", i, a, b, pieces)
				if i < pieces {
					bad += fmt.Sprintf(", pair %d = %v", i, ps[i])
				}
			}
			i++
		})
		if bad != "" {
			return fail("%s", bad)
		}
		if i != pieces {
			return fail("PairsFunc made %d callbacks, want %d", i, pieces)
		}
	case "chunk":
		pieces = n / size
		if n%size != 0 {
			pieces++
		}
		wantLen := func(i int) int { return min(size, n-i*size) }
		cs := slices.Chunk(s, size)
		if len(cs) != pieces {
			return fail("Chunk returned %d pieces, want %d", len(cs), pieces)
		}
		for i, p := range cs {
			if m := same(p, i*size, wantLen(i)); m != "" {
				return fail("Chunk: piece %d %s", i, m)
			}
		}
		i, bad := 0, ""
		slices.ChunkFunc(s, size, func(p []E) {
			if bad == "" {
				if i >= pieces {
					bad = fmt.Sprintf("ChunkFunc: callback %d, want only %d", i, pieces)
				} else if m := same(p, i*size, wantLen(i)); m != "" {
					bad = fmt.Sprintf("ChunkFunc: piece %d %s", i, m)
				}
			}
			i++
		})
		if bad != "" {
			return fail("%s", bad)
		}
		if i != pieces {
			return fail("ChunkFunc made %d callbacks, want %d", i, pieces)
		}
	case "windowed":
		pieces = max(n-size+1, 0)
		ws := slices.Windowed(s, size)
		if len(ws) != pieces {
			return fail("Windowed returned %d windows, want %d", len(ws), pieces)
		}
		for i, p := range ws {
			if m := same(p, i, size); m != "" {
				return fail("Windowed: window %d %s", i, m)
			}
		}
		i, bad := 0, ""
		slices.WindowedFunc(s, size, func(p []E) {
			if bad == "" {
				if i >= pieces {
					bad = fmt.Sprintf("WindowedFunc: callback %d, want only %d", i, pieces)
				} else if m := same(p, i, size); m != "" {
					bad = fmt.Sprintf("WindowedFunc: window %d %s", i, m)
				}
			}
			i++
		})
		if bad != "" {
			return fail("%s", bad)
		}
		if i != pieces {
			return fail("WindowedFunc made %d callbacks, want %d", i, pieces)
		}
	default:
		return fail("unknown function")
	}
	for i := range s {
		if s[i] != val(i) {
			return fail("input element %d changed to %v", i, s[i])
		}
	}
	out.Evals = 2
	out.NonTrivial = pieces >= 1<<14-2
	out.Labels = []string{"kind:" + c.Kind, "fn:" + c.Fn, fmt.Sprintf("pieces:2^%d", bits.Len(uint(pieces))-1)}
	if size >= 1<<14-2 {
		out.Labels = append(out.Labels, "size>=2^14")
	}
	return out
}

var specMega = pbt.Register(&pbt.Spec[MegaCase]{
	Property: "C13", Name: "C13.mega", Rule: "enumerated big results, every element of every piece compared (pieces that alias the input are accepted by identity): " +
		"for T = 2^k+d (k in 14..23, d in -2..4; for k >= 20 d in -1..2) and T = 3*2^k+d (k in 20, 21): Pairs/PairsFunc of T+1 elements; " +
		"for k <= 22 Chunk/ChunkFunc with T pieces of sizes 1, 2, 3 (every remainder; for k >= 20 three of them) and Windowed/WindowedFunc with T windows of sizes 1, 2, 5; " +
		"few big pieces: Chunk with size T on 2T+d and 3T-1 elements, Windowed with size T on T+300 elements (k in 14..23, uint8). " +
		"Element types uint8, int8 (all 256 values of both signs), uint16, float32 (multiples of 0.1 in -204.8..204.7) and int, all for Pairs with k >= 20, else in rotation; " +
		"element i is a hash of i, so a piece taken from a wrong position differs; input checked unchanged afterwards; " +
		"non-trivial = at least 2^14-2 pieces",
	Enum: func(shard, shards int, tier string, yield func(MegaCase) bool) {
		cnt := 0
		narrow := []string{"u8", "i8", "u16", "f32"}
		all := []string{"u8", "i8", "u16", "f32", "int"}
		emit := func(kind, fn string, n, size int) bool {
			if n < 0 || size < 1 {
				return true
			}
			cnt++
			if shards > 1 && cnt%shards != shard {
				return true
			}
			return yield(MegaCase{Kind: kind, Fn: fn, N: n, Size: size})
		}
		rot := func() string { return all[cnt%len(all)] }
		for k := 14; k <= 23; k++ {
			lo, hi := -2, 4
			if k >= 20 {
				lo, hi = -1, 2
			}
			for d := lo; d <= hi; d++ {
				T := 1<<k + d
				// Pairs: T pairs
				if k >= 20 {
					for _, kind := range narrow {
						if !emit(kind, "pairs", T+1, 1) {
							return
						}
					}
					if k <= 22 || d == 1 {
						if !emit("int", "pairs", T+1, 1) {
							return
						}
					}
				} else if !emit(rot(), "pairs", T+1, 1) || !emit(rot(), "pairs", T+1, 1) {
					return
				}
				// Chunk / Windowed: T pieces
				if k <= 22 {
					if k >= 20 {
						if !emit(rot(), "chunk", T, 1) || !emit(rot(), "chunk", 2*T-1, 2) || !emit(rot(), "chunk", 3*T-1, 3) ||
							!emit(rot(), "windowed", T, 1) || !emit(rot(), "windowed", T+1, 2) || !emit(rot(), "windowed", T+4, 5) {
							return
						}
					} else {
						for size := 1; size <= 3; size++ {
							for r := 0; r < size; r++ {
								if !emit(rot(), "chunk", T*size-r, size) {
									return
								}
							}
						}
						for _, size := range []int{1, 2, 5} {
							if !emit(rot(), "windowed", T+size-1, size) {
								return
							}
						}
					}
				}
				// few big pieces
				if !emit("u8", "chunk", 2*T+d, T) || !emit("i8", "chunk", 3*T-1, T) || !emit("u8", "windowed", T+300, T) {
					return
				}
			}
		}
		for k := 20; k <= 21; k++ {
			for d := -1; d <= 2; d++ {
				T := 3<<k + d
				for _, kind := range narrow {
					if !emit(kind, "pairs", T+1, 1) {
						return
					}
				}
			}
		}
	},
	Run: runMega, Exhaustive: true,
})

func TestC13Mega(t *testing.T) { pbt.Check(t, specMega) }
