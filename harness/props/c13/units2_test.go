package c13

import (
	"syscall"
	"testing"
	"unsafe"

	"pgregory.net/rapid"
	"verifharness/internal/pbt"
)

// Units of the fourth round: extreme lengths on one goroutine, inputs at the edge of readable memory, inputs in the
// caller's stack frame, histories with exact gaps / wall-clock time / equally named types, kept results.
//
//	C13.deep    2^22 .. 2^24 (thorough 2^25) pieces from one call on one goroutine (one-byte and zero-size elements)
//	C13.guard   inputs in mapped memory that end (start) exactly where readable memory ends (starts)
//	C13.local   inputs that are local arrays of the caller; pieces kept beyond the frame and across stack growth
//	C13.gap     two calls on one slice separated by exactly 2^8+-2 / 2^16+-2 calls of the same function on other data
//	C13.sleep   2.1 s (thorough also 5.1 s) of wall-clock time in the middle of a history
//	C13.twins   slices of four different element types that are all called "job", used alternately
//	C13.kept    results of 2^5 .. 2^17 bytes and pieces kept across the same calls on a second slice

// ---------------------------------------------------------------- C13.deep

func runDeep(c Case) pbt.Outcome {
	out := Run(c)
	out.NonTrivial = out.Violation == "" && !out.Skipped && c.N >= 1<<22
	return out
}

var specDeep = pbt.Register(&pbt.Spec[Case]{
	Property: "C13", Name: "C13.deep", Rule: "one call that has to deliver millions of pieces on one goroutine (whatever a function does once per piece or per element - a stack frame, a list node - is multiplied): " +
		"for T = 2^k, k in 22..24 (thorough 22..25): uint8 elements: ChunkFunc with T chunks of size 1 (top k: also T-1, T+1 chunks; k = 24: also T chunks of size 2 with a last chunk of 1 and of 2), WindowedFunc with T windows of size 1 (top k: also 16), " +
		"PairsFunc and Pairs with T pairs; k = 24 and k = 22: Chunk with T chunks and Windowed with T windows (results of 24*T bytes), uint8; " +
		"zero-size elements (struct{}): ChunkFunc, WindowedFunc, PairsFunc with T pieces, size 1; every piece is checked (content, length, order); the process dying of a stack overflow counts as a violation of the running case; " +
		"non-trivial = n >= 2^22",
	Enum: func(shard, shards int, tier string, yield func(Case) bool) {
		top := 24
		if tier == "thorough" {
			top = 25
		}
		cnt := 0
		emit := func(kind, fn string, n, size int) bool {
			cnt++
			if shards > 1 && cnt%shards != shard {
				return true
			}
			return yield(Case{Mode: "deep", Kind: kind, Fn: fn, N: n, Size: size, Front: cnt % 2, Spare: cnt % 3, Named: cnt%2 == 0})
		}
		for k := top; k >= 22; k-- { // biggest first
			for d := -1; d <= 1; d++ {
				if d != 0 && k != top {
					continue
				}
				T := 1<<k + d
				if !emit("u8", "x", T, 1) {
					return
				}
				if d != 0 {
					continue
				}
				if !emit("u8", "y", T, 1) || !emit("u8", "zP", T+1, 1) || !emit("z-struct", "xyz", T+1, 1) {
					return
				}
				if k == top && !emit("u8", "y", T+15, 16) {
					return
				}
				if k == 24 && (!emit("u8", "x", 2*T, 2) || !emit("u8", "x", 2*T-1, 2)) {
					return
				}
				if (k == 24 || k == 22) && (!emit("u8", "C", T, 1) || !emit("u8", "W", T, 1)) {
					return
				}
			}
		}
	},
	Run: runDeep, Exhaustive: true, Crashy: true,
})

// ---------------------------------------------------------------- C13.guard

var rawKinds = []struct {
	kind  string
	bytes int
}{{"", int(unsafe.Sizeof(int(0)))}, {"u8", 1}, {"b3", 3}, {"i32", 4}, {"f64", 8}, {"wide", 128}, {"xwide", 1040}}

var specGuard = pbt.Register(&pbt.Spec[Case]{
	Property: "C13", Name: "C13.guard", Rule: "inputs at the edge of readable memory: the backing array lies in pages mapped by the harness with an inaccessible page in front of and behind them, placed so that it " +
		"ends exactly at the end of the readable pages (spare capacity 0: the last element of the slice is the last readable memory) or starts exactly at their start (front 0), or both when its size is a multiple of the page size; " +
		"a function that reads or writes one element outside the backing array faults, which is reported; all six functions, every piece checked. Element kinds without pointers: int, uint8, [3]uint8, int32, float64, 128-byte and 1040-byte structs. " +
		"Enumerated: n in 0..24 x size in {1,2,3,4,7,n,n+1} x both placements per kind; n*elemsize around one page, two pages, 16 pages (+-1 element, and exactly) with size in {1,2,n/2,n}; " +
		"also with spare 1 / front 1 (the slice itself one element away from the edge). rapid: kind, placement, n in 0..12 / 0..600 / up to 3 pages, sizes as C13.rand, front/spare 0..2; " +
		rule + "non-trivial = n >= 2 and the slice itself touches the edge",
	Enum: func(shard, shards int, tier string, yield func(Case) bool) {
		ps := syscall.Getpagesize()
		cnt := 0
		emit := func(kind, place string, n, size, front, spare int) bool {
			if n < 0 || size < 1 {
				return true
			}
			cnt++
			if shards > 1 && cnt%shards != shard {
				return true
			}
			return yield(Case{Mode: "guard", Kind: kind, Place: place, N: n, Size: size, Front: front, Spare: spare, Named: cnt%2 == 0})
		}
		for _, rk := range rawKinds {
			for n := 0; n <= 24; n++ {
				for _, size := range []int{1, 2, 3, 4, 7, n, n + 1} {
					if !emit(rk.kind, "end", n, size, n%3, 0) || !emit(rk.kind, "start", n, size, 0, n%3) {
						return
					}
				}
				if !emit(rk.kind, "end", n, 2, 1, 1) || !emit(rk.kind, "start", n, 2, 1, 1) {
					return
				}
			}
			for _, pages := range []int{1, 2, 16} {
				per := pages * ps / rk.bytes // elements that fit
				for d := -1; d <= 1; d++ {
					n := per + d
					for _, size := range []int{1, 2, n / 2, n} {
						if !emit(rk.kind, "end", n, size, 0, 0) || !emit(rk.kind, "start", n, size, 0, 0) {
							return
						}
					}
				}
			}
		}
	},
	Gen: func(t *rapid.T) Case {
		rk := rapid.SampledFrom(rawKinds).Draw(t, "kind")
		var n int
		switch c := rapid.IntRange(0, 9).Draw(t, "n-class"); {
		case c < 4:
			n = rapid.IntRange(0, 12).Draw(t, "n")
		case c < 8:
			n = rapid.IntRange(0, 600).Draw(t, "n")
		default:
			n = rapid.IntRange(0, 3*syscall.Getpagesize()/rk.bytes).Draw(t, "n")
		}
		c := Case{Mode: "guard", Kind: rk.kind, Place: rapid.SampledFrom([]string{"end", "start"}).Draw(t, "place"), N: n, Size: genSize(t, n), Named: rapid.Bool().Draw(t, "named")}
		if rapid.IntRange(0, 3).Draw(t, "off-edge") == 0 {
			c.Front, c.Spare = rapid.IntRange(0, 2).Draw(t, "front"), rapid.IntRange(0, 2).Draw(t, "spare")
		} else if c.Place == "end" {
			c.Front = rapid.IntRange(0, 2).Draw(t, "front")
		} else {
			c.Spare = rapid.IntRange(0, 2).Draw(t, "spare")
		}
		return c
	},
	Run: Run, Quick: 1500, Thorough: 40000, Replicas: 4, ReplicaEvery: 8, Crashy: true,
})

// ---------------------------------------------------------------- C13.local

var localKinds = []string{"", "u8", "f64", "b3", "i32", "wide", "string", "ptr", "nc", "iface"} // kinds without pointers first

var specLocal = pbt.Register(&pbt.Spec[Case]{
	Property: "C13", Name: "C13.local", Rule: "inputs whose backing array is a local variable of the calling function ([8]E, [64]E, [1024]E, or a make(S, 48) with a constant size), which the compiler may keep on the " +
		"goroutine stack when the callee does not let its argument escape: the results of Chunk and Windowed and the pieces kept by the callbacks of ChunkFunc and WindowedFunc are compared (by value, with the formula the input was made from) " +
		"(a) after the function that owned the array has returned and other calls have overwritten that part of the stack, in one case of three again after a garbage collection; (b) in a fresh goroutine: right after the calls, after the goroutine stack was moved " +
		"(deep recursion) and three other goroutines grew through the same stack sizes overwriting them, and (one case in three) after a garbage collection. Enumerated: 10 element kinds (int, uint8, float64, [3]uint8, int32, 128-byte struct, string, pointer, " +
		"non-comparable struct, interface) x (a),(b) x array/make x (n, size, front, spare) in a grid n in {1,5,8} x size in {1,3,n+1} for [8]E, n in {9,48,64} x {1,5,n} for [64]E and make (n <= 48), n in {65,1024} x {1,7} for [1024]E; " +
		"rapid: kind, variant, n in 0..8 / 0..64 / 0..1024, sizes as C13.rand; non-trivial = n >= 1",
	Enum: func(shard, shards int, tier string, yield func(Case) bool) {
		cnt := 0
		for _, kind := range localKinds {
			for v := 0; v < 4; v++ {
				for _, g := range []struct{ ns, sizes []int }{{[]int{1, 5, 8}, []int{1, 3, -1}}, {[]int{9, 48, 64}, []int{1, 5, 0}}, {[]int{65, 1024}, []int{1, 7}}} {
					for _, n := range g.ns {
						if v >= 2 && n > 48 {
							continue
						}
						for _, size := range g.sizes {
							switch size {
							case -1:
								size = n + 1
							case -2:
								size = n / 2
							case 0:
								size = n
							}
							cnt++
							if shards > 1 && cnt%shards != shard {
								continue
							}
							c := Case{Mode: "local", Kind: kind, Var: v, N: n, Size: size, Named: cnt%2 == 0}
							if n < 8 || n > 8 && n < 48 || n > 64 && n < 1000 {
								c.Front, c.Spare = cnt%2, cnt%3%2
							}
							if !yield(c) {
								return
							}
						}
					}
				}
			}
		}
	},
	Gen: func(t *rapid.T) Case {
		kind := rapid.SampledFrom(localKinds).Draw(t, "kind")
		v := rapid.IntRange(0, 3).Draw(t, "variant")
		L := rapid.SampledFrom([]int{8, 64, 1024}).Draw(t, "array")
		if v >= 2 {
			L = 48
		}
		n := rapid.IntRange(0, L).Draw(t, "n")
		front := rapid.IntRange(0, min(3, L-n)).Draw(t, "front")
		spare := rapid.IntRange(0, min(3, L-n-front)).Draw(t, "spare")
		return Case{Mode: "local", Kind: kind, Var: v, N: n, Size: genSize(t, n), Front: front, Spare: spare, Named: rapid.Bool().Draw(t, "named")}
	},
	Run: Run, Quick: 150, Thorough: 5000, Replicas: 4, ReplicaEvery: 8, Crashy: true,
})

// ---------------------------------------------------------------- C13.gap

var specGap = pbt.Register(&pbt.Spec[Case]{
	Property: "C13", Name: "C13.gap", Rule: "two calls of one function on the same slice separated by exactly G calls of the same function on OTHER data (nine other live slices: five of the same element type with other lengths, four of " +
		"different element types that are all called job, sizes 1..5 in rotation; every call checked in full), G = 2^k+d for k in {8, 16} (thorough also 12, 15, 17), d in -2..2, separately for each of Chunk, ChunkFunc, Windowed, WindowedFunc, Pairs, PairsFunc; " +
		"the Chunk, Windowed and Pairs results kept from before the gap are checked again after it; (n, size) in {(5,2), (3,5), (12,4)} (quick, k = 16: two of the three per G; k = 8: also (1,1), (2,1), (40,7)) for element kinds int, non-comparable struct and struct{}; " +
		"non-trivial = G >= 200",
	Enum: func(shard, shards int, tier string, yield func(Case) bool) {
		ks := []int{16, 8}
		if tier == "thorough" {
			ks = []int{17, 16, 15, 12, 8}
		}
		cnt := 0
		for _, k := range ks {
			for d := -2; d <= 2; d++ {
				nss := [][2]int{{5, 2}, {3, 5}, {12, 4}}
				if k == 8 {
					nss = append(nss, [2]int{1, 1}, [2]int{2, 1}, [2]int{40, 7})
				}
				for i, ns := range nss {
					if k > 8 && tier != "thorough" && i == (d+2)%3 {
						continue // quick: two of the three per G
					}
					kind := []string{"", "nc", "z-struct"}[(i+d+2)%3]
					cnt++
					if shards > 1 && cnt%shards != shard {
						continue
					}
					if !yield(Case{Mode: "gap", Kind: kind, N: ns[0], Size: ns[1], Reps: 1<<k + d, Front: cnt % 2, Spare: cnt % 3, Named: cnt%2 == 0}) {
						return
					}
				}
			}
		}
	},
	Run: Run, Exhaustive: true, Replicas: 4, ReplicaEvery: 8,
})

// ---------------------------------------------------------------- C13.sleep

var specSleep = pbt.Register(&pbt.Spec[Case]{
	Property: "C13", Name: "C13.sleep", Rule: "wall-clock time passes in the middle of a history: all six functions on three live slices (two of one element kind, one of a type called job), results kept, the goroutine sleeps 2.1 s " +
		"(thorough: also 5.1 s, and two such rounds), then the kept results are checked again and all six functions are checked on all slices with two sizes; element kinds int, non-comparable struct, struct{} with (n, size) = (7,3), (2,1), (20,6); " +
		"no verdict depends on the measured time; non-trivial = slept at least 2 s",
	Enum: func(shard, shards int, tier string, yield func(Case) bool) {
		cnt := 0
		sleeps := []int{2100}
		if tier == "thorough" {
			sleeps = []int{2100, 5100}
		}
		for _, ms := range sleeps {
			for i, kind := range []string{"", "nc", "z-struct"} {
				ns := [][2]int{{7, 3}, {2, 1}, {20, 6}}[i]
				cnt++
				if shards > 1 && cnt%shards != shard {
					continue
				}
				c := Case{Mode: "sleep", Kind: kind, N: ns[0], Size: ns[1], Sleep: ms, Var: 1, Front: 1, Spare: i, Named: i == 1}
				if tier == "thorough" {
					c.Var = 2
				}
				if !yield(c) {
					return
				}
			}
		}
	},
	Run: Run, Exhaustive: true, Replicas: 4, ReplicaEvery: 8,
})

// ---------------------------------------------------------------- C13.twins

var specTwins = pbt.Register(&pbt.Spec[Case]{
	Property: "C13", Name: "C13.twins", Rule: "distinct element types with the same name in one process: four function-local types that are all called job (struct{id int}, struct{tag string; id int32; w [2]uint64}, struct{id uint8}, struct{}), " +
		"two of them with slice types that are both called jobs, are used alternately with a slice of one of the usual kinds for three rounds: kept results of the round before checked, all six functions checked, results kept; " +
		"exhaustive grid n in 0..10 x size in 1..12 for element kinds int, string, struct{}; non-trivial = n >= 1",
	Enum: func(shard, shards int, tier string, yield func(Case) bool) {
		for ki, kind := range []string{"", "string", "z-struct"} {
			for n := 0; n <= 10; n++ {
				for size := 1; size <= 12; size++ {
					if !yield(Case{Mode: "twins", Kind: kind, N: n, Size: size, Front: n % 2, Spare: (size + ki) % 2, Named: (n+size)%2 == 0}) {
						return
					}
				}
			}
		}
	},
	Run: Run, Exhaustive: true, Replicas: 4, ReplicaEvery: 8,
})

// ---------------------------------------------------------------- C13.kept

var specKept = pbt.Register(&pbt.Spec[Case]{
	Property: "C13", Name: "C13.kept", Rule: "results kept across the next call: Chunk, Windowed and Pairs of one slice are kept while the same functions run on a second slice of the same length, then checked in full. " +
		"Enumerated so that result sizes of exactly 2^j bytes occur for j = 5..17: for T = 2^k+d, k in 2..13, d in -1..1: T pairs of uint8 (2T bytes), int32 (8T), int (16T), 128-byte elements (256T); T windows / T chunks (24T-byte containers) " +
		"with sizes 1, 2, 3 and pieces of 2^k bytes (uint8, size T); 1..2^13 pieces of zero-size elements; non-trivial = n >= 30",
	Enum: func(shard, shards int, tier string, yield func(Case) bool) {
		cnt := 0
		emit := func(kind string, n, size int) bool {
			if n < 0 || size < 1 {
				return true
			}
			cnt++
			if shards > 1 && cnt%shards != shard {
				return true
			}
			return yield(Case{Mode: "kept", Kind: kind, N: n, Size: size, Front: cnt % 2, Spare: cnt % 3, Named: cnt%2 == 0})
		}
		for k := 2; k <= 13; k++ {
			for d := -1; d <= 1; d++ {
				T := 1<<k + d
				for _, kind := range []string{"u8", "i32", "", "wide", "z-struct"} {
					if kind == "wide" && k > 11 {
						continue
					}
					if !emit(kind, T+1, 1) || !emit(kind, T+1, 2) || !emit(kind, 3*T, 3) {
						return
					}
				}
				if !emit("u8", 4*T+1, T) || !emit("u8", T+3, T) {
					return
				}
			}
		}
	},
	Run: Run, Exhaustive: true, Replicas: 4, ReplicaEvery: 8,
})

func TestC13Deep(t *testing.T)  { pbt.Check(t, specDeep) }
func TestC13Guard(t *testing.T) { pbt.Check(t, specGuard) }
func TestC13Local(t *testing.T) { pbt.Check(t, specLocal) }
func TestC13Gap(t *testing.T)   { pbt.Check(t, specGap) }
func TestC13Sleep(t *testing.T) { pbt.Check(t, specSleep) }
func TestC13Twins(t *testing.T) { pbt.Check(t, specTwins) }
func TestC13Kept(t *testing.T)  { pbt.Check(t, specKept) }
