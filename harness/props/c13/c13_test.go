// Package c13 decides C13: Chunk, Windowed and Pairs partition a slice exactly.
//
// One generic engine (engine.go) checks all six functions on a case
// (element kind, n, size, position of the slice inside its backing array);
// the units below differ only in how cases are produced:
//
//	C13.enum    exhaustive small grid, int elements, sizes next to MaxInt
//	C13.rand    rapid: every element kind, named/unnamed slice types, several size classes
//	C13.big     enumerated thresholds: n / size / number of pieces around every power of two; short slices inside arrays with > 1 MiB unused capacity
//	C13.types   exhaustive small grid for every element kind (non-comparable, NaN, nil, 128 and 1040 bytes wide, odd sizes, zero-size ...)
//	C13.zst     zero-size element types: small grid + lengths and unused capacities around 2^31 .. MaxInt
//	C13.nested  the functions called again from inside the callbacks (also on a second live slice), results of earlier calls checked after later calls, input changed in place
//	C13.par     2^8 .. 2^19 (thorough 2^25) elements under GOMAXPROCS 1, 2, 3, 5, 6, 7, default; results looked at the moment the call returns
//	C13.gc      inputs that only the callee refers to + a garbage collection and same-sized allocations in the middle of the call
//	C13.abort   calls aborted by a panic / runtime.Goexit of the callback, followed by independent calls
//	C13.repeat  more than 2^16 repetitions of the same cheap calls, alternately on two live slices
//	C13.wrap32  (thorough only) more than 2^32 repetitions of one call; single calls with more than 2^32 callbacks
//	C13.mega    enumerated results of 2^14 .. 2^23 pieces (uint8, int8, uint16, float32, int), every element compared: see mega_test.go
//	C13.deep, C13.guard, C13.local, C13.gap, C13.sleep, C13.twins, C13.kept: see units2_test.go
//
// All units except C13.par (process-wide GOMAXPROCS), C13.deep (hundreds of MB per case) and C13.wrap32 (minutes per case) also run one case in eight as
// four parallel independent copies (pbt Replicas): Run writes no package-level state.
package c13

import (
	"math"
	"math/bits"
	"strconv"
	"testing"
	"time"

	"pgregory.net/rapid"
	"verifharness/internal/pbt"
)

const rule = "case = (element kind, named or unnamed slice type, n, size>=1, offset in / spare capacity behind the backing array); " +
	"element i is distinguishable by position wherever the kind allows; all six functions " +
	"(Chunk, ChunkFunc, Windowed, WindowedFunc, Pairs, PairsFunc) are checked on each case against the " +
	"definitions (piece count, piece lengths, piece i = s[i*size:...], window/pair i = s[i:i+size]; callbacks checked " +
	"at the time of the call), input unchanged afterwards; a slice-returning function is skipped (label skip:*) only when its " +
	"result would have more than 2^16 pieces of a zero-size type; a Func variant that would have to make more than 2^17+16 callbacks on a zero-size type is called all the same, its callback number 257 + n mod 97 " +
	"leaves the call by a panic that the harness recovers (label aborted:*; all callbacks up to there are checked, any other panic is a violation); "

const ntBase = "non-trivial = n mod size >= 2 or size > n (with n >= 1)"

// ---------------------------------------------------------------- C13.enum

var specEnum = pbt.Register(&pbt.Spec[Case]{
	Property: "C13", Name: "C13.enum", Rule: "exhaustive grid n in 0..40 x size in 1..45 (thorough: n in 0..120 x size in 1..125), int elements, " +
		"plus n in 0..12 x sizes next to MaxInt, 2^62, 2^32, 2^31-1; " + rule + ntBase,
	Enum: func(shard, shards int, tier string, yield func(Case) bool) {
		maxN, maxS := 40, 45
		if tier == "thorough" {
			maxN, maxS = 120, 125
		}
		for n := 0; n <= maxN; n++ {
			for size := 1; size <= maxS; size++ {
				if !yield(Case{N: n, Size: size, Spare: (n + size) % 3, Front: (n + 2*size) % 2, Named: n%2 == 0}) {
					return
				}
			}
		}
		// sizes near the top of the int range (size arithmetic such as n+size-1 must not overflow)
		for n := 0; n <= 12; n++ {
			for _, size := range []int{math.MaxInt, math.MaxInt - 1, math.MaxInt - n, math.MaxInt - n + 1, math.MaxInt/2 + 1, 1 << 62, 1 << 32, 1<<31 - 1} {
				if size >= 1 && !yield(Case{N: n, Size: size, Spare: n % 2, Named: true}) {
					return
				}
			}
		}
	},
	Run: Run, Exhaustive: true, Replicas: 4, ReplicaEvery: 8,
})

// ---------------------------------------------------------------- C13.rand

func genSize(t *rapid.T, n int) int {
	switch rapid.IntRange(0, 9).Draw(t, "size-class") {
	case 0, 1, 2, 3:
		return rapid.IntRange(1, n+5).Draw(t, "size")
	case 4, 5:
		return rapid.IntRange(1, 9).Draw(t, "size-small")
	case 6:
		return max(1, n+rapid.IntRange(-3, 3).Draw(t, "size-near-n"))
	case 7:
		return max(1, n/2+rapid.IntRange(-2, 2).Draw(t, "size-near-half"))
	case 8:
		return max(1, n/max(1, rapid.IntRange(1, 40).Draw(t, "pieces"))+rapid.IntRange(-1, 1).Draw(t, "size-near-quot"))
	default:
		return math.MaxInt - rapid.IntRange(0, n+2).Draw(t, "below-max")
	}
}

var specRand = pbt.Register(&pbt.Spec[Case]{
	Property: "C13", Name: "C13.rand", Rule: "rapid: element kind drawn from all " + strconv.Itoa(len(allKinds)) + " kinds (int, string, float64 with NaN/-0, " +
		"pointers with nils, non-comparable struct, 128-byte struct, 1040-byte struct, uint8, [3]uint8, int32, interface values, five zero-size types), named or unnamed slice type, " +
		"n in 0..12 / 0..300 / 300..3000 (weights 4:5:1), size in 1..n+5 / 1..9 / n+-3 / n/2+-2 / n/k+-1 / MaxInt-0..n+2, offset 0..3, spare 0..4; " + rule + ntBase,
	Gen: func(t *rapid.T) Case {
		kind := rapid.SampledFrom(allKinds).Draw(t, "kind")
		if rapid.IntRange(0, 2).Draw(t, "plain-int") == 0 {
			kind = ""
		}
		var n int
		switch c := rapid.IntRange(0, 9).Draw(t, "n-class"); {
		case c < 4:
			n = rapid.IntRange(0, 12).Draw(t, "n")
		case c < 9:
			n = rapid.IntRange(0, 300).Draw(t, "n")
		default:
			n = rapid.IntRange(300, 3000).Draw(t, "n")
		}
		return Case{Kind: kind, Named: rapid.Bool().Draw(t, "named"), N: n, Size: genSize(t, n),
			Front: rapid.IntRange(0, 3).Draw(t, "front"), Spare: rapid.IntRange(0, 4).Draw(t, "spare")}
	},
	Run: Run, Quick: 10000, Thorough: 100000, Replicas: 4, ReplicaEvery: 8,
})

// ---------------------------------------------------------------- C13.big

// isqrt returns floor(sqrt(x)) for small x.
func isqrt(x int) int {
	r := int(math.Sqrt(float64(x)))
	for r*r > x {
		r--
	}
	for (r+1)*(r+1) <= x {
		r++
	}
	return r
}

func runBig(c Case) pbt.Outcome {
	out := Run(c)
	// non-trivial for this unit: some quantity of the case is beyond the small grid
	out.NonTrivial = out.Violation == "" && (c.N >= 30 || c.Size >= 30 || c.Front+c.Spare > 1000)
	return out
}

var specBig = pbt.Register(&pbt.Spec[Case]{
	Property: "C13", Name: "C13.big", Rule: "enumerated thresholds: for every T = 2^k+d, k in 5..13 (thorough 5..16), d in -2..2: " +
		"(a) exactly T windows: size in {1,2,3,8,61}, n = T+size-1; (b) exactly T chunks: size in {1,2,3,7}, last chunk of length 1 and of length size; " +
		"(c) n = T with size in {T/2-1,T/2,T/2+1,T-2,T-1,T,T+1,isqrt(T),isqrt(T)+1}; (d) size = T with n = q*T+r, q in 1..3, r in {0,1,2,T-1}; " +
		"(f) n in {0,5,1000} x size in {1,3,n+1} inside a backing array with more than 1 MiB and 3 MiB of unused capacity behind, in front of, or on both sides of the slice, for 8 element kinds; " +
		"(e) every n in 0..2200 (thorough 0..20000) with size 1, i.e. every number of windows, chunks and pairs up to that bound, with int and with struct{} elements, and for the first quarter of that range also sizes 2, 3 and 128-byte elements (sizes 1, 2); " +
		"int elements throughout, (a) size 2 and (b) size 3 also with 128-byte, uint8 and zero-size elements; window contents are compared in full up to 2^20 element " +
		"comparisons per call and at 64 spread positions per window beyond; " + rule + "non-trivial = n >= 30 or size >= 30 or more than 1 MiB unused capacity",
	Enum: func(shard, shards int, tier string, yield func(Case) bool) {
		maxK := 13
		if tier == "thorough" {
			maxK = 16
		}
		cnt := 0
		emit := func(kind string, n, size int) bool {
			if n < 0 || size < 1 {
				return true
			}
			cnt++
			if shards > 1 && cnt%shards != shard {
				return true
			}
			return yield(Case{Kind: kind, N: n, Size: size, Front: cnt % 3, Spare: cnt % 2, Named: cnt%4 < 2})
		}
		for k := 5; k <= maxK; k++ {
			for d := -2; d <= 2; d++ {
				T := 1<<k + d
				for _, size := range []int{1, 2, 3, 8, 61} { // (a)
					if !emit("", T+size-1, size) {
						return
					}
				}
				for _, size := range []int{1, 2, 3, 7} { // (b)
					if !emit("", (T-1)*size+1, size) || (size > 1 && !emit("", T*size, size)) {
						return
					}
				}
				r := isqrt(T)
				for _, size := range []int{T/2 - 1, T / 2, T/2 + 1, T - 2, T - 1, T, T + 1, r, r + 1} { // (c)
					if !emit("", T, size) {
						return
					}
				}
				for q := 1; q <= 3; q++ { // (d)
					for _, rem := range []int{0, 1, 2, T - 1} {
						if !emit("", q*T+rem, T) {
							return
						}
					}
				}
				for _, kind := range []string{"wide", "u8", "z-struct", "z-arr0"} {
					if !emit(kind, T+1, 2) || !emit(kind, (T-1)*3+1, 3) {
						return
					}
				}
			}
		}
		// (e) every length, so that every number of pieces up to the bound occurs exactly (thresholds that are not powers of two)
		sweep := 2200
		if tier == "thorough" {
			sweep = 20000
		}
		for n := 0; n <= sweep; n++ {
			if !emit("", n, 1) || !emit("z-struct", n, 1) {
				return
			}
			if n <= sweep/4 && (!emit("", n, 2) || !emit("", n, 3) || !emit("wide", n, 1) || !emit("wide", n, 2)) {
				return
			}
		}
		// (f) short slices inside a backing array with more than 1 MiB of unused capacity behind and/or in front of them
		for ki, ks := range []struct {
			kind string
			size int // element size in bytes
		}{{"", 8}, {"u8", 1}, {"b3", 3}, {"string", 16}, {"nc", 40}, {"wide", 128}, {"xwide", 1040}, {"iface", 16}} {
			for bi, unused := range []int{1<<20 + 4096, 3<<20 + 24} {
				if bi > 0 && ks.size >= 16 && ks.size < 128 {
					continue // elements that need an allocation each: the smaller array only
				}
				elems := unused/ks.size + 1
				for ni, n := range []int{0, 5, 1000} {
					for _, size := range []int{1, 3, n + 1} {
						front, spare := 0, elems
						switch (ki + bi + ni) % 3 {
						case 1:
							front, spare = elems, 0
						case 2:
							front, spare = elems/2, elems/2
						}
						cnt++
						if shards > 1 && cnt%shards != shard {
							continue
						}
						if !yield(Case{Kind: ks.kind, N: n, Size: size, Front: front, Spare: spare, Named: cnt%2 == 0}) {
							return
						}
					}
				}
			}
		}
	},
	Run: runBig, Exhaustive: true, Replicas: 4, ReplicaEvery: 8,
})

// ---------------------------------------------------------------- C13.types

var specTypes = pbt.Register(&pbt.Spec[Case]{
	Property: "C13", Name: "C13.types", Rule: "exhaustive grid n in 0..20 x size in 1..23 (thorough: 0..48 x 1..51) for each of the " + strconv.Itoa(len(allKinds)) +
		" element kinds: int, string (with \"\"), float64 (NaN, -0, +0 compared by bits), *int (with nil, compared by identity), non-comparable struct {id, func, slice}, " +
		"128-byte struct, 1040-byte struct, uint8, [3]uint8, int32, interface values (int, nil, string, non-comparable []int), and the zero-size types struct{}, [0]int, [0]func(), " +
		"struct{[0]string; struct{}}, [3]struct{} (only counts and lengths can be checked for those); named and unnamed slice types alternate; " + rule + ntBase,
	Enum: func(shard, shards int, tier string, yield func(Case) bool) {
		maxN, maxS := 20, 23
		if tier == "thorough" {
			maxN, maxS = 48, 51
		}
		for ki, kind := range allKinds {
			for n := 0; n <= maxN; n++ {
				for size := 1; size <= maxS; size++ {
					if !yield(Case{Kind: kind, N: n, Size: size, Front: (n + size) % 3, Spare: (n + ki) % 2, Named: (n+size+ki)%2 == 0}) {
						return
					}
				}
			}
		}
	},
	Run: Run, Exhaustive: true, Replicas: 4, ReplicaEvery: 8,
})

// ---------------------------------------------------------------- C13.zst

func runZst(c Case) pbt.Outcome {
	out := Run(c)
	// non-trivial for this unit: more than one piece of a zero-size type was due (all elements share an address),
	// or the length is beyond what 32 bits / a float64 mantissa hold
	out.NonTrivial = out.Violation == "" && !out.Skipped && c.N >= 2
	return out
}

// hugeLengths: 2^k+d around the 8/16/32-bit, float32- and float64-mantissa and int limits.
func hugeLengths(yield func(n int) bool) {
	if bits.UintSize < 64 {
		return
	}
	for _, k := range []int{8, 15, 16, 24, 25, 31, 32, 33, 52, 53, 54, 55, 60, 62} {
		for d := -3; d <= 3; d++ {
			if !yield(1<<k + d) {
				return
			}
		}
	}
	for _, m := range []int{3, 5, 7} { // not next to a power of two: m*2^52+d has a 55-bit mantissa
		for d := -2; d <= 2; d++ {
			if !yield(m<<52 + d) {
				return
			}
		}
	}
	for d := 0; d <= 6; d++ {
		if !yield(math.MaxInt - d) {
			return
		}
	}
}

var zstKinds = []string{"z-struct", "z-arr0", "z-nc", "z-pad", "z-arrz"}

var specZst = pbt.Register(&pbt.Spec[Case]{
	Property: "C13", Name: "C13.zst", Rule: "zero-size element types (struct{}, [0]int, [0]func(), struct{[0]string; struct{}}, [3]struct{}), whose slices can be up to MaxInt long without memory " +
		"and whose elements all share one address; only counts and lengths of the pieces can be checked. Enumerated: n in 0..24 x size in 1..27 per type; " +
		"n = 2^k+d (k in 8,15,16,24,25,31,32,33,52..55,60,62; d in -3..3), m*2^52+d (m in 3,5,7), MaxInt-0..6, each with chunk sizes n/q+e (q in 1,2,3,4,5,7,8,1000,1024,1025; e in -1..1), " +
		"2^(k-1), 2^(k-2), 2^52, 2^53, MaxInt, MaxInt-1 and window sizes n-w (w in 0..3, 1023..1025, 5000); n in {0,1,7,1000,2^16,2^32+1,2^61} x size in {1,3,n/2+1,n+1} with 2^20+1, 2^32, 2^61, MaxInt-n " +
		"elements of unused capacity behind / in front of / around the slice. rapid: n = random bit length 1..63 with random lower bits or +-3 next to a power of two, " +
		"size = n/q+e (q 1..3000), n-w (w 0..5000), or uniform in 1..n+5; " + rule + "non-trivial = n >= 2 and at least one of Chunk/Windowed/Pairs (with its Func variant) was evaluated",
	Enum: func(shard, shards int, tier string, yield func(Case) bool) {
		cnt := 0
		emit := func(kind string, n, size int) bool {
			if n < 0 || size < 1 {
				return true
			}
			cnt++
			front, spare := cnt%3, cnt%2
			if n > math.MaxInt-8 {
				front, spare = 0, 0
			}
			if shards > 1 && cnt%shards != shard {
				return true
			}
			return yield(Case{Kind: kind, N: n, Size: size, Front: front, Spare: spare, Named: cnt%4 < 2})
		}
		for _, kind := range zstKinds {
			for n := 0; n <= 24; n++ {
				for size := 1; size <= 27; size++ {
					if !emit(kind, n, size) {
						return
					}
				}
			}
		}
		// astronomically large unused capacity in front of / behind short and long slices
		for _, n := range []int{0, 1, 7, 1000, 1 << 16, 1<<32 + 1, 1 << 61} {
			for _, size := range []int{1, 3, n/2 + 1, n + 1} {
				for vi, v := range []int{1<<20 + 1, 1 << 32, 1 << 61, math.MaxInt} {
					v = min(v, math.MaxInt-n)
					front, spare := 0, v
					switch (vi + cnt) % 3 {
					case 1:
						front, spare = v, 0
					case 2:
						front, spare = v/2, v-v/2
					}
					cnt++
					if shards > 1 && cnt%shards != shard {
						continue
					}
					if !yield(Case{Kind: zstKinds[cnt%len(zstKinds)], N: n, Size: size, Front: front, Spare: spare, Named: cnt%4 < 2}) {
						return
					}
				}
			}
		}
		ok := true
		hugeLengths(func(n int) bool {
			kind := func() string { return zstKinds[cnt%len(zstKinds)] }
			for _, q := range []int{1, 2, 3, 4, 5, 7, 8, 1000, 1024, 1025} {
				for e := -1; e <= 1; e++ {
					if ok = emit(kind(), n, n/q+e); !ok {
						return false
					}
					if ok = emit("z-struct", n, n/q+e); !ok {
						return false
					}
				}
			}
			top := bits.Len(uint(n)) - 1 // n = 2^top + ...
			for _, size := range []int{1 << (top - 1), 1 << (top - 2), 1<<(top-1) + 1, 1<<(top-1) - 1, 1 << 52, 1 << 53, math.MaxInt, math.MaxInt - 1} {
				if ok = emit(kind(), n, size); !ok {
					return false
				}
			}
			for _, w := range []int{0, 1, 2, 3, 1023, 1024, 1025, 5000} {
				if ok = emit(kind(), n, n-w); !ok {
					return false
				}
			}
			return true
		})
	},
	Gen: func(t *rapid.T) Case {
		kind := rapid.SampledFrom(zstKinds).Draw(t, "kind")
		nbits := rapid.IntRange(1, bits.UintSize-1).Draw(t, "bits")
		var n int
		if rapid.Bool().Draw(t, "near-pow2") {
			n = 1<<(nbits-1) + rapid.IntRange(-3, 3).Draw(t, "d")
			if nbits == bits.UintSize-1 && rapid.Bool().Draw(t, "top") {
				n = math.MaxInt - rapid.IntRange(0, 6).Draw(t, "below-max")
			}
		} else {
			n = 1<<(nbits-1) | rapid.IntRange(0, 1<<(nbits-1)-1).Draw(t, "low")
		}
		if n < 0 {
			n = 0
		}
		var size int
		switch rapid.IntRange(0, 3).Draw(t, "size-class") {
		case 0, 1:
			size = n/rapid.IntRange(1, 3000).Draw(t, "q") + rapid.IntRange(-1, 1).Draw(t, "e")
		case 2:
			size = n - rapid.IntRange(0, 5000).Draw(t, "w")
		default:
			hi := n
			if hi < math.MaxInt-5 {
				hi += 5
			}
			size = rapid.IntRange(1, hi).Draw(t, "size")
		}
		if size < 1 {
			size = 1
		}
		c := Case{Kind: kind, Named: rapid.Bool().Draw(t, "named"), N: n, Size: size}
		if n < math.MaxInt-8 {
			c.Front, c.Spare = rapid.IntRange(0, 3).Draw(t, "front"), rapid.IntRange(0, 4).Draw(t, "spare")
		}
		return c
	},
	Run: runZst, Quick: 1000, Thorough: 30000, Replicas: 4, ReplicaEvery: 8,
})

// ---------------------------------------------------------------- C13.nested

var specNested = pbt.Register(&pbt.Spec[Case]{
	Property: "C13", Name: "C13.nested", Rule: "exhaustive grid n in 0..14 x size in 1..16 x inner size in 1..5 for element kinds int, non-comparable struct and struct{}: " +
		"the callbacks of ChunkFunc, WindowedFunc and PairsFunc call all six functions again on the piece they were given (inner size), on the whole input and on an independent second live slice (the two slices are used alternately), every inner and outer " +
		"result is checked against the definitions; then Chunk, Windowed and Pairs results of the input are kept while the same functions run on a second, different slice " +
		"and their result containers are overwritten by the caller up to their capacity, and all kept results are checked afterwards (a result must not depend on later calls); finally the caller changes all elements of the " +
		"input in place and all six functions are checked on it again with both sizes (nothing may be remembered per slice); " + ntBase,
	Enum: func(shard, shards int, tier string, yield func(Case) bool) {
		for _, kind := range []string{"", "nc", "z-struct"} {
			for n := 0; n <= 14; n++ {
				for size := 1; size <= 16; size++ {
					for size2 := 1; size2 <= 5; size2++ {
						if !yield(Case{Mode: "nested", Kind: kind, N: n, Size: size, Size2: size2, Front: n % 2, Spare: size % 2, Named: (n+size2)%2 == 0}) {
							return
						}
					}
				}
			}
		}
	},
	Run: Run, Exhaustive: true, Replicas: 4, ReplicaEvery: 8,
})

// ---------------------------------------------------------------- C13.par

var parProcs = []int{1, 2, 3, 5, 6, 7, 0}

func runPar(c Case) pbt.Outcome {
	out := Run(c)
	out.NonTrivial = out.Violation == "" && !out.Skipped && c.N >= 200
	return out
}

var specPar = pbt.Register(&pbt.Spec[Case]{
	Property: "C13", Name: "C13.par", Rule: "large inputs under different numbers of processors: for every T = 2^k+d, k in 8..19 (thorough 8..22, above 2^20 with uint8 elements), d in -1..1, and for each of " +
		"GOMAXPROCS = 1, 2, 3, 5, 6, 7 and the machine's default (quick: one of them per case in rotation for k > 17, for d = -1, and for (b) with d = +1), set for the duration of the case: (a) n = T+1, size 2 (T pairs, T windows, T/2+1 chunks) and (b) n = T, size 1 (T chunks, T windows, T-1 pairs), int elements; " +
		"with one of those processor counts in rotation: (a) with 128-byte, 1040-byte, uint8, [3]uint8, string and zero-size elements (128-byte up to k=16, 1040-byte up to k=13), " +
		"(c) n = T with window/chunk size T/2 and isqrt(T), (d) exactly T chunks of size 3 and exactly T windows of size 7; thorough also k in 23..25 with uint8 elements: T pairs, T/1024 chunks, 1000 windows; (e) for T = 2^k, k in 12..19 (thorough 12..20), int, uint8 and (k <= 16) 128-byte and zero-size elements, n = T+1 with size 2 or n = T with size 1: another goroutine sets GOMAXPROCS to 2 and 7 in turn all the time while the six calls run; every result is looked at the moment the function returns " +
		"(last piece first, then 64 pieces spread over the result backwards, then all pieces in order); " + rule + "non-trivial = n >= 200",
	Enum: func(shard, shards int, tier string, yield func(Case) bool) {
		maxK := 19
		if tier == "thorough" {
			maxK = 22
		}
		cnt := 0
		emit := func(kind, fn string, n, size, procs int) bool {
			if n < 0 || size < 1 {
				return true
			}
			cnt++
			if shards > 1 && cnt%shards != shard {
				return true
			}
			return yield(Case{Kind: kind, N: n, Size: size, Fn: fn, Procs: procs, Front: cnt % 3, Spare: cnt % 2, Named: cnt%4 < 2})
		}
		rot := 0
		next := func() int { rot++; return parProcs[rot%len(parProcs)] }
		fullK := 17 // up to here every processor count; above, one processor count per case in rotation
		if tier == "thorough" {
			fullK = maxK
		}
		if tier == "thorough" {
			// 2^23 .. 2^25 uint8 elements: T pairs; T/1024 chunks; 1000 windows
			for k := 25; k > maxK; k-- {
				for d := -1; d <= 1; d++ {
					T := 1<<k + d
					if !emit("u8", "p", T+1, 1, next()) || !emit("u8", "c", T, 1<<10, next()) || !emit("u8", "w", T, T-999, next()) {
						return
					}
				}
			}
		}
		for k := maxK; k >= 8; k-- { // biggest first: the shards finish together
			for d := -1; d <= 1; d++ {
				T := 1<<k + d
				base := ""
				if k > 20 {
					base = "u8"
				}
				if k <= fullK && (d >= 0 || tier == "thorough") {
					for _, procs := range parProcs {
						if !emit(base, "", T+1, 2, procs) || (d == 0 || tier == "thorough") && !emit(base, "", T, 1, procs) {
							return
						}
					}
					if d != 0 && tier != "thorough" && !emit(base, "", T, 1, next()) {
						return
					}
				} else if !emit(base, "", T+1, 2, next()) || !emit(base, "", T, 1, next()) {
					return
				}
				for _, kind := range []string{"wide", "xwide", "u8", "b3", "string", "z-struct"} {
					if kind == "wide" && k > 16 || kind == "xwide" && k > 13 || kind == "string" && k > 16 || kind == "z-struct" && k > 16 || k > fullK && kind != "u8" {
						continue
					}
					if !emit(kind, "", T+1, 2, next()) {
						return
					}
				}
				if k > fullK && d != 0 {
					continue
				}
				if !emit(base, "", T, T/2, next()) || !emit(base, "", T, isqrt(T), next()) || !emit(base, "c", 3*T, 3, next()) || !emit(base, "w", T+6, 7, next()) {
					return
				}
			}
		}
		// (e) another goroutine changes GOMAXPROCS (2, 7, 2, ...) all the time while the calls run
		for k := min(maxK, 20); k >= 12; k-- {
			T := 1 << k
			for _, kind := range []string{"", "u8", "wide", "z-struct"} {
				if (kind == "wide" || kind == "z-struct") && k > 16 {
					continue
				}
				cnt++
				if shards > 1 && cnt%shards != shard {
					continue
				}
				n, size := T+1, 2
				if cnt%3 == 0 {
					n, size = T, 1
				}
				if !yield(Case{Kind: kind, N: n, Size: size, Flip: true, Front: cnt % 3, Spare: cnt % 2, Named: cnt%4 < 2}) {
					return
				}
			}
		}
	},
	Run: runPar, Exhaustive: true, Retries: 5,
})

// ---------------------------------------------------------------- C13.gc

var realKinds = []struct {
	kind  string
	bytes int
}{{"", 8}, {"u8", 1}, {"f64", 8}, {"b3", 3}, {"i32", 4}, {"wide", 128}, {"xwide", 1040}, // without pointers first (see specGC)
	{"nc", 40}, {"ptr", 8}, {"string", 16}, {"iface", 16}}

var specGC = pbt.Register(&pbt.Spec[Case]{
	Property: "C13", Name: "C13.gc", Rule: "inputs that only the callee refers to, and a garbage collection in the middle of the call: the input slice is built inside the call expression from a formula " +
		"(the oracle recomputes the expected elements, nothing of the harness refers to the input's memory), callback number `at` of ChunkFunc / WindowedFunc / PairsFunc runs runtime.GC() and then allocates " +
		"3..256 arrays of exactly the input's size filled with other elements; the results of Chunk / Windowed / Pairs on such inputs are looked at after a collection and the same allocations. " +
		"Enumerated: 11 element kinds with real size x input size about 48 B, 1 KB, 8 KiB (small objects), 40 KiB, 256 KiB, 1 MiB (large objects; kinds with pointers: 48 B, 8 KiB, 256 KiB) x (size, at) in {(1,0), (3,1), (n/2,0), (2,n/3)}, one of the four phases (ChunkFunc, WindowedFunc, PairsFunc, the three slice-returning functions) per case in rotation; " +
		"rapid: kind, one or two phases, input bytes log-uniform in 16 B..512 KiB, size 1..9 / 1..n+2 / n/2, at = 0, 1, or uniform, front 0..3, spare 0..4; " +
		"non-trivial = at least one callback happens after the collection",
	Enum: func(shard, shards int, tier string, yield func(Case) bool) {
		cnt := 0
		// element kinds without pointers first: if pieces ever show foreign memory, the first report is a clean
		// comparison of plain values (with pointers in the elements the Go runtime itself may stop the process)
		for ki, rk := range realKinds {
			for bi, b := range []int{48, 1000, 8 << 10, 40 << 10, 256 << 10, 1<<20 + 4096} {
				if ki >= 7 && bi%2 == 1 {
					continue // elements with pointers: every other size
				}
				n := max(2, b/rk.bytes)
				for si, sa := range [][2]int{{1, 0}, {3, 1}, {max(1, n/2), 0}, {2, n / 3}} {
					cnt++
					if shards > 1 && cnt%shards != shard {
						continue
					}
					fn := []string{"w", "c", "p", "R"}[(si+bi+ki)%4] // one phase (one collection) per case
					if !yield(Case{Mode: "gc", Kind: rk.kind, Fn: fn, N: n, Size: sa[0], At: sa[1], Front: cnt % 2, Spare: cnt % 3, Named: cnt%4 < 2}) {
						return
					}
				}
			}
		}
	},
	Gen: func(t *rapid.T) Case {
		rk := rapid.SampledFrom(realKinds).Draw(t, "kind")
		bytes := 1 << rapid.IntRange(4, 18).Draw(t, "log-bytes")
		bytes += rapid.IntRange(0, bytes).Draw(t, "bytes-low")
		n := max(1, bytes/rk.bytes)
		var size int
		switch rapid.IntRange(0, 3).Draw(t, "size-class") {
		case 0, 1:
			size = rapid.IntRange(1, 9).Draw(t, "size-small")
		case 2:
			size = rapid.IntRange(1, n+2).Draw(t, "size")
		default:
			size = max(1, n/2)
		}
		at := rapid.IntRange(0, 1).Draw(t, "at-early")
		if rapid.IntRange(0, 2).Draw(t, "at-class") == 0 {
			at = rapid.IntRange(0, n).Draw(t, "at")
		}
		return Case{Mode: "gc", Kind: rk.kind, Fn: rapid.SampledFrom([]string{"w", "c", "p", "R", "wc", "pR"}).Draw(t, "phases"), N: n, Size: size, At: at, Named: rapid.Bool().Draw(t, "named"),
			Front: rapid.IntRange(0, 3).Draw(t, "front"), Spare: rapid.IntRange(0, 4).Draw(t, "spare")}
	},
	Run: Run, Quick: 40, Thorough: 400, Replicas: 4, ReplicaEvery: 8, Crashy: true, Retries: 5,
})

// ---------------------------------------------------------------- C13.abort

var specAbort = pbt.Register(&pbt.Spec[Case]{
	Property: "C13", Name: "C13.abort", Rule: "exhaustive grid n in 0..12 x size in 1..14 x aborted callback in {first, second, last} x {panic recovered by the caller, runtime.Goexit of the calling goroutine} " +
		"for element kinds int, non-comparable struct and struct{}: a ChunkFunc / WindowedFunc / PairsFunc call is aborted by its callback (the callbacks up to there are checked), then all six functions are " +
		"checked on the same slice and on an independent second slice (an aborted call must not leave anything behind that later calls see); non-trivial = at least one call was aborted",
	Enum: func(shard, shards int, tier string, yield func(Case) bool) {
		for _, kind := range []string{"", "nc", "z-struct"} {
			for n := 0; n <= 12; n++ {
				for size := 1; size <= 14; size++ {
					for _, at := range []int{0, 1, -1} {
						for v := 0; v <= 1; v++ {
							if !yield(Case{Mode: "abort", Kind: kind, N: n, Size: size, At: at, Var: v, Front: n % 2, Spare: size % 2, Named: (n+size)%2 == 0}) {
								return
							}
						}
					}
				}
			}
		}
	},
	Run: Run, Exhaustive: true, Replicas: 4, ReplicaEvery: 8,
})

// ---------------------------------------------------------------- C13.repeat

var specRepeat = pbt.Register(&pbt.Spec[Case]{
	Property: "C13", Name: "C13.repeat", Rule: "the same cheap calls repeated 2^16+40 times (past every 8- and 16-bit counter of calls, callbacks or pieces), alternately on two live slices and with two sizes (size, size+1), all six functions " +
		"checked in full every time; the results of the very first calls are checked again after half of the repetitions; in the second half the caller changes one element of the first slice in place before every " +
		"fourth call on it (every call must work from the input as it is now); the pairs of the very first call are checked again at the end: (n, size) in {(2,1), (5,2), (3,5)} for element kinds int, non-comparable struct and struct{}; " +
		"non-trivial = more than 2^16 repetitions",
	Enum: func(shard, shards int, tier string, yield func(Case) bool) {
		cnt := 0
		for _, kind := range []string{"", "nc", "z-struct"} {
			for _, ns := range [][2]int{{2, 1}, {5, 2}, {3, 5}} {
				cnt++
				if shards > 1 && cnt%shards != shard {
					continue
				}
				if !yield(Case{Mode: "repeat", Kind: kind, N: ns[0], Size: ns[1], Reps: 1<<16 + 40, Front: cnt % 2, Spare: cnt % 3, Named: cnt%2 == 0}) {
					return
				}
			}
		}
	},
	Run: Run, Exhaustive: true, Replicas: 4, ReplicaEvery: 8,
})

// ---------------------------------------------------------------- C13.wrap32 (thorough only)

var specWrap32 = pbt.Register(&pbt.Spec[Case]{
	Property: "C13", Name: "C13.wrap32", Rule: "past 2^32 (thorough tier only; one case per process): (a) 2^32+40 repetitions of one call on the same slice, each checked: ChunkFunc and WindowedFunc on a one-element int slice with size 1, " +
		"PairsFunc on a two-element int slice, Pairs on a two-element []struct{} (its result needs no memory) - Chunk, Windowed and Pairs of real elements allocate a result per call, 2^32 of those take from four to " +
		"ten minutes of CPU and are left out; (b) a single ChunkFunc / WindowedFunc / PairsFunc call that has to make 2^32+2 callbacks: []struct{} of length 2^32+2 or 2^32+3, size 1, and WindowedFunc with " +
		"window size 2^61 on a slice of length 2^61+2^32+1; callbacks are counted and their lengths checked; non-trivial = more than 2^32 repetitions or pieces",
	Enum: func(shard, shards int, tier string, yield func(Case) bool) {
		cases := []Case{
			{Mode: "wrap", Fn: "c", N: 1, Size: 1, Reps: 1<<32 + 40},
			{Mode: "wrap", Fn: "w", N: 1, Size: 1, Reps: 1<<32 + 40},
			{Mode: "wrap", Fn: "p", N: 2, Size: 1, Reps: 1<<32 + 40},
			{Mode: "wrap", Fn: "P", N: 2, Size: 1, Reps: 1<<32 + 40, Kind: "z-struct"},
			{Mode: "wrap", Fn: "c", N: 1<<32 + 2, Size: 1, Kind: "z-struct"},
			{Mode: "wrap", Fn: "w", N: 1<<32 + 2, Size: 1, Kind: "z-arr0"},
			{Mode: "wrap", Fn: "p", N: 1<<32 + 3, Size: 1, Kind: "z-struct"},
			{Mode: "wrap", Fn: "w", N: 1<<61 + 1<<32 + 1, Size: 1 << 61, Kind: "z-struct", Named: true},
		}
		for i, c := range cases {
			if shards > 1 && i%shards != shard {
				continue
			}
			if !yield(c) {
				return
			}
		}
	},
	Run: Run, Exhaustive: true, CaseCPU: 20 * time.Minute,
})

func TestC13Enum(t *testing.T)   { pbt.Check(t, specEnum) }
func TestC13Rand(t *testing.T)   { pbt.Check(t, specRand) }
func TestC13Big(t *testing.T)    { pbt.Check(t, specBig) }
func TestC13Types(t *testing.T)  { pbt.Check(t, specTypes) }
func TestC13Zst(t *testing.T)    { pbt.Check(t, specZst) }
func TestC13Nested(t *testing.T) { pbt.Check(t, specNested) }
func TestC13Par(t *testing.T)    { pbt.Check(t, specPar) }
func TestC13Gc(t *testing.T)     { pbt.Check(t, specGC) }
func TestC13Abort(t *testing.T)  { pbt.Check(t, specAbort) }
func TestC13Repeat(t *testing.T) { pbt.Check(t, specRepeat) }
func TestC13Wrap32(t *testing.T) { pbt.Check(t, specWrap32) }
func TestReplay(t *testing.T)    { pbt.Replay(t) }
