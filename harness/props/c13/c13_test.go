// Package c13 decides C13: Chunk, Windowed and Pairs partition a slice exactly.
package c13

import (
	"fmt"
	"math"
	"testing"

	"gopkg.in/typ.v4/slices"
	"pgregory.net/rapid"
	"verifharness/internal/pbt"
)

type Case struct {
	N     int `json:"n"`     // slice length; elements are their own indices
	Size  int `json:"size"`  // >= 1
	Spare int `json:"spare"` // spare capacity behind the slice
}

type myInts []int

const rule = "case = (n, size>=1, spare capacity); elements are their indices; all six functions " +
	"(Chunk, ChunkFunc, Windowed, WindowedFunc, Pairs, PairsFunc) are checked on each case against the " +
	"definitions (piece count, piece lengths, concatenation, window/pair i = s[i:i+size]); " +
	"non-trivial = n mod size >= 2 or size > n (with n >= 1)"

func eqInts(a, b []int) bool {
	if len(a) != len(b) {
		return false
	}
	for i := range a {
		if a[i] != b[i] {
			return false
		}
	}
	return true
}

func Run(c Case) pbt.Outcome {
	n, size := c.N, c.Size
	back := make(myInts, n+c.Spare)
	for i := range back {
		back[i] = i
	}
	s := back[:n]
	orig := make([]int, n)
	copy(orig, s)
	out := pbt.Outcome{Evals: 6}
	if n >= 1 && (n%size >= 2 || size > n) {
		out.NonTrivial = true
	}
	switch {
	case size > n:
		out.Labels = append(out.Labels, "size>n")
	case n%size == 0:
		out.Labels = append(out.Labels, "rem=0")
	case n%size == 1:
		out.Labels = append(out.Labels, "rem=1")
	default:
		out.Labels = append(out.Labels, "rem>=2")
	}

	// --- Chunk
	checkPieces := func(name string, pieces [][]int) string {
		want := 0
		if n > 0 {
			want = n / size // not (n+size-1)/size: that overflows for sizes near MaxInt
			if n%size != 0 {
				want++
			}
		}
		if len(pieces) != want {
			return fmt.Sprintf("%s(n=%d,size=%d): %d pieces, want ceil(n/size)=%d: %v", name, n, size, len(pieces), want, pieces)
		}
		var cat []int
		for i, p := range pieces {
			if len(p) == 0 {
				return fmt.Sprintf("%s(n=%d,size=%d): piece %d is empty: %v", name, n, size, i, pieces)
			}
			if i < len(pieces)-1 && len(p) != size {
				return fmt.Sprintf("%s(n=%d,size=%d): piece %d has length %d, want %d: %v", name, n, size, i, len(p), size, pieces)
			}
			if len(p) > size {
				return fmt.Sprintf("%s(n=%d,size=%d): last piece has length %d > size: %v", name, n, size, len(p), pieces)
			}
			cat = append(cat, p...)
		}
		if !eqInts(cat, orig) {
			return fmt.Sprintf("%s(n=%d,size=%d): concatenation %v != input %v", name, n, size, cat, orig)
		}
		return ""
	}
	chunks := slices.Chunk(s, size)
	asInts := func(ps []myInts) [][]int {
		r := make([][]int, len(ps))
		for i, p := range ps {
			r[i] = append([]int(nil), p...)
		}
		return r
	}
	chunkCopy := asInts(chunks)
	if m := checkPieces("Chunk", chunkCopy); m != "" {
		return pbt.Fail("%s", m)
	}
	var cf [][]int
	slices.ChunkFunc(s, size, func(ch myInts) { cf = append(cf, append([]int(nil), ch...)) })
	if m := checkPieces("ChunkFunc", cf); m != "" {
		return pbt.Fail("%s", m)
	}
	if len(cf) != len(chunkCopy) {
		return pbt.Fail("ChunkFunc/Chunk disagree (n=%d,size=%d): %v vs %v", n, size, cf, chunkCopy)
	}
	for i := range cf {
		if !eqInts(cf[i], chunkCopy[i]) {
			return pbt.Fail("ChunkFunc/Chunk disagree (n=%d,size=%d): %v vs %v", n, size, cf, chunkCopy)
		}
	}

	// --- Windowed
	checkWindows := func(name string, ws [][]int) string {
		want := 0
		if n >= size {
			want = n - size + 1
		}
		if len(ws) != want {
			return fmt.Sprintf("%s(n=%d,size=%d): %d windows, want %d: %v", name, n, size, len(ws), want, ws)
		}
		for i, w := range ws {
			if !eqInts(w, orig[i:i+size]) {
				return fmt.Sprintf("%s(n=%d,size=%d): window %d = %v, want %v", name, n, size, i, w, orig[i:i+size])
			}
		}
		return ""
	}
	if m := checkWindows("Windowed", asInts(slices.Windowed(s, size))); m != "" {
		return pbt.Fail("%s", m)
	}
	var wf [][]int
	slices.WindowedFunc(s, size, func(w myInts) { wf = append(wf, append([]int(nil), w...)) })
	if m := checkWindows("WindowedFunc", wf); m != "" {
		return pbt.Fail("%s", m)
	}

	// --- Pairs
	checkPairs := func(name string, ps [][2]int) string {
		want := 0
		if n >= 2 {
			want = n - 1
		}
		if len(ps) != want {
			return fmt.Sprintf("%s(n=%d): %d pairs, want %d: %v", name, n, len(ps), want, ps)
		}
		for i, p := range ps {
			if p[0] != orig[i] || p[1] != orig[i+1] {
				return fmt.Sprintf("%s(n=%d): pair %d = %v, want [%d %d]", name, n, i, p, orig[i], orig[i+1])
			}
		}
		return ""
	}
	if m := checkPairs("Pairs", slices.Pairs(s)); m != "" {
		return pbt.Fail("%s", m)
	}
	var pf [][2]int
	slices.PairsFunc(s, func(a, b int) { pf = append(pf, [2]int{a, b}) })
	if m := checkPairs("PairsFunc", pf); m != "" {
		return pbt.Fail("%s", m)
	}
	// the input (and its spare capacity) must still be what it was
	for i := range back {
		if back[i] != i {
			return pbt.Fail("input modified at index %d (n=%d,size=%d): %v", i, n, size, back)
		}
	}
	return out
}

var specEnum = pbt.Register(&pbt.Spec[Case]{
	Property: "C13", Name: "C13.enum", Rule: "exhaustive grid n in 0..40 x size in 1..45 (thorough: n in 0..120 x size in 1..125) plus n in 0..12 x sizes next to MaxInt, 2^62, 2^32, 2^31-1; " + rule,
	Enum: func(shard, shards int, tier string, yield func(Case) bool) {
		maxN, maxS := 40, 45
		if tier == "thorough" {
			maxN, maxS = 120, 125
		}
		for n := 0; n <= maxN; n++ {
			for size := 1; size <= maxS; size++ {
				if !yield(Case{N: n, Size: size, Spare: (n + size) % 3}) {
					return
				}
			}
		}
		// sizes near the top of the int range (size arithmetic such as n+size-1 must not overflow)
		for n := 0; n <= 12; n++ {
			for _, size := range []int{math.MaxInt, math.MaxInt - 1, math.MaxInt - n, math.MaxInt - n + 1, math.MaxInt/2 + 1, 1 << 62, 1 << 32, 1<<31 - 1} {
				if size >= 1 && !yield(Case{N: n, Size: size, Spare: n % 2}) {
					return
				}
			}
		}
	},
	Run: Run, Exhaustive: true,
})

var specRand = pbt.Register(&pbt.Spec[Case]{
	Property: "C13", Name: "C13.rand", Rule: "rapid: n in 0..300, size in 1..n+5, spare 0..4; " + rule,
	Gen: func(t *rapid.T) Case {
		n := rapid.IntRange(0, 300).Draw(t, "n")
		size := rapid.IntRange(1, n+5).Draw(t, "size")
		if rapid.IntRange(0, 19).Draw(t, "huge") == 0 {
			size = math.MaxInt - rapid.IntRange(0, n+2).Draw(t, "below-max")
		}
		return Case{N: n, Size: size, Spare: rapid.IntRange(0, 4).Draw(t, "spare")}
	},
	Run: Run, Quick: 10000, Thorough: 100000,
})

func TestC13Enum(t *testing.T) { pbt.Check(t, specEnum) }
func TestC13Rand(t *testing.T) { pbt.Check(t, specRand) }
func TestReplay(t *testing.T)  { pbt.Replay(t) }
