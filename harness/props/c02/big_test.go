package c02

import (
	"fmt"
	"math"
	"runtime"
	"testing"

	"gopkg.in/typ.v4/avl"
	"verifharness/internal/pbt"
)

// BigCase: a big tree (2^13 .. 2^22 values, sizes around every power of two and the sparsest - Fibonacci - trees) is
// built, handed on through Clone() (0, 1 or 2 times), and then ONE side only of the result is worked on: values are
// removed from the top end or from the bottom end only (or added beyond one end only), so that all the calls run down one
// spine of the tree and never pass through the rest of it. Whatever the tree caches about the untouched part (as built,
// or as copied by Clone) is then trusted for thousands of calls. The whole tree is checked in O(n) at regular
// checkpoints; afterwards the ORIGINAL of the clone is worked on from the other end and checked in the same way.
type BigCase struct {
	N      int    `json:"n"`      // number of values (build "fib": height of the Fibonacci tree instead)
	Build  string `json:"build"`  // desc | asc | lcg | fib (Fibonacci tree in level order: left-heavy at every node)
	Mirror bool   `json:"mirror"` // keys negated: the mirror image of the tree
	Clones int    `json:"clones"` // hand the tree on through Clone() that many times before the continuation
	Cont   string `json:"cont"`   // shrink-top | shrink-bottom | grow-top | grow-bottom
	Elem   string `json:"elem"`   // int | f32 (float32(k)/3: not exactly representable) | rec (struct, comparator on a field)
	Procs  int    `json:"procs"`  // GOMAXPROCS while the case runs
	Every  int    `json:"every"`  // whole-tree check after every that many calls (0: max(64, n/128))
	Frac   int    `json:"frac"`   // the continuation makes N*Frac/8 calls
}

type bigRec struct {
	Tag int8
	K   int32
}

func bigKeys(c BigCase) []int {
	var keys []int
	if c.Build == "fib" {
		fibLevelOrder(c.N, func(k int) { keys = append(keys, k/4) })
	} else {
		keys = pattern(c.Build, c.N)
	}
	if c.Mirror {
		for i := range keys {
			keys[i] = -keys[i]
		}
	}
	return keys
}

func runBigT[T comparable](c BigCase, mk func() avl.Tree[T], to func(int) T, from func(T) int) pbt.Outcome {
	if c.Procs > 0 {
		defer runtime.GOMAXPROCS(runtime.GOMAXPROCS(c.Procs))
	}
	keys := bigKeys(c)
	n := len(keys)
	lo, hi := math.MaxInt, math.MinInt
	for _, k := range keys {
		lo, hi = min(lo, k), max(hi, k)
	}
	orig := mk()
	for _, k := range keys {
		orig.Add(to(k))
	}
	keys = nil
	evals := 0
	scratch := make([]int, 0, n)
	check := func(tr *avl.Tree[T], stage string, want int) string {
		evals++
		if tr.Len() != want {
			return fmt.Sprintf("%s: Len = %d, want %d", stage, tr.Len(), want)
		}
		pre := scratch[:0]
		tr.WalkPreOrder(func(v T) { pre = append(pre, from(v)) })
		if len(pre) != want {
			return fmt.Sprintf("%s: pre-order has %d values, want %d", stage, len(pre), want)
		}
		levels, msg := balanceFromPreOrder(pre)
		if msg != "" {
			return fmt.Sprintf("%s (n=%d): %s", stage, want, msg)
		}
		if levels > maxLevels(want) {
			return fmt.Sprintf("%s: %d levels for n=%d exceeds 1.4405*log2(n+2) = %d", stage, levels, want, maxLevels(want))
		}
		return ""
	}
	if msg := check(&orig, "after building", n); msg != "" {
		return pbt.Fail("%s", msg)
	}
	work := orig
	var mid avl.Tree[T]
	for i := 0; i < c.Clones; i++ {
		cl := work.Clone()
		if i == 0 && c.Clones > 1 {
			mid = cl
		}
		work = cl
		if msg := check(&work, fmt.Sprintf("fresh clone number %d", i+1), n); msg != "" {
			return pbt.Fail("%s", msg)
		}
	}
	// cont works on one end of tr only; lo/hi are the ends of the value range of that tree
	cont := func(tr *avl.Tree[T], name, kind string, lo, hi int) string {
		size := n
		calls := n * c.Frac / 8
		every := c.Every
		if every == 0 {
			every = max(64, n/128)
		}
		for i := 0; i < calls; i++ {
			switch kind {
			case "shrink-top":
				if !tr.Remove(to(hi - i)) {
					return fmt.Sprintf("%s: Remove of the present value %d returned false", name, hi-i)
				}
				size--
			case "shrink-bottom":
				if !tr.Remove(to(lo + i)) {
					return fmt.Sprintf("%s: Remove of the present value %d returned false", name, lo+i)
				}
				size--
			case "grow-top":
				tr.Add(to(hi + 1 + i))
				size++
			case "grow-bottom":
				tr.Add(to(lo - 1 - i))
				size++
			}
			if (i+1)%every == 0 || i == calls-1 {
				if msg := check(tr, fmt.Sprintf("%s, after call %d of '%s' (one end of the tree only)", name, i+1, kind), size); msg != "" {
					return msg
				}
			}
		}
		return ""
	}
	name := "the tree as built"
	if c.Clones > 0 {
		name = fmt.Sprintf("clone (generation %d) of the tree", c.Clones)
	}
	if msg := cont(&work, name, c.Cont, lo, hi); msg != "" {
		return pbt.Fail("%s", msg)
	}
	if c.Clones > 0 && n <= 1<<17 {
		// the source of the clone, untouched so far, is worked on from the OTHER end; the intermediate clone with the
		// other kind of call at the same end
		other := map[string]string{"shrink-top": "shrink-bottom", "shrink-bottom": "shrink-top", "grow-top": "grow-bottom", "grow-bottom": "grow-top"}[c.Cont]
		if msg := check(&orig, "source of the clone after the clone was modified", n); msg != "" {
			return pbt.Fail("%s", msg)
		}
		if msg := cont(&orig, "source of the clone", other, lo, hi); msg != "" {
			return pbt.Fail("%s", msg)
		}
		if c.Clones > 1 {
			swap := map[string]string{"shrink-top": "grow-top", "shrink-bottom": "grow-bottom", "grow-top": "shrink-top", "grow-bottom": "shrink-bottom"}[c.Cont]
			if msg := cont(&mid, "intermediate clone", swap, lo, hi); msg != "" {
				return pbt.Fail("%s", msg)
			}
		}
	}
	size := "n<2^14"
	switch {
	case n >= 1<<22:
		size = "n>=2^22"
	case n >= 1<<16:
		size = "2^16<=n<2^22"
	case n >= 1<<14:
		size = "2^14<=n<2^16"
	}
	return pbt.Outcome{Evals: evals, NonTrivial: n >= 1<<14 && c.Clones > 0,
		Labels: []string{size, "build=" + c.Build, "cont=" + c.Cont, "elem=" + c.Elem, fmt.Sprintf("clones=%d", c.Clones), fmt.Sprintf("procs=%d", c.Procs)}}
}

func RunBig(c BigCase) pbt.Outcome {
	switch c.Elem {
	case "f32":
		return runBigT(c, avl.NewOrdered[float32],
			func(k int) float32 { return float32(k) / 3 },
			func(v float32) int { return int(math.Round(float64(v) * 3)) })
	case "rec":
		return runBigT(c, func() avl.Tree[bigRec] {
			return avl.New(func(a, b bigRec) int { return int(a.K) - int(b.K) })
		},
			func(k int) bigRec { return bigRec{Tag: int8(k), K: int32(k)} },
			func(v bigRec) int { return int(v.K) })
	}
	return runBigT(c, avl.NewOrdered[int], func(k int) int { return k }, func(v int) int { return v })
}

var bigConts = []string{"shrink-top", "shrink-bottom", "grow-top", "grow-bottom"}

var specBig = pbt.Register(&pbt.Spec[BigCase]{
	Property: "C02", Name: "C02.big",
	Rule: "big trees worked on at ONE end only, directly and after being handed on through Clone() once or twice: sizes {2^k-1, 2^k, 2^k+1 : k = 13..16} and 20000 x build order {desc, asc, lcg} and the Fibonacci trees " +
		"(left-heavy at every node) of height 18..21 (10945..46367 values), each as built and mirrored (keys negated), x continuation {Remove from the top end only, Remove from the bottom end only, Add beyond the top end only, " +
		"Add beyond the bottom end only} for 3n/4 calls, under GOMAXPROCS 2/4/8/16 (rotating) and with element types int, float32 (k/3, not exactly representable) and a struct with a comparator on one field (rotating); " +
		"the whole tree is checked in O(n) from its pre-order (search-tree order, balance at every node, level bound, Len) after building, after every Clone, after every max(64, n/128) calls and at the end; then the untouched source of the clone " +
		"gets the continuation at the OTHER end (and the intermediate clone the opposite kind of call) under the same checks. The enumeration is thinned (every case of the cross product whose index is 0 mod 5 in quick, all in thorough) " +
		"but every size, build, continuation and mirror value occurs with Clone in both tiers; plus 2 enumerated cases of 2^22 values (asc and mirrored asc = descending, one Clone, n/2 Removes at the far end, checked every 2^18 calls; thorough adds 2^23). " +
		"The statement is about every Add/Remove: a Clone is a tree whose history is the history of its source. non-trivial = at least 2^14 values and at least one Clone",
	Enum: func(shard, shards int, tier string, yield func(BigCase) bool) {
		k := 0
		emit := func(c BigCase) bool {
			k++
			if k%shards != shard {
				return true
			}
			return yield(c)
		}
		procs := []int{8, 4, 16, 2}
		elems := []string{"int", "int", "f32", "int", "rec"}
		j := 0
		type sb struct {
			n     int
			build string
		}
		var sbs []sb
		for _, h := range []int{19, 18, 20, 21} {
			sbs = append(sbs, sb{h, "fib"})
		}
		for _, n := range []int{1 << 14, 1<<14 + 1, 1<<14 - 1, 1 << 15, 20000, 1<<15 + 1, 1<<15 - 1, 1 << 13, 1<<13 + 1, 1<<13 - 1, 1 << 16, 1<<16 + 1, 1<<16 - 1} {
			for _, b := range []string{"desc", "asc", "lcg"} {
				sbs = append(sbs, sb{n, b})
			}
		}
		for _, s := range sbs {
			for _, mirror := range []bool{false, true} {
				for ci, cont := range bigConts {
					for _, clones := range []int{1, 0, 2} {
						j++
						// quick: thinned, but desc/asc/fib around 2^14..2^15 x both shrink continuations x one Clone always stay
						keep := tier == "thorough" || j%9 == 0 || (clones == 1 && ci < 2 && s.build != "lcg" && (s.build == "fib" || (s.n >= 1<<14-1 && s.n <= 1<<15+1)))
						if !keep {
							continue
						}
						if !emit(BigCase{N: s.n, Build: s.build, Mirror: mirror, Clones: clones, Cont: cont,
							Elem: elems[j%len(elems)], Procs: procs[j%len(procs)], Frac: 6}) {
							return
						}
					}
				}
			}
		}
		bigs := []int{1 << 22}
		if tier == "thorough" {
			bigs = append(bigs, 1<<23)
		}
		for _, n := range bigs {
			if !emit(BigCase{N: n, Build: "asc", Clones: 1, Cont: "shrink-bottom", Elem: "int", Procs: 8, Every: 1 << 18, Frac: 4}) {
				return
			}
			if !emit(BigCase{N: n, Build: "asc", Mirror: true, Clones: 1, Cont: "shrink-top", Elem: "int", Procs: 16, Every: 1 << 18, Frac: 4}) {
				return
			}
		}
	},
	Run: RunBig, Exhaustive: true, CaseCPU: 120e9,
})

func TestC02Big(t *testing.T) { pbt.Check(t, specBig) }
