package c02

import (
	"fmt"
	"testing"

	"gopkg.in/typ.v4/avl"
	"verifharness/internal/pbt"
)

// DeepCase (thorough tier only): the sparsest AVL tree of height H (a Fibonacci tree, built by adding its keys in level
// order: no rotation happens) - 9,227,464 values for H = 33, the smallest tree with more than 32 levels below the root -
// then a few Adds below its deepest leaf and Removes on its shallow side, the whole tree checked after each.
type DeepCase struct {
	H int `json:"h"`
}

// fibLevelOrder calls f with the keys (in-order ranks * 4) of the Fibonacci tree of height h in level order.
func fibLevelOrder(h int, f func(key int)) int {
	size := make([]int, h+2) // size[k+1] = nodes of the tree of height k (k = -1: 0)
	for k := 0; k <= h; k++ {
		if k == 0 {
			size[1] = 1
			continue
		}
		size[k+1] = size[k] + size[k-1] + 1
	}
	type sub struct{ h, off int }
	level := []sub{{h, 0}}
	for len(level) > 0 {
		var next []sub
		for _, s := range level {
			if s.h < 0 {
				continue
			}
			left := size[s.h] // nodes of the left subtree (height s.h-1)
			f((s.off + left) * 4)
			if s.h >= 1 {
				next = append(next, sub{s.h - 1, s.off})
			}
			if s.h >= 2 {
				next = append(next, sub{s.h - 2, s.off + left + 1})
			}
		}
		level = next
	}
	return size[h+1]
}

// balanceFromPreOrder checks, in O(n) and without building nodes, that pre is the pre-order of a binary search tree over
// distinct keys and that it is AVL-balanced at every node; it returns the number of levels.
func balanceFromPreOrder(pre []int) (levels int, msg string) {
	idx := 0
	var rec func(lo, hi int) int // height in edges of the subtree whose keys lie in (lo, hi); empty = -1
	rec = func(lo, hi int) int {
		if idx >= len(pre) || pre[idx] <= lo || pre[idx] >= hi {
			return -1
		}
		root := pre[idx]
		idx++
		hl := rec(lo, root)
		hr := rec(root, hi)
		if msg == "" && (hl-hr > 1 || hr-hl > 1) {
			msg = fmt.Sprintf("node %d has subtree heights %d and %d", root, hl, hr)
		}
		if hr > hl {
			hl = hr
		}
		return hl + 1
	}
	const inf = int(^uint(0) >> 1)
	h := rec(-inf-1, inf)
	if idx != len(pre) && msg == "" {
		msg = fmt.Sprintf("the pre-order is not that of a search tree (stopped at position %d of %d)", idx, len(pre))
	}
	return h + 1, msg
}

func RunDeep(c DeepCase) pbt.Outcome {
	tr := avl.NewOrdered[int]()
	n := fibLevelOrder(c.H, func(k int) { tr.Add(k) })
	check := func(stage string, want int) string {
		if tr.Len() != want {
			return fmt.Sprintf("%s: Len = %d, want %d", stage, tr.Len(), want)
		}
		in := tr.SliceInOrder()
		if len(in) != want {
			return fmt.Sprintf("%s: in-order has %d values, want %d", stage, len(in), want)
		}
		for i := 1; i < len(in); i++ {
			if in[i-1] >= in[i] {
				return fmt.Sprintf("%s: in-order not ascending at position %d", stage, i)
			}
		}
		in = nil
		levels, msg := balanceFromPreOrder(tr.SlicePreOrder())
		if msg != "" {
			return fmt.Sprintf("%s (n=%d): %s", stage, want, msg)
		}
		if levels > maxLevels(want) {
			return fmt.Sprintf("%s: %d levels for n=%d exceeds 1.4405*log2(n+2) = %d", stage, levels, want, maxLevels(want))
		}
		return ""
	}
	if msg := check(fmt.Sprintf("Fibonacci tree of height %d built in level order", c.H), n); msg != "" {
		return pbt.Fail("%s", msg)
	}
	// Adds below the deepest leaf (the smallest key sits at depth H)
	for i, v := range []int{-1, -2, -3, 1, 2} {
		tr.Add(v)
		n++
		if msg := check(fmt.Sprintf("after Add number %d (%d) below the deepest leaves of the height-%d Fibonacci tree", i+1, v, c.H), n); msg != "" {
			return pbt.Fail("%s", msg)
		}
	}
	// Removes on the shallow side (the largest keys): each shortens the short side and forces rotations far up
	for i := 0; i < 3; i++ {
		in := tr.SliceInOrder()
		v := in[len(in)-1]
		in = nil
		if !tr.Remove(v) {
			return pbt.Fail("Remove of the largest key %d returned false", v)
		}
		n--
		if msg := check(fmt.Sprintf("after Remove number %d (%d, the largest key) from the deep tree", i+1, v), n); msg != "" {
			return pbt.Fail("%s", msg)
		}
	}
	// and the smallest ones again (the deepest leaves)
	for i, v := range []int{-3, -2, -1} {
		if !tr.Remove(v) {
			return pbt.Fail("Remove(%d) of a present value returned false", v)
		}
		n--
		if msg := check(fmt.Sprintf("after Remove number %d (%d) at the deepest level", i+1, v), n); msg != "" {
			return pbt.Fail("%s", msg)
		}
	}
	return pbt.Outcome{Evals: 12, NonTrivial: c.H >= 33, Labels: []string{fmt.Sprintf("height=%d", c.H)}}
}

var specDeep = pbt.Register(&pbt.Spec[DeepCase]{
	Property: "C02", Name: "C02.deep",
	Rule: "thorough tier only: the Fibonacci tree of height 33 (9,227,464 values: the smallest AVL tree with more than 32 levels below its root; height 24 and 30 as cheaper companions) built by level-order insertion, " +
		"then Adds below its deepest leaves and Removes of its largest and smallest keys; after each call the whole tree is checked in O(n) from its pre-order (search-tree order, balance at every node, level bound); " +
		"trees deeper than that (24 million values for 35 levels) are out of reach; non-trivial = height >= 33",
	Enum: func(shard, shards int, tier string, yield func(DeepCase) bool) {
		for i, h := range []int{33, 30, 24} {
			if i%shards == shard && !yield(DeepCase{h}) {
				return
			}
		}
	},
	Run: RunDeep, Exhaustive: true, CaseCPU: 1800e9,
})

func TestC02Deep(t *testing.T) { pbt.Check(t, specDeep) }
