// Package c02 decides C02: the AVL tree stays height-balanced after every Add
// and Remove (shape reconstructed from the traversals; existential over the
// trees that explain them when duplicates make the reconstruction ambiguous).
package c02

import (
	"fmt"
	"math"
	"testing"

	"gopkg.in/typ.v4/avl"
	"pgregory.net/rapid"
	"verifharness/internal/pbt"
	"verifharness/internal/shape"
)

type Op struct {
	Add bool `json:"add"`
	V   int  `json:"v"`
	// Clone: replace the tree by its Clone() and carry on with the clone (Add/V ignored)
	Clone bool `json:"clone,omitempty"`
	// K: "" (Add/Remove as above) | "clear" (Clear, then carry on) | "move" (the Tree value is copied to a new
	// place and only the copy is used from then on - New and Clone return a Tree by value, so every tree is moved at
	// least once) | "has" (Contains(V)) | "probe" (Contains(V), then N successful modifications - present elements
	// removed and added again in turn - then Add(V): nothing an unsuccessful lookup leaves behind may be trusted
	// after later modifications, however many: N is around 2^8 and 2^16)
	K string `json:"k,omitempty"`
	N int    `json:"n,omitempty"`
}

type Case struct {
	Dup bool `json:"dup"` // duplicates allowed (otherwise an Add of a present value is skipped)
	// Weak: elements are key*1024+tag with a fresh tag per Add and the comparator looks at the key only (a weak
	// order: compare==0 does not imply ==). Equal keys are then distinguishable in the traversals, so the shape is
	// reconstructed exactly. Only balance is asserted in this mode (Remove may legitimately miss an element).
	Weak bool `json:"weak,omitempty"`
	Ops  []Op `json:"ops"`
	// structured cases: N values, insertion pattern, deletion pattern (Ops empty)
	N   int    `json:"n,omitempty"`
	Ins string `json:"ins,omitempty"`
	Del string `json:"del,omitempty"`
	// check after every op up to this size, at geometric checkpoints above
	Every int `json:"every,omitempty"`
}

const rule = "after EVERY Add/Remove the tree is reconstructed from SlicePreOrder+SliceInOrder (+SlicePostOrder when duplicates make it ambiguous) and " +
	"must be AVL-balanced at every node (|h(left)-h(right)|<=1, empty=-1; with duplicates: SOME tree explaining the traversals is balanced); derived: " +
	"levels <= 1.4405*log2(n+2); auxiliary: comparator calls per Contains/Add/Remove <= 4*levels+16. " +
	"non-trivial = history reaches n>=7 and contains a double rotation (the subtree root is replaced by a grandchild or by the inserted value)"

func maxLevels(n int) int { return int(math.Floor(1.4405 * math.Log2(float64(n+2)))) }

func pattern(name string, n int) []int {
	out := make([]int, 0, n)
	switch name {
	case "asc":
		for i := 0; i < n; i++ {
			out = append(out, i)
		}
	case "desc":
		for i := n - 1; i >= 0; i-- {
			out = append(out, i)
		}
	case "zigzag": // lo, hi, lo+1, hi-1 ...
		for lo, hi := 0, n-1; lo <= hi; lo, hi = lo+1, hi-1 {
			out = append(out, lo)
			if hi != lo {
				out = append(out, hi)
			}
		}
	case "midout": // from the middle outwards
		m := n / 2
		out = append(out, m)
		for d := 1; len(out) < n; d++ {
			if m-d >= 0 {
				out = append(out, m-d)
			}
			if m+d < n {
				out = append(out, m+d)
			}
		}
	case "organ": // outside in: 0, n-1 pairs ending at the middle, then reversed halves
		for i := 0; i < (n+1)/2; i++ {
			out = append(out, 2*i)
		}
		for i := n/2 - 1; i >= 0; i-- {
			out = append(out, 2*i+1)
		}
	case "lcg": // fixed pseudo-random permutation (multiplicative, no RNG)
		step := 1
		for _, c := range []int{7919, 104729, 31, 17, 13, 11, 7, 5, 3} {
			if n > 0 && gcd(c%max(n, 1), n) == 1 && c%n != 0 {
				step = c % n
				break
			}
		}
		for i, v := 0, (n / 3); i < n; i, v = i+1, (v+step)%n {
			out = append(out, v)
		}
	}
	return out
}

func gcd(a, b int) int {
	for b != 0 {
		a, b = b, a%b
	}
	return a
}

var insPatterns = []string{"asc", "desc", "zigzag", "midout", "organ", "lcg"}
var delPatterns = []string{"asc", "desc", "zigzag", "midout", "lcg", "root"}

func expand(c Case) []Op {
	if c.Ins == "" {
		return c.Ops
	}
	var ops []Op
	for _, v := range pattern(c.Ins, c.N) {
		ops = append(ops, Op{Add: true, V: v})
	}
	if c.Del == "root" {
		for i := 0; i < c.N; i++ {
			ops = append(ops, Op{Add: false, V: -1}) // -1: remove the current root
		}
	} else {
		for _, v := range pattern(c.Del, c.N) {
			ops = append(ops, Op{Add: false, V: v})
		}
	}
	return ops
}

func depthOf(t *shape.Node, v int, limit int) int {
	// breadth-limited search for value v below t
	if t == nil || limit < 0 {
		return -1
	}
	if t.V == v {
		return 0
	}
	if d := depthOf(t.Left, v, limit-1); d >= 0 {
		return d + 1
	}
	if d := depthOf(t.Right, v, limit-1); d >= 0 {
		return d + 1
	}
	return -1
}

// rotationKind compares the shape before and after one operation:
// 0 none, 1 single, 2 double (at the highest node whose subtree root changed).
func rotationKind(old, new *shape.Node, inserted int, wasAdd bool) int {
	for old != nil && new != nil {
		if old.V != new.V {
			if wasAdd && new.V == inserted && depthOf(old, inserted, 3) < 0 {
				return 2
			}
			switch depthOf(old, new.V, 2) {
			case 1:
				return 1
			case 2:
				return 2
			}
			return 1
		}
		// same root: descend towards the side whose size changed
		if size(old.Left) != size(new.Left) {
			old, new = old.Left, new.Left
		} else if size(old.Right) != size(new.Right) {
			old, new = old.Right, new.Right
		} else if !same(old.Left, new.Left) {
			old, new = old.Left, new.Left
		} else {
			old, new = old.Right, new.Right
		}
	}
	return 0
}

func size(t *shape.Node) int {
	if t == nil {
		return 0
	}
	return 1 + size(t.Left) + size(t.Right)
}

func same(a, b *shape.Node) bool {
	if a == nil || b == nil {
		return a == b
	}
	return a.V == b.V && same(a.Left, b.Left) && same(a.Right, b.Right)
}

func Run(c Case) pbt.Outcome {
	ops := expand(c)
	calls := 0
	trv := avl.New(func(a, b int) int {
		calls++
		if c.Weak {
			a, b = a>>10, b>>10
		}
		if a < b {
			return -1
		}
		if a > b {
			return 1
		}
		return 0
	})
	tr := &trv
	nextTag := 0
	present := map[int]int{}
	n := 0
	every := c.Every
	if every == 0 {
		every = 1 << 30
	}
	var out pbt.Outcome
	var prev *shape.Node
	sawDouble, sawSingle, sawClone, maxN := false, false, false, 0
	sawClear, sawMove, sawProbe := false, false, 0
	nextCheck := 0
	for i, op := range ops {
		v := op.V
		if op.Clone {
			cl := tr.Clone()
			tr = &cl
			if tr.Len() != n {
				return pbt.Fail("op %d: Clone of a tree with %d elements has Len %d", i, n, tr.Len())
			}
			sawClone = true
			continue
		}
		switch op.K {
		case "clear":
			tr.Clear()
			present = map[int]int{}
			n = 0
			sawClear = true
			if tr.Len() != 0 || len(tr.SliceInOrder()) != 0 {
				return pbt.Fail("op %d: after Clear the tree has Len %d and in-order %v", i, tr.Len(), tr.SliceInOrder())
			}
			continue
		case "move":
			moved := new(avl.Tree[int])
			*moved = *tr
			tr = moved
			sawMove = true
			continue
		case "has":
			if c.Weak {
				continue
			}
			if got := tr.Contains(v); got != (present[v] > 0) {
				return pbt.Fail("op %d: Contains(%d) = %v but model count is %d", i, v, got, present[v])
			}
			continue
		case "probe":
			if c.Weak || present[v] > 0 {
				continue
			}
			if tr.Contains(v) {
				return pbt.Fail("op %d: Contains(%d) = true for an absent value", i, v)
			}
			in := tr.SliceInOrder()
			if len(in) < 3 {
				continue
			}
			for k := 0; k < op.N/2; k++ {
				x := in[(k*7)%len(in)]
				if !tr.Remove(x) {
					return pbt.Fail("op %d: during %d modifications Remove(%d) of a present value returned false", i, op.N, x)
				}
				tr.Add(x)
			}
			sawProbe = max(sawProbe, op.N)
			op.Add = true // and now Add(v), checked like every Add
		}
		if c.Weak {
			if op.Add {
				nextTag++
				v = (op.V%8)<<10 | nextTag
			} else if in := tr.SliceInOrder(); len(in) > 0 && op.V%5 != 0 {
				v = in[op.V%len(in)] // an element that is in the tree
			} else {
				v = (op.V%8)<<10 | 1023 // absent
			}
		}
		if !op.Add && v == -1 { // remove the current root
			pre := tr.SlicePreOrder()
			if len(pre) == 0 {
				continue
			}
			v = pre[0]
		}
		calls = 0
		levels := maxLevels(n)
		if op.Add {
			if !c.Dup && present[v] > 0 {
				continue
			}
			tr.Add(v)
			present[v]++
			n++
		} else {
			ok := tr.Remove(v)
			if !c.Weak && ok != (present[v] > 0) {
				return pbt.Fail("op %d: Remove(%d) = %v but model count is %d", i, v, ok, present[v])
			}
			if ok {
				present[v]--
				n--
			}
		}
		if n > maxN {
			maxN = n
		}
		if lim := 4*max(levels, maxLevels(n)) + 16; calls > lim {
			return pbt.Fail("op %d %+v on %d elements needed %d comparator calls (> 4*levels+16 = %d): not O(log n)", i, op, n, calls, lim)
		}
		if n > every && i != len(ops)-1 {
			// geometric checkpoints for big structured runs
			if i < nextCheck {
				continue
			}
			nextCheck = i + max(1, i/6)
		}
		pre, in := tr.SlicePreOrder(), tr.SliceInOrder()
		if len(in) != n {
			return pbt.Fail("op %d %+v: in-order has %d elements, expected %d", i, op, len(in), n)
		}
		var t *shape.Node
		if c.Dup && !c.Weak {
			post := tr.SlicePostOrder()
			ok, bt := shape.Explain(pre, in, post, true)
			if !ok {
				if any, ok2 := shape.Any(pre, in, post); ok2 {
					u := shape.Unbalanced(any)
					uv := 0
					if u != nil {
						uv = u.V
					}
					return pbt.Fail("after op %d %+v (n=%d): no tree explaining pre=%v in=%v post=%v is AVL-balanced; e.g. %s is unbalanced at node %d", i, op, n, pre, in, post, shape.Render(any), uv)
				}
				return pbt.Fail("after op %d %+v (n=%d): traversals are not those of one tree: pre=%v in=%v post=%v", i, op, n, pre, in, post)
			}
			t = bt
		} else {
			ok, bt := shape.Explain(pre, in, nil, false)
			if !ok {
				return pbt.Fail("after op %d %+v (n=%d): pre-order %v and in-order %v are not traversals of one tree", i, op, n, pre, in)
			}
			if u := shape.Unbalanced(bt); u != nil {
				msg := fmt.Sprintf("after op %d %+v (n=%d): node %d has subtree heights %d and %d", i, op, n, u.V, shape.Height(u.Left), shape.Height(u.Right))
				if n <= 40 {
					msg += "; tree = " + shape.Render(bt)
				}
				return pbt.Fail("%s", msg)
			}
			t = bt
		}
		if lv := shape.Height(t) + 1; lv > maxLevels(n) && n > 0 {
			return pbt.Fail("after op %d %+v: %d levels for n=%d exceeds 1.4405*log2(n+2) = %d", i, op, lv, n, maxLevels(n))
		}
		if !c.Dup && !c.Weak && n <= 400 {
			switch rotationKind(prev, t, v, op.Add) {
			case 1:
				sawSingle = true
			case 2:
				sawDouble = true
			}
		}
		prev = t
	}
	out.NonTrivial = sawDouble && maxN >= 7
	if c.Weak {
		out.NonTrivial = maxN >= 7
		out.Labels = append(out.Labels, "weak-order-mode")
	} else if c.Dup {
		// with duplicates rotations are not classified; count by size and duplicate presence
		dups := false
		for _, k := range present {
			if k > 1 {
				dups = true
			}
		}
		out.NonTrivial = maxN >= 7 && dups
		out.Labels = append(out.Labels, "dup-mode")
	}
	if sawClone {
		out.Labels = append(out.Labels, "continued-on-a-clone")
	}
	if sawClear {
		out.Labels = append(out.Labels, "continued-after-Clear")
	}
	if sawMove {
		out.Labels = append(out.Labels, "tree-value-moved")
	}
	if sawProbe >= 65536 {
		out.Labels = append(out.Labels, "add-after-failed-lookup-and->=65536-modifications")
	} else if sawProbe > 0 {
		out.Labels = append(out.Labels, "add-after-failed-lookup-and-modifications")
	}
	if sawSingle {
		out.Labels = append(out.Labels, "single-rotation")
	}
	if sawDouble {
		out.Labels = append(out.Labels, "double-rotation")
	}
	switch {
	case maxN >= 256:
		out.Labels = append(out.Labels, "n>=256")
	case maxN >= 64:
		out.Labels = append(out.Labels, "n>=64")
	case maxN >= 16:
		out.Labels = append(out.Labels, "n>=16")
	case maxN >= 7:
		out.Labels = append(out.Labels, "n>=7")
	}
	out.Evals = len(ops)
	if out.Evals == 0 {
		out.Evals = 1
	}
	return out
}

var specStruct = pbt.Register(&pbt.Spec[Case]{
	Property: "C02", Name: "C02.struct",
	Rule: "structured orders: every n in 1..64 x insertion pattern {asc,desc,zigzag,midout,organ,lcg} x deletion pattern {asc,desc,zigzag,midout,lcg,root-first}, " +
		"checked after every op; n in {257,1025,4097} x 3 pattern pairs at geometric checkpoints (thorough adds n in {100,255,256,257,511,1000,1023,1024,4096}, checked after every op up to 300 elements and at geometric checkpoints above); " + rule,
	Enum: func(shard, shards int, tier string, yield func(Case) bool) {
		k := 0
		for n := 1; n <= 64; n++ {
			for _, ins := range insPatterns {
				for _, del := range delPatterns {
					k++
					if k%shards != shard {
						continue
					}
					if !yield(Case{N: n, Ins: ins, Del: del}) {
						return
					}
				}
			}
		}
		// a few big ones in every tier (size thresholds), checked at geometric checkpoints above 64 elements
		for _, n := range []int{257, 1025, 4097} {
			for _, pat := range [][2]string{{"asc", "midout"}, {"lcg", "lcg"}, {"zigzag", "root"}} {
				k++
				if k%shards != shard {
					continue
				}
				if !yield(Case{N: n, Ins: pat[0], Del: pat[1], Every: 64}) {
					return
				}
			}
		}
		if tier == "thorough" {
			for _, n := range []int{100, 255, 256, 257, 511, 1000, 1023, 1024, 4096} {
				for _, ins := range insPatterns {
					for _, del := range delPatterns {
						k++
						if k%shards != shard {
							continue
						}
						if !yield(Case{N: n, Ins: ins, Del: del, Every: 300}) {
							return
						}
					}
				}
			}
		}
	},
	Run: Run, Exhaustive: true,
})

var specHist = pbt.Register(&pbt.Spec[Case]{
	Property: "C02", Name: "C02.hist",
	Rule: "rapid histories of Add/Remove (values 0..U, U in {15,40,120,400}; distinct mode skips Adds of present values, dup mode allows duplicates with U in {12,40}; a third of the histories also replace the tree by its Clone() now and then and carry on with the clone; a third also Clear the tree and carry on, move the Tree value to a new place, call Contains, and do 'failed Contains(v), N modifications (N around 0, 2^8, 2^16, 2^17), Add(v)'; a sixth use a WEAK order - comparator on a key, elements distinguishable by a tag - where only balance is asserted); " + rule,
	Gen: func(t *rapid.T) Case {
		dup := rapid.IntRange(0, 4).Draw(t, "dup") == 0
		var u int
		var classes []int
		if dup {
			u = rapid.SampledFrom([]int{12, 40}).Draw(t, "u")
			classes = map[int][]int{12: {0, 4, 10, 16}, 40: {0, 6, 15, 40}}[u]
		} else {
			u = rapid.SampledFrom([]int{15, 40, 120, 400}).Draw(t, "u")
			classes = []int{0, 4, 10, 25, 60, 140}
		}
		addBias := rapid.SampledFrom([]int{50, 65, 80}).Draw(t, "addbias")
		withClone := rapid.IntRange(0, 2).Draw(t, "withclone") == 0
		extras := rapid.IntRange(0, 2).Draw(t, "extras") == 1
		op := rapid.Custom(func(t *rapid.T) Op {
			if withClone && rapid.IntRange(0, 19).Draw(t, "cl") == 0 {
				return Op{Clone: true}
			}
			if extras {
				switch rapid.IntRange(0, 24).Draw(t, "extra") {
				case 3:
					return Op{K: "clear"}
				case 7, 8:
					return Op{K: "move"}
				case 11, 12, 13:
					return Op{K: "has", V: rapid.IntRange(0, u).Draw(t, "v")}
				case 17:
					return Op{K: "probe", V: rapid.IntRange(0, u).Draw(t, "v"), N: rapid.SampledFrom([]int{0, 2, 6, 254, 256, 258, 65534, 65536, 65536, 131072}).Draw(t, "n")}
				}
			}
			return Op{Add: rapid.IntRange(0, 99).Draw(t, "a") < addBias, V: rapid.IntRange(0, u).Draw(t, "v")}
		})
		weak := rapid.IntRange(0, 5).Draw(t, "weak") == 0
		if weak {
			dup = false
			classes = []int{0, 4, 10, 25, 60}
		}
		return Case{Dup: dup, Weak: weak, Ops: pbt.OpsOf(t, op, classes, "ops")}
	},
	Run: Run, Quick: 5000, Thorough: 50000, Replicas: 4, ReplicaEvery: 8,
})

func TestC02Struct(t *testing.T) { pbt.Check(t, specStruct) }
func TestC02Hist(t *testing.T)   { pbt.Check(t, specHist) }
func TestReplay(t *testing.T)    { pbt.Replay(t) }
