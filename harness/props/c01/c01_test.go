// Package c01 decides C01: the AVL tree is a sorted multiset under every
// operation history (model-based differential check + one-tree shape oracle).
package c01

import (
	"fmt"
	"sort"
	"strconv"
	"strings"
	"testing"
	"time"

	"gopkg.in/typ.v4"
	"gopkg.in/typ.v4/avl"
	"pgregory.net/rapid"
	"verifharness/internal/pbt"
	"verifharness/internal/shape"
)

// Op kinds: "add" "rem" "has" "clear" "clone" (second tree := Clone of the addressed
// one) "walk" (compare Walk* with Slice*). T selects the tree (0 primary, 1 the
// clone when one exists).
type Op struct {
	K string `json:"k"`
	V int    `json:"v"`
	T int    `json:"t"`
	// probe only: N = number of remove+add pairs between the failed lookup and the Add; Move = the Tree value is
	// moved to a new place in between as well
	N    int  `json:"n,omitempty"`
	Move bool `json:"move,omitempty"`
}

type Case struct {
	Elem int  `json:"elem"` // 0 int/NewOrdered, 1 int/reversed comparator, 2 string/NewOrdered, 3 struct/lexicographic
	U    int  `json:"u"`    // values are drawn from 0..U
	Ops  []Op `json:"ops"`
	// CheckEvery > 1: the (O(n)) full comparison with the model runs only after every CheckEvery-th op and at the end
	// (big trees); Remove's result is still checked on every call
	CheckEvery int `json:"check_every,omitempty"`
}

type pair struct{ A, B int8 }

const rule = "case = element type/comparator (int+typ.Compare via NewOrdered, int+reversed comparator via New, string via NewOrdered, " +
	"2-field struct+lexicographic comparator) x universe 0..U (U in {3,12,40}) x history of add/rem/has/clear/clone/walk/move (the Tree value copied to a new place, only the copy used from then on)/probe (failed Contains(v), 0..131072 modifications, Add(v)) on a primary tree and " +
	"(after clone ops) up to two clones of the same lineage, walks abandoned by a panicking callback; after EVERY op both trees are compared with sorted-multiset models: SliceInOrder == model, Len, Contains over " +
	"the universe, String, Walk*==Slice* (with the tree read again from inside a walk callback), returned slices overwritten by the caller, Remove's result and single-occurrence effect, and pre/in/post-order must be explained by ONE binary tree; " +
	"non-trivial = >=5 ops incl. a successful Remove of a node with two children, a Remove of an absent value, a duplicate Add"

type tree[T comparable] struct {
	t     avl.Tree[T]
	model []int // sorted under cmpInt
	live  bool
}

type kit[T comparable] struct {
	mk     func(int) T
	un     func(T) int
	cmpInt func(a, b int) int // the comparator expressed on the int codes
	newT   func() avl.Tree[T]
}

func ints[T comparable](k kit[T], s []T) []int {
	r := make([]int, len(s))
	for i, v := range s {
		r[i] = k.un(v)
	}
	return r
}

func eq(a, b []int) bool {
	if len(a) != len(b) {
		return false
	}
	for i := range a {
		if a[i] != b[i] {
			return false
		}
	}
	return true
}

func Run(c Case) pbt.Outcome {
	switch c.Elem {
	case 0:
		return run(c, kit[int]{
			mk: func(i int) int { return i*7 - 50 }, un: func(v int) int { return (v + 50) / 7 },
			cmpInt: func(a, b int) int { return typ.Compare(a, b) },
			newT:   func() avl.Tree[int] { return avl.NewOrdered[int]() },
		})
	case 1:
		return run(c, kit[int]{
			mk: func(i int) int { return i }, un: func(v int) int { return v },
			cmpInt: func(a, b int) int { return typ.Compare(b, a) },
			newT:   func() avl.Tree[int] { return avl.New(func(a, b int) int { return typ.Compare(b, a) }) },
		})
	case 2:
		return run(c, kit[string]{
			mk: func(i int) string { return fmt.Sprintf("k%06d", i) }, un: func(v string) int { i, _ := strconv.Atoi(v[1:]); return i },
			cmpInt: func(a, b int) int { return typ.Compare(a, b) },
			newT:   func() avl.Tree[string] { return avl.NewOrdered[string]() },
		})
	default:
		return run(c, kit[pair]{
			mk: func(i int) pair { return pair{int8(i / 4), int8(i % 4)} }, un: func(p pair) int { return int(p.A)*4 + int(p.B) },
			cmpInt: func(a, b int) int { return typ.Compare(a, b) },
			newT: func() avl.Tree[pair] {
				return avl.New(func(a, b pair) int {
					if a.A != b.A {
						return typ.Compare(a.A, b.A)
					}
					return typ.Compare(a.B, b.B)
				})
			},
		})
	}
}

func run[T comparable](c Case, k kit[T]) pbt.Outcome {
	var out pbt.Outcome
	trees := [3]*tree[T]{{t: k.newT(), live: true}, {}, {}}
	clones := 0
	seenTwoChild, seenAbsent, seenDup, seenClone, seenClear, seenBigClone, seenThree, seenPanicWalk := false, false, false, false, false, false, false, false
	seenMove, seenLongProbe := false, false
	maxN := 0

	var lastPre [3][]int
	check := func(step int, which int, op Op, touched bool) string {
		tr := trees[which]
		if !tr.live {
			return ""
		}
		where := func() string { return fmt.Sprintf("after op %d %+v, tree %d", step, op, which) }
		rawIn := tr.t.SliceInOrder()
		in := ints(k, rawIn)
		if !eq(in, tr.model) {
			return fmt.Sprintf("%s: SliceInOrder = %v, model (sorted multiset) = %v", where(), in, tr.model)
		}
		// the returned slice belongs to the caller: overwriting it must not show up in the tree's later answers
		for j := range rawIn {
			rawIn[j] = k.mk(c.U + 1)
		}
		if tr.t.Len() != len(tr.model) {
			return fmt.Sprintf("%s: Len = %d, model has %d", where(), tr.t.Len(), len(tr.model))
		}
		rawPre := tr.t.SlicePreOrder()
		pre := ints(k, rawPre)
		for j := range rawPre {
			rawPre[j] = k.mk(c.U + 1)
		}
		if !touched {
			// the other tree must not have moved at all (no shared state): same contents, same shape
			if lastPre[which] != nil && !eq(pre, lastPre[which]) {
				return fmt.Sprintf("%s: this tree was not operated on but its pre-order changed from %v to %v", where(), lastPre[which], pre)
			}
			return ""
		}
		lastPre[which] = pre
		post := ints(k, tr.t.SlicePostOrder())
		if !shape.Exists(pre, in, post) {
			return fmt.Sprintf("%s: no single binary tree has pre=%v in=%v post=%v", where(), pre, in, post)
		}
		present := make(map[int]bool, len(tr.model))
		for _, m := range tr.model {
			present[m] = true
		}
		for v := -1; v <= c.U+1; v++ {
			has := present[v]
			if v >= 0 && tr.t.Contains(k.mk(v)) != has {
				return fmt.Sprintf("%s: Contains(%d) = %v, model says %v (contents %v, pre-order %v)", where(), v, !has, has, tr.model, pre)
			}
		}
		if op.K == "walk" || op.K == "clone" || step < 0 {
			want := make([]T, len(tr.model))
			for i, m := range tr.model {
				want[i] = k.mk(m)
			}
			if s := tr.t.String(); s != fmt.Sprint(want) {
				return fmt.Sprintf("%s: String = %q, want %q", where(), s, fmt.Sprint(want))
			}
		}
		return ""
	}

	for i, op := range c.Ops {
		which := 0
		if t := op.T % 3; t > 0 && trees[t].live {
			which = t
		}
		tr := trees[which]
		v := op.V
		switch op.K {
		case "move":
			// the Tree VALUE moves to a new place and only the copy is used from now on (New and Clone return a Tree by
			// value: every tree in a program has been moved at least once)
			nt := &tree[T]{t: tr.t, model: tr.model, live: true}
			trees[which] = nt
			tr = nt
			seenMove = true
		case "probe":
			// an unsuccessful Contains(v), then T*2 successful modifications (present elements removed and added again
			// in turn), then Add(v): nothing the lookup left behind may be trusted after later modifications
			absent := true
			for _, m := range tr.model {
				if m == v {
					absent = false
				}
			}
			if !absent || len(tr.model) < 3 {
				break
			}
			if tr.t.Contains(k.mk(v)) {
				return pbt.Fail("op %d %+v on tree %d: Contains(%d) = true, contents %v", i, op, which, v, tr.model)
			}
			n := op.N
			if op.Move {
				nt := &tree[T]{t: tr.t, model: tr.model, live: true}
				trees[which] = nt
				tr = nt
				seenMove = true
			}
			for j := 0; j < n; j++ {
				x := tr.model[(j*7)%len(tr.model)]
				if !tr.t.Remove(k.mk(x)) {
					return pbt.Fail("op %d %+v on tree %d: Remove(%d) of a present value returned false (modification %d of a run)", i, op, which, x, 2*j)
				}
				tr.t.Add(k.mk(x))
			}
			if n >= 32768 {
				seenLongProbe = true
			}
			tr.t.Add(k.mk(v))
			pos := sort.Search(len(tr.model), func(j int) bool { return k.cmpInt(tr.model[j], v) > 0 })
			tr.model = append(tr.model, 0)
			copy(tr.model[pos+1:], tr.model[pos:])
			tr.model[pos] = v
		case "add":
			for _, m := range tr.model {
				if m == v {
					seenDup = true
				}
			}
			tr.t.Add(k.mk(v))
			pos := sort.Search(len(tr.model), func(j int) bool { return k.cmpInt(tr.model[j], v) > 0 })
			tr.model = append(tr.model, 0)
			copy(tr.model[pos+1:], tr.model[pos:])
			tr.model[pos] = v
		case "rem":
			idx := -1
			for j, m := range tr.model {
				if m == v {
					idx = j
					break
				}
			}
			if idx >= 0 && len(tr.model) <= 300 {
				// classify: does the node found by search have two children in (one of) the tree(s) revealed?
				pre, in, post := ints(k, tr.t.SlicePreOrder()), ints(k, tr.t.SliceInOrder()), ints(k, tr.t.SlicePostOrder())
				if t, ok := shape.Any(pre, in, post); ok {
					n := t
					for n != nil && n.V != v {
						if k.cmpInt(v, n.V) < 0 {
							n = n.Left
						} else {
							n = n.Right
						}
					}
					if n != nil && n.Left != nil && n.Right != nil {
						seenTwoChild = true
					}
				}
			} else {
				seenAbsent = true
			}
			got := tr.t.Remove(k.mk(v))
			if got != (idx >= 0) {
				return pbt.Fail("op %d %+v on tree %d: Remove(%d) returned %v, value present in model: %v (contents before: %v)", i, op, which, v, got, idx >= 0, tr.model)
			}
			if idx >= 0 {
				tr.model = append(tr.model[:idx:idx], tr.model[idx+1:]...)
			}
		case "has":
			// covered by the universe sweep in check
		case "clear":
			tr.t.Clear()
			tr.model = nil
			seenClear = true
		case "clone":
			cl := tr.t.Clone()
			// up to two clones are alive next to the primary tree (three trees of one lineage): a new clone takes the free
			// slot, or replaces the older clone - never the tree it was cloned from
			dst := 1
			if trees[1].live {
				dst = 2
				if trees[2].live {
					dst = 1 + clones%2
					if dst == which {
						dst = 3 - dst
					}
				}
			}
			clones++
			trees[dst] = &tree[T]{t: cl, model: append([]int(nil), tr.model...), live: true}
			lastPre[dst] = nil
			seenClone = true
			if len(tr.model) >= 2 {
				seenBigClone = true
			}
			if trees[1].live && trees[2].live {
				seenThree = true
			}
			// the fresh clone gets the full check, every other tree the "unchanged" check
			if m := check(i, dst, op, true); m != "" {
				return pbt.Fail("%s", m)
			}
			for w := 0; w < 3; w++ {
				if w != dst {
					if m := check(i, w, op, false); m != "" {
						return pbt.Fail("%s", m)
					}
				}
			}
			continue
		case "pwalk":
			// a walk callback may leave early by panicking (recovered by the caller): that is the only way to stop a walk.
			// Nothing of the abandoned walk may leak into later walks of this or any other tree.
			stopAt := v % (len(tr.model) + 1)
			walkOne := func(walk func(func(T))) {
				defer func() { recover() }()
				n := 0
				walk(func(T) {
					if n == stopAt {
						panic("stop the walk")
					}
					n++
				})
			}
			switch v % 3 {
			case 0:
				walkOne(tr.t.WalkPreOrder)
			case 1:
				walkOne(tr.t.WalkInOrder)
			default:
				walkOne(tr.t.WalkPostOrder)
			}
			seenPanicWalk = true
		case "walk":
			var a, b, d []T
			// reading the tree from inside a walk callback is legal: at visit number V of each walk the callback
			// asks the same tree for its contents and they must be what they were
			nested := ""
			probe := func(walk string, visit int) {
				if nested != "" || visit != v%(len(tr.model)+1) {
					return
				}
				if got := ints(k, tr.t.SliceInOrder()); !eq(got, tr.model) {
					nested = fmt.Sprintf("SliceInOrder called from inside the %s callback (visit %d) = %v, contents are %v", walk, visit, got, tr.model)
				} else if tr.t.Len() != len(tr.model) {
					nested = fmt.Sprintf("Len called from inside the %s callback = %d, want %d", walk, tr.t.Len(), len(tr.model))
				} else if tr.t.Contains(k.mk(c.U + 1)) {
					nested = fmt.Sprintf("Contains(absent value) called from inside the %s callback = true", walk)
				} else if len(tr.model) > 0 && !tr.t.Contains(k.mk(tr.model[len(tr.model)-1])) {
					nested = fmt.Sprintf("Contains(%d) called from inside the %s callback = false, contents are %v", tr.model[len(tr.model)-1], walk, tr.model)
				}
			}
			tr.t.WalkPreOrder(func(x T) { probe("WalkPreOrder", len(a)); a = append(a, x) })
			tr.t.WalkInOrder(func(x T) { probe("WalkInOrder", len(b)); b = append(b, x) })
			tr.t.WalkPostOrder(func(x T) { probe("WalkPostOrder", len(d)); d = append(d, x) })
			if nested != "" {
				return pbt.Fail("op %d on tree %d: %s", i, which, nested)
			}
			if !eq(ints(k, a), ints(k, tr.t.SlicePreOrder())) || !eq(ints(k, b), ints(k, tr.t.SliceInOrder())) || !eq(ints(k, d), ints(k, tr.t.SlicePostOrder())) {
				return pbt.Fail("op %d on tree %d: Walk* and Slice* disagree: walks pre=%v in=%v post=%v", i, which, ints(k, a), ints(k, b), ints(k, d))
			}
		}
		if len(tr.model) > maxN {
			maxN = len(tr.model)
		}
		if c.CheckEvery > 1 && i%c.CheckEvery != 0 && op.K != "clone" {
			lastPre[which] = nil // not re-read: the "untouched tree did not move" comparison restarts at the next full check
			continue
		}
		// both trees are re-checked after every op: that is the independence check for clones
		for w := 0; w < 3; w++ {
			if m := check(i, w, op, w == which); m != "" {
				return pbt.Fail("%s", m)
			}
		}
	}
	for w := 0; w < 3; w++ {
		if m := check(-1, w, Op{K: "final"}, true); m != "" {
			return pbt.Fail("%s", m)
		}
	}
	out.NonTrivial = len(c.Ops) >= 5 && seenTwoChild && seenAbsent && seenDup
	lab := func(b bool, s string) {
		if b {
			out.Labels = append(out.Labels, s)
		}
	}
	lab(seenTwoChild, "remove-two-children")
	lab(seenAbsent, "remove-absent")
	lab(seenDup, "duplicate-add")
	lab(seenThree, "three-trees-of-one-lineage")
	lab(seenPanicWalk, "walk-abandoned-by-panic")
	lab(seenClone, "clone")
	lab(seenBigClone, "clone-of->=2")
	lab(seenClear, "clear")
	lab(seenMove, "tree-value-moved")
	lab(seenLongProbe, "add-after-failed-lookup-and-65536+-modifications")
	lab(maxN >= 16, "size>=16")
	lab(maxN >= 64, "size>=64")
	out.Labels = append(out.Labels, fmt.Sprintf("elem=%d", c.Elem))
	return out
}

func genOps(t *rapid.T, u int, classes []int, profile int) []Op {
	// profile 0: mixed; 1: growth-heavy (large trees, then clones); 2: churn (adds and removes balanced)
	var kinds []string
	switch profile {
	case 1:
		kinds = []string{"add", "add", "add", "add", "add", "add", "add", "add", "add", "add", "add", "add", "add", "add", "rem", "rem", "walk", "clone"}
	case 2:
		kinds = []string{"add", "add", "add", "add", "add", "add", "rem", "rem", "rem", "rem", "rem", "rem", "has", "walk", "pwalk", "clone", "clone", "clear"}
	default:
		kinds = []string{"add", "add", "add", "add", "add", "add", "add", "add", "add", "rem", "rem", "rem", "rem", "rem", "has", "walk", "pwalk", "clone", "clear"}
	}
	op := rapid.Custom(func(t *rapid.T) Op {
		k := rapid.SampledFrom(kinds).Draw(t, "k")
		if k == "clear" && rapid.IntRange(0, 3).Draw(t, "clr") != 0 {
			k = "add"
		}
		if k == "has" {
			switch rapid.IntRange(0, 5).Draw(t, "has") {
			case 1, 2:
				k = "move"
			case 3:
				k = "probe"
				return Op{K: k, V: rapid.IntRange(0, u).Draw(t, "v"), T: rapid.IntRange(0, 2).Draw(t, "t"), Move: rapid.Bool().Draw(t, "move"),
					N: rapid.SampledFrom([]int{0, 0, 0, 1, 3, 127, 128, 129, 32768, 65536}).Draw(t, "n")}
			}
		}
		return Op{K: k, V: rapid.IntRange(0, u).Draw(t, "v"), T: rapid.IntRange(0, 2).Draw(t, "t")}
	})
	return pbt.OpsOf(t, op, classes, "ops")
}

var specHist = pbt.Register(&pbt.Spec[Case]{
	Property: "C01", Name: "C01.hist", Rule: rule,
	Gen: func(t *rapid.T) Case {
		u := rapid.SampledFrom([]int{3, 12, 12, 40}).Draw(t, "u")
		profile := rapid.IntRange(0, 2).Draw(t, "profile")
		classes := []int{0, 3, 8, 8, 20, 20, 45, 100}
		return Case{Elem: rapid.IntRange(0, 3).Draw(t, "elem"), U: u, Ops: genOps(t, u, classes, profile)}
	},
	Run: Run, Quick: 15000, Thorough: 100000, Replicas: 4, ReplicaEvery: 16,
})

// ---------------------------------------------------------------- sparsest legal shapes

// FibCase builds the sparsest AVL tree of the given height (a Fibonacci tree: every node's subtrees differ by one
// level) by inserting its keys level by level - no rotation is ever needed - and then exercises every observer,
// Clone and a few removals on it. Depth-dependent code (explicit stacks sized from the element count, recursion
// limits) sees its worst case here: such a tree has ~1.44*log2(n) levels.
type FibCase struct {
	H    int `json:"h"`
	Elem int `json:"elem"`
}

// fibKeys returns the keys of the Fibonacci tree of height h (in edges) in level order, with in-order ranks as keys.
func fibKeys(h int) []int {
	type nd struct {
		l, r *nd
		key  int
	}
	var build func(h int) *nd
	build = func(h int) *nd {
		if h < 0 {
			return nil
		}
		if h == 0 {
			return &nd{}
		}
		return &nd{l: build(h - 1), r: build(h - 2)}
	}
	root := build(h)
	next := 0
	var number func(n *nd)
	number = func(n *nd) {
		if n == nil {
			return
		}
		number(n.l)
		n.key = next
		next++
		number(n.r)
	}
	number(root)
	var out []int
	q := []*nd{root}
	for len(q) > 0 {
		n := q[0]
		q = q[1:]
		if n == nil {
			continue
		}
		out = append(out, n.key)
		q = append(q, n.l, n.r)
	}
	return out
}

func RunFib(c FibCase) pbt.Outcome {
	keys := fibKeys(c.H)
	var ops []Op
	for _, kx := range keys {
		ops = append(ops, Op{K: "add", V: kx})
	}
	ops = append(ops, Op{K: "walk", V: len(keys) / 2}, Op{K: "clone"}, Op{K: "walk", V: 1, T: 1})
	// a few removals on the clone and on the original, each followed by the full check
	for j := 0; j < 6 && j < len(keys); j++ {
		ops = append(ops, Op{K: "rem", V: keys[(j*37)%len(keys)], T: j % 2}, Op{K: "walk", V: j, T: j % 2})
	}
	out := Run(Case{Elem: c.Elem, U: len(keys), Ops: ops})
	out.Labels = append(out.Labels, fmt.Sprintf("fib-height=%d", c.H))
	out.NonTrivial = out.Violation == "" && len(keys) >= 7
	out.Evals = len(ops)
	return out
}

var specFib = pbt.Register(&pbt.Spec[FibCase]{
	Property: "C01", Name: "C01.fib",
	Rule: "sparsest AVL shapes: for every height 0..12 (thorough 0..15; 1, 2, 4, 7, 12, 20, 33, 54, 88, 143, 232, 376, 609 ... elements) and element types int/reversed-int the Fibonacci tree is built by level-order insertion, " +
		"with the full C01 check (model, one-tree oracle, Contains sweep) after every insertion, then walks with nested reads, Clone, and removals on both trees; non-trivial = >= 7 elements",
	Enum: func(shard, shards int, tier string, yield func(FibCase) bool) {
		maxH := 12
		if tier == "thorough" {
			maxH = 15
		}
		for h := 0; h <= maxH; h++ {
			for _, elem := range []int{0, 1} {
				if (h+elem)%shards != shard {
					continue
				}
				if !yield(FibCase{H: h, Elem: elem}) {
					return
				}
			}
		}
	},
	Run: RunFib, Exhaustive: true, CaseCPU: 120 * time.Second,
})

// ---------------------------------------------------------------- big trees

type BigCase struct {
	N    int `json:"n"`    // number of Adds
	U    int `json:"u"`    // values 0..U (U < N: duplicates)
	Step int `json:"step"` // multiplicative step of the value sequence
	Elem int `json:"elem"`
}

func RunBig(c BigCase) pbt.Outcome {
	var ops []Op
	v := 1
	for i := 0; i < c.N; i++ {
		v = (v*c.Step + 7) % (c.U + 1)
		ops = append(ops, Op{K: "add", V: v})
		if i%97 == 96 {
			ops = append(ops, Op{K: "rem", V: (v * 31) % (c.U + 1)})
		}
	}
	ops = append(ops, Op{K: "walk", V: c.N / 3}, Op{K: "clone"})
	for i := 0; i < c.N/2; i++ {
		v = (v*c.Step + 7) % (c.U + 1)
		ops = append(ops, Op{K: "rem", V: v, T: i % 2})
	}
	ops = append(ops, Op{K: "walk", V: 5, T: 1}, Op{K: "walk", V: 9})
	every := max(c.N/24, 2)
	if c.N > 20000 {
		every = c.N / 3 // a handful of full comparisons on the very big trees
	}
	out := Run(Case{Elem: c.Elem, U: c.U, Ops: ops, CheckEvery: every})
	out.Evals = len(ops)
	out.NonTrivial = out.Violation == "" && c.N >= 257
	switch {
	case c.N >= 4097:
		out.Labels = append(out.Labels, "n>=4097")
	case c.N >= 1025:
		out.Labels = append(out.Labels, "n>=1025")
	case c.N >= 257:
		out.Labels = append(out.Labels, "n>=257")
	}
	return out
}

var specBig = pbt.Register(&pbt.Spec[BigCase]{
	Property: "C01", Name: "C01.big",
	Rule: "big trees: N in {257, 300, 1023, 1025, 2000, 4097, 5000, 65537} (thorough also 20000, 100000, 140000) adds of pseudo-random values from 0..U (U ~ N/2: many duplicates) interleaved with removes, a Clone, then N/2 removes alternating " +
		"between original and clone; full model comparison (in-order, Len, Contains sweep, one-tree oracle, walks with nested reads) at ~24 checkpoints and at the end; non-trivial = N >= 257",
	Enum: func(shard, shards int, tier string, yield func(BigCase) bool) {
		sizes := []int{257, 300, 1023, 1025, 2000, 4097, 5000, 65537}
		if tier == "thorough" {
			sizes = append(sizes, 20000, 100000, 140000)
		}
		k := 0
		for _, n := range sizes {
			for _, step := range []int{5, 1103} {
				for _, elem := range []int{0, 2} {
					if n > 20000 && tier != "thorough" && (step != 5 || elem != 0) {
						continue // one variant of the very big trees in the quick tier
					}
					k++
					if k%shards != shard {
						continue
					}
					if !yield(BigCase{N: n, U: n / 2, Step: step, Elem: elem}) {
						return
					}
				}
			}
		}
	},
	Run: RunBig, Exhaustive: true, CaseCPU: 300 * time.Second,
})

func TestC01Big(t *testing.T)  { pbt.Check(t, specBig) }
func TestC01Fib(t *testing.T)  { pbt.Check(t, specFib) }
func TestC01Hist(t *testing.T) { pbt.Check(t, specHist) }
func TestReplay(t *testing.T)  { pbt.Replay(t) }

var _ = strings.Join

// native fuzz target (engine E6, thorough tier): same generator, Run and oracle under coverage guidance
func FuzzC01Hist(f *testing.F) { pbt.Fuzz(f, specHist) }
