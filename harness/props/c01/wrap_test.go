package c01

import (
	"fmt"
	"testing"

	"gopkg.in/typ.v4/avl"
	"verifharness/internal/pbt"
)

// WrapCase (thorough tier only): a value is looked up successfully, removed, then exactly N-2 further modifications
// follow (Clear calls, the cheapest modification there is) and one Add of another value - N modifications in all since
// the lookup - and the value is looked up again: no modification counter may wrap into a stale answer.
type WrapCase struct {
	N int64 `json:"n"`
}

func RunWrap(c WrapCase) pbt.Outcome {
	tr := avl.NewOrdered[int]()
	for _, v := range []int{5, 3, 8, 1, 4, 7, 9} {
		tr.Add(v)
	}
	if !tr.Contains(4) {
		return pbt.Fail("Contains(4) = false for a present value")
	}
	if !tr.Remove(4) { // modification 1
		return pbt.Fail("Remove(4) = false for a present value")
	}
	for i := int64(0); i < c.N-2; i++ {
		tr.Clear()
	}
	tr.Add(6) // modification N
	if tr.Contains(4) {
		return pbt.Fail("Contains(4) = true: the value was looked up, removed, and after exactly %d modifications in all (Remove, %d Clear calls, one Add) the tree - which holds only 6 - claims to contain it", c.N, c.N-2)
	}
	if !tr.Contains(6) || tr.Len() != 1 {
		return pbt.Fail("after %d modifications the tree should hold exactly the value 6: Contains(6)=%v Len=%d", c.N, tr.Contains(6), tr.Len())
	}
	in := tr.SliceInOrder()
	if len(in) != 1 || in[0] != 6 {
		return pbt.Fail("after %d modifications in-order is %v, want [6]", c.N, in)
	}
	return pbt.Outcome{Evals: 1, NonTrivial: c.N >= 1<<32, Labels: []string{fmt.Sprintf("modifications=%d", c.N)}}
}

var specWrap = pbt.Register(&pbt.Spec[WrapCase]{
	Property: "C01", Name: "C01.wrap",
	Rule: "thorough tier only: successful Contains(v), Remove(v), then Clear calls and one Add so that exactly N modifications happened since the lookup, for N in {2^16, 2^16+-1, 2^24, 2^32, 2^32+-1}, then Contains(v) again (must be false) and the contents re-read; non-trivial = N >= 2^32",
	Enum: func(shard, shards int, tier string, yield func(WrapCase) bool) {
		for i, n := range []int64{1 << 32, 1<<32 - 1, 1<<32 + 1, 1 << 16, 1<<16 - 1, 1<<16 + 1, 1 << 24} {
			if i%shards == shard && !yield(WrapCase{n}) {
				return
			}
		}
	},
	Run: RunWrap, Exhaustive: true, CaseCPU: 1200e9,
})

func TestC01Wrap(t *testing.T) { pbt.Check(t, specWrap) }
