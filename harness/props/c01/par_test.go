package c01

import (
	"fmt"
	"runtime"
	"sort"
	"sync"
	"sync/atomic"
	"testing"

	"gopkg.in/typ.v4/avl"
	"pgregory.net/rapid"
	"verifharness/internal/pbt"
)

// ParCase: a tree is built, cloned Clones times (Clone is documented as independent of the original), and then the
// original and every clone are used at the same time, each by ONE goroutine of its own (barrier start), each against
// its own sorted-multiset model. Runs under the race detector: independent objects must not share memory.
type ParCase struct {
	Base   []int  `json:"base"`
	Progs  [][]Op `json:"progs"` // Progs[0] runs on the original, Progs[i] on clone i; ops add/rem/has
	Reps   int    `json:"reps"`
	Procs  int    `json:"procs"`
	ViaNew bool   `json:"via_new,omitempty"` // the "clones" are built independently with the same Adds instead of Clone()
}

func RunPar(c ParCase) pbt.Outcome {
	if c.Procs > 0 {
		defer runtime.GOMAXPROCS(runtime.GOMAXPROCS(c.Procs))
	}
	for rep := 0; rep < c.Reps; rep++ {
		mk := func() *avl.Tree[int] {
			t := avl.NewOrdered[int]()
			for _, v := range c.Base {
				t.Add(v)
			}
			return &t
		}
		trees := make([]*avl.Tree[int], len(c.Progs))
		trees[0] = mk()
		for i := 1; i < len(trees); i++ {
			if c.ViaNew {
				trees[i] = mk()
			} else {
				cl := trees[0].Clone()
				trees[i] = &cl
			}
		}
		base := append([]int(nil), c.Base...)
		sort.Ints(base)
		fails := make([]string, len(trees))
		var gate atomic.Int32
		var wg sync.WaitGroup
		for gi := range trees {
			gi := gi
			wg.Add(1)
			go func() {
				defer wg.Done()
				defer func() {
					if p := recover(); p != nil {
						fails[gi] = fmt.Sprintf("panic: %v", p)
					}
				}()
				t := trees[gi]
				model := append([]int(nil), base...)
				gate.Add(1)
				for int(gate.Load()) < len(trees) {
					runtime.Gosched()
				}
				for oi, op := range c.Progs[gi] {
					pos := sort.SearchInts(model, op.V)
					present := pos < len(model) && model[pos] == op.V
					switch op.K {
					case "add":
						t.Add(op.V)
						model = append(model, 0)
						copy(model[pos+1:], model[pos:])
						model[pos] = op.V
					case "rem":
						if got := t.Remove(op.V); got != present {
							fails[gi] = fmt.Sprintf("op %d: Remove(%d) = %v, its own model says present=%v", oi, op.V, got, present)
							return
						}
						if present {
							model = append(model[:pos], model[pos+1:]...)
						}
					default:
						if got := t.Contains(op.V); got != present {
							fails[gi] = fmt.Sprintf("op %d: Contains(%d) = %v, its own model says %v", oi, op.V, got, present)
							return
						}
					}
					if t.Len() != len(model) {
						fails[gi] = fmt.Sprintf("op %d %+v: Len = %d, its own model has %d", oi, op, t.Len(), len(model))
						return
					}
				}
				in := t.SliceInOrder()
				if len(in) != len(model) {
					fails[gi] = fmt.Sprintf("at the end: in-order has %d values, its own model %d", len(in), len(model))
					return
				}
				for i := range in {
					if in[i] != model[i] {
						fails[gi] = fmt.Sprintf("at the end: in-order %v, its own model %v", in, model)
						return
					}
				}
			}()
		}
		wg.Wait()
		for gi, f := range fails {
			if f != "" {
				who := "the original"
				if gi > 0 {
					who = fmt.Sprintf("clone %d", gi)
				}
				return pbt.Fail("repetition %d: a tree of %d values and its %d clone(s), each used by ONE goroutine of its own at the same time: %s: %s", rep, len(c.Base), len(trees)-1, who, f)
			}
		}
	}
	return pbt.Outcome{Evals: c.Reps, NonTrivial: len(c.Progs) >= 2 && len(c.Base) >= 3, Labels: []string{fmt.Sprintf("trees=%d", len(c.Progs))}}
}

var specPar = pbt.Register(&pbt.Spec[ParCase]{
	Property: "C01", Name: "C01.par",
	Rule: "E4 under -race: a tree of 0..60 values is cloned 1..3 times (one case in five: built independently instead), then the original and every clone are used at the same time, each by one goroutine of its own (spin-barrier start, 20 repetitions): " +
		"5..60 Add/Remove/Contains calls each, every result and Len against that tree's own sorted-multiset model, in-order contents at the end; a DATA RACE report is a violation (Clone is independent of the original); non-trivial = >=2 trees and >=3 base values",
	Gen: func(t *rapid.T) ParCase {
		u := rapid.SampledFrom([]int{6, 20, 80}).Draw(t, "u")
		c := ParCase{Base: rapid.SliceOfN(rapid.IntRange(0, u), 0, 60).Draw(t, "base"), Reps: 20, Procs: rapid.SampledFrom([]int{2, 4, 16}).Draw(t, "procs"),
			ViaNew: rapid.IntRange(0, 4).Draw(t, "vianew") == 2}
		n := rapid.IntRange(2, 4).Draw(t, "trees")
		op := rapid.Custom(func(t *rapid.T) Op {
			return Op{K: rapid.SampledFrom([]string{"add", "add", "add", "rem", "rem", "has"}).Draw(t, "k"), V: rapid.IntRange(0, u).Draw(t, "v")}
		})
		for i := 0; i < n; i++ {
			c.Progs = append(c.Progs, rapid.SliceOfN(op, 5, 60).Draw(t, fmt.Sprintf("p%d", i)))
		}
		return c
	},
	Run: RunPar, Quick: 150, Thorough: 4000, Crashy: true, Retries: 50,
})

func TestC01Par(t *testing.T) { pbt.Check(t, specPar) }
