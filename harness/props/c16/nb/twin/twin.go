// Package twin (second of two packages of this name), see verifharness/props/c16/na/twin.
package twin

// Job is 16 bytes: a pointer and an int.
type Job struct {
	P *int
	Q int
}

// Item is a 3-word struct here.
type Item struct {
	N    int
	Name string
}

// ID is one word that is a pointer.
type ID *int
