package c16

import (
	"testing"

	"verifharness/internal/pbt"
)

// ---- C16.apart: two calls on one container separated by 2^16 +- d calls of the same function on OTHER containers ----
//
// (C16.wrap16 sends 2^16 values through ONE container: state that is stamped per call - a generation number of a
// pooled scratch structure, say - is re-stamped by every one of those calls. Here container A rests while exactly
// g calls go to other containers, then A is used again.)

var apartPairs = [][]string{
	{"queue/int", "queue/int"}, {"stack-nil/int", "stack-nil/int"}, {"queue/string", "queue/string"}, {"queue/int", "queue/triple"},
	{"queue/int", "stack-nil/int"}, {"stack-cap/string", "stack-nil/string"}, {"queue/*int-own", "queue/*int"},
}

func apartGaps(tier string) []int {
	var out []int
	ks := []int{16}
	if tier == "thorough" {
		ks = []int{8, 15, 16, 17, 20}
	}
	for _, k := range ks {
		for d := -2; d <= 2; d++ {
			out = append(out, 1<<k+d)
		}
	}
	return out
}

// apartShapes: container 0 is A; g is the number of calls that go elsewhere.
func apartShapes(g int) [][]Phase {
	third := g / 3
	return [][]Phase{
		// g insertions elsewhere between two insertions into A
		{{C: 0, K: phFill, N: 3}, {C: 1, K: phFill, N: g}, {C: 0, K: phFill, N: 1}, {C: 0, K: phEmpty, N: 1}, {C: 1, K: phEmpty, N: 1}, {C: 0, K: phFill, N: 2}, {C: 0, K: phEmpty}},
		// g insertions and g removals elsewhere (a window of one) between an insertion into and a removal from A
		{{C: 0, K: phFill, N: 3}, {C: 1, K: phFill, N: 1}, {C: 1, K: phSlide, N: g}, {C: 0, K: phDrain, N: 1}, {C: 0, K: phFill, N: 2}, {C: 0, K: phEmpty, N: 1}, {C: 1, K: phEmpty}},
		// g removals elsewhere between two removals from A
		{{C: 0, K: phFill, N: 5}, {C: 1, K: phFill, N: g + 5}, {C: 0, K: phDrain, N: 1}, {C: 1, K: phDrain, N: g}, {C: 0, K: phDrain, N: 1}, {C: 0, K: phFill, N: 1}, {C: 0, K: phEmpty, N: 2}, {C: 1, K: phEmpty}},
		// the g calls spread over three other containers; A is empty (drained) meanwhile, then refilled
		{{C: 0, K: phFill, N: 2}, {C: 0, K: phEmpty}, {C: 1, K: phSlide, N: third}, {C: 2, K: phSlide, N: third}, {C: 3, K: phFill, N: g - 2*third}, {C: 0, K: phFill, N: 3}, {C: 0, K: phEmpty, N: 1}, {C: 3, K: phEmpty},
			{C: 1, K: phFill, N: 2}, {C: 1, K: phEmpty}},
	}
}

var specApart = pbt.Register(&pbt.Spec[PCase]{
	Property: "C16", Name: "C16.apart", Rule: "enumerated: container A rests while exactly g = 2^16+d (d -2..2; thorough: also 2^8, 2^15, 2^17, 2^20) calls of the same function go to other containers, then A is used again: " +
		"(1) A 3 insertions, B g insertions, A 1 insertion, all drained; (2) A 3 insertions, B a window of one moved g times, A removal, insertions, drained; (3) A 5 in / 1 out, B g+5 in / g out, A out ...; " +
		"(4) A filled and drained, g calls spread over three other containers, A refilled and drained; for the pairs (A,B) Queue[int]/Queue[int], Stack[int]/Stack[int], Queue[string]/Queue[string], Queue[int]/Queue[3-word struct], " +
		"Queue[int]/Stack[int], Stack[string] capacity 4/nil, Queue[*int]/Queue[*int]; each case both quiet (exactly the listed calls) and observed (Len/Peek after every call), every third case with every phase in a goroutine of its own; " +
		"every 61st value is the zero value; " + rule + ruleNTPhases,
	Enum: func(shard, shards int, tier string, yield func(PCase) bool) {
		idx := 0
		for _, g := range apartGaps(tier) {
			for _, pair := range apartPairs {
				for _, ph := range apartShapes(g) {
					for _, quiet := range []bool{true, false} {
						idx++
						if shards > 1 && idx%shards != shard {
							continue
						}
						c := PCase{Kind: pair[0], Kinds: []string{pair[0], pair[1], pair[1], pair[0]}, NC: 4, Quiet: quiet, ZeroEvery: 61, Phases: ph}
						if idx%3 == 0 {
							c.Hop = 1 + idx%2
						}
						if !yield(c) {
							return
						}
					}
				}
			}
		}
	},
	Run: RunPhases, CaseCPU: 120e9, Replicas: 4, ReplicaEvery: 16,
})

func TestC16Apart(t *testing.T) { pbt.Check(t, specApart) }
