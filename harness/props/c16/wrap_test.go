package c16

import (
	"fmt"
	"runtime/debug"
	"testing"

	"gopkg.in/typ.v4/lists"
	"verifharness/internal/pbt"
)

// WCase is one very long history on one container, executed by a tight loop without a model slice: the values
// are the sequence numbers 0,1,2,... (uint64), so the value that must come out next is known from two counters.
//
// The container (Kind "queue" = zero-value Queue[uint64], "stack" = nil Stack[uint64]) is first filled with Window
// values; then Rounds rounds follow, each: insert one value, Len, remove one value (Queue: the oldest; Stack: the
// one just pushed), Len, Peek. Every GrowEvery rounds (if > 0) Burst further values are inserted and removed again
// around the round (the container grows by Burst and shrinks back). Finally everything is removed (each value
// compared) and the empty container is poked.
type WCase struct {
	Kind      string `json:"kind"`
	Window    int    `json:"window"`
	Rounds    int64  `json:"rounds"`
	GrowEvery int64  `json:"grow_every,omitempty"`
	Burst     int    `json:"burst,omitempty"`
	// GCPercent > 0: the case runs under debug.SetGCPercent(GCPercent) (restored afterwards). The linked-list Queue
	// allocates one element per Enqueue while almost nothing is live, so with the default setting a case of 2^32
	// rounds spends most of its time in tens of thousands of collections of an empty heap. Only the one-case-per-
	// process unit C16.wrap32 uses it (the setting is global to the process).
	GCPercent int `json:"gc_percent,omitempty"`
}

func RunWrap(c WCase) pbt.Outcome {
	if c.Window < 0 || c.Window > 1<<20 || c.Rounds < 0 || c.Burst < 0 || c.Burst > 1<<20 {
		return pbt.Fail("malformed case: %+v", c)
	}
	if c.GCPercent > 0 {
		defer debug.SetGCPercent(debug.SetGCPercent(c.GCPercent))
	}
	var msg string
	var evals int64
	switch c.Kind {
	case "queue":
		msg, evals = wrapQueue(c)
	case "stack":
		msg, evals = wrapStack(c)
	default:
		return pbt.Fail("malformed case: unknown kind %q", c.Kind)
	}
	if msg != "" {
		return pbt.Fail("%s/uint64, window %d: %s", c.Kind, c.Window, msg)
	}
	out := pbt.Outcome{NonTrivial: c.Rounds >= 1<<16, Labels: []string{"kind=" + c.Kind, fmt.Sprintf("window=%d", c.Window)}}
	out.Evals = int(evals)
	for _, p := range []int{16, 20, 24, 32} {
		if c.Rounds+int64(c.Window) > 1<<p {
			out.Labels = append(out.Labels, fmt.Sprintf("values-through-one-container>2^%d", p))
		}
	}
	return out
}

func wrapQueue(c WCase) (string, int64) {
	var q lists.Queue[uint64]
	var in, outN uint64 // values ever enqueued / dequeued = the next value in / the value due out
	w := c.Window
	enq := func() { q.Enqueue(in); in++ }
	deq := func() string {
		v, ok := q.Dequeue()
		if !ok || v != outN {
			return fmt.Sprintf("Dequeue number %d = (%d,%v), want (%d,true) (%d values were enqueued, %d inside before the call)", outN+1, v, ok, outN, in, in-outN)
		}
		outN++
		return ""
	}
	for i := 0; i < w; i++ {
		enq()
	}
	if n := q.Len(); n != w {
		return fmt.Sprintf("Len after %d x Enqueue = %d, want %d", w, n, w), 0
	}
	for r := int64(0); r < c.Rounds; r++ {
		if c.GrowEvery > 0 && r%c.GrowEvery == c.GrowEvery-1 {
			for i := 0; i < c.Burst; i++ {
				enq()
			}
			if n := q.Len(); n != w+c.Burst {
				return fmt.Sprintf("Len after Enqueue number %d = %d, want %d", in, n, w+c.Burst), 0
			}
			for i := 0; i < c.Burst; i++ {
				if m := deq(); m != "" {
					return m, 0
				}
			}
		}
		q.Enqueue(in)
		in++
		if n := q.Len(); n != w+1 {
			return fmt.Sprintf("Len after Enqueue number %d (%d values dequeued so far) = %d, want %d", in, outN, n, w+1), 0
		}
		v, ok := q.Dequeue()
		if !ok || v != outN {
			return fmt.Sprintf("Dequeue number %d = (%d,%v), want (%d,true) (%d values were enqueued, %d inside before the call)", outN+1, v, ok, outN, in, in-outN), 0
		}
		outN++
		if n := q.Len(); n != w {
			return fmt.Sprintf("Len after Dequeue number %d (%d values enqueued so far) = %d, want %d", outN, in, n, w), 0
		}
		wp, wok := uint64(0), false
		if w > 0 {
			wp, wok = outN, true
		}
		if p, ok := q.Peek(); ok != wok || p != wp {
			return fmt.Sprintf("Peek after Dequeue number %d (%d values enqueued so far, %d inside) = (%d,%v), want (%d,%v)", outN, in, w, p, ok, wp, wok), 0
		}
	}
	for i := 0; i < w; i++ {
		if m := deq(); m != "" {
			return m, 0
		}
		if n := q.Len(); n != w-1-i {
			return fmt.Sprintf("Len after Dequeue number %d (%d values enqueued) = %d, want %d", outN, in, n, w-1-i), 0
		}
	}
	if v, ok := q.Dequeue(); ok || v != 0 {
		return fmt.Sprintf("Dequeue on the drained queue = (%d,%v), want (0,false)", v, ok), 0
	}
	if v, ok := q.Peek(); ok || v != 0 {
		return fmt.Sprintf("Peek on the drained queue = (%d,%v), want (0,false)", v, ok), 0
	}
	if n := q.Len(); n != 0 {
		return fmt.Sprintf("Len of the drained queue = %d, want 0", n), 0
	}
	q.Enqueue(in)
	if v, ok := q.Dequeue(); !ok || v != in || q.Len() != 0 {
		return fmt.Sprintf("Enqueue(%d), Dequeue on the drained queue = (%d,%v), Len %d, want (%d,true), 0", in, v, ok, q.Len(), in), 0
	}
	return "", 5*c.Rounds + int64(4*w)
}

func wrapStack(c WCase) (string, int64) {
	var s lists.Stack[uint64]
	var in uint64 // values ever pushed = the next value in
	w := c.Window
	for i := 0; i < w; i++ {
		s.Push(in)
		in++
	}
	// the w bottom values are 0..w-1; everything above is pushed and popped within a round
	top := func() (uint64, bool) {
		if w == 0 {
			return 0, false
		}
		return uint64(w - 1), true
	}
	for r := int64(0); r < c.Rounds; r++ {
		if c.GrowEvery > 0 && r%c.GrowEvery == c.GrowEvery-1 {
			first := in
			for i := 0; i < c.Burst; i++ {
				s.Push(in)
				in++
			}
			if n := len(s); n != w+c.Burst {
				return fmt.Sprintf("len after Push number %d = %d, want %d", in, n, w+c.Burst), 0
			}
			for i := c.Burst - 1; i >= 0; i-- {
				if v, ok := s.Pop(); !ok || v != first+uint64(i) {
					return fmt.Sprintf("Pop after Push number %d = (%d,%v), want (%d,true)", in, v, ok, first+uint64(i)), 0
				}
			}
		}
		s.Push(in)
		in++
		if n := len(s); n != w+1 {
			return fmt.Sprintf("len after Push number %d = %d, want %d", in, n, w+1), 0
		}
		if v, ok := s.Peek(); !ok || v != in-1 {
			return fmt.Sprintf("Peek after Push number %d = (%d,%v), want (%d,true)", in, v, ok, in-1), 0
		}
		if v, ok := s.Pop(); !ok || v != in-1 {
			return fmt.Sprintf("Pop after Push number %d = (%d,%v), want (%d,true)", in, v, ok, in-1), 0
		}
		if n := len(s); n != w {
			return fmt.Sprintf("len after Push number %d and Pop = %d, want %d", in, n, w), 0
		}
		wv, wok := top()
		if v, ok := s.Peek(); ok != wok || v != wv {
			return fmt.Sprintf("Peek after Push number %d and Pop = (%d,%v), want (%d,%v)", in, v, ok, wv, wok), 0
		}
	}
	for i := w - 1; i >= 0; i-- {
		if v, ok := s.Pop(); !ok || v != uint64(i) {
			return fmt.Sprintf("Pop while emptying after %d x Push = (%d,%v), want (%d,true)", in, v, ok, i), 0
		}
		if n := len(s); n != i {
			return fmt.Sprintf("len while emptying after %d x Push = %d, want %d", in, n, i), 0
		}
	}
	if v, ok := s.Pop(); ok || v != 0 {
		return fmt.Sprintf("Pop on the emptied stack = (%d,%v), want (0,false)", v, ok), 0
	}
	if v, ok := s.Peek(); ok || v != 0 {
		return fmt.Sprintf("Peek on the emptied stack = (%d,%v), want (0,false)", v, ok), 0
	}
	s.Push(in)
	if v, ok := s.Pop(); !ok || v != in || len(s) != 0 {
		return fmt.Sprintf("Push(%d), Pop on the emptied stack = (%d,%v), len %d, want (%d,true), 0", in, v, ok, len(s), in), 0
	}
	return "", 6*c.Rounds + int64(4*w)
}

const ruleWrap = "one container (zero-value Queue[uint64] / nil Stack[uint64]) is filled with w values 0..w-1, then R rounds of: insert the next sequence number, Len == w+1, remove (Queue: must be the oldest sequence number inside; " +
	"Stack: the number just pushed), Len == w, Peek == what the next removal returns; optionally every g-th round the container first grows by b values and shrinks back; finally all w values are removed and compared, " +
	"and the empty container must answer (0,false), Len 0 and work again; the values are 64-bit sequence numbers, so a counter or index of the implementation that wraps (16, 24 or 32 bits) shows as a wrong Len, value or ok; "

// wrap16Cases: the same loop with totals beyond 2^16 (.. 2^24 in the thorough tier), which is cheap enough for
// many windows: every window 0..9 and windows around the powers of two up to 4096, with and without growth.
func wrapCases(tier string) []WCase {
	var out []WCase
	totals := []int64{1<<16 + 40, 1<<17 + 40}
	windows := []int{0, 1, 2, 3, 4, 5, 7, 8, 9, 15, 16, 17, 63, 64, 65, 255, 256, 257, 1000, 4095, 4096, 4097}
	if tier == "thorough" {
		totals = append(totals, 1<<18+40, 1<<24+40)
		windows = append(windows, 31, 32, 33, 127, 128, 129, 511, 512, 513, 1023, 1024, 1025, 65535, 65536, 65537)
	}
	totals = append(totals, 1<<20+40)
	for _, kind := range []string{"queue", "stack"} {
		for ti, total := range totals {
			for i, w := range windows {
				if tier != "thorough" && ti == len(totals)-1 && w > 9 {
					continue // quick tier: 2^20 rounds for the windows 0..9 only
				}
				c := WCase{Kind: kind, Window: w, Rounds: total}
				if i%3 == 2 { // growth now and then: counters that are reset when the container grows do not hide
					c.GrowEvery, c.Burst = 20011, w+3
				}
				out = append(out, c)
			}
		}
	}
	return out
}

var specWrap16 = pbt.Register(&pbt.Spec[WCase]{
	Property: "C16", Name: "C16.wrap16", Rule: "enumerated: R = 2^16+40, 2^17+40 and (quick tier: windows 0..9 only) 2^20+40 (thorough: also 2^18+40, 2^24+40) rounds for each window w in 0..5,7,8,9,15,16,17,63,64,65,255,256,257,1000,4095,4096,4097 " +
		"(thorough: also around 32,128,512,1024,65536), Queue and Stack, every third case with growth by w+3 values every 20011 rounds: " + ruleWrap + "non-trivial = at least 2^16 rounds",
	Enum: func(shard, shards int, tier string, yield func(WCase) bool) {
		for i, c := range wrapCases(tier) {
			if shards > 1 && i%shards != shard {
				continue
			}
			if !yield(c) {
				return
			}
		}
	},
	Run: RunWrap, CaseCPU: 600e9, Replicas: 4, ReplicaEvery: 8,
})

// More than 2^32 values through one container: thorough tier only (minutes for the linked-list Queue).
var specWrap32 = pbt.Register(&pbt.Spec[WCase]{
	Property: "C16", Name: "C16.wrap32", Rule: "thorough tier only, two cases (one per shard): a Queue holding 2..3 values and a Stack holding 2..3 values, R = 2^32 + 2^20 rounds each (no growth after the first values: " +
		"free-running counters of the implementation pass 2^32 while the container is non-empty, and Len/Peek are looked at right then; the Queue case runs under debug.SetGCPercent(1600), " +
		"restored afterwards, because every Enqueue of the linked-list Queue allocates while nothing stays live); " + ruleWrap + "non-trivial = at least 2^16 rounds",
	Enum: func(shard, shards int, tier string, yield func(WCase) bool) {
		if tier != "thorough" {
			return
		}
		cases := []WCase{{Kind: "queue", Window: 2, Rounds: 1<<32 + 1<<20, GCPercent: 1600}, {Kind: "stack", Window: 2, Rounds: 1<<32 + 1<<20}}
		for i, c := range cases {
			if shards > 1 && i%shards != shard {
				continue
			}
			if !yield(c) {
				return
			}
		}
	},
	Run: RunWrap, CaseCPU: 7200e9,
})

func TestC16Wrap16(t *testing.T) { pbt.Check(t, specWrap16) }
func TestC16Wrap32(t *testing.T) { pbt.Check(t, specWrap32) }
