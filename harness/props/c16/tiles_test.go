package c16

import (
	"testing"

	"pgregory.net/rapid"
	"verifharness/internal/pbt"
)

// ---- C16.tiles: several Stacks that are adjacent windows of ONE buffer ----
//
// buf[o : o+L : o+L+S] is a legal Stack: it owns L values and S spare elements and nothing beyond (the three-index
// slice bounds its capacity). Its neighbours in the buffer are other stacks of the same case. Pushing up to the capacity
// of one of them writes into the shared buffer right up to the first value of the next one; the push after that must
// move the stack away (append semantics) and may not touch the neighbour. Each stack is checked against its own model,
// so a value of a neighbour that was overwritten shows when the neighbour is looked at again.

var specTiles = pbt.Register(&pbt.Spec[PCase]{
	Property: "C16", Name: "C16.tiles", Rule: "rapid: 2..6 Stacks of one element type (any of the 31) that are adjacent windows [L_i values, S_i spare] of one shared buffer (three-index slices), L_i in 0..9, 2^k+d (k 2..8), S_i in 0 (a third), 1,2,3,7, L_i+d, 1..40; " +
		"used alternately phase by phase, each against its own model (window i starts with the values 2^20 + i*2^12 + 0..L_i-1, the last one on top); one case in six with every phase in a goroutine of its own; " + rulePhases + rule + ruleNTPhases,
	Gen: func(t *rapid.T) PCase {
		elem := rapid.SampledFrom(allElems).Draw(t, "elem")
		nc := rapid.IntRange(2, 6).Draw(t, "tiles")
		c := PCase{Kind: "stack-tiles/" + elem, NC: nc}
		for i := 0; i < nc; i++ {
			var l, s int
			if rapid.Bool().Draw(t, "lsmall") {
				l = rapid.IntRange(0, 9).Draw(t, "l")
			} else {
				l = 1<<rapid.IntRange(2, 8).Draw(t, "lk") + rapid.SampledFrom(deltas).Draw(t, "ld")
			}
			switch rapid.IntRange(0, 5).Draw(t, "sclass") {
			case 2:
				s = rapid.SampledFrom([]int{1, 2, 3, 7}).Draw(t, "s")
			case 3:
				s = l + rapid.SampledFrom(deltas).Draw(t, "sd")
			case 4, 5:
				s = rapid.IntRange(1, 40).Draw(t, "sany")
			}
			if s < 0 {
				s = 0
			}
			c.Tiles = append(c.Tiles, [2]int{l, s})
		}
		c.Quiet = rapid.IntRange(0, 7).Draw(t, "quiet") == 0
		c.ZeroEvery = zeroEvery(t)
		if rapid.IntRange(0, 5).Draw(t, "hop") == 0 {
			c.Hop = rapid.SampledFrom([]int{1, 1, 1, 2}).Draw(t, "hop-mode")
		}
		budget := 3000
		if elemByName[elem].big {
			budget = 800
		}
		c.Phases = genPhases(t, nc, budget)
		return c
	},
	Run: RunPhases, Quick: 1500, Thorough: 12000, Replicas: 4, ReplicaEvery: 8,
})

func TestC16Tiles(t *testing.T) { pbt.Check(t, specTiles) }
