// Package c16 decides C16: lists.Queue is FIFO and lists.Stack is LIFO.
package c16

import (
	"fmt"
	"testing"

	"gopkg.in/typ.v4/lists"
	"pgregory.net/rapid"
	"verifharness/internal/pbt"
)

// Op kinds.
const (
	opInsert = 0 // Enqueue / Push of value V
	opRemove = 1 // Dequeue / Pop
	opPeek   = 2 // Peek
	opLen    = 3 // Len / len
	nOps     = 4
)

type Op struct {
	K int `json:"k"` // kind, see op* constants
	V int `json:"v"` // value for opInsert (0 = the zero value of the element type)
}

// Case is one history on one fresh container.
//
// Kind: "queue" (zero-value Queue[int]), "queue-str" (zero-value Queue[string]),
// "stack-nil" (var s Stack[int], nil), "stack-empty" (Stack[int]{}, non-nil),
// "stack-cap" (make(Stack[int],0,4): spare capacity), "stack-str" (nil Stack[string]).
type Case struct {
	Kind string `json:"kind"`
	Ops  []Op   `json:"ops"`
}

var kinds = []string{"queue", "queue-str", "stack-nil", "stack-empty", "stack-cap", "stack-str"}

const rule = "one fresh container per case (zero-value Queue[int]/Queue[string]; nil, empty, spare-capacity Stack[int]; nil Stack[string]); " +
	"ops Insert v/Remove/Peek/Len executed against a slice model (FIFO for Queue, LIFO for Stack); after EVERY call: returned value and ok flag, " +
	"Len == model size, Peek == (what the next removal will return, true) and removes nothing, on empty Remove/Peek == (zero,false) and the container " +
	"stays empty and usable; non-trivial = at least 10 ops and at least 2 drain-to-empty events each followed by a refill"

// box hides Queue vs Stack behind closures over one fresh container.
type box[E any] struct {
	ins  func(E)
	rem  func() (E, bool)
	peek func() (E, bool)
	size func() int
}

func queueBox[E any]() box[E] {
	var q lists.Queue[E] // the zero value
	return box[E]{ins: q.Enqueue, rem: q.Dequeue, peek: q.Peek, size: q.Len}
}

func stackBox[E any](s lists.Stack[E]) box[E] {
	p := &s
	return box[E]{ins: p.Push, rem: p.Pop, peek: p.Peek, size: func() int { return len(*p) }}
}

var words = []string{"", "a", "b", "c", "d", "e", "f", "g"}

func strOf(v int) string {
	if v == 0 {
		return ""
	}
	if v < 0 {
		v = -v
	}
	return fmt.Sprintf("%s%d", words[v%len(words)], v)
}

func Run(c Case) pbt.Outcome {
	switch c.Kind {
	case "queue":
		return run(c, queueBox[int](), true, func(v int) int { return v })
	case "queue-str":
		return run(c, queueBox[string](), true, strOf)
	case "stack-nil":
		var s lists.Stack[int]
		return run(c, stackBox(s), false, func(v int) int { return v })
	case "stack-empty":
		return run(c, stackBox(lists.Stack[int]{}), false, func(v int) int { return v })
	case "stack-cap":
		return run(c, stackBox(make(lists.Stack[int], 0, 4)), false, func(v int) int { return v })
	case "stack-str":
		var s lists.Stack[string]
		return run(c, stackBox(s), false, strOf)
	}
	return pbt.Fail("malformed case: unknown kind %q", c.Kind)
}

func run[E comparable](c Case, b box[E], fifo bool, conv func(int) E) pbt.Outcome {
	var zero E
	var model []E
	insName, remName := "Push", "Pop"
	if fifo {
		insName, remName = "Enqueue", "Dequeue"
	}
	// next is what the next removal must return.
	next := func() (E, bool) {
		if len(model) == 0 {
			return zero, false
		}
		if fifo {
			return model[0], true
		}
		return model[len(model)-1], true
	}
	var (
		drains, drainsRefilled int
		pendingDrain           bool
		emptyRemove, emptyPeek bool
		zeroInserted           bool
		maxLen                 int
		removals               int
	)
	evals := 0
	// invariant checked after every call: Len, Peek (twice: it must not remove), Len again.
	check := func(i int, what string) string {
		if got := b.size(); got != len(model) {
			return fmt.Sprintf("%s op %d (%s): Len = %d, want %d (model %v)", c.Kind, i, what, got, len(model), model)
		}
		wv, wok := next()
		for rep := 0; rep < 2; rep++ {
			gv, gok := b.peek()
			if gok != wok || gv != wv {
				return fmt.Sprintf("%s op %d (%s): Peek #%d afterwards = (%v,%v), want (%v,%v) = what the next %s returns (model %v)",
					c.Kind, i, what, rep+1, gv, gok, wv, wok, remName, model)
			}
		}
		if got := b.size(); got != len(model) {
			return fmt.Sprintf("%s op %d (%s): Len after Peek = %d, want %d: Peek removed or added something (model %v)", c.Kind, i, what, got, len(model), model)
		}
		evals += 4
		return ""
	}
	if m := check(-1, "fresh container"); m != "" {
		return pbt.Fail("%s", m)
	}
	for i, op := range c.Ops {
		var what string
		switch ((op.K % nOps) + nOps) % nOps {
		case opInsert:
			v := conv(op.V)
			what = fmt.Sprintf("%s(%v)", insName, v)
			b.ins(v)
			model = append(model, v)
			if v == zero {
				zeroInserted = true
			}
			if pendingDrain {
				pendingDrain = false
				drainsRefilled++
			}
			if len(model) > maxLen {
				maxLen = len(model)
			}
		case opRemove:
			what = remName + "()"
			wv, wok := next()
			gv, gok := b.rem()
			if gok != wok || gv != wv {
				return pbt.Fail("%s op %d: %s = (%v,%v), want (%v,%v); model before the call (oldest first): %v", c.Kind, i, what, gv, gok, wv, wok, model)
			}
			if wok {
				removals++
				if fifo {
					model = model[1:]
				} else {
					model = model[:len(model)-1]
				}
				if len(model) == 0 {
					drains++
					pendingDrain = true
				}
			} else {
				emptyRemove = true
			}
		case opPeek:
			what = "Peek()"
			wv, wok := next()
			gv, gok := b.peek()
			if gok != wok || gv != wv {
				return pbt.Fail("%s op %d: Peek() = (%v,%v), want (%v,%v); model (oldest first): %v", c.Kind, i, gv, gok, wv, wok, model)
			}
			if !wok {
				emptyPeek = true
			}
		case opLen:
			what = "Len()"
			if got := b.size(); got != len(model) {
				return pbt.Fail("%s op %d: Len() = %d, want %d; model: %v", c.Kind, i, got, len(model), model)
			}
		}
		evals++
		if m := check(i, what); m != "" {
			return pbt.Fail("%s", m)
		}
	}
	out := pbt.Outcome{Evals: evals}
	out.NonTrivial = len(c.Ops) >= 10 && drainsRefilled >= 2
	out.Labels = append(out.Labels, "kind="+c.Kind)
	switch {
	case drainsRefilled >= 2:
		out.Labels = append(out.Labels, "drain+refill>=2")
	case drainsRefilled == 1:
		out.Labels = append(out.Labels, "drain+refill=1")
	default:
		out.Labels = append(out.Labels, "drain+refill=0")
	}
	if drains > 0 {
		out.Labels = append(out.Labels, "drained-to-empty")
	}
	if emptyRemove {
		out.Labels = append(out.Labels, "remove-on-empty")
	}
	if emptyPeek {
		out.Labels = append(out.Labels, "peek-on-empty")
	}
	if zeroInserted {
		out.Labels = append(out.Labels, "zero-value-inserted")
	}
	switch {
	case maxLen >= 8:
		out.Labels = append(out.Labels, "maxlen>=8")
	case maxLen >= 3:
		out.Labels = append(out.Labels, "maxlen=3..7")
	default:
		out.Labels = append(out.Labels, "maxlen<3")
	}
	switch {
	case len(c.Ops) >= 40:
		out.Labels = append(out.Labels, "ops>=40")
	case len(c.Ops) >= 10:
		out.Labels = append(out.Labels, "ops=10..39")
	default:
		out.Labels = append(out.Labels, "ops<10")
	}
	if removals >= 5 {
		out.Labels = append(out.Labels, "removals>=5")
	}
	return out
}

// genOps builds an op list (<= 80) out of bursts: fill, drain-to-empty (plus
// extra removals on the empty container), partial drain, mixed, observers. The
// generator tracks the size so that "drain" bursts really reach empty.
func genOps(t *rapid.T) []Op {
	var ops []Op
	size := 0
	id := 0
	ins := func() {
		id++
		v := id
		if rapid.IntRange(0, 19).Draw(t, "zero") == 0 {
			v = 0
		}
		ops = append(ops, Op{K: opInsert, V: v})
		size++
	}
	rem := func() {
		ops = append(ops, Op{K: opRemove})
		if size > 0 {
			size--
		}
	}
	nb := rapid.IntRange(2, 16).Draw(t, "bursts")
	for b := 0; b < nb && len(ops) < 80; b++ {
		switch rapid.SampledFrom([]int{0, 0, 0, 1, 1, 1, 2, 3, 3, 4}).Draw(t, "burst") {
		case 0: // fill
			for k := rapid.IntRange(1, 9).Draw(t, "fill"); k > 0 && len(ops) < 80; k-- {
				ins()
			}
		case 1: // drain to empty, then poke the empty container
			for size > 0 && len(ops) < 80 {
				rem()
			}
			for k := rapid.IntRange(0, 2).Draw(t, "extra"); k > 0 && len(ops) < 80; k-- {
				if rapid.Bool().Draw(t, "peek") {
					ops = append(ops, Op{K: opPeek})
				} else {
					rem()
				}
			}
		case 2: // partial drain
			for k := rapid.IntRange(1, 4).Draw(t, "part"); k > 0 && len(ops) < 80; k-- {
				rem()
			}
		case 3: // mixed
			for k := rapid.IntRange(1, 10).Draw(t, "mixed"); k > 0 && len(ops) < 80; k-- {
				switch rapid.IntRange(0, 5).Draw(t, "m") {
				case 0, 1, 2:
					ins()
				case 3, 4:
					rem()
				default:
					ops = append(ops, Op{K: opPeek})
				}
			}
		case 4: // observers
			ops = append(ops, Op{K: rapid.SampledFrom([]int{opPeek, opLen}).Draw(t, "obs")})
		}
	}
	return ops
}

var queueKinds = []string{"queue", "queue-str"}
var stackKinds = []string{"stack-nil", "stack-empty", "stack-cap", "stack-str"}

var specQueue = pbt.Register(&pbt.Spec[Case]{
	Property: "C16", Name: "C16.queue", Rule: "rapid: Queue kinds, op list <= 80 built from bursts (fill 1..9, drain to empty + 0..2 calls on the empty container, partial drain, mixed, observers), values are unique ids with 5% zero values; " + rule,
	Gen: func(t *rapid.T) Case {
		return Case{Kind: rapid.SampledFrom(queueKinds).Draw(t, "kind"), Ops: genOps(t)}
	},
	Run: Run, Quick: 30000, Thorough: 200000,
})

var specStack = pbt.Register(&pbt.Spec[Case]{
	Property: "C16", Name: "C16.stack", Rule: "rapid: Stack kinds, op list <= 80 built from bursts (fill 1..9, drain to empty + 0..2 calls on the empty container, partial drain, mixed, observers), values are unique ids with 5% zero values; " + rule,
	Gen: func(t *rapid.T) Case {
		return Case{Kind: rapid.SampledFrom(stackKinds).Draw(t, "kind"), Ops: genOps(t)}
	},
	Run: Run, Quick: 30000, Thorough: 200000,
})

// Exhaustive small scope: every sequence over {Insert, Remove, Peek} up to a
// length bound, for every kind (Len is observed after every call anyway).
// Inserted values are 1,2,3,... except that the second insertion is the zero value.
var specEnum = pbt.Register(&pbt.Spec[Case]{
	Property: "C16", Name: "C16.enum", Rule: "exhaustive: every sequence over {Insert, Remove, Peek} of length 0..10 (thorough: 0..12) for each of the 6 container kinds; inserted values are 1,0,3,4,... (the 2nd insertion is the zero value); " + rule,
	Enum: func(shard, shards int, tier string, yield func(Case) bool) {
		maxLen := 10
		if tier == "thorough" {
			maxLen = 12
		}
		idx := 0
		for _, kind := range kinds {
			for l := 0; l <= maxLen; l++ {
				total := 1
				for i := 0; i < l; i++ {
					total *= 3
				}
				for code := 0; code < total; code++ {
					idx++
					if shards > 1 && idx%shards != shard {
						continue
					}
					ops := make([]Op, l)
					x := code
					id := 0
					for i := 0; i < l; i++ {
						k := x % 3
						x /= 3
						ops[i].K = k
						if k == opInsert {
							id++
							ops[i].V = id
							if id == 2 {
								ops[i].V = 0
							}
						}
					}
					if !yield(Case{Kind: kind, Ops: ops}) {
						return
					}
				}
			}
		}
	},
	Run: Run, Exhaustive: true,
})

func TestC16Enum(t *testing.T)  { pbt.Check(t, specEnum) }
func TestC16Queue(t *testing.T) { pbt.Check(t, specQueue) }
func TestC16Stack(t *testing.T) { pbt.Check(t, specStack) }
func TestReplay(t *testing.T)   { pbt.Replay(t) }
