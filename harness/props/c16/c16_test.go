// Package c16 decides C16: lists.Queue is FIFO and lists.Stack is LIFO.
//
// Files: c16_test.go (model engine, explicit op-list cases: C16.enum, C16.types, C16.queue, C16.stack, C16.gc),
// elems_test.go (the element types, preloaded stacks), phases_test.go (long phase histories: C16.phases.queue,
// C16.phases.stack, C16.grid, C16.pair), big_test.go (C16.big: sizes 2^11..2^20 under different GOMAXPROCS; C16.pre:
// stacks converted from slices with values and spare capacity; C16.huge: zero-size elements, lengths up to MaxInt),
// wrap_test.go (C16.wrap16, C16.wrap32: 2^16..2^32 values through one container), clock_test.go (C16.clock: histories
// that really sleep), names_test.go (C16.names: distinct element types with one printed name; the packages na/twin and
// nb/twin), apart_test.go (C16.apart: 2^16+-d calls on other containers between two calls), mega_test.go (C16.mega:
// 2^22..2^24 values inside), tiles_test.go (C16.tiles: stacks that are windows of one buffer), guard_test.go (C16.guard:
// stacks that end at a PROT_NONE page), local_test.go (C16.local: a stack over a function-local array).
package c16

import (
	"fmt"
	"runtime/debug"
	"strings"
	"testing"

	"gopkg.in/typ.v4/lists"
	"pgregory.net/rapid"
	"verifharness/internal/pbt"
)

// Op kinds.
const (
	opInsert = 0 // Enqueue / Push of value V
	opRemove = 1 // Dequeue / Pop
	opPeek   = 2 // Peek
	opLen    = 3 // Len / len
	opGC     = 4 // not a library call: runtime.GC() plus a burst of small allocations (see gcNow)
	nOps     = 5
)

type Op struct {
	K int `json:"k"` // kind, see op* constants
	V int `json:"v"` // value for opInsert (0 = the zero value of the element type)
}

// Case is one history on one fresh container.
//
// Kind is "<container>/<element type>", container one of "queue" (zero-value Queue), "stack-nil" (var s Stack),
// "stack-empty" (Stack{}, non-nil), "stack-cap" (make(Stack,0,4): spare capacity), "stack-cap100",
// "stack-pre<L>+<S>" (conversion of a slice that holds L values and has S elements of unused capacity); the element
// types are listed in elems_test.go. The first generation of names is still understood: "queue" (= queue/int),
// "queue-str" (= queue/string), "stack-nil", "stack-empty", "stack-cap" (int) and "stack-str" (= stack-nil/string).
//
// Quiet: the harness makes no observing calls (Len, Peek) of its own after each operation, so that the history
// contains exactly the listed calls (a Peek or Len between two operations could hide or repair state).
type Case struct {
	Kind  string `json:"kind"`
	Quiet bool   `json:"quiet,omitempty"`
	Ops   []Op   `json:"ops"`
}

var legacyKinds = []string{"queue", "queue-str", "stack-nil", "stack-empty", "stack-cap", "stack-str"}

var containers = []string{"queue", "stack-nil", "stack-empty", "stack-cap", "stack-cap100"}

const rule = "one fresh container per case (zero-value Queue[E]; nil, empty, spare-capacity Stack[E]) for E among 31 element types of sizes 0,1,2,3,7,8,12,16,24,32,40,50,100,128,129,320,1500 bytes " +
	"(ints incl. values next to MinInt/MaxInt, string, float64 incl. -0.0/NaN/Inf compared by bits, [3]byte, [3]int32, [5]int64, 3-word struct with own methods, slices (nil, empty, shared backing; compared by pointer+len+cap), " +
	"non-comparable struct, map, func, pointer, interface holding comparable and non-comparable values, struct{}, [0]int, [0]func(), [16]int64, [129]byte, [40]int64, [1500]byte, and *int / string values that only the container references " +
	"(the model keeps an equal value in a separate allocation)); " +
	"ops Insert v/Remove/Peek/Len executed against a slice model (FIFO for Queue, LIFO for Stack); after EVERY call (except in quiet cases, where only the listed calls are made): returned value and ok flag, " +
	"Len == model size, Peek == (what the next removal will return, true) and removes nothing, on empty Remove/Peek == (zero,false) and the container " +
	"stays empty and usable"

const ruleNT = "; non-trivial = at least 10 ops and at least 2 drain-to-empty events each followed by a refill"

// box hides Queue vs Stack behind closures over one fresh container.
type box[E any] struct {
	ins  func(E)
	rem  func() (E, bool)
	peek func() (E, bool)
	size func() int
}

func queueBox[E any]() box[E] {
	var q lists.Queue[E] // the zero value
	return box[E]{ins: q.Enqueue, rem: q.Dequeue, peek: q.Peek, size: q.Len}
}

func stackBox[E any](s lists.Stack[E]) box[E] {
	p := &s
	return box[E]{ins: p.Push, rem: p.Pop, peek: p.Peek, size: func() int { return len(*p) }}
}

// stats is what the engine records about one container's history.
type stats struct {
	calls                  int // library calls requested by the case (not the harness's own observers)
	inserts, removals      int
	drains, drainsRefilled int
	pendingDrain           bool
	emptyRemove, emptyPeek bool
	zeroInserted           bool
	maxLen                 int
	evals                  int
	drainAtMult64          bool // drained to empty when the number of values ever inserted was a positive multiple of 64
	gcs                    int  // garbage collections in the middle of the history
	slidHigh               int  // removals performed while at least 32 values stayed inside and values had been inserted after the previous removal
}

// engine is one container plus its model; every method returns "" or a violation text.
type engine interface {
	insert(i, v int) string
	remove(i int) string
	peek(i int) string
	length(i int) string
	gc(i int) string
	check(i int, what string, withArg bool) string
	size() int
	st() *stats
	release() // gives back memory obtained outside the Go heap (guard containers); the engine is dead afterwards
}

type eng[E any] struct {
	tag           string // case kind (+ container index), leads every message
	b             box[E]
	fifo          bool
	quiet         bool
	conv          func(int) E
	modelConv     func(int) E // nil: the model keeps the very value that was inserted
	eq            func(a, b E) bool
	model         []E
	lastWasInsert bool
	free          func() // nil or the release of the container's non-heap memory
	stats
}

func (e *eng[E]) release() {
	if e.free != nil {
		e.b = box[E]{} // nothing may touch the memory any more
		e.free()
		e.free = nil
	}
}

func (e *eng[E]) st() *stats { return &e.stats }
func (e *eng[E]) size() int  { return len(e.model) }

func (e *eng[E]) names() (string, string) {
	if e.fifo {
		return "Enqueue", "Dequeue"
	}
	return "Push", "Pop"
}

// show prints the model, oldest first, shortened to both ends when long.
func (e *eng[E]) show() string {
	m := e.model
	if len(m) <= 12 {
		return shortAll(m)
	}
	return fmt.Sprintf("(%d values) %s ... %s", len(m), shortAll(m[:6]), shortAll(m[len(m)-6:]))
}

// call renders "Name(arg)" for messages.
func (e *eng[E]) call(what string, withArg bool) string {
	if what == "fresh container" {
		return what
	}
	if !withArg || len(e.model) == 0 {
		return what + "()"
	}
	return fmt.Sprintf("%s(%s)", what, short(e.model[len(e.model)-1]))
}

// short prints a value, cut to 100 characters (wide element types).
func short(v any) string {
	s := fmt.Sprintf("%v", v)
	if len(s) > 100 {
		s = s[:100] + "..."
	}
	return s
}

// shortAll prints a few values.
func shortAll[E any](vs []E) string {
	var b strings.Builder
	b.WriteByte('[')
	for i, v := range vs {
		if i > 0 {
			b.WriteByte(' ')
		}
		b.WriteString(short(v))
	}
	b.WriteByte(']')
	return b.String()
}

// next is what the next removal must return.
func (e *eng[E]) next() (E, bool) {
	if len(e.model) == 0 {
		var zero E
		return zero, false
	}
	if e.fifo {
		return e.model[0], true
	}
	return e.model[len(e.model)-1], true
}

// check is the invariant evaluated after every call: Len, Peek (twice: it must not remove), Len again.
//
// what/withArg describe the call just made (withArg: an insertion, its argument is the newest model value);
// the text is only built on failure.
func (e *eng[E]) check(i int, what string, withArg bool) string {
	if e.quiet {
		return ""
	}
	_, remName := e.names()
	if got := e.b.size(); got != len(e.model) {
		return fmt.Sprintf("%s op %d (%s): Len = %d, want %d (model %s)", e.tag, i, e.call(what, withArg), got, len(e.model), e.show())
	}
	wv, wok := e.next()
	for rep := 0; rep < 2; rep++ {
		gv, gok := e.b.peek()
		if gok != wok || !e.eq(gv, wv) {
			return fmt.Sprintf("%s op %d (%s): Peek #%d afterwards = (%s,%v), want (%s,%v) = what the next %s returns (model %s)",
				e.tag, i, e.call(what, withArg), rep+1, short(gv), gok, short(wv), wok, remName, e.show())
		}
	}
	if got := e.b.size(); got != len(e.model) {
		return fmt.Sprintf("%s op %d (%s): Len after Peek = %d, want %d: Peek removed or added something (model %s)", e.tag, i, e.call(what, withArg), got, len(e.model), e.show())
	}
	e.evals += 4
	return ""
}

func (e *eng[E]) insert(i, v int) string {
	insName, _ := e.names()
	if e.modelConv != nil {
		e.b.ins(e.conv(v)) // the argument is referenced by nothing but the container afterwards
		e.model = append(e.model, e.modelConv(v))
	} else {
		x := e.conv(v)
		e.b.ins(x)
		e.model = append(e.model, x)
	}
	e.calls++
	e.inserts++
	e.evals++
	e.lastWasInsert = true
	if v == 0 {
		e.zeroInserted = true
	}
	if e.pendingDrain {
		e.pendingDrain = false
		e.drainsRefilled++
	}
	if len(e.model) > e.maxLen {
		e.maxLen = len(e.model)
	}
	return e.check(i, insName, true)
}

func (e *eng[E]) remove(i int) string {
	_, remName := e.names()
	wv, wok := e.next()
	gv, gok := e.b.rem()
	e.calls++
	e.evals++
	if gok != wok || !e.eq(gv, wv) {
		return fmt.Sprintf("%s op %d: %s() = (%s,%v), want (%s,%v); model before the call (oldest first): %s", e.tag, i, remName, short(gv), gok, short(wv), wok, e.show())
	}
	if wok {
		e.removals++
		if e.fifo {
			var zero E
			e.model[0] = zero
			e.model = e.model[1:]
		} else {
			e.model = e.model[:len(e.model)-1]
		}
		if e.lastWasInsert && len(e.model) >= 32 {
			e.slidHigh++
		}
		if len(e.model) == 0 {
			e.drains++
			e.pendingDrain = true
			if e.inserts%64 == 0 {
				e.drainAtMult64 = true
			}
		}
	} else {
		e.emptyRemove = true
	}
	e.lastWasInsert = false
	return e.check(i, remName, false)
}

func (e *eng[E]) peek(i int) string {
	wv, wok := e.next()
	gv, gok := e.b.peek()
	e.calls++
	e.evals++
	if gok != wok || !e.eq(gv, wv) {
		return fmt.Sprintf("%s op %d: Peek() = (%s,%v), want (%s,%v); model (oldest first): %s", e.tag, i, short(gv), gok, short(wv), wok, e.show())
	}
	if !wok {
		e.emptyPeek = true
	}
	return e.check(i, "Peek", false)
}

// gc runs a garbage collection in the middle of the history, then the usual observers.
func (e *eng[E]) gc(i int) string {
	gcNow()
	e.gcs++
	return e.check(i, "runtime.GC", false)
}

func (e *eng[E]) length(i int) string {
	e.calls++
	e.evals++
	if got := e.b.size(); got != len(e.model) {
		return fmt.Sprintf("%s op %d: Len() = %d, want %d; model: %s", e.tag, i, got, len(e.model), e.show())
	}
	return e.check(i, "Len", false)
}

// splitKind resolves a kind name into container and element type.
func splitKind(kind string) (container, elem string, ok bool) {
	switch kind {
	case "queue", "stack-nil", "stack-empty", "stack-cap":
		return kind, "int", true
	case "queue-str":
		return "queue", "string", true
	case "stack-str":
		return "stack-nil", "string", true
	}
	i := strings.IndexByte(kind, '/')
	if i < 0 {
		return "", "", false
	}
	return kind[:i], kind[i+1:], true
}

// newEngine builds a fresh container of the given kind; nil if the kind is unknown.
func newEngine(kind, tag string, quiet bool) engine {
	container, elem, ok := splitKind(kind)
	if !ok {
		return nil
	}
	et, ok := elemByName[elem]
	if !ok {
		return nil
	}
	return et.mk(tag, container, quiet)
}

// kindLabel is the kind with the numbers of a preloaded stack removed (one histogram class for all of them).
func kindLabel(kind string) string {
	container, elem, ok := splitKind(kind)
	if ok && strings.HasPrefix(container, "stack-pre") {
		return "stack-pre*/" + elem
	}
	if ok && strings.HasPrefix(container, "stack-guard") {
		return "stack-guard*/" + elem
	}
	return kind
}

func isQueue(kind string) bool { return strings.HasPrefix(kind, "queue") }

func Run(c Case) pbt.Outcome {
	e := newEngine(c.Kind, c.Kind, c.Quiet)
	if e == nil {
		return pbt.Fail("malformed case: unknown kind %q", c.Kind)
	}
	defer e.release()
	if isGuard(c.Kind) {
		defer debug.SetPanicOnFault(debug.SetPanicOnFault(true))
	}
	if m := e.check(-1, "fresh container", false); m != "" {
		return pbt.Fail("%s", m)
	}
	for i, op := range c.Ops {
		var m string
		switch ((op.K % nOps) + nOps) % nOps {
		case opInsert:
			m = e.insert(i, op.V)
		case opRemove:
			m = e.remove(i)
		case opPeek:
			m = e.peek(i)
		case opLen:
			m = e.length(i)
		case opGC:
			m = e.gc(i)
		}
		if m != "" {
			return pbt.Fail("%s", m)
		}
	}
	s := e.st()
	out := pbt.Outcome{Evals: s.evals}
	out.NonTrivial = len(c.Ops) >= 10 && s.drainsRefilled >= 2
	out.Labels = append(out.Labels, "kind="+kindLabel(c.Kind))
	if c.Quiet {
		out.Labels = append(out.Labels, "quiet")
	}
	if s.gcs > 0 {
		out.Labels = append(out.Labels, "gc-in-the-middle")
	}
	switch {
	case s.drainsRefilled >= 2:
		out.Labels = append(out.Labels, "drain+refill>=2")
	case s.drainsRefilled == 1:
		out.Labels = append(out.Labels, "drain+refill=1")
	default:
		out.Labels = append(out.Labels, "drain+refill=0")
	}
	if s.drains > 0 {
		out.Labels = append(out.Labels, "drained-to-empty")
	}
	if s.emptyRemove {
		out.Labels = append(out.Labels, "remove-on-empty")
	}
	if s.emptyPeek {
		out.Labels = append(out.Labels, "peek-on-empty")
	}
	if s.zeroInserted {
		out.Labels = append(out.Labels, "zero-value-inserted")
	}
	switch {
	case s.maxLen >= 65:
		out.Labels = append(out.Labels, "maxlen>=65")
	case s.maxLen >= 33:
		out.Labels = append(out.Labels, "maxlen=33..64")
	case s.maxLen >= 8:
		out.Labels = append(out.Labels, "maxlen=8..32")
	case s.maxLen >= 3:
		out.Labels = append(out.Labels, "maxlen=3..7")
	default:
		out.Labels = append(out.Labels, "maxlen<3")
	}
	switch {
	case len(c.Ops) >= 40:
		out.Labels = append(out.Labels, "ops>=40")
	case len(c.Ops) >= 10:
		out.Labels = append(out.Labels, "ops=10..39")
	default:
		out.Labels = append(out.Labels, "ops<10")
	}
	if s.removals >= 5 {
		out.Labels = append(out.Labels, "removals>=5")
	}
	return out
}

// genOps builds an op list (<= maxOps) out of bursts: fill, drain-to-empty (plus
// extra removals on the empty container), partial drain, mixed, observers. The
// generator tracks the size so that "drain" bursts really reach empty. One case in
// five uses long fills (up to 70 per burst) so that sizes beyond 32 and 64 occur.
func genOps(t *rapid.T) []Op { return genOpsGC(t, false) }

// genOpsGC: with gc, garbage collections are one of the burst kinds.
func genOpsGC(t *rapid.T, gc bool) []Op {
	var ops []Op
	size := 0
	id := 0
	maxOps, maxFill := 80, 9
	if rapid.IntRange(0, 4).Draw(t, "long") == 0 {
		maxOps, maxFill = 260, 70
	}
	ins := func() {
		id++
		v := id
		if rapid.IntRange(0, 19).Draw(t, "zero") == 0 {
			v = 0
		}
		ops = append(ops, Op{K: opInsert, V: v})
		size++
	}
	rem := func() {
		ops = append(ops, Op{K: opRemove})
		if size > 0 {
			size--
		}
	}
	bursts := []int{0, 0, 0, 1, 1, 1, 2, 3, 3, 4}
	if gc {
		bursts = []int{0, 0, 0, 1, 1, 1, 2, 3, 3, 4, 5}
	}
	nb := rapid.IntRange(2, 16).Draw(t, "bursts")
	for b := 0; b < nb && len(ops) < maxOps; b++ {
		switch rapid.SampledFrom(bursts).Draw(t, "burst") {
		case 0: // fill
			for k := rapid.IntRange(1, maxFill).Draw(t, "fill"); k > 0 && len(ops) < maxOps; k-- {
				ins()
			}
			if gc && rapid.IntRange(0, 3).Draw(t, "gc-after-fill") == 0 {
				ops = append(ops, Op{K: opGC})
			}
		case 1: // drain to empty, then poke the empty container
			for size > 0 && len(ops) < maxOps {
				rem()
			}
			for k := rapid.IntRange(0, 2).Draw(t, "extra"); k > 0 && len(ops) < maxOps; k-- {
				if rapid.Bool().Draw(t, "peek") {
					ops = append(ops, Op{K: opPeek})
				} else {
					rem()
				}
			}
		case 2: // partial drain
			for k := rapid.IntRange(1, maxFill/2).Draw(t, "part"); k > 0 && len(ops) < maxOps; k-- {
				rem()
			}
		case 3: // mixed
			for k := rapid.IntRange(1, 10).Draw(t, "mixed"); k > 0 && len(ops) < maxOps; k-- {
				switch rapid.IntRange(0, 5).Draw(t, "m") {
				case 0, 1, 2:
					ins()
				case 3, 4:
					rem()
				default:
					ops = append(ops, Op{K: opPeek})
				}
			}
		case 4: // observers
			ops = append(ops, Op{K: rapid.SampledFrom([]int{opPeek, opLen}).Draw(t, "obs")})
		case 5: // garbage collection in the middle of the history
			ops = append(ops, Op{K: opGC})
		}
	}
	return ops
}

// kindsOf lists "<container>/<elem>" for the given containers and every element type.
func kindsOf(conts ...string) []string {
	var out []string
	for _, c := range conts {
		for _, et := range elemTypes {
			out = append(out, c+"/"+et.name)
		}
	}
	return out
}

var queueKinds = kindsOf("queue")
var stackKinds = kindsOf("stack-nil", "stack-empty", "stack-cap", "stack-cap100")

const ruleBursts = "op list <= 80 (one case in five: <= 260 with fills up to 70, so that sizes beyond 32 and 64 occur) built from bursts (fill, drain to empty + 0..2 calls on the empty container, " +
	"partial drain, mixed, observers), values are unique ids with 5% zero values, one case in eight is quiet; "

var specQueue = pbt.Register(&pbt.Spec[Case]{
	Property: "C16", Name: "C16.queue", Rule: "rapid: Queue of every element type, " + ruleBursts + rule + ruleNT,
	Gen: func(t *rapid.T) Case {
		return Case{Kind: rapid.SampledFrom(queueKinds).Draw(t, "kind"), Quiet: rapid.IntRange(0, 7).Draw(t, "quiet") == 0, Ops: genOps(t)}
	},
	Run: Run, Quick: 30000, Thorough: 200000, Replicas: 4, ReplicaEvery: 16,
})

var specStack = pbt.Register(&pbt.Spec[Case]{
	Property: "C16", Name: "C16.stack", Rule: "rapid: Stack (nil, empty, capacity 4, capacity 100) of every element type, " + ruleBursts + rule + ruleNT,
	Gen: func(t *rapid.T) Case {
		return Case{Kind: rapid.SampledFrom(stackKinds).Draw(t, "kind"), Quiet: rapid.IntRange(0, 7).Draw(t, "quiet") == 0, Ops: genOps(t)}
	},
	Run: Run, Quick: 30000, Thorough: 200000, Replicas: 4, ReplicaEvery: 16,
})

// Garbage collections in the middle of a history. A forced collection is slow (milliseconds when the machine is
// busy), so these cases have a unit of their own with a small number of cases instead of being mixed into the others.
var specGC = pbt.Register(&pbt.Spec[Case]{
	Property: "C16", Name: "C16.gc", Rule: "rapid: Queue or Stack (nil, empty, capacity 4, capacity 100) of every element type, op lists as in C16.queue/C16.stack but with collections after a fill burst (1 in 4) and as a further burst kind (1 in 11): " +
		"runtime.GC() followed by 96 small allocations (ints, 4-word arrays, strings), after which the usual observers run; values inserted before a collection must come out unchanged after it " +
		"(in particular pointers and strings that only the container references); " + ruleBursts + rule + "; non-trivial = at least 10 ops, at least one collection while values are inside, and removals afterwards",
	Gen: func(t *rapid.T) Case {
		kinds := queueKinds
		if rapid.Bool().Draw(t, "stack") {
			kinds = stackKinds
		}
		return Case{Kind: rapid.SampledFrom(kinds).Draw(t, "kind"), Quiet: rapid.IntRange(0, 7).Draw(t, "quiet") == 0, Ops: genOpsGC(t, true)}
	},
	Run: func(c Case) pbt.Outcome {
		out := Run(c)
		size, gcInside, remAfter := 0, false, false
		for _, op := range c.Ops {
			switch ((op.K % nOps) + nOps) % nOps {
			case opInsert:
				size++
			case opRemove:
				if size > 0 {
					size--
					remAfter = remAfter || gcInside
				}
			case opGC:
				gcInside = gcInside || size > 0
			}
		}
		out.NonTrivial = out.Violation == "" && len(c.Ops) >= 10 && gcInside && remAfter
		return out
	},
	Quick: 100, Thorough: 1500, Replicas: 4, ReplicaEvery: 8,
})

func TestC16Gc(t *testing.T) { pbt.Check(t, specGC) }

// enumSeqs yields every sequence over {Insert, Remove, Peek} of length 0..maxLen for every given kind.
// Inserted values are 1,2,3,... except that the second insertion is the zero value.
func enumSeqs(kinds []string, quiet []bool, maxLen int, shard, shards int, yield func(Case) bool) {
	idx := 0
	for _, kind := range kinds {
		for _, q := range quiet {
			for l := 0; l <= maxLen; l++ {
				total := 1
				for i := 0; i < l; i++ {
					total *= 3
				}
				for code := 0; code < total; code++ {
					idx++
					if shards > 1 && idx%shards != shard {
						continue
					}
					ops := make([]Op, l)
					x := code
					id := 0
					for i := 0; i < l; i++ {
						k := x % 3
						x /= 3
						ops[i].K = k
						if k == opInsert {
							id++
							ops[i].V = id
							if id == 2 {
								ops[i].V = 0
							}
						}
					}
					if !yield(Case{Kind: kind, Quiet: q, Ops: ops}) {
						return
					}
				}
			}
		}
	}
}

// Exhaustive small scope: every sequence over {Insert, Remove, Peek} up to a
// length bound, for the six first-generation kinds (Len is observed after every call anyway).
var specEnum = pbt.Register(&pbt.Spec[Case]{
	Property: "C16", Name: "C16.enum", Rule: "exhaustive: every sequence over {Insert, Remove, Peek} of length 0..10 (thorough: 0..12) for each of the 6 container kinds Queue[int], Queue[string], " +
		"nil/empty/capacity-4 Stack[int], nil Stack[string], and the same sequences of length 0..9 (thorough: 0..11) as quiet cases; inserted values are 1,0,3,4,... (the 2nd insertion is the zero value); " + rule + ruleNT,
	Enum: func(shard, shards int, tier string, yield func(Case) bool) {
		maxLen := 10
		if tier == "thorough" {
			maxLen = 12
		}
		ok := true
		enumSeqs(legacyKinds, []bool{false}, maxLen, shard, shards, func(c Case) bool { ok = yield(c); return ok })
		if ok {
			enumSeqs(legacyKinds, []bool{true}, maxLen-1, shard, shards, yield)
		}
	},
	Run: Run, Exhaustive: true, Replicas: 4, ReplicaEvery: 256, // very many very short cases: few copies
})

// The same small scope for every container x element type (shorter sequences).
var specTypes = pbt.Register(&pbt.Spec[Case]{
	Property: "C16", Name: "C16.types", Rule: "exhaustive: every sequence over {Insert, Remove, Peek} of length 0..7 (thorough: 0..9) for each container (Queue, nil/empty/capacity-4/capacity-100 Stack) x each of the 31 element types, " +
		"each both observed after every call and quiet; inserted values are 1,0,3,4,... (the 2nd insertion is the zero value); " + rule + "; non-trivial = at least 5 ops, at least 2 insertions and 2 removals",
	Enum: func(shard, shards int, tier string, yield func(Case) bool) {
		maxLen := 7
		if tier == "thorough" {
			maxLen = 9
		}
		enumSeqs(kindsOf(containers...), []bool{false, true}, maxLen, shard, shards, yield)
	},
	Run: func(c Case) pbt.Outcome {
		out := Run(c)
		ins, rem := 0, 0
		for _, op := range c.Ops {
			switch op.K {
			case opInsert:
				ins++
			case opRemove:
				rem++
			}
		}
		out.NonTrivial = out.Violation == "" && len(c.Ops) >= 5 && ins >= 2 && rem >= 2
		return out
	},
	Exhaustive: true, Replicas: 4, ReplicaEvery: 256,
})

func TestC16Enum(t *testing.T)  { pbt.Check(t, specEnum) }
func TestC16Types(t *testing.T) { pbt.Check(t, specTypes) }
func TestC16Queue(t *testing.T) { pbt.Check(t, specQueue) }
func TestC16Stack(t *testing.T) { pbt.Check(t, specStack) }
func TestReplay(t *testing.T)   { pbt.Replay(t) }
