package c16

import (
	"testing"

	"verifharness/internal/pbt"
)

// ---- C16.refill: a container that holds 2^22 (thorough: 2^23) values is partly drained and refilled beyond its old size ----
//
// C16.mega fills such a container from empty (storage that starts at its beginning) and drains it; it never refills
// it beyond the size it had. Here the oldest value sits a chosen fraction of the size away from where the storage
// started when the container has to grow again: a Queue kept in a ring buffer has to move a wrapped-around part of
// that length, whatever its growth step (doubling, +50%, +25%, +12.5%, a fixed chunk) is at these sizes.
// The removed share k runs over B/16, B/8+1, B/4+1, B/3, B/2, 3B/4-1, B-2 so that it exceeds every such step once.

var refillKinds = []struct {
	kind   string
	quickK []int // indices into refillShares used in the quick tier (all in the thorough tier)
}{
	{"queue/uint8", []int{0, 2, 4, 6}},
	{"queue/int", []int{3, 5}},
	{"queue/struct{}", []int{1}},
	{"stack-nil/uint8", []int{4}},
	{"stack-cap100/int", []int{6}},
}

// refillShares: removed count for size b.
var refillShares = []func(b int) int{
	func(b int) int { return b / 16 },
	func(b int) int { return b/8 + 1 },
	func(b int) int { return b/4 + 1 },
	func(b int) int { return b / 3 },
	func(b int) int { return b / 2 },
	func(b int) int { return 3*b/4 - 1 },
	func(b int) int { return b - 2 },
}

// refillCase: fill B+d, remove k (every value compared), insert k + B/2 + 5 (the size passes B+d again and reaches
// 1.5 B + d + 5: every growth step between B and 1.5 B happens with the oldest value k places into the storage),
// Len/Peek checked by the final drain to empty + 1 call, fill 3, drain.
func refillCase(kind string, b, d, k int) PCase {
	return PCase{Kind: kind, Quiet: true, ZeroEvery: 61, Phases: []Phase{
		{K: phFill, N: b + d}, {K: phDrain, N: k}, {K: phFill, N: k + b/2 + 5}, {K: phEmpty, N: 1}, {K: phFill, N: 3}, {K: phEmpty},
	}}
}

var specRefill = pbt.Register(&pbt.Spec[PCase]{
	Property: "C16", Name: "C16.refill", Rule: "enumerated: B + d values (B = 2^22; thorough: also 2^23; d cycling through -1,0,1) inside one container, k of them removed, k + B/2 + 5 inserted (size 1.5 B + d + 5 reached with the " +
		"oldest value k removals away from the first), drain to empty + 1 call with every value compared, fill 3, drain; k among B/16, B/8+1, B/4+1, B/3, B/2, 3B/4-1, B-2: quick tier Queue[uint8] with k = B/16, B/4+1, B/2, B-2, " +
		"Queue[int] with B/3, 3B/4-1, Queue[struct{}] with B/8+1, nil Stack[uint8] with B/2, capacity-100 Stack[int] with B-2; thorough tier every k for each of the five kinds; every 61st inserted value is the zero value; " +
		"a stack overflow or fault of the process counts as a violation of the running case; " + rule + ruleNTPhases,
	Enum: func(shard, shards int, tier string, yield func(PCase) bool) {
		sizes := []int{1 << 22}
		if tier == "thorough" {
			sizes = append(sizes, 1<<23)
		}
		idx := 0
		for _, b := range sizes {
			for _, rk := range refillKinds {
				ks := rk.quickK
				if tier == "thorough" {
					ks = []int{0, 1, 2, 3, 4, 5, 6}
				}
				for _, ki := range ks {
					idx++
					if shards > 1 && idx%shards != shard {
						continue
					}
					if !yield(refillCase(rk.kind, b, idx%3-1, refillShares[ki](b))) {
						return
					}
				}
			}
		}
	},
	Run: RunPhases, CaseCPU: 300e9, Crashy: true,
})

func TestC16Refill(t *testing.T) { pbt.Check(t, specRefill) }
