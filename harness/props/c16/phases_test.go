package c16

import (
	"fmt"
	"runtime"
	"runtime/debug"
	"strings"
	"sync/atomic"
	"testing"
	"time"

	"pgregory.net/rapid"
	"verifharness/internal/pbt"
)

// Long histories are written as phases instead of single calls, so that a case with thousands of calls stays a
// few numbers (and shrinks by deleting phases / lowering counts).
const (
	phFill  = 0 // N insertions
	phDrain = 1 // N removals; at most 2 of them are executed on the empty container
	phSlide = 2 // N rounds of (M insertions, then M removals); M <= 0 means 1: a sliding window
	phEmpty = 3 // remove until empty, then N%4 further calls on the empty container (Remove, Peek alternating)
	phGC    = 4 // runtime.GC() plus a burst of small allocations (no library call), then the usual observers
	phSleep = 5 // time.Sleep(N milliseconds) (no library call; wall-clock time passes), then the usual observers
	phDeep  = 6 // a recursion N frames deep (about 1 KiB each: the goroutine stack grows and is copied), then the observers
	nPhases = 7
)

const maxSleepMs = 100000 // the watchdog of pbt calls a case blocked after 120 s without CPU use

type Phase struct {
	C int `json:"c,omitempty"` // container index (cases with several containers), reduced modulo their number
	K int `json:"k"`
	N int `json:"n"`
	M int `json:"m,omitempty"`
}

// PCase is a phase history on NC (default 1) fresh containers of the same kind; the containers are independent
// objects, the phases are executed in list order (so calls to different containers interleave phase-wise).
// Inserted values are 1,2,3,... in call order over all containers (every value number is used once), except that
// every ZeroEvery-th insertion (if > 0) inserts the zero value of the element type.
//
// Kinds (optional, cases with several containers): container i is of kind Kinds[i mod len(Kinds)] instead of Kind -
// containers of different element types (and Queue next to Stack) used alternately.
type PCase struct {
	Kind      string   `json:"kind"`
	Kinds     []string `json:"kinds,omitempty"`
	NC        int      `json:"nc,omitempty"`
	Quiet     bool     `json:"quiet,omitempty"`
	ZeroEvery int      `json:"zero_every,omitempty"`
	// Procs > 0: the case runs under runtime.GOMAXPROCS(Procs) (restored afterwards). Only units without
	// parallel replicas generate it (the setting is global to the process).
	Procs int `json:"procs,omitempty"`
	// Flip: another goroutine flips runtime.GOMAXPROCS between 2 and 7 (every 100 microseconds) while the history
	// runs (restored afterwards). Only units without parallel replicas generate it.
	Flip bool `json:"flip,omitempty"`
	// Hop 1: every phase runs in a goroutine of its own (one after the other, never concurrently); 2: likewise, each
	// goroutine locked to an OS thread. Containers are not tied to the goroutine that created them.
	Hop int `json:"hop,omitempty"`
	// Tiles (Kind "stack-tiles/<elem>"): container i is a Stack that is the window [L_i values, S_i spare elements] of
	// ONE buffer, the windows adjacent in index order (three-index slices: each has only its own capacity); NC is
	// len(Tiles). A Push beyond a window's capacity must not show in the neighbouring stacks.
	Tiles  [][2]int `json:"tiles,omitempty"`
	Phases []Phase  `json:"phases"`
}

const maxCalls = 1 << 26 // executed calls per case; longer (malformed) cases are cut off and labelled

func RunPhases(c PCase) pbt.Outcome {
	nc := c.NC
	if nc <= 0 {
		nc = 1
	}
	if nc > 8 {
		return pbt.Fail("malformed case: %d containers", nc)
	}
	if c.Procs > 0 {
		if c.Procs > 64 {
			return pbt.Fail("malformed case: GOMAXPROCS %d", c.Procs)
		}
		defer runtime.GOMAXPROCS(runtime.GOMAXPROCS(c.Procs))
	}
	if c.Flip {
		defer flipProcs()()
	}
	engs := make([]engine, nc)
	defer func() {
		for _, e := range engs {
			if e != nil {
				e.release()
			}
		}
	}()
	if len(c.Tiles) > 0 {
		_, elem, _ := splitKind(c.Kind)
		et, ok := elemByName[elem]
		if !ok || !strings.HasPrefix(c.Kind, "stack-tiles/") || len(c.Tiles) > 8 {
			return pbt.Fail("malformed case: tiles of kind %q", c.Kind)
		}
		nc = len(c.Tiles)
		tags := make([]string, nc)
		for i, t := range c.Tiles {
			tags[i] = fmt.Sprintf("Stack[%s] #%d = window of %d values + %d spare of one shared buffer", elem, i, t[0], t[1])
		}
		engs = et.mkTiles(tags, c.Quiet, c.Tiles)
		if engs == nil {
			return pbt.Fail("malformed case: tiles %v", c.Tiles)
		}
		for _, e := range engs {
			if m := e.check(-1, "fresh container", false); m != "" {
				return pbt.Fail("%s", m)
			}
		}
	}
	guard := false
	for i := range engs {
		if len(c.Tiles) > 0 {
			break
		}
		kind := c.Kind
		if len(c.Kinds) > 0 {
			kind = c.Kinds[i%len(c.Kinds)]
		}
		tag := kind
		if nc > 1 {
			tag = fmt.Sprintf("%s#%d", kind, i)
		}
		engs[i] = newEngine(kind, tag, c.Quiet)
		if engs[i] == nil {
			return pbt.Fail("malformed case: unknown kind %q", kind)
		}
		if isGuard(kind) && !guard {
			guard = true
			defer debug.SetPanicOnFault(debug.SetPanicOnFault(true))
		}
		if m := engs[i].check(-1, "fresh container", false); m != "" {
			return pbt.Fail("%s", m)
		}
	}
	calls, id := 0, 0
	cut := false
	var msg string
	where := func(pi int, p Phase) string {
		return fmt.Sprintf(" [phase %d = %s; op numbers count the calls of the whole case]", pi, phaseString(p))
	}
	ins := func(e engine) bool {
		if calls >= maxCalls {
			cut = true
			return false
		}
		id++
		v := id
		if c.ZeroEvery > 0 && id%c.ZeroEvery == 0 {
			v = 0
		}
		msg = e.insert(calls, v)
		calls++
		return msg == ""
	}
	rem := func(e engine) bool {
		if calls >= maxCalls {
			cut = true
			return false
		}
		msg = e.remove(calls)
		calls++
		return msg == ""
	}
	slept, deepest := 0, 0
	for pi, p := range c.Phases {
		e := engs[((p.C%nc)+nc)%nc]
		n := p.N
		if n < 0 {
			n = 0
		}
		ok := true
		hop(c.Hop, func() {
			switch ((p.K % nPhases) + nPhases) % nPhases {
			case phSleep:
				if n > maxSleepMs {
					n = maxSleepMs
				}
				time.Sleep(time.Duration(n) * time.Millisecond)
				slept += n
				if calls < maxCalls {
					msg = e.check(calls, fmt.Sprintf("time.Sleep(%d ms)", n), false)
				}
			case phDeep:
				if n > 1<<17 {
					n = 1 << 17
				}
				if deepRecursion(n) != n {
					msg = "harness error: deepRecursion"
				}
				if n > deepest {
					deepest = n
				}
				if calls < maxCalls && msg == "" {
					msg = e.check(calls, fmt.Sprintf("recursion %d frames deep", n), false)
				}
			case phFill:
				for k := 0; k < n && ok; k++ {
					ok = ins(e)
				}
			case phDrain:
				beyond := 0
				for k := 0; k < n && ok && beyond < 2; k++ {
					if e.size() == 0 {
						beyond++
					}
					ok = rem(e)
				}
			case phSlide:
				m := p.M
				if m <= 0 {
					m = 1
				}
				for k := 0; k < n && ok; k++ {
					for j := 0; j < m && ok; j++ {
						ok = ins(e)
					}
					for j := 0; j < m && ok; j++ {
						ok = rem(e)
					}
				}
			case phGC:
				if calls < maxCalls {
					msg = e.gc(calls)
				}
			case phEmpty:
				for e.size() > 0 && ok {
					ok = rem(e)
				}
				for k := 0; k < n%4 && ok; k++ {
					if k%2 == 0 {
						ok = rem(e)
					} else if calls < maxCalls {
						msg = e.peek(calls)
						calls++
						ok = msg == ""
					}
				}
			}
		})
		if msg != "" {
			return pbt.Fail("%s%s", msg, where(pi, p))
		}
		if cut {
			break
		}
	}
	// totals over the containers
	var s stats
	for _, e := range engs {
		x := e.st()
		s.evals += x.evals
		s.inserts += x.inserts
		s.removals += x.removals
		s.drains += x.drains
		s.drainsRefilled += x.drainsRefilled
		s.slidHigh += x.slidHigh
		s.gcs += x.gcs
		if x.maxLen > s.maxLen {
			s.maxLen = x.maxLen
		}
		s.emptyRemove = s.emptyRemove || x.emptyRemove
		s.emptyPeek = s.emptyPeek || x.emptyPeek
		s.zeroInserted = s.zeroInserted || x.zeroInserted
		s.drainAtMult64 = s.drainAtMult64 || x.drainAtMult64
	}
	out := pbt.Outcome{Evals: s.evals}
	out.NonTrivial = len(c.Phases) >= 3 && s.maxLen >= 33 && s.removals >= 33 && (s.slidHigh > 0 || s.drainsRefilled > 0)
	if len(c.Kinds) > 0 {
		out.Labels = append(out.Labels, "containers-of-different-kinds")
		for i := 0; i < nc && i < len(c.Kinds); i++ {
			out.Labels = append(out.Labels, "kind="+kindLabel(c.Kinds[i]))
		}
	} else {
		out.Labels = append(out.Labels, "kind="+kindLabel(c.Kind))
	}
	out.Labels = append(out.Labels, fmt.Sprintf("containers=%d", nc))
	if c.Quiet {
		out.Labels = append(out.Labels, "quiet")
	}
	if s.gcs > 0 {
		out.Labels = append(out.Labels, "gc-in-the-middle")
	}
	if c.Procs > 0 {
		out.Labels = append(out.Labels, fmt.Sprintf("gomaxprocs=%d", c.Procs))
	}
	if c.Flip {
		out.Labels = append(out.Labels, "gomaxprocs-flipping-2<->7-meanwhile")
	}
	if c.Hop > 0 {
		out.Labels = append(out.Labels, []string{"", "every-phase-in-a-new-goroutine", "every-phase-in-a-new-goroutine-locked-to-a-thread"}[c.Hop%3])
	}
	if len(c.Tiles) > 0 {
		out.Labels = append(out.Labels, "stacks-are-windows-of-one-buffer")
	}
	switch {
	case slept >= 60000:
		out.Labels = append(out.Labels, "slept>=60s")
	case slept >= 5000:
		out.Labels = append(out.Labels, "slept>=5s")
	case slept >= 2000:
		out.Labels = append(out.Labels, "slept>=2s")
	case slept > 0:
		out.Labels = append(out.Labels, "slept<2s")
	}
	if deepest > 0 {
		out.Labels = append(out.Labels, "deep-recursion-in-the-middle")
	}
	if s.removals >= 5 {
		out.Labels = append(out.Labels, "removals>=5")
	}
	if cut {
		out.Labels = append(out.Labels, "cut-off-at-maxcalls")
	}
	out.Labels = append(out.Labels, "maxlen"+sizeClass(s.maxLen), "inserted"+sizeClass(s.inserts))
	switch {
	case s.slidHigh >= 1024:
		out.Labels = append(out.Labels, "window-moved>=1024")
	case s.slidHigh >= 256:
		out.Labels = append(out.Labels, "window-moved=256..1023")
	case s.slidHigh >= 64:
		out.Labels = append(out.Labels, "window-moved=64..255")
	case s.slidHigh > 0:
		out.Labels = append(out.Labels, "window-moved=1..63")
	default:
		out.Labels = append(out.Labels, "window-moved=0")
	}
	switch {
	case s.drainsRefilled >= 2:
		out.Labels = append(out.Labels, "drain+refill>=2")
	case s.drainsRefilled == 1:
		out.Labels = append(out.Labels, "drain+refill=1")
	default:
		out.Labels = append(out.Labels, "drain+refill=0")
	}
	if s.drainAtMult64 {
		out.Labels = append(out.Labels, "drained-to-empty-at-multiple-of-64-inserted")
	}
	if s.emptyRemove {
		out.Labels = append(out.Labels, "remove-on-empty")
	}
	if s.emptyPeek {
		out.Labels = append(out.Labels, "peek-on-empty")
	}
	if s.zeroInserted {
		out.Labels = append(out.Labels, "zero-value-inserted")
	}
	return out
}

// hop runs f in the calling goroutine (mode 0), in a new goroutine (1) or in a new goroutine locked to an OS thread
// (2) and waits for it; a panic of f is re-raised in the caller.
func hop(mode int, f func()) {
	if mode%3 == 0 {
		f()
		return
	}
	done := make(chan any)
	go func() {
		defer func() { done <- recover() }()
		if mode%3 == 2 {
			runtime.LockOSThread() // the thread is discarded when the goroutine ends while locked
		}
		f()
	}()
	if p := <-done; p != nil {
		panic(p)
	}
}

// flipProcs starts a goroutine that flips runtime.GOMAXPROCS between 2 and 7; the returned function stops it and
// restores the setting.
func flipProcs() (stop func()) {
	old := runtime.GOMAXPROCS(0)
	var quit atomic.Bool
	done := make(chan struct{})
	go func() {
		defer close(done)
		for i := 0; !quit.Load(); i++ {
			runtime.GOMAXPROCS(2 + 5*(i&1))
			time.Sleep(100 * time.Microsecond)
		}
	}()
	return func() {
		quit.Store(true)
		<-done
		runtime.GOMAXPROCS(old)
	}
}

// deepRecursion: n frames of about 1 KiB each, so that the goroutine stack has to grow (it is copied: everything
// that lives on it moves).
//
//go:noinline
func deepRecursion(n int) int {
	var pad [120]uint64
	pad[n%120] = uint64(n)
	if n <= 0 {
		return int(pad[0])
	}
	return deepRecursion(n-1) + 1 + int(pad[(n+1)%120])
}

func sizeClass(n int) string {
	switch {
	case n > 1<<40:
		return ">2^40"
	case n > 65536:
		return "=65537..2^40"
	case n > 16384:
		return "=16385..65536"
	case n > 4096:
		return "=4097..16384"
	case n > 1024:
		return "=1025..4096"
	case n > 256:
		return "=257..1024"
	case n > 64:
		return "=65..256"
	case n > 32:
		return "=33..64"
	}
	return "<=32"
}

func phaseString(p Phase) string {
	switch ((p.K % nPhases) + nPhases) % nPhases {
	case phFill:
		return fmt.Sprintf("insert %d", p.N)
	case phDrain:
		return fmt.Sprintf("remove %d", p.N)
	case phSlide:
		m := p.M
		if m <= 0 {
			m = 1
		}
		return fmt.Sprintf("%d x (insert %d, remove %d)", p.N, m, m)
	case phGC:
		return "runtime.GC()"
	case phSleep:
		return fmt.Sprintf("time.Sleep(%d ms)", p.N)
	case phDeep:
		return fmt.Sprintf("recursion %d frames deep", p.N)
	}
	return fmt.Sprintf("remove until empty, then %d call(s) on the empty container", p.N%4)
}

var deltas = []int{0, 0, 0, 0, -1, 1, -2, 2}

// genPhases draws a phase history for nc containers with about budget calls. Two cases in three have a "focus"
// block size B (a power of two 4..1024) to which all aligned quantities refer, the others draw a block size per
// quantity. The generator tracks size, number of values ever inserted and ever removed per container, so that
// phases can aim at: sizes/totals of k*B+d, totals that are multiples of B exactly when the container is drained to
// empty, removals that move the head to a multiple of B, draining to a half/quarter/eighth (+d) of the current size.
func genPhases(t *rapid.T, nc, budget int) []Phase {
	focusB := 1 << rapid.IntRange(2, 10).Draw(t, "block")
	focus := rapid.IntRange(0, 2).Draw(t, "focus") > 0
	block := func() int {
		if focus {
			return focusB
		}
		return 1 << rapid.IntRange(2, 10).Draw(t, "b")
	}
	delta := func() int { return rapid.SampledFrom(deltas).Draw(t, "d") }
	pos := func(n int) int {
		if n < 1 {
			return 1
		}
		return n
	}
	qty := func() int {
		switch rapid.IntRange(0, 6).Draw(t, "q") {
		case 0:
			return rapid.IntRange(1, 8).Draw(t, "small")
		case 1, 2:
			return pos(rapid.SampledFrom([]int{1, 1, 1, 2, 2, 3, 4, 5}).Draw(t, "k")*block() + delta())
		case 3:
			return pos(1<<rapid.IntRange(2, 11).Draw(t, "p2") + delta())
		case 4:
			return pos(block()*rapid.IntRange(1, 7).Draw(t, "eighths")/8 + delta())
		case 5:
			return rapid.IntRange(1, 200).Draw(t, "mid")
		}
		return rapid.IntRange(1, 1500).Draw(t, "any")
	}
	size := make([]int, nc)
	total := make([]int, nc)
	removed := make([]int, nc)
	var phases []Phase
	calls := 0
	fill := func(c, n int) {
		phases = append(phases, Phase{C: c, K: phFill, N: n})
		size[c] += n
		total[c] += n
		calls += n
	}
	drain := func(c, n int) {
		phases = append(phases, Phase{C: c, K: phDrain, N: n})
		k := n
		if k > size[c] {
			k = size[c]
		}
		size[c] -= k
		removed[c] += k
		calls += n
	}
	const gcCase = false // collections between phases are generated by C16.big only (see C16.gc for the reason)
	np := rapid.IntRange(3, 14).Draw(t, "phases")
	for p := 0; p < np && calls < budget; p++ {
		c := 0
		if nc > 1 {
			c = rapid.IntRange(0, nc-1).Draw(t, "container")
		}
		left := budget - calls
		capn := func(n int) int {
			if n > left {
				return left
			}
			return n
		}
		choices := []int{0, 0, 0, 1, 1, 2, 3, 3, 4, 4, 4, 5, 6, 6, 7, 7, 7, 8}
		if size[c] == 0 {
			choices = []int{0, 0, 0, 1, 1, 2, 6, 7, 7, 8}
		}
		if gcCase {
			choices = append(choices, 9, 9)
		}
		switch rapid.SampledFrom(choices).Draw(t, "phase") {
		case 0: // fill
			fill(c, capn(qty()))
		case 1: // fill until the number of values ever inserted is (j+1 blocks further and) a multiple of the block, +d
			b := block()
			n := b - total[c]%b + rapid.SampledFrom([]int{0, 0, 1, 2}).Draw(t, "j")*b + delta()
			if n <= 0 {
				n += b
			}
			fill(c, capn(n))
		case 2: // fill up to a size
			target := qty()
			if target > size[c] {
				fill(c, capn(target-size[c]))
			} else {
				fill(c, capn(rapid.IntRange(1, 8).Draw(t, "small")))
			}
		case 3: // drain n (possibly beyond empty)
			n := qty()
			if n > size[c]+2 {
				n = size[c] + 2
			}
			drain(c, n)
		case 4: // drain down to a remainder
			var r int
			switch rapid.IntRange(0, 6).Draw(t, "leave") {
			case 0:
				r = rapid.IntRange(1, 4).Draw(t, "r")
			case 1:
				r = size[c]/4 + delta()
			case 2:
				r = size[c]/2 + delta()
			case 3:
				r = size[c]/8 + delta()
			case 4:
				r = block() + delta()
			case 5:
				r = block()/4 + delta()
			default:
				r = qty()
			}
			if r < 0 {
				r = 0
			}
			if r < size[c] {
				drain(c, size[c]-r)
			} else {
				drain(c, 1)
			}
		case 5: // drain until the number of values ever removed is a multiple of the block (+d), not beyond empty
			b := block()
			n := b - removed[c]%b + delta()
			if n <= 0 {
				n += b
			}
			if n >= size[c] {
				n = size[c] - 1
			}
			if n > 0 {
				drain(c, n)
			}
		case 6: // drain to empty and poke
			k := rapid.IntRange(0, 3).Draw(t, "pokes")
			phases = append(phases, Phase{C: c, K: phEmpty, N: k})
			calls += size[c] + k
			removed[c] += size[c]
			size[c] = 0
		case 7: // sliding window
			m := rapid.SampledFrom([]int{1, 1, 1, 1, 1, 2, 3, 7}).Draw(t, "burst")
			n := qty()
			if n*2*m > left {
				n = left / (2 * m)
			}
			if n > 0 {
				ph := Phase{C: c, K: phSlide, N: n}
				if m > 1 {
					ph.M = m
				}
				phases = append(phases, ph)
				total[c] += n * m
				removed[c] += n * m
				calls += 2 * n * m
			}
		case 9: // garbage collection in the middle of the history
			phases = append(phases, Phase{C: c, K: phGC})
		case 8: // slide until the number of values ever inserted is a multiple of the block (+d)
			b := block()
			n := b - total[c]%b + delta()
			if n <= 0 {
				n += b
			}
			if 2*n > left {
				n = left / 2
			}
			if n > 0 {
				phases = append(phases, Phase{C: c, K: phSlide, N: n})
				total[c] += n
				removed[c] += n
				calls += 2 * n
			}
		}
	}
	// every value still inside is checked on its way out (nine cases in ten)
	if rapid.IntRange(0, 9).Draw(t, "finish") > 0 {
		for c := 0; c < nc; c++ {
			phases = append(phases, Phase{C: c, K: phEmpty, N: 1})
		}
	}
	return phases
}

func budgetFor(kind string) int {
	_, elem, _ := splitKind(kind)
	if elemByName[elem].big {
		return 3000
	}
	return 12000
}

func zeroEvery(t *rapid.T) int {
	return rapid.SampledFrom([]int{0, 0, 0, 2, 7, 64, 100}).Draw(t, "zero-every")
}

const rulePhases = "phase histories of up to ~12000 calls (3000 for elements wider than 128 bytes): 3..14 phases among fill n, fill until the number of values ever inserted is a multiple of a block B (+0..2 blocks, +d), " +
	"fill up to a size, drain n (up to 2 calls beyond empty), drain down to a remainder (1..4, size/2, size/4, size/8, B, B/4, all +d), drain until the number of values ever removed is a multiple of B, drain to empty + 0..3 calls on the empty container, " +
	"sliding window (n rounds of m in / m out, m in 1,2,3,7), slide until the number inserted is a multiple of B; quantities n are 1..8, k*B+d (k 1..5), 2^i+d (i 2..11), B*j/8+d, 1..200 or 1..1500, d in -2..2 (mostly 0), B a power of two 4..1024 fixed per case " +
	"(two cases in three) or drawn per quantity; nine cases in ten end by draining everything (each value is compared on its way out); values are unique ids, optionally every 2nd/7th/64th/100th the zero value; one case in eight is quiet; "

const ruleNTPhases = "; non-trivial = at least 3 phases, more than 32 values inside at some point, more than 32 removals, and insertions after removals (window moved or refill after drain-to-empty)"

func genPCase(kinds []string, ncMax int) func(t *rapid.T) PCase {
	return func(t *rapid.T) PCase {
		c := PCase{Kind: rapid.SampledFrom(kinds).Draw(t, "kind")}
		nc := 1
		if ncMax > 1 {
			nc = rapid.IntRange(2, ncMax).Draw(t, "nc")
			c.NC = nc
		}
		c.Quiet = rapid.IntRange(0, 7).Draw(t, "quiet") == 0
		c.ZeroEvery = zeroEvery(t)
		c.Phases = genPhases(t, nc, budgetFor(c.Kind))
		return c
	}
}

var specPhasesQueue = pbt.Register(&pbt.Spec[PCase]{
	Property: "C16", Name: "C16.phases.queue", Rule: "rapid: one Queue of any element type, " + rulePhases + rule + ruleNTPhases,
	Gen: genPCase(queueKinds, 1),
	Run: RunPhases, Quick: 4000, Thorough: 20000, Replicas: 4, ReplicaEvery: 8,
})

var specPhasesStack = pbt.Register(&pbt.Spec[PCase]{
	Property: "C16", Name: "C16.phases.stack", Rule: "rapid: one Stack (nil, empty, capacity 4, capacity 100) of any element type, " + rulePhases + rule + ruleNTPhases,
	Gen: genPCase(stackKinds, 1),
	Run: RunPhases, Quick: 4000, Thorough: 20000, Replicas: 4, ReplicaEvery: 8,
})

// Two or three containers of the same type used alternately: state must not leak between objects
// (package-level pools, shared spare blocks, shared backing arrays).
var pairKinds = append(append([]string{}, queueKinds...), kindsOf("stack-nil", "stack-cap")...)

// sameSizeElems: element types of one word / two words / three words, with and without pointers - what a
// (hypothetical) shared pool of nodes or buffers keyed by size would confuse.
var sameSizeElems = [][]string{
	{"int", "int-edge", "float64", "celsius", "*int", "*int-own", "func", "map"},
	{"string", "string-own", "any"},
	{"triple", "padded", "[]int", "[3]int32"},
	{"quad", "holder"},
}

var specPair = pbt.Register(&pbt.Spec[PCase]{
	Property: "C16", Name: "C16.pair", Rule: "rapid: 2..3 independent containers used alternately phase by phase, each against its own model, value ids unique over all of them; two cases in three: all of the same kind " +
		"(Queue or Stack, any element type); one in three: of different kinds - any element types, or element types of the same size with and without pointers (int/float64/*int/func/map, string/any, 3-word struct/[]int, ...), " +
		"Queues only, Stacks only or mixed; " + rulePhases + rule + ruleNTPhases,
	Gen: func(t *rapid.T) PCase {
		c := genPCase(pairKinds, 3)(t)
		if rapid.IntRange(0, 2).Draw(t, "mixed") != 0 {
			return c
		}
		conts := rapid.SampledFrom([][]string{{"queue"}, {"stack-nil", "stack-cap"}, {"queue", "stack-nil", "stack-empty"}}).Draw(t, "containers")
		elems := allElems
		if rapid.Bool().Draw(t, "same-size") {
			elems = rapid.SampledFrom(sameSizeElems).Draw(t, "size-class")
		}
		c.Kinds = nil
		for i := 0; i < c.NC; i++ {
			c.Kinds = append(c.Kinds, rapid.SampledFrom(conts).Draw(t, "container")+"/"+rapid.SampledFrom(elems).Draw(t, "elem"))
		}
		c.Kind = c.Kinds[0]
		return c
	},
	Run: RunPhases, Quick: 2000, Thorough: 12000, Replicas: 4, ReplicaEvery: 8,
})

// ---- the enumerated grid ----

var gridKinds = []string{"queue/int", "queue/triple", "stack-nil/int"}

// gridBlocks are the hypothetical block sizes / buffer lengths / thresholds B the grid is laid around.
func gridBlocks(tier string) []int {
	bs := []int{4, 8, 16, 32, 64, 128, 256, 512, 1024}
	if tier == "thorough" {
		bs = append(bs, 2048, 4096)
	}
	return bs
}

func uniq(xs ...int) []int {
	var out []int
	for _, x := range xs {
		dup := false
		for _, y := range out {
			dup = dup || x == y
		}
		if !dup {
			out = append(out, x)
		}
	}
	return out
}

// gridCases yields the three families for one block size B:
//
//	A "boundary drains": fill a*B+d1, drain to a remainder r, fill until the number ever inserted is (k+1+j)*B+d2
//	   (k = blocks begun so far), drain to empty + 2 calls, fill 3, drain to empty, fill B+1, drain to empty + 1 call;
//	   a in 1..3, d1 in -1..2, r in {1,2,B-1,B+1}, j in 0..2, d2 in -1..1.
//	B "sliding window": fill F in {B/2+1, 3B/4, B-1, B, B+1}, S rounds of one in / one out with S in
//	   {i*B/8 : i=1..16} u {B-1,B+1,2B-1,2B+1}, drain to a remainder in {1, F/4-1, F/4, F/4+1, B/4, F/2}, drain to empty,
//	   fill B/2, drain to empty + 1 call.
//	C "sawtooth": fill T in {B-1,B,B+1,2B,2B+1}, drain to T/f+d (f in 2,4,8, d in -2..2), fill 2, drain 3, fill T/2,
//	   drain to empty + 1 call.
func gridCases(b int, yield func(ph []Phase) bool) bool {
	// A
	for a := 1; a <= 3; a++ {
		for d1 := -1; d1 <= 2; d1++ {
			f := a*b + d1
			for _, r := range uniq(1, 2, b-1, b+1) {
				if r >= f {
					continue
				}
				for j := 0; j <= 2; j++ {
					for d2 := -1; d2 <= 1; d2++ {
						n2 := (f/b+1+j)*b + d2 - f
						if n2 <= 0 {
							continue
						}
						if !yield([]Phase{{K: phFill, N: f}, {K: phDrain, N: f - r}, {K: phFill, N: n2}, {K: phEmpty, N: 2},
							{K: phFill, N: 3}, {K: phEmpty}, {K: phFill, N: b + 1}, {K: phEmpty, N: 1}}) {
							return false
						}
					}
				}
			}
		}
	}
	// B
	var slides []int
	for i := 1; i <= 16; i++ {
		slides = append(slides, i*b/8)
	}
	slides = uniq(append(slides, b-1, b+1, 2*b-1, 2*b+1)...)
	for _, f := range uniq(b/2+1, 3*b/4, b-1, b, b+1) {
		if f < 1 {
			continue
		}
		for _, s := range slides {
			if s < 1 {
				continue
			}
			for _, r := range uniq(1, f/4-1, f/4, f/4+1, b/4, f/2) {
				if r < 1 || r >= f {
					continue
				}
				if !yield([]Phase{{K: phFill, N: f}, {K: phSlide, N: s}, {K: phDrain, N: f - r}, {K: phEmpty},
					{K: phFill, N: b/2 + 1}, {K: phEmpty, N: 1}}) {
					return false
				}
			}
		}
	}
	// C
	for _, top := range uniq(b-1, b, b+1, 2*b, 2*b+1) {
		for _, frac := range []int{2, 4, 8} {
			for d := -2; d <= 2; d++ {
				r := top/frac + d
				if r < 0 || r >= top {
					continue
				}
				if !yield([]Phase{{K: phFill, N: top}, {K: phDrain, N: top - r}, {K: phFill, N: 2}, {K: phDrain, N: 3},
					{K: phFill, N: top/2 + 1}, {K: phEmpty, N: 1}}) {
					return false
				}
			}
		}
	}
	return true
}

var specGrid = pbt.Register(&pbt.Spec[PCase]{
	Property: "C16", Name: "C16.grid", Rule: "enumerated grid of phase histories around every block size B = 4,8,...,1024 (thorough: ...,4096) for Queue[int], Queue[3-word struct] and nil Stack[int]: " +
		"(A) fill a*B+d1, drain to a remainder r, fill until the number of values ever inserted is (k+1+j)*B+d2, drain to empty + 2 calls on the empty container, fill 3, drain, fill B+1, drain " +
		"(a 1..3, d1 -1..2, r in 1,2,B-1,B+1, j 0..2, d2 -1..1); (B) fill F in B/2+1,3B/4,B-1,B,B+1, slide S rounds one in/one out with S = i*B/8 (i 1..16), B-1,B+1,2B-1,2B+1, " +
		"drain to a remainder in 1,F/4-1,F/4,F/4+1,B/4,F/2, drain to empty, fill B/2+1, drain; (C) fill T in B-1,B,B+1,2B,2B+1, drain to T/f+d (f 2,4,8; d -2..2), fill 2, drain 3, fill T/2+1, drain; " +
		"every 61st inserted value is the zero value; " + rule + ruleNTPhases,
	Enum: func(shard, shards int, tier string, yield func(PCase) bool) {
		idx := 0
		for _, b := range gridBlocks(tier) {
			for _, kind := range gridKinds {
				if !gridCases(b, func(ph []Phase) bool {
					idx++
					if shards > 1 && idx%shards != shard {
						return true
					}
					return yield(PCase{Kind: kind, ZeroEvery: 61, Phases: ph})
				}) {
					return
				}
			}
		}
	},
	Run: RunPhases, Replicas: 4, ReplicaEvery: 16,
})

func TestC16PhasesQueue(t *testing.T) { pbt.Check(t, specPhasesQueue) }
func TestC16PhasesStack(t *testing.T) { pbt.Check(t, specPhasesStack) }
func TestC16Pair(t *testing.T)        { pbt.Check(t, specPair) }
func TestC16Grid(t *testing.T)        { pbt.Check(t, specGrid) }
