package c16

import (
	"fmt"
	"reflect"
	"strconv"
	"strings"
	"syscall"
	"testing"

	"pgregory.net/rapid"
	"verifharness/internal/pbt"
)

// ---- C16.guard: stacks whose backing array ends exactly at the end (or starts at the start) of readable memory ----
//
// Container "stack-guard<L>+<S>e": a Stack[E] converted from a slice of L values and S spare elements that lies in
// pages obtained from mmap such that the element behind the capacity is the first byte of a PROT_NONE page;
// "stack-guard<L>+<S>s": the slice starts at the first byte behind a PROT_NONE page. A library that reads one element
// beyond the length / capacity (or before the first element) faults. Only pointer-free element types (the memory is
// unknown to the garbage collector). The spare capacity is filled with 0xAA bytes.

const maxGuardBytes = 64 << 20

func isGuard(kind string) bool { return strings.HasPrefix(kind, "stack-guard") }

func parseGuard(container string) (l, s int, atEnd, ok bool) {
	rest, found := strings.CutPrefix(container, "stack-guard")
	if !found || len(rest) < 4 {
		return
	}
	switch rest[len(rest)-1] {
	case 'e':
		atEnd = true
	case 's':
	default:
		return
	}
	a, b, found := strings.Cut(rest[:len(rest)-1], "+")
	if !found {
		return
	}
	l, err1 := strconv.Atoi(a)
	s, err2 := strconv.Atoi(b)
	if err1 != nil || err2 != nil || l < 0 || s < 0 || l+s < l {
		return 0, 0, false, false
	}
	return l, s, atEnd, true
}

func guardKind(l, s int, atEnd bool, elem string) string {
	side := "s"
	if atEnd {
		side = "e"
	}
	return fmt.Sprintf("stack-guard%d+%d%s/%s", l, s, side, elem)
}

// guardAlloc maps enough pages for n bytes plus one inaccessible page on either side; mem is the accessible part.
func guardAlloc(n uintptr) (mem []byte, free func()) {
	ps := uintptr(syscall.Getpagesize())
	pages := (n + ps - 1) / ps
	if pages == 0 {
		pages = 1
	}
	m, err := syscall.Mmap(-1, 0, int((pages+2)*ps), syscall.PROT_READ|syscall.PROT_WRITE, syscall.MAP_ANON|syscall.MAP_PRIVATE)
	if err != nil {
		return nil, nil
	}
	if syscall.Mprotect(m[:ps], syscall.PROT_NONE) != nil || syscall.Mprotect(m[(pages+1)*ps:], syscall.PROT_NONE) != nil {
		_ = syscall.Munmap(m)
		return nil, nil
	}
	return m[ps : (pages+1)*ps : (pages+1)*ps], func() { _ = syscall.Munmap(m) }
}

// pointerFree: no value of the type contains a pointer.
func pointerFree(t reflect.Type) bool {
	switch t.Kind() {
	case reflect.Bool, reflect.Int, reflect.Int8, reflect.Int16, reflect.Int32, reflect.Int64,
		reflect.Uint, reflect.Uint8, reflect.Uint16, reflect.Uint32, reflect.Uint64, reflect.Uintptr,
		reflect.Float32, reflect.Float64, reflect.Complex64, reflect.Complex128:
		return true
	case reflect.Array:
		return t.Len() == 0 || pointerFree(t.Elem())
	case reflect.Struct:
		for i := 0; i < t.NumField(); i++ {
			if !pointerFree(t.Field(i).Type) {
				return false
			}
		}
		return true
	}
	return false
}

var guardElems = func() []string {
	var out []string
	for _, et := range elemTypes {
		if et.ptrFree {
			out = append(out, et.name)
		}
	}
	return out
}()

const ruleGuard = "a Stack[E] converted from a slice of L values and S spare elements placed in mmap'ed pages so that it ends exactly where a PROT_NONE page begins (or starts right behind one), spare capacity filled with 0xAA bytes, " +
	"E any of the pointer-free element types (ints, byte/int arrays of 3..1500 bytes, floats, structs with and without padding); under debug.SetPanicOnFault a read beyond the capacity or before the first element is a panic = violation"

// guardLens: lengths 0..9, around the powers of two and around the number of elements per page.
func guardLen(t *rapid.T, size int) int {
	perPage := syscall.Getpagesize() / size
	switch rapid.IntRange(0, 4).Draw(t, "lclass") {
	case 0:
		return rapid.IntRange(0, 9).Draw(t, "l")
	case 1:
		return 1<<rapid.IntRange(2, 12).Draw(t, "lk") + rapid.SampledFrom(deltas).Draw(t, "ld")
	case 2:
		n := rapid.IntRange(1, 3).Draw(t, "pages")*perPage + rapid.SampledFrom(deltas).Draw(t, "pd")
		if n < 0 {
			n = 0
		}
		return n
	}
	return rapid.IntRange(0, 600).Draw(t, "lany")
}

var specGuard = pbt.Register(&pbt.Spec[PCase]{
	Property: "C16", Name: "C16.guard", Rule: "rapid: " + ruleGuard + "; L in 0..9, 2^k+d (k 2..12), j pages' worth of elements +d (j 1..3), 0..600; S in 0 (half of the cases), 1,2,3,7, L+d, up to a page's worth; " +
		"at the end or at the start of the mapping; " + rulePhases + rule + "; non-trivial = at least 3 phases and 5 removals",
	Gen: func(t *rapid.T) PCase {
		elem := rapid.SampledFrom(guardElems).Draw(t, "elem")
		size := int(elemByName[elem].size)
		l := guardLen(t, size)
		if size > 128 && l > 300 {
			l = l%300 + 1
		}
		s := 0
		switch rapid.IntRange(0, 7).Draw(t, "sclass") {
		case 4:
			s = rapid.SampledFrom([]int{1, 2, 3, 7}).Draw(t, "s")
		case 5:
			s = l + rapid.SampledFrom(deltas).Draw(t, "sd")
		case 6, 7:
			s = rapid.IntRange(1, syscall.Getpagesize()/size+2).Draw(t, "spage")
		}
		if s < 0 {
			s = 0
		}
		c := PCase{Kind: guardKind(l, s, rapid.IntRange(0, 3).Draw(t, "side") > 0, elem)}
		c.Quiet = rapid.IntRange(0, 7).Draw(t, "quiet") == 0
		c.ZeroEvery = zeroEvery(t)
		c.Phases = genPhases(t, 1, 1500)
		return c
	},
	Run: func(c PCase) pbt.Outcome {
		out := RunPhases(c)
		if out.Violation != "" {
			return out
		}
		rem := 0
		for _, l := range out.Labels {
			if l == "removals>=5" {
				rem = 5
			}
		}
		out.NonTrivial = len(c.Phases) >= 3 && rem >= 5
		return out
	},
	Quick: 3000, Thorough: 20000, Crashy: true, Replicas: 4, ReplicaEvery: 8,
})

func TestC16Guard(t *testing.T) { pbt.Check(t, specGuard) }
