// Package twin (first of two packages of this name) declares element types whose package-qualified names "twin.Job",
// "twin.Item", "twin.ID" are also declared, with another layout, by verifharness/props/c16/nb/twin.
package twin

// Job is 16 bytes without pointers.
type Job struct {
	A, B int32
	C    float64
}

// Item is a string here (a pointer and a length).
type Item string

// ID is one word without pointers.
type ID int
