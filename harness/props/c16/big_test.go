package c16

import (
	"fmt"
	"math"
	"testing"

	"pgregory.net/rapid"
	"verifharness/internal/pbt"
)

// ---- C16.big: sizes around every power of two from 2^11 up, under different GOMAXPROCS ----

var bigProcs = []int{0, 1, 2, 3, 5, 6, 7}

// bigKinds: element type and the largest block size it is used with.
var bigKinds = []struct {
	kind string
	max  int
}{
	{"queue/int", 1 << 30}, {"stack-nil/int", 1 << 30}, {"queue/triple", 1 << 30}, {"stack-empty/string", 1 << 16},
	{"stack-cap/[16]int64", 1 << 15}, {"queue/[129]byte", 1 << 14}, {"stack-nil/[1500]byte", 1 << 12}, {"queue/*int-own", 1 << 14},
}

func bigBlocks(tier string) []int {
	bs := []int{1 << 11, 1 << 12, 1 << 13, 1 << 14, 1 << 15, 1 << 16}
	if tier == "thorough" {
		bs = append(bs, 1<<17, 1<<18, 1<<19, 1<<20)
	}
	return bs
}

// bigCases yields, for one block size B and one kind, the families
//
//	A "grow and shrink": fill B+d, [GC], drain to B/2+e, fill up to 2B+d, drain to B/4+e, [GC], drain to empty + 2 calls,
//	   fill 5, drain to empty + 1 call; d in -1..2, e cycling through -1,0,1.
//	B "long slide": fill f in {1, 3, B/2, B-1, B+1}, slide S rounds one in / one out with S = 2B+3 (the number of values
//	   ever inserted passes 2B and 3B with the window unchanged), drain to empty + 1 call; Stack kinds: rounds of 3.
//
// GOMAXPROCS cycles through 0 (unchanged),1,2,3,5,6,7; every fourth case is quiet.
func bigCases(b int, kind string, n *int, yield func(PCase) bool) bool {
	emit := func(ph []Phase) bool {
		*n++
		c := PCase{Kind: kind, ZeroEvery: 61, Procs: bigProcs[*n%len(bigProcs)], Quiet: *n%4 == 3, Phases: ph}
		return yield(c)
	}
	for d := -1; d <= 2; d++ {
		e := (*n+d+4)%3 - 1
		ph := []Phase{{K: phFill, N: b + d}}
		if d == 0 {
			ph = append(ph, Phase{K: phGC})
		}
		ph = append(ph, Phase{K: phDrain, N: b + d - (b/2 + e)}, Phase{K: phFill, N: 2*b + d - (b/2 + e)}, Phase{K: phDrain, N: 2*b + d - (b/4 + e)})
		if d == 1 {
			ph = append(ph, Phase{K: phGC})
		}
		ph = append(ph, Phase{K: phEmpty, N: 2}, Phase{K: phFill, N: 5}, Phase{K: phEmpty, N: 1})
		if !emit(ph) {
			return false
		}
	}
	m := 0
	if !isQueue(kind) {
		m = 3
	}
	for _, f := range []int{1, 3, b / 2, b - 1, b + 1} {
		s := 2*b + 3
		if m > 0 {
			s = s/m + 1
		}
		if !emit([]Phase{{K: phFill, N: f}, {K: phSlide, N: s, M: m}, {K: phEmpty, N: 1}}) {
			return false
		}
	}
	return true
}

var specBig = pbt.Register(&pbt.Spec[PCase]{
	Property: "C16", Name: "C16.big", Rule: "enumerated phase histories around every block size B = 2^11..2^16 (thorough: ..2^20; the sizes reach 2B+2) for Queue[int], nil Stack[int], Queue[3-word struct], and up to 2^16 / 2^15 / 2^14 / 2^14 / 2^12 for " +
		"Stack[string], capacity-4 Stack[[16]int64] (128-byte elements), Queue[[129]byte], Queue[*int referenced only by the queue], Stack[[1500]byte]: " +
		"(A) fill B+d, drain to B/2+e, fill up to 2B+d, drain to B/4+e, drain to empty + 2 calls on the empty container, fill 5, drain (d -1..2, e -1..1), with runtime.GC() + small allocations after the first fill (d=0) or before the last drain (d=1); " +
		"(B) fill f in 1,3,B/2,B-1,B+1, then 2B+3 values slide through (one in / one out; Stack: three in / three out), drain; " +
		"the cases run under runtime.GOMAXPROCS = unchanged(16),1,2,3,5,6,7 in turn (restored afterwards), every fourth case is quiet, every 61st inserted value is the zero value; " + rule + ruleNTPhases,
	Enum: func(shard, shards int, tier string, yield func(PCase) bool) {
		idx, n := 0, 0
		bs := bigBlocks(tier)
		// largest blocks first: the shards finish at about the same time
		for i := len(bs) - 1; i >= 0; i-- {
			for _, k := range bigKinds {
				if bs[i] > k.max {
					continue
				}
				if !bigCases(bs[i], k.kind, &n, func(c PCase) bool {
					idx++
					if shards > 1 && idx%shards != shard {
						return true
					}
					return yield(c)
				}) {
					return
				}
			}
		}
	},
	Run: RunPhases, CaseCPU: 300e9,
})

// ---- C16.pre: stacks that start as a conversion of a slice with values and spare capacity ----

var allElems = func() []string {
	var out []string
	for _, et := range elemTypes {
		out = append(out, et.name)
	}
	return out
}()

var zeroSizeElems = func() []string {
	var out []string
	for _, et := range elemTypes {
		if et.size == 0 {
			out = append(out, et.name)
		}
	}
	return out
}()

const rulePre = "a Stack[E] that is the conversion of a slice already holding L values (the last one is the top; they must come out, in reverse order, after everything pushed later) with S elements of unused capacity"

var specPre = pbt.Register(&pbt.Spec[PCase]{
	Property: "C16", Name: "C16.pre", Rule: "rapid: " + rulePre + ", any element type; L in 0..9, 2^k+d (k 4..12, d -2..2) or 1..3000; S in 0,1,2,3,7, L+d, 2L+d, 100 or more than 1 MiB of unused capacity (one case in ten); " +
		rulePhases + rule + ruleNTPhases,
	Gen: func(t *rapid.T) PCase {
		elem := rapid.SampledFrom(allElems).Draw(t, "elem")
		et := elemByName[elem]
		var l int
		switch rapid.IntRange(0, 3).Draw(t, "lclass") {
		case 0:
			l = rapid.IntRange(0, 9).Draw(t, "l")
		case 1, 2:
			l = 1<<rapid.IntRange(4, 12).Draw(t, "lk") + rapid.SampledFrom(deltas).Draw(t, "ld")
		default:
			l = rapid.IntRange(1, 3000).Draw(t, "lany")
		}
		if et.big && l > 1100 {
			l = l%1100 + 1
		}
		var s int
		switch rapid.IntRange(0, 9).Draw(t, "sclass") {
		case 0, 1, 2:
			s = 0
		case 3, 4:
			s = rapid.SampledFrom([]int{1, 2, 3, 7, 100}).Draw(t, "s")
		case 5, 6:
			s = l + rapid.SampledFrom(deltas).Draw(t, "sd")
		case 7, 8:
			s = 2*l + rapid.SampledFrom(deltas).Draw(t, "sd")
		default: // more than 1 MiB unused
			sz := int(et.size)
			if sz == 0 {
				sz = 1
			}
			s = (1<<20)/sz + 1 + rapid.IntRange(0, 4096).Draw(t, "sbig")
		}
		if s < 0 {
			s = 0
		}
		c := PCase{Kind: preKind(l, s, elem)}
		c.Quiet = rapid.IntRange(0, 7).Draw(t, "quiet") == 0
		c.ZeroEvery = zeroEvery(t)
		c.Phases = genPhases(t, 1, budgetFor(c.Kind)/2)
		return c
	},
	Run: RunPhases, Quick: 1500, Thorough: 12000, Replicas: 4, ReplicaEvery: 8,
})

// ---- C16.huge: zero-size element types with astronomically large lengths and capacities ----

// hugeMargin: a stack of more than MaxInt values cannot exist (len is an int; append panics), so the lengths stay this
// far below MaxInt and no case inserts more values than that.
const hugeMargin = 600

func hugeLen(t *rapid.T) int {
	switch rapid.IntRange(0, 5).Draw(t, "lclass") {
	case 0, 1:
		return 1<<rapid.IntRange(15, 62).Draw(t, "lk") + rapid.IntRange(-2, 2).Draw(t, "ld")
	case 2:
		return math.MaxInt - hugeMargin - rapid.IntRange(0, 1000).Draw(t, "below-max")
	case 3:
		return rapid.SampledFrom([]int{3 << 61, 3 << 60, 5 << 60, 1<<62 + 12345, math.MaxInt / 3 * 2, math.MaxInt/3*2 + 1, math.MaxInt / 5 * 4, math.MaxUint32, math.MaxUint32 + 1, math.MaxInt32, math.MaxInt32 + 1}).Draw(t, "lspecial")
	case 4:
		return rapid.IntRange(1<<31, math.MaxInt-hugeMargin).Draw(t, "lany")
	}
	return rapid.IntRange(0, 70).Draw(t, "lsmall") // small length, astronomically large capacity
}

func hugeSpare(t *rapid.T, l int) int {
	room := math.MaxInt - l
	var s int
	switch rapid.IntRange(0, 7).Draw(t, "sclass") {
	case 0, 1, 2:
		s = 0
	case 3, 4:
		s = rapid.SampledFrom([]int{1, 2, 3, 7, 8, 9, 100}).Draw(t, "s")
	case 5:
		s = room // capacity MaxInt
	case 6:
		s = 1<<rapid.IntRange(15, 62).Draw(t, "sk") + rapid.IntRange(-2, 2).Draw(t, "sd") - l // capacity 2^k+d
	default:
		s = rapid.IntRange(0, room).Draw(t, "sany")
	}
	if s < 0 {
		s = 0
	}
	if s > room {
		s = room
	}
	return s
}

// hugeOps: the fixed history of the enumerated part (2 + 9 + 8 pushes, 40 pops, observers; optionally a GC).
func hugeOps(gc bool) []Op {
	var ops []Op
	id := 0
	push := func(n int) {
		for ; n > 0; n-- {
			id++
			ops = append(ops, Op{K: opInsert, V: id})
		}
	}
	pop := func(n int) {
		for ; n > 0; n-- {
			ops = append(ops, Op{K: opRemove})
		}
	}
	push(2)
	ops = append(ops, Op{K: opPeek}, Op{K: opLen})
	pop(3)
	push(9)
	pop(20)
	if gc {
		ops = append(ops, Op{K: opGC})
	}
	push(8)
	pop(17)
	ops = append(ops, Op{K: opPeek}, Op{K: opLen})
	return ops
}

func runHuge(c Case) pbt.Outcome {
	ins, rem := 0, 0
	for _, op := range c.Ops {
		switch ((op.K % nOps) + nOps) % nOps {
		case opInsert:
			ins++
		case opRemove:
			rem++
		}
	}
	container, elem, ok := splitKind(c.Kind)
	if !ok {
		return pbt.Fail("malformed case: unknown kind %q", c.Kind)
	}
	l, s, ok := parsePre(container)
	if !ok || elemByName[elem].size != 0 {
		return pbt.Fail("malformed case: kind %q is not a preloaded stack of a zero-size element type", c.Kind)
	}
	if ins > hugeMargin || l > math.MaxInt-hugeMargin {
		return pbt.Outcome{Skipped: true, Labels: []string{"excluded: more than MaxInt values would have to be inside"}}
	}
	out := Run(c)
	if out.Violation != "" {
		return out
	}
	out.NonTrivial = len(c.Ops) >= 5 && ins >= 2 && rem >= 2 && l+s >= 1<<15
	for _, p := range []int{62, 48, 32, 31, 15} {
		if l >= 1<<p-2 {
			out.Labels = append(out.Labels, fmt.Sprintf("length>=2^%d-2", p))
			break
		}
	}
	switch {
	case s == 0:
		out.Labels = append(out.Labels, "full(len==cap)")
	case s <= ins:
		out.Labels = append(out.Labels, "spare-capacity-used-up")
	case s >= 1<<40:
		out.Labels = append(out.Labels, "spare-capacity>=2^40")
	default:
		out.Labels = append(out.Labels, "spare-capacity-not-used-up")
	}
	return out
}

var specHuge = pbt.Register(&pbt.Spec[Case]{
	Property: "C16", Name: "C16.huge", Rule: "zero-size element types (struct{}, [0]int, [0]func()): " + rulePre + " - such a slice costs no memory at any length. Enumerated: L = 2^k+d for every k in 15..62, d in -1..1 " +
		"(and MaxInt-600, 3*2^61, 2^62+12345) x S in 0,1,8 x the three types with a fixed history (2 pushes, 3 pops, 9 pushes, 20 pops, in every 16th case runtime.GC(), 8 pushes, 17 pops, Peek/Len between); rapid: L among 2^k+d (k 15..62, d -2..2), MaxInt-600-(0..1000), " +
		"multiples of 2^60/2^61, 2/3 and 4/5 of MaxInt, 2^31/2^32 +-1, anything in 2^31..MaxInt-600, or 0..70 (then with a huge capacity); S among 0, 1..100, up to capacity MaxInt, up to capacity 2^k+d, anything; histories from the burst generator (<= 260 ops). " +
		"Lengths stay 600 below MaxInt and cases with more than 600 insertions are skipped: a stack cannot hold more than MaxInt values (append panics in the unchanged library, not judged). " + rule +
		"; non-trivial = at least 5 ops, 2 insertions, 2 removals and a capacity of at least 2^15",
	Enum: func(shard, shards int, tier string, yield func(Case) bool) {
		var lens []int
		for k := 15; k <= 62; k++ {
			for d := -1; d <= 1; d++ {
				lens = append(lens, 1<<k+d)
			}
		}
		lens = append(lens, math.MaxInt-hugeMargin, 3<<61, 1<<62+12345)
		ops, opsGC := hugeOps(false), hugeOps(true)
		idx := 0
		for _, elem := range zeroSizeElems {
			for _, l := range lens {
				for _, s := range []int{0, 1, 8} {
					idx++
					if shards > 1 && idx%shards != shard {
						continue
					}
					o := ops
					if idx%16 == 3 {
						o = opsGC
					}
					if !yield(Case{Kind: preKind(l, s, elem), Quiet: idx%5 == 0, Ops: o}) {
						return
					}
				}
			}
		}
	},
	Gen: func(t *rapid.T) Case {
		elem := rapid.SampledFrom(zeroSizeElems).Draw(t, "elem")
		l := hugeLen(t)
		s := hugeSpare(t, l)
		return Case{Kind: preKind(l, s, elem), Quiet: rapid.IntRange(0, 7).Draw(t, "quiet") == 0, Ops: genOps(t)}
	},
	Run: runHuge, Quick: 8000, Thorough: 60000, Replicas: 4, ReplicaEvery: 16,
})

func TestC16Big(t *testing.T)  { pbt.Check(t, specBig) }
func TestC16Pre(t *testing.T)  { pbt.Check(t, specPre) }
func TestC16Huge(t *testing.T) { pbt.Check(t, specHuge) }
