package c16

import (
	"fmt"
	"reflect"
	"testing"

	"pgregory.net/rapid"
	"verifharness/internal/pbt"
	twina "verifharness/props/c16/na/twin"
	twinb "verifharness/props/c16/nb/twin"
)

// ---- C16.names: distinct element types that print the same name, used in one process ----
//
// reflect.Type.String() (and %T) print a type as "<package name>.<type name>": two function-local types of the same
// name, and same-named types of two packages of the same name, print alike although they are different types with
// different layouts. Whatever the library keys by the printed name of its type parameter (pools, caches) is shared
// between them.

// twinGroups: the element type names of each group of types with one printed name.
var twinGroups [][]string

// printed name of each twin element type.
var twinPrinted = map[string]string{}

func addTwin[E any](l *[]etype, group *[]string, name string, conv func(int) E, eq func(a, b E) bool) {
	addType(l, name, conv, eq)
	var zero E
	twinPrinted[name] = reflect.TypeOf(&zero).Elem().String()
	*group = append(*group, name)
}

func ptrTo(v int) *int {
	if v == 0 {
		return nil
	}
	p := new(int)
	*p = v
	return p
}

// Four function-local types called job (printed "c16.job"): int+string, string+int (same size, pointer elsewhere),
// one int, one pointer.
func localJob1(l *[]etype, g *[]string) {
	type job struct {
		ID   int
		Name string
	}
	addTwin(l, g, "job@1", func(v int) job { return job{v, strOf(v)} }, same[job])
}

func localJob2(l *[]etype, g *[]string) {
	type job struct {
		Name string
		ID   int
	}
	addTwin(l, g, "job@2", func(v int) job { return job{strOf(v), v} }, same[job])
}

func localJob3(l *[]etype, g *[]string) {
	type job int
	addTwin(l, g, "job@3", func(v int) job { return job(v) }, same[job])
}

func localJob4(l *[]etype, g *[]string) {
	type job struct{ P *int }
	addTwin(l, g, "job@4", func(v int) job { return job{ptrTo(v)} }, func(a, b job) bool { return a.P == b.P })
}

// Two local types called rec of 40 and 129 bytes (printed "c16.rec").
func localRec1(l *[]etype, g *[]string) {
	type rec [5]int64
	addTwin(l, g, "rec@1", func(v int) rec { return rec{int64(v), 1, int64(-v), 2, int64(v)} }, same[rec])
}

func localRec2(l *[]etype, g *[]string) {
	type rec struct {
		S   []int
		Pad [105]byte
	}
	addTwin(l, g, "rec@2", func(v int) rec {
		r := rec{S: sliceOf(v)}
		r.Pad[0], r.Pad[104] = byte(v), byte(v>>8)
		return r
	}, func(a, b rec) bool { return sameSlice(a.S, b.S) && a.Pad == b.Pad })
}

func buildTwins() []etype {
	var list []etype
	l := &list
	var g []string
	localJob1(l, &g)
	localJob2(l, &g)
	localJob3(l, &g)
	localJob4(l, &g)
	twinGroups = append(twinGroups, g)
	g = nil
	localRec1(l, &g)
	localRec2(l, &g)
	twinGroups = append(twinGroups, g)
	// types of two packages that are both called twin
	g = nil
	addTwin(l, &g, "twin.Job@a", func(v int) twina.Job { return twina.Job{A: int32(v), B: int32(-v), C: float64(v) / 2} }, same[twina.Job])
	addTwin(l, &g, "twin.Job@b", func(v int) twinb.Job { return twinb.Job{P: ptrTo(v), Q: v} }, func(a, b twinb.Job) bool { return a == b })
	twinGroups = append(twinGroups, g)
	g = nil
	addTwin(l, &g, "twin.Item@a", func(v int) twina.Item { return twina.Item(strOf(v)) }, same[twina.Item])
	addTwin(l, &g, "twin.Item@b", func(v int) twinb.Item { return twinb.Item{N: v, Name: strOf(v)} }, same[twinb.Item])
	twinGroups = append(twinGroups, g)
	g = nil
	addTwin(l, &g, "twin.ID@a", func(v int) twina.ID { return twina.ID(v) }, same[twina.ID])
	addTwin(l, &g, "twin.ID@b", func(v int) twinb.ID { return twinb.ID(ptrTo(v)) }, func(a, b twinb.ID) bool { return a == b })
	twinGroups = append(twinGroups, g)
	for _, g := range twinGroups {
		for _, n := range g {
			if twinPrinted[n] != twinPrinted[g[0]] {
				panic(fmt.Sprintf("twin types %s and %s print differently: %s, %s", g[0], n, twinPrinted[g[0]], twinPrinted[n]))
			}
		}
	}
	return list
}

var twinContainers = []string{"queue", "queue", "stack-nil", "stack-cap"}

const ruleNames = "the element types are 12 types in 5 groups with one printed name (reflect.Type.String / %T) per group: four function-local types all called job (int+string, string+int, int, struct{*int}: \"c16.job\"), " +
	"two local types called rec (40 and 129 bytes), and the types Job, Item, ID declared with different layouts (with / without pointers) by two packages both named twin (\"twin.Job\" ...); " +
	"every case uses containers of at least two different types of one group alternately (every type of a group is used in the one process anyway)"

var specNames = pbt.Register(&pbt.Spec[PCase]{
	Property: "C16", Name: "C16.names", Rule: "enumerated: for every ordered pair of different types (a, b) of one group and each container pair Queue/Queue, Stack/Stack, Queue/Stack: fill a 3, fill b 40, drain a, fill a 70, GC (every 4th case), a recursion 300 frames deep (every 5th), drain b to empty + 1 call, refill b 5, drain all; " +
		"rapid: 2..4 containers (Queue, nil Stack, capacity-4 Stack) of types of one group (one case in four: of any groups), one case in four with every phase in a goroutine of its own; " + ruleNames + "; " + rulePhases + rule + ruleNTPhases,
	Enum: func(shard, shards int, tier string, yield func(PCase) bool) {
		idx := 0
		for _, g := range twinGroups {
			for _, a := range g {
				for _, b := range g {
					if a == b {
						continue
					}
					for _, conts := range [][2]string{{"queue", "queue"}, {"stack-nil", "stack-nil"}, {"queue", "stack-empty"}} {
						idx++
						if shards > 1 && idx%shards != shard {
							continue
						}
						ph := []Phase{{C: 0, K: phFill, N: 3}, {C: 1, K: phFill, N: 40}, {C: 0, K: phEmpty, N: 1}, {C: 0, K: phFill, N: 70}}
						if idx%4 == 0 {
							ph = append(ph, Phase{K: phGC})
						}
						if idx%5 == 0 {
							ph = append(ph, Phase{K: phDeep, N: 300})
						}
						ph = append(ph, Phase{C: 1, K: phEmpty, N: 1}, Phase{C: 1, K: phFill, N: 5}, Phase{C: 0, K: phEmpty, N: 2}, Phase{C: 1, K: phEmpty, N: 2})
						kinds := []string{conts[0] + "/" + a, conts[1] + "/" + b}
						if !yield(PCase{Kind: kinds[0], Kinds: kinds, NC: 2, ZeroEvery: 7, Hop: idx % 3, Phases: ph}) {
							return
						}
					}
				}
			}
		}
	},
	Gen: func(t *rapid.T) PCase {
		nc := rapid.IntRange(2, 4).Draw(t, "nc")
		g := rapid.SampledFrom(twinGroups).Draw(t, "group")
		anyGroup := rapid.IntRange(0, 3).Draw(t, "any-group") == 0
		c := PCase{NC: nc}
		first := rapid.IntRange(0, len(g)-1).Draw(t, "first")
		for i := 0; i < nc; i++ {
			var elem string
			switch {
			case i == 0:
				elem = g[first]
			case i == 1: // a different type of the same group
				elem = g[(first+1+rapid.IntRange(0, len(g)-2).Draw(t, "second"))%len(g)]
			case anyGroup:
				elem = rapid.SampledFrom(rapid.SampledFrom(twinGroups).Draw(t, "g")).Draw(t, "elem")
			default:
				elem = rapid.SampledFrom(g).Draw(t, "elem")
			}
			c.Kinds = append(c.Kinds, rapid.SampledFrom(twinContainers).Draw(t, "container")+"/"+elem)
		}
		c.Kind = c.Kinds[0]
		c.Quiet = rapid.IntRange(0, 7).Draw(t, "quiet") == 0
		c.ZeroEvery = zeroEvery(t)
		if rapid.IntRange(0, 3).Draw(t, "hop") == 0 {
			c.Hop = rapid.SampledFrom([]int{1, 1, 1, 2}).Draw(t, "hop-mode")
		}
		c.Phases = genPhases(t, nc, 3000)
		return c
	},
	Run: RunPhases, Quick: 600, Thorough: 6000, Replicas: 4, ReplicaEvery: 8,
})

func TestC16Names(t *testing.T) { pbt.Check(t, specNames) }
