package c16

import (
	"testing"

	"verifharness/internal/pbt"
)

// ---- C16.clock: wall-clock time passes in the middle of a history ----
//
// A container may do housekeeping (give a buffer back, shrink, drop pooled nodes) only after some time has passed
// since an earlier event (last growth, last use); histories that run without pauses never reach such code. A case
// here holds up to eight independent containers of different kinds, each brought into a different state, then
// REALLY sleeps once (or twice) and continues every container through the interesting sizes (a half, a quarter, an
// eighth of the earlier maximum, empty, beyond the earlier maximum).

// clockKinds are cycled through by the containers of a case.
var clockKinds = []string{"queue/int", "queue/string", "stack-nil/int", "queue/triple", "queue/*int-own", "stack-cap/string", "queue/uint8", "stack-empty/[16]int64",
	"queue/any", "stack-nil/triple", "queue/[129]byte"}

// clockStates: what a container looks like when the sleep begins (b is its block size, a power of two >= 16).
//
//	0 just grown: holds b+1 values (the last insertion passed a power of two)
//	1 grown, then drained to b/2+1 (more than a quarter of the next power of two above b+1)
//	2 grown to b+1, drained to empty and poked
//	3 never used
//	4 holds 5 values only
//	5 grown to 2b+1, drained to b/2+2 (just above a quarter of 4b... and of 2b)
//	6 b+1 values, then b+3 values slid through (the window has moved once around)
//	7 grown to 4b, drained to exactly b (a quarter), refilled by 1
const nClockStates = 8

func clockBefore(c, state, b int) []Phase {
	switch state {
	case 0:
		return []Phase{{C: c, K: phFill, N: b + 1}}
	case 1:
		return []Phase{{C: c, K: phFill, N: b + 1}, {C: c, K: phDrain, N: b + 1 - (b/2 + 1)}}
	case 2:
		return []Phase{{C: c, K: phFill, N: b + 1}, {C: c, K: phEmpty, N: 2}}
	case 3:
		return nil
	case 4:
		return []Phase{{C: c, K: phFill, N: 5}}
	case 5:
		return []Phase{{C: c, K: phFill, N: 2*b + 1}, {C: c, K: phDrain, N: 2*b + 1 - (b/2 + 2)}}
	case 6:
		return []Phase{{C: c, K: phFill, N: b + 1}, {C: c, K: phSlide, N: b + 3}}
	}
	return []Phase{{C: c, K: phFill, N: 4 * b}, {C: c, K: phDrain, N: 3 * b}, {C: c, K: phFill, N: 1}}
}

// clockAfter: the continuation of one container after the sleep; variant chooses what comes first.
func clockAfter(c, variant, b int) []Phase {
	var ph []Phase
	switch variant % 4 {
	case 0: // removals first
	case 1: // one insertion first
		ph = append(ph, Phase{C: c, K: phFill, N: 1})
	case 2: // the window slides first (no growth)
		ph = append(ph, Phase{C: c, K: phSlide, N: 3})
	case 3: // growth first: beyond twice the earlier maximum
		ph = append(ph, Phase{C: c, K: phFill, N: 4*b + 2})
	}
	// down in steps: every value is compared on its way out, observers after every call unless quiet
	ph = append(ph, Phase{C: c, K: phEmpty, N: 2},
		Phase{C: c, K: phFill, N: 2*b + 3}, Phase{C: c, K: phDrain, N: b + 3}, Phase{C: c, K: phSlide, N: 5}, Phase{C: c, K: phEmpty, N: 1})
	return ph
}

// clockCase builds one case: containers 0..nc-1 with block sizes cycling through bs, states and kinds rotated by rot;
// sleeps (milliseconds): one sleep = [before..., sleep, after...]; two = [before, sleep, half of the containers do a
// partial step (one removal, one insertion, a small growth), sleep, after].
func clockCase(nc, rot int, bs []int, sleeps []int, quiet, gc bool) PCase {
	c := PCase{NC: nc, Quiet: quiet, ZeroEvery: 0}
	for i := 0; i < nc; i++ {
		c.Kinds = append(c.Kinds, clockKinds[(i+rot)%len(clockKinds)])
	}
	c.Kind = c.Kinds[0]
	blk := func(i int) int {
		b := bs[(i+rot)%len(bs)]
		if _, elem, _ := splitKind(c.Kinds[i]); elemByName[elem].size >= 128 && b > 256 {
			b = 256
		}
		return b
	}
	for i := 0; i < nc; i++ {
		c.Phases = append(c.Phases, clockBefore(i, (i+3*rot)%nClockStates, blk(i))...)
	}
	if gc {
		c.Phases = append(c.Phases, Phase{K: phGC})
	}
	c.Phases = append(c.Phases, Phase{K: phSleep, N: sleeps[0]})
	for _, ms := range sleeps[1:] {
		for i := 0; i < nc; i++ {
			switch i % 4 {
			case 0:
				c.Phases = append(c.Phases, Phase{C: i, K: phDrain, N: 1})
			case 1:
				c.Phases = append(c.Phases, Phase{C: i, K: phFill, N: 1})
			case 2:
				c.Phases = append(c.Phases, Phase{C: i, K: phFill, N: 2*blk(i) + 1}, Phase{C: i, K: phDrain, N: blk(i)})
			}
		}
		c.Phases = append(c.Phases, Phase{K: phSleep, N: ms})
	}
	if gc {
		c.Phases = append(c.Phases, Phase{K: phGC})
	}
	for i := 0; i < nc; i++ {
		c.Phases = append(c.Phases, clockAfter(i, i+rot, blk(i))...)
	}
	return c
}

func clockCases(tier string) []PCase {
	small := []int{16, 32, 64, 128, 256, 1024, 4096, 32}
	out := []PCase{
		clockCase(8, 0, small, []int{2100}, false, false),
		clockCase(8, 3, small, []int{2100}, true, false),
		clockCase(8, 5, small, []int{2100, 2100}, false, false),
		clockCase(8, 7, small, []int{2100}, false, true),
	}
	if tier == "thorough" {
		big := []int{16, 64, 512, 8192, 65536, 32, 2048, 256}
		for rot := 0; rot < 8; rot++ {
			out = append(out, clockCase(8, rot, small, []int{2100}, rot%3 == 1, rot%4 == 2))
		}
		out = append(out,
			clockCase(8, 1, big, []int{5100}, false, false), clockCase(8, 4, small, []int{5100}, true, false), clockCase(8, 6, small, []int{5100, 2100}, false, true),
			clockCase(8, 2, small, []int{1100}, false, false), clockCase(8, 2, small, []int{1100, 1100, 1100}, false, false),
			clockCase(8, 0, big, []int{10100}, false, false), clockCase(8, 3, small, []int{10100, 5100}, false, false))
	}
	return out
}

// clockLongCases: sleeps of half a minute and more (thorough only, without parallel copies: pbt calls a case that
// uses no CPU for 120 s blocked).
func clockLongCases() []PCase {
	small := []int{16, 32, 64, 128, 256, 1024, 4096, 32}
	big := []int{16, 64, 512, 8192, 65536, 32, 2048, 256}
	return []PCase{clockCase(8, 5, small, []int{30100}, false, false), clockCase(8, 1, small, []int{61000}, false, true), clockCase(8, 6, big, []int{61000}, true, false),
		clockCase(8, 2, small, []int{30100, 45000}, false, false), clockCase(8, 4, big, []int{90000}, false, false)}
}

var specClock = pbt.Register(&pbt.Spec[PCase]{
	Property: "C16", Name: "C16.clock", Rule: "enumerated, few cases that really sleep: 8 independent containers per case (Queue and nil/empty/capacity-4 Stack of int, string, 3-word struct, *int referenced only by the container, uint8, any, 128- and 129-byte arrays), " +
		"block sizes b in 16..4096 (thorough: ..65536), each brought into one of 8 states (just grown to b+1; grown and drained to b/2+1; grown and drained to empty; never used; 5 values; grown to 2b+1 and drained to b/2+2; b+1 values with the window moved b+3 times; " +
		"grown to 4b, drained to b, one more), then time.Sleep(2100 ms) once (quick: 4 cases, one of them sleeping twice with one removal / one insertion / a growth to 2b+1 in between, one quiet, one with runtime.GC() before and after the sleep; " +
		"thorough: also 1100 ms (once and three times), 5100 and 10100 ms; 30100..90000 ms: see C16.clock.long), then every container continues (removal first / one insertion first / window slides first / growth to 4b+2 first), is drained to empty + 2 calls " +
		"(every value compared on its way out), refilled to 2b+3, drained by b+3, slid, drained; no zero values are inserted (a lost value shows as a zero value); " + rule + ruleNTPhases,
	Enum: func(shard, shards int, tier string, yield func(PCase) bool) {
		for i, c := range clockCases(tier) {
			if shards > 1 && i%shards != shard {
				continue
			}
			if !yield(c) {
				return
			}
		}
	},
	Run: RunPhases, Replicas: 4, ReplicaEvery: 2,
})

var specClockLong = pbt.Register(&pbt.Spec[PCase]{
	Property: "C16", Name: "C16.clock.long", Rule: "thorough tier only, five cases like those of C16.clock (8 containers in 8 states each, see there) that sleep 30100 ms, 61000 ms (twice), 30100 + 45000 ms and 90000 ms " +
		"(housekeeping gated by half a minute / a minute of wall-clock time; no parallel copies); " + rule + ruleNTPhases,
	Enum: func(shard, shards int, tier string, yield func(PCase) bool) {
		if tier != "thorough" {
			return
		}
		for i, c := range clockLongCases() {
			if shards > 1 && i%shards != shard {
				continue
			}
			if !yield(c) {
				return
			}
		}
	},
	Run: RunPhases,
})

func TestC16Clock(t *testing.T)     { pbt.Check(t, specClock) }
func TestC16ClockLong(t *testing.T) { pbt.Check(t, specClockLong) }
