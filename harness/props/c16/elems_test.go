package c16

import (
	"fmt"
	"math"
	"reflect"
	"unsafe"

	"gopkg.in/typ.v4/lists"
)

// etype is one element type the containers are instantiated with. conv maps the case's value number v to an
// element (0 -> the zero value of the type, other numbers -> values that differ between neighbouring numbers and,
// where the type is wide enough, between all numbers); eq decides whether the library returned that very value.
type etype struct {
	name string
	size uintptr
	big  bool // wide elements: long histories are scaled down
	mk   func(tag, container string, quiet bool) engine
}

// elemTypes is initialised through a function (not init) so that package-level kind lists may depend on it.
var elemTypes = buildTypes()

var elemByName = func() map[string]etype {
	m := map[string]etype{}
	for _, et := range elemTypes {
		if _, dup := m[et.name]; dup {
			panic("duplicate element type " + et.name)
		}
		m[et.name] = et
	}
	return m
}()

func addType[E any](list *[]etype, name string, conv func(int) E, eq func(a, b E) bool) {
	var zero E
	et := etype{name: name, size: unsafe.Sizeof(zero), big: unsafe.Sizeof(zero) > 128}
	et.mk = func(tag, container string, quiet bool) engine {
		var b box[E]
		fifo := false
		switch container {
		case "queue":
			b, fifo = queueBox[E](), true
		case "stack-nil":
			var s lists.Stack[E]
			b = stackBox(s)
		case "stack-empty":
			b = stackBox(lists.Stack[E]{})
		case "stack-cap":
			b = stackBox(make(lists.Stack[E], 0, 4))
		case "stack-cap100":
			b = stackBox(make(lists.Stack[E], 0, 100))
		default:
			return nil
		}
		return &eng[E]{tag: tag, b: b, fifo: fifo, quiet: quiet, conv: conv, eq: eq}
	}
	*list = append(*list, et)
}

func same[E comparable](a, b E) bool { return a == b }

var words = []string{"", "a", "b", "c", "d", "e", "f", "g"}

func strOf(v int) string {
	if v == 0 {
		return ""
	}
	if v < 0 {
		v = -v
	}
	return fmt.Sprintf("%s%d", words[v%len(words)], v)
}

// triple is a 3-word struct (24 bytes) with methods of its own.
type triple struct{ A, B, C int }

func (t triple) String() string      { return fmt.Sprintf("<%d %d %d>", t.A, t.B, t.C) }
func (t triple) Equal(o triple) bool { return t == o }
func (t triple) Less(o triple) bool  { return t.A < o.A }
func (t triple) IsZero() bool        { return false } // deliberately unhelpful

// celsius is a named float with a method.
type celsius float64

func (c celsius) String() string { return fmt.Sprintf("%g°C", float64(c)) }

// quad is a 4-word comparable struct (32 bytes, a power of two).
type quad struct{ A, B, C, D int }

// padded has interior padding (24 bytes).
type padded struct {
	A byte
	B int64
	C byte
}

// holder is a non-comparable struct (slice + int, 32 bytes).
type holder struct {
	S []int
	X int
}

// shared is the backing array that every third slice value points into.
var shared = func() []int {
	s := make([]int, 64)
	for i := range s {
		s[i] = i
	}
	return s
}()

func sliceOf(v int) []int {
	switch {
	case v == 0:
		return nil
	case v%7 == 3:
		return []int{} // empty, not nil
	case v%3 == 0:
		lo := v % 32
		return shared[lo : lo+1+v%5 : lo+8+v%9] // shares its backing array with other values
	}
	s := make([]int, 1+v%3, 1+v%3+v%4)
	for i := range s {
		s[i] = v
	}
	return s
}

// sameSlice: the very slice value (pointer, length, capacity), not merely equal contents.
func sameSlice(a, b []int) bool {
	return (a == nil) == (b == nil) && len(a) == len(b) && cap(a) == cap(b) && unsafe.SliceData(a) == unsafe.SliceData(b)
}

func buildTypes() []etype {
	var list []etype
	l := &list
	addType(l, "int", func(v int) int { return v }, same[int])
	addType(l, "string", strOf, same[string])
	// values next to both ends of the int range
	addType(l, "int-edge", func(v int) int {
		switch {
		case v == 0:
			return 0
		case v%2 == 0:
			return math.MaxInt - v/2 + 1
		}
		return math.MinInt + v/2
	}, same[int])
	addType(l, "uint8", func(v int) uint8 { return uint8(v % 251) }, same[uint8])
	addType(l, "uint16", func(v int) uint16 { return uint16(v % 65521) }, same[uint16])
	addType(l, "[3]byte", func(v int) [3]byte { return [3]byte{byte(v), byte(v >> 8), byte(v >> 16)} }, same[[3]byte])
	addType(l, "[7]byte", func(v int) [7]byte { return [7]byte{byte(v), byte(v >> 8), byte(v >> 16), 0, 0, 0, byte(v)} }, same[[7]byte])
	addType(l, "[3]int32", func(v int) [3]int32 { return [3]int32{int32(v), int32(-v), int32(v << 3)} }, same[[3]int32])
	addType(l, "[5]int64", func(v int) [5]int64 { return [5]int64{int64(v), 0, int64(-v), 0, int64(v)} }, same[[5]int64])
	addType(l, "triple", func(v int) triple { return triple{v, -v, 3 * v} }, same[triple])
	addType(l, "padded", func(v int) padded { return padded{byte(v), int64(v), byte(v >> 8)} }, same[padded])
	addType(l, "quad", func(v int) quad { return quad{v, v, -v, v ^ 0x55} }, func(a, b quad) bool { return a == b })
	addType(l, "[]int", sliceOf, sameSlice)
	addType(l, "holder", func(v int) holder { return holder{sliceOf(v), v} },
		func(a, b holder) bool { return a.X == b.X && sameSlice(a.S, b.S) })
	addType(l, "float64", func(v int) float64 {
		switch {
		case v == 0:
			return 0
		case v%11 == 5:
			return math.Copysign(0, -1) // -0.0 == 0 but is not the zero value
		case v%13 == 6:
			return math.NaN()
		case v%17 == 7:
			return math.Inf(1 - 2*(v&2))
		}
		return float64(v) / 2
	}, func(a, b float64) bool { return math.Float64bits(a) == math.Float64bits(b) })
	addType(l, "celsius", func(v int) celsius { return celsius(v) / 4 }, same[celsius])
	addType(l, "*int", func(v int) *int {
		if v == 0 {
			return nil
		}
		p := new(int)
		*p = v
		return p
	}, same[*int])
	addType(l, "any", func(v int) any {
		switch {
		case v == 0:
			return nil
		case v%5 == 1:
			return v
		case v%5 == 2:
			return strOf(v)
		case v%5 == 3:
			return []int{v} // non-comparable dynamic type
		case v%5 == 4:
			return triple{v, v, v}
		}
		return float64(v)
	}, func(a, b any) bool { return reflect.DeepEqual(a, b) })
	addType(l, "func", func(v int) func() int {
		if v == 0 {
			return nil
		}
		return func() int { return v }
	}, func(a, b func() int) bool {
		if a == nil || b == nil {
			return a == nil && b == nil
		}
		return a() == b()
	})
	addType(l, "map", func(v int) map[int]int {
		if v == 0 {
			return nil
		}
		return map[int]int{v: v}
	}, func(a, b map[int]int) bool {
		return reflect.ValueOf(a).Pointer() == reflect.ValueOf(b).Pointer() && len(a) == len(b)
	})
	// zero-size elements: only the ok flags and Len can be told apart
	addType(l, "struct{}", func(v int) struct{} { return struct{}{} }, same[struct{}])
	addType(l, "[0]int", func(v int) [0]int { return [0]int{} }, same[[0]int])
	// odd sizes beyond 32 bytes, and wide elements
	addType(l, "[50]byte", func(v int) (a [50]byte) { a[0], a[1], a[2], a[49] = byte(v), byte(v>>8), byte(v>>16), byte(v); return }, same[[50]byte])
	addType(l, "[100]byte", func(v int) (a [100]byte) { a[0], a[1], a[2], a[99] = byte(v), byte(v>>8), byte(v>>16), byte(v); return }, same[[100]byte])
	addType(l, "[40]int64", func(v int) (a [40]int64) { a[0], a[39] = int64(v), int64(-v); return }, same[[40]int64])
	return list
}
