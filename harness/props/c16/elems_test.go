package c16

import (
	"fmt"
	"math"
	"reflect"
	"runtime"
	"strconv"
	"strings"
	"unsafe"

	"gopkg.in/typ.v4/lists"
)

// etype is one element type the containers are instantiated with. conv maps the case's value number v to an
// element (0 -> the zero value of the type, other numbers -> values that differ between neighbouring numbers and,
// where the type is wide enough, between all numbers); eq decides whether the library returned that very value.
type etype struct {
	name string
	size uintptr
	big  bool // wide elements: long histories are scaled down
	mk   func(tag, container string, quiet bool) engine
}

// elemTypes is initialised through a function (not init) so that package-level kind lists may depend on it.
var elemTypes = buildTypes()

var elemByName = func() map[string]etype {
	m := map[string]etype{}
	for _, et := range elemTypes {
		if _, dup := m[et.name]; dup {
			panic("duplicate element type " + et.name)
		}
		m[et.name] = et
	}
	return m
}()

func addType[E any](list *[]etype, name string, conv func(int) E, eq func(a, b E) bool) {
	addTypeOwn(list, name, conv, nil, eq)
}

// preBase is the value number of the bottom value of a preloaded stack (value i has number preBase+i).
const preBase = 1 << 20

// maxPreBytes bounds the backing array of a preloaded stack of a non-zero-size element type.
const maxPreBytes = 256 << 20

// parsePre reads the container name "stack-pre<L>+<S>": a Stack converted from a slice that already holds L
// values (the last one is the top) and has S further elements of unused capacity.
func parsePre(container string) (l, s int, ok bool) {
	rest, found := strings.CutPrefix(container, "stack-pre")
	if !found {
		return 0, 0, false
	}
	a, b, found := strings.Cut(rest, "+")
	if !found {
		return 0, 0, false
	}
	l, err1 := strconv.Atoi(a)
	s, err2 := strconv.Atoi(b)
	if err1 != nil || err2 != nil || l < 0 || s < 0 || l+s < l {
		return 0, 0, false
	}
	return l, s, true
}

func preKind(l, s int, elem string) string { return fmt.Sprintf("stack-pre%d+%d/%s", l, s, elem) }

// addTypeOwn: with modelConv != nil the model keeps a value built by modelConv (a separate object that is equal
// under eq) instead of the very value handed to the library, so that the container holds the only reference to
// what was inserted.
func addTypeOwn[E any](list *[]etype, name string, conv, modelConv func(int) E, eq func(a, b E) bool) {
	var zero E
	size := unsafe.Sizeof(zero)
	et := etype{name: name, size: size, big: size > 128}
	et.mk = func(tag, container string, quiet bool) engine {
		var b box[E]
		var model []E
		fifo := false
		switch container {
		case "queue":
			b, fifo = queueBox[E](), true
		case "stack-nil":
			var s lists.Stack[E]
			b = stackBox(s)
		case "stack-empty":
			b = stackBox(lists.Stack[E]{})
		case "stack-cap":
			b = stackBox(make(lists.Stack[E], 0, 4))
		case "stack-cap100":
			b = stackBox(make(lists.Stack[E], 0, 100))
		default:
			l, s, ok := parsePre(container)
			if !ok || (size > 0 && uintptr(l+s) > maxPreBytes/size) {
				return nil
			}
			buf := make([]E, l, l+s)
			model = make([]E, l)
			if size > 0 { // all values of a zero-size type are the same value (and l may be astronomically large)
				for i := range buf {
					buf[i] = conv(preBase + i)
					if modelConv == nil {
						model[i] = buf[i]
					} else {
						model[i] = modelConv(preBase + i)
					}
				}
			}
			b = stackBox(lists.Stack[E](buf))
		}
		e := &eng[E]{tag: tag, b: b, fifo: fifo, quiet: quiet, conv: conv, modelConv: modelConv, eq: eq, model: model}
		e.maxLen = len(model)
		return e
	}
	*list = append(*list, et)
}

// gcNow is the "garbage collection in the middle of a history" step: a full collection, then a burst of small
// allocations of the sizes the element types use, so that memory the collector has just freed is handed out again.
func gcNow() {
	runtime.GC()
	junk := make([]any, 0, 96)
	for i := 0; i < 32; i++ {
		p := new(int)
		*p = -7777
		q := new([4]int)
		q[0], q[3] = -7777, -7777
		junk = append(junk, p, q, fmt.Sprintf("junk%d", i))
	}
	runtime.KeepAlive(junk)
}

func same[E comparable](a, b E) bool { return a == b }

var words = []string{"", "a", "b", "c", "d", "e", "f", "g"}

func strOf(v int) string {
	if v == 0 {
		return ""
	}
	if v < 0 {
		v = -v
	}
	return fmt.Sprintf("%s%d", words[v%len(words)], v)
}

// triple is a 3-word struct (24 bytes) with methods of its own.
type triple struct{ A, B, C int }

func (t triple) String() string      { return fmt.Sprintf("<%d %d %d>", t.A, t.B, t.C) }
func (t triple) Equal(o triple) bool { return t == o }
func (t triple) Less(o triple) bool  { return t.A < o.A }
func (t triple) IsZero() bool        { return false } // deliberately unhelpful

// celsius is a named float with a method.
type celsius float64

func (c celsius) String() string { return fmt.Sprintf("%g°C", float64(c)) }

// quad is a 4-word comparable struct (32 bytes, a power of two).
type quad struct{ A, B, C, D int }

// padded has interior padding (24 bytes).
type padded struct {
	A byte
	B int64
	C byte
}

// holder is a non-comparable struct (slice + int, 32 bytes).
type holder struct {
	S []int
	X int
}

// shared is the backing array that every third slice value points into.
var shared = func() []int {
	s := make([]int, 64)
	for i := range s {
		s[i] = i
	}
	return s
}()

func sliceOf(v int) []int {
	switch {
	case v == 0:
		return nil
	case v%7 == 3:
		return []int{} // empty, not nil
	case v%3 == 0:
		lo := v % 32
		return shared[lo : lo+1+v%5 : lo+8+v%9] // shares its backing array with other values
	}
	s := make([]int, 1+v%3, 1+v%3+v%4)
	for i := range s {
		s[i] = v
	}
	return s
}

// sameSlice: the very slice value (pointer, length, capacity), not merely equal contents.
func sameSlice(a, b []int) bool {
	return (a == nil) == (b == nil) && len(a) == len(b) && cap(a) == cap(b) && unsafe.SliceData(a) == unsafe.SliceData(b)
}

func buildTypes() []etype {
	var list []etype
	l := &list
	addType(l, "int", func(v int) int { return v }, same[int])
	addType(l, "string", strOf, same[string])
	// values next to both ends of the int range
	addType(l, "int-edge", func(v int) int {
		switch {
		case v == 0:
			return 0
		case v%2 == 0:
			return math.MaxInt - v/2 + 1
		}
		return math.MinInt + v/2
	}, same[int])
	addType(l, "uint8", func(v int) uint8 { return uint8(v % 251) }, same[uint8])
	addType(l, "uint16", func(v int) uint16 { return uint16(v % 65521) }, same[uint16])
	addType(l, "[3]byte", func(v int) [3]byte { return [3]byte{byte(v), byte(v >> 8), byte(v >> 16)} }, same[[3]byte])
	addType(l, "[7]byte", func(v int) [7]byte { return [7]byte{byte(v), byte(v >> 8), byte(v >> 16), 0, 0, 0, byte(v)} }, same[[7]byte])
	addType(l, "[3]int32", func(v int) [3]int32 { return [3]int32{int32(v), int32(-v), int32(v << 3)} }, same[[3]int32])
	addType(l, "[5]int64", func(v int) [5]int64 { return [5]int64{int64(v), 0, int64(-v), 0, int64(v)} }, same[[5]int64])
	addType(l, "triple", func(v int) triple { return triple{v, -v, 3 * v} }, same[triple])
	addType(l, "padded", func(v int) padded { return padded{byte(v), int64(v), byte(v >> 8)} }, same[padded])
	addType(l, "quad", func(v int) quad { return quad{v, v, -v, v ^ 0x55} }, func(a, b quad) bool { return a == b })
	addType(l, "[]int", sliceOf, sameSlice)
	addType(l, "holder", func(v int) holder { return holder{sliceOf(v), v} },
		func(a, b holder) bool { return a.X == b.X && sameSlice(a.S, b.S) })
	addType(l, "float64", func(v int) float64 {
		switch {
		case v == 0:
			return 0
		case v%11 == 5:
			return math.Copysign(0, -1) // -0.0 == 0 but is not the zero value
		case v%13 == 6:
			return math.NaN()
		case v%17 == 7:
			return math.Inf(1 - 2*(v&2))
		}
		return float64(v) / 2
	}, func(a, b float64) bool { return math.Float64bits(a) == math.Float64bits(b) })
	addType(l, "celsius", func(v int) celsius { return celsius(v) / 4 }, same[celsius])
	addType(l, "*int", func(v int) *int {
		if v == 0 {
			return nil
		}
		p := new(int)
		*p = v
		return p
	}, same[*int])
	addType(l, "any", func(v int) any {
		switch {
		case v == 0:
			return nil
		case v%5 == 1:
			return v
		case v%5 == 2:
			return strOf(v)
		case v%5 == 3:
			return []int{v} // non-comparable dynamic type
		case v%5 == 4:
			return triple{v, v, v}
		}
		return float64(v)
	}, func(a, b any) bool { return reflect.DeepEqual(a, b) })
	addType(l, "func", func(v int) func() int {
		if v == 0 {
			return nil
		}
		return func() int { return v }
	}, func(a, b func() int) bool {
		if a == nil || b == nil {
			return a == nil && b == nil
		}
		return a() == b()
	})
	addType(l, "map", func(v int) map[int]int {
		if v == 0 {
			return nil
		}
		return map[int]int{v: v}
	}, func(a, b map[int]int) bool {
		return reflect.ValueOf(a).Pointer() == reflect.ValueOf(b).Pointer() && len(a) == len(b)
	})
	// zero-size elements: only the ok flags and Len can be told apart
	addType(l, "struct{}", func(v int) struct{} { return struct{}{} }, same[struct{}])
	addType(l, "[0]int", func(v int) [0]int { return [0]int{} }, same[[0]int])
	// odd sizes beyond 32 bytes, and wide elements
	addType(l, "[50]byte", func(v int) (a [50]byte) { a[0], a[1], a[2], a[49] = byte(v), byte(v>>8), byte(v>>16), byte(v); return }, same[[50]byte])
	addType(l, "[100]byte", func(v int) (a [100]byte) { a[0], a[1], a[2], a[99] = byte(v), byte(v>>8), byte(v>>16), byte(v); return }, same[[100]byte])
	addType(l, "[40]int64", func(v int) (a [40]int64) { a[0], a[39] = int64(v), int64(-v); return }, same[[40]int64])
	// exactly 128 bytes, one more, and a very wide element
	addType(l, "[16]int64", func(v int) (a [16]int64) { a[0], a[7], a[15] = int64(v), int64(v)<<20, int64(-v); return }, same[[16]int64])
	addType(l, "[129]byte", func(v int) (a [129]byte) {
		a[0], a[1], a[2], a[128] = byte(v), byte(v>>8), byte(v>>16), byte(v)
		return
	}, same[[129]byte])
	addType(l, "[1500]byte", func(v int) (a [1500]byte) {
		a[0], a[1], a[2], a[750], a[1499] = byte(v), byte(v>>8), byte(v>>16), byte(v), byte(v>>8)
		return
	}, same[[1500]byte])
	// a zero-size type that is not comparable
	addType(l, "[0]func", func(v int) [0]func() { return [0]func(){} }, func(a, b [0]func()) bool { return true })
	// values that only the container references: the model keeps an equal value in a separate allocation
	ownInt := func(v int) *int {
		if v == 0 {
			return nil
		}
		p := new(int)
		*p = v
		return p
	}
	addTypeOwn(l, "*int-own", ownInt, ownInt, func(a, b *int) bool {
		if a == nil || b == nil {
			return a == nil && b == nil
		}
		return *a == *b
	})
	ownStr := func(v int) string {
		if v == 0 {
			return ""
		}
		return strings.Repeat("x", v%5) + strconv.Itoa(v) // built (allocated) anew by every call
	}
	addTypeOwn(l, "string-own", ownStr, ownStr, same[string])
	return list
}
