package c16

import (
	"testing"

	"verifharness/internal/pbt"
)

// ---- C16.mega: 2^22..2^24 (thorough: ..3*2^23) values of one byte (or of no bytes) inside one container ----
//
// Anything the library does per element or per chunk by recursion overflows the goroutine stack at these sizes
// (`fatal error: stack overflow` kills the process: the unit is Crashy, the driver reports the running case), work
// done in pieces of 2^22 elements gets a second piece. One-byte elements keep it cheap: a Stack[uint8] of 2^24 values
// is 16 MiB; the linked-list Queue needs 32 bytes per value whatever the element type (2^22 values = 128 MiB,
// 2^24 = 512 MiB: thorough tier only).

type megaKind struct {
	kind  string
	sizes []int // quick
	more  []int // thorough in addition
}

var megaKinds = []megaKind{
	{"stack-nil/uint8", []int{1 << 22, 1 << 23, 1 << 24}, []int{3 << 23}},
	{"stack-cap100/uint8", []int{1 << 22}, []int{1 << 24}},
	{"queue/uint8", []int{1 << 22}, []int{1 << 23, 1 << 24}},
	{"queue/struct{}", []int{1 << 22}, []int{1 << 23}},
	{"stack-nil/[3]byte", []int{1 << 22}, []int{1 << 24}},
	{"stack-empty/int", []int{1 << 22}, []int{1 << 24}},
}

// megaCases for one kind and size b:
//
//	quiet  d=-1,0,1: fill b+d, drain to empty + 1 call (every value compared), fill 3, drain.
//	seen   (observers after every call): fill b+1, GC, drain to b/2, fill 10, drain b/4, slide 5, drain to empty + 2 calls.
//
// Stacks also start as conversions of a slice that already holds b+d values with 0 or 2^22+1 spare elements.
func megaCases(k megaKind, b int, n *int, yield func(PCase) bool) bool {
	emit := func(c PCase) bool {
		*n++
		c.ZeroEvery = 61
		c.Flip = *n%4 == 1
		if !c.Flip {
			c.Procs = bigProcs[*n%len(bigProcs)]
		}
		return yield(c)
	}
	for d := -1; d <= 1; d++ {
		if !emit(PCase{Kind: k.kind, Quiet: true, Phases: []Phase{{K: phFill, N: b + d}, {K: phEmpty, N: 1}, {K: phFill, N: 3}, {K: phEmpty}}}) {
			return false
		}
	}
	queue := isQueue(k.kind)
	if !queue || b <= 1<<23 {
		if !emit(PCase{Kind: k.kind, Phases: []Phase{{K: phFill, N: b + 1}, {K: phGC}, {K: phDrain, N: b / 2}, {K: phFill, N: 10}, {K: phDrain, N: b / 4}, {K: phSlide, N: 5}, {K: phEmpty, N: 2}}}) {
			return false
		}
	}
	if !queue {
		_, elem, _ := splitKind(k.kind)
		for i, s := range []int{0, 1<<22 + 1} {
			if !emit(PCase{Kind: preKind(b+i-1, s, elem), Quiet: i == 0, Phases: []Phase{{K: phFill, N: 3}, {K: phDrain, N: b / 2}, {K: phFill, N: 1<<22 + 7}, {K: phEmpty, N: 1}}}) {
				return false
			}
		}
	}
	return true
}

var specMega = pbt.Register(&pbt.Spec[PCase]{
	Property: "C16", Name: "C16.mega", Rule: "enumerated: B values inside one container for B = 2^22, 2^23, 2^24 (thorough: 3*2^23) with nil Stack[uint8], B = 2^22 (thorough: 2^23 / 2^24) with capacity-100 Stack[uint8], Queue[uint8], Queue[struct{}], Stack[[3]byte], Stack[int]: " +
		"quiet cases fill B+d (d -1..1), drain to empty + 1 call with every value compared, fill 3, drain; an observed case (Len/Peek after every call) fill B+1, runtime.GC(), drain B/2, fill 10, drain B/4, slide 5, drain to empty + 2 calls; " +
		"Stacks also as " + rulePre + " with L = B-1, B and S = 0, 2^22+1: push 3, pop B/2, push 2^22+7, drain; every fourth case with another goroutine flipping runtime.GOMAXPROCS between 2 and 7 meanwhile, the others under GOMAXPROCS = unchanged,1,2,3,5,6,7 in turn; " +
		"every 61st inserted value is the zero value; a stack overflow or fault of the process counts as a violation of the running case; " + rule + ruleNTPhases,
	Enum: func(shard, shards int, tier string, yield func(PCase) bool) {
		idx, n := 0, 0
		for _, k := range megaKinds {
			sizes := k.sizes
			if tier == "thorough" {
				sizes = append(append([]int{}, sizes...), k.more...)
			}
			for _, b := range sizes {
				if !megaCases(k, b, &n, func(c PCase) bool {
					idx++
					if shards > 1 && idx%shards != shard {
						return true
					}
					return yield(c)
				}) {
					return
				}
			}
		}
	},
	Run: RunPhases, CaseCPU: 300e9, Crashy: true,
})

func TestC16Mega(t *testing.T) { pbt.Check(t, specMega) }
