package c16

import (
	"fmt"
	"testing"
	"unsafe"

	"gopkg.in/typ.v4/lists"
	"pgregory.net/rapid"
	"verifharness/internal/pbt"
)

// ---- C16.local: a Stack over a LOCAL fixed-size array of the calling function, and a local Queue ----
//
// `var arr [64]E; s := lists.Stack[E](arr[:L:L+S])`: when nothing lets arr escape, the compiler keeps it on the
// goroutine stack, and it MOVES when the stack grows (a deep recursion in the middle of the history forces that; the
// case runs in a fresh goroutine, whose stack starts small). Whatever the library remembers about the backing array
// other than through ordinary pointers is stale afterwards. The history is executed by straight-line code against a
// model on the heap (no closures over the container, they would move it to the heap).
//
// With the unchanged library the Go 1.23 compiler moves arr to the heap all the same: Pop and Push store a slice of
// the backing array through their pointer receiver (`*s = slice[:lastIdx]`), which escape analysis treats as a store
// to the heap. The label backing-array-moved-with-the-goroutine-stack therefore counts 0 today; a changed Stack
// whose methods do not let the array escape gets the moving array.

const (
	lopDeep = 5 // recursion V frames deep (1 KiB each), V reduced to 0..4095
	nLops   = 6
	localN  = 64
)

type LCase struct {
	Elem string `json:"elem"` // int, string, triple, uint8
	L    int    `json:"l"`    // values in the array at the start (reduced to 0..64)
	S    int    `json:"s"`    // spare capacity (reduced so that L+S <= 64)
	Ops  []Op   `json:"ops"`  // K: opInsert, opRemove, opPeek, opLen, opGC, lopDeep
}

type localResult struct {
	msg                    string
	moved                  bool // the array had another address after a deep recursion: it lives on the goroutine stack
	evals, deeps, removals int
	outgrew                bool
}

//go:noinline
func localRun[E comparable](c LCase, conv func(int) E) (r localResult) {
	var arr [localN]E
	var q lists.Queue[E]
	l := ((c.L % (localN + 1)) + localN + 1) % (localN + 1)
	sp := 0
	if room := localN - l; room > 0 {
		sp = ((c.S % (room + 1)) + room + 1) % (room + 1)
	}
	model := make([]E, l, 2*localN)
	for i := 0; i < l; i++ {
		arr[i] = conv(preBase + i)
		model[i] = arr[i]
	}
	var qmodel []E
	s := lists.Stack[E](arr[: l : l+sp])
	addr := uintptr(unsafe.Pointer(&arr))
	var zero E
	for i, op := range c.Ops {
		switch ((op.K % nLops) + nLops) % nLops {
		case opInsert:
			x := conv(op.V)
			s.Push(x)
			q.Enqueue(x)
			model = append(model, x)
			qmodel = append(qmodel, x)
			r.outgrew = r.outgrew || len(model) > l+sp
		case opRemove:
			gv, gok := s.Pop()
			wv, wok := zero, len(model) > 0
			if wok {
				wv = model[len(model)-1]
				model = model[:len(model)-1]
				r.removals++
			}
			if gv != wv || gok != wok {
				r.msg = fmt.Sprintf("Stack[%s] over a local array (%d values, %d spare) op %d: Pop() = (%v,%v), want (%v,%v)", c.Elem, l, sp, i, gv, gok, wv, wok)
				return
			}
			gv, gok = q.Dequeue()
			wv, wok = zero, len(qmodel) > 0
			if wok {
				wv = qmodel[0]
				qmodel = qmodel[1:]
			}
			if gv != wv || gok != wok {
				r.msg = fmt.Sprintf("local Queue[%s] op %d: Dequeue() = (%v,%v), want (%v,%v)", c.Elem, i, gv, gok, wv, wok)
				return
			}
		case opGC:
			gcNow()
		case lopDeep:
			n := ((op.V % 4096) + 4096) % 4096
			if deepRecursion(n) != n {
				r.msg = "harness error: deepRecursion"
				return
			}
			r.deeps++
			if a := uintptr(unsafe.Pointer(&arr)); a != addr {
				r.moved, addr = true, a
			}
		}
		// observers after every op (opPeek, opLen are nothing but these)
		if len(s) != len(model) || q.Len() != len(qmodel) {
			r.msg = fmt.Sprintf("Stack/Queue[%s] over local storage (%d values, %d spare) after op %d: len(stack) = %d, want %d; Queue.Len() = %d, want %d", c.Elem, l, sp, i, len(s), len(model), q.Len(), len(qmodel))
			return
		}
		gv, gok := s.Peek()
		wv, wok := zero, len(model) > 0
		if wok {
			wv = model[len(model)-1]
		}
		if gv != wv || gok != wok {
			r.msg = fmt.Sprintf("Stack[%s] over a local array (%d values, %d spare) after op %d: Peek() = (%v,%v), want (%v,%v)", c.Elem, l, sp, i, gv, gok, wv, wok)
			return
		}
		gv, gok = q.Peek()
		wv, wok = zero, len(qmodel) > 0
		if wok {
			wv = qmodel[0]
		}
		if gv != wv || gok != wok {
			r.msg = fmt.Sprintf("local Queue[%s] after op %d: Peek() = (%v,%v), want (%v,%v)", c.Elem, i, gv, gok, wv, wok)
			return
		}
		r.evals += 5
	}
	// everything out again
	for k := len(model) - 1; k >= -1; k-- {
		gv, gok := s.Pop()
		wv, wok := zero, k >= 0
		if wok {
			wv = model[k]
		}
		if gv != wv || gok != wok {
			r.msg = fmt.Sprintf("Stack[%s] over a local array (%d values, %d spare), final drain with %d values left: Pop() = (%v,%v), want (%v,%v)", c.Elem, l, sp, k+1, gv, gok, wv, wok)
			return
		}
		r.evals++
	}
	return
}

func RunLocal(c LCase) pbt.Outcome {
	var r localResult
	// a fresh goroutine: its stack starts small, so the recursion really grows (copies) it
	hop(1, func() {
		switch c.Elem {
		case "int":
			r = localRun(c, func(v int) int { return v })
		case "uint8":
			r = localRun(c, func(v int) uint8 { return uint8(v % 251) })
		case "string":
			r = localRun(c, strOf)
		case "triple":
			r = localRun(c, func(v int) triple { return triple{v, -v, 3 * v} })
		default:
			r.msg = "malformed case: unknown element type " + c.Elem
		}
	})
	if r.msg != "" {
		return pbt.Fail("%s", r.msg)
	}
	out := pbt.Outcome{Evals: r.evals, NonTrivial: len(c.Ops) >= 8 && r.deeps > 0 && r.removals >= 3, Labels: []string{"elem=" + c.Elem}}
	if r.moved {
		out.Labels = append(out.Labels, "backing-array-moved-with-the-goroutine-stack")
	}
	if r.deeps > 0 {
		out.Labels = append(out.Labels, "deep-recursion-in-the-middle")
	}
	if r.outgrew {
		out.Labels = append(out.Labels, "outgrew-the-local-array")
	}
	return out
}

var specLocal = pbt.Register(&pbt.Spec[LCase]{
	Property: "C16", Name: "C16.local", Rule: "rapid: a Stack[E] converted from arr[:L:L+S] of a function-local `var arr [64]E` (L 0..64, S 0..64-L; E int, uint8, string, 3-word struct) and a function-local zero-value Queue[E], op list <= 126 of " +
		"Push+Enqueue v / Pop+Dequeue / observers / runtime.GC() / a recursion of 8..1000 frames of 1 KiB (the case runs in a fresh goroutine, so the goroutine stack grows and everything on it moves: the label " +
		"backing-array-moved-with-the-goroutine-stack counts the cases where the array's address changed - none with the unchanged library, whose Pop/Push make the compiler move the array to the heap); after every op len, Queue.Len and both Peeks against heap models, at the end the stack is drained + 1 call; " +
		"non-trivial = at least 8 ops, a deep recursion and 3 removals",
	Gen: func(t *rapid.T) LCase {
		c := LCase{Elem: rapid.SampledFrom([]string{"int", "uint8", "string", "triple"}).Draw(t, "elem")}
		c.L = rapid.SampledFrom([]int{0, 0, 1, 2, 3, 7, 8, 31, 32, 33, 63, 64}).Draw(t, "l")
		c.S = rapid.SampledFrom([]int{0, 0, 1, 2, 3, 8, 32, 64}).Draw(t, "s")
		id := 0
		c.Ops = pbt.OpsOf(t, rapid.Custom(func(t *rapid.T) Op {
			k := rapid.SampledFrom([]int{opInsert, opInsert, opInsert, opInsert, opInsert, opInsert, opRemove, opRemove, opRemove, opRemove, opPeek, opPeek, opInsert, opRemove, lopDeep, lopDeep}).Draw(t, "k")
			op := Op{K: k}
			switch k {
			case opInsert:
				id++
				op.V = id
				if rapid.IntRange(0, 19).Draw(t, "zero") == 0 {
					op.V = 0
				}
			case lopDeep:
				op.V = rapid.SampledFrom([]int{8, 40, 40, 200, 200, 1000}).Draw(t, "depth")
				if rapid.IntRange(0, 7).Draw(t, "gc") == 0 {
					op = Op{K: opGC}
				}
			}
			return op
		}), []int{3, 8, 20, 60}, "ops")
		return c
	},
	Run: RunLocal, Quick: 400, Thorough: 8000, Replicas: 4, ReplicaEvery: 8,
})

func TestC16Local(t *testing.T) { pbt.Check(t, specLocal) }
