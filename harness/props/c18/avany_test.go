package c18

import (
	"fmt"
	"runtime"
	"sync/atomic"
	"testing"
	"time"

	"gopkg.in/typ.v4/sync2"
	"pgregory.net/rapid"
	"verifharness/internal/gstate"
	"verifharness/internal/pbt"
)

// YCase: AtomicValue[any], single goroutine. Values are ints (code v -> any(v*1000)); two kinds of calls are
// documented to panic: a nil new value, and (inherited from sync/atomic.Value, which the type wraps) a value of another
// dynamic type than the one stored first. The caller recovers such a panic; the register must then still be the
// register it was: later calls behave per the model and return (a call seen blocked in a mutex = never returns).
type YOp struct {
	K string `json:"k"` // load store swap cas | storenil swapnil casnil | storestr swapstr casstr
	A int    `json:"a,omitempty"`
	B int    `json:"b,omitempty"`
}

type YCase struct {
	Ops []YOp `json:"ops"`
}

// guarded runs f in a goroutine of its own: returns the recovered panic (if any) and, if the goroutine was seen blocked
// in a sync primitive twice with nobody else around, that wait state.
func guarded(f func()) (pan any, hung string, inconclusive bool) {
	var gid atomic.Pointer[string]
	var returned atomic.Bool
	go func() {
		id := gstate.GoID()
		gid.Store(&id)
		defer func() {
			pan = recover()
			returned.Store(true)
		}()
		f()
	}()
	for gid.Load() == nil {
		runtime.Gosched()
	}
	fin, st, timedOut := gstate.WaitDoneOrBlockedIn(*gid.Load(), gstate.SyncBlocked, returned.Load, 20*time.Second)
	if timedOut {
		return nil, "", true
	}
	if !fin {
		return nil, st, false
	}
	return pan, "", false
}

func RunAVAny(c YCase) pbt.Outcome {
	var a sync2.AtomicValue[any]
	state := -1 // -1 nothing stored; else the code
	enc := func(v int) any { return v * 1000 }
	dec := func(x any) int {
		if x == nil {
			return 0
		}
		if i, ok := x.(int); ok && i%1000 == 0 {
			return i / 1000
		}
		return -99
	}
	panics, after := 0, 0
	for i, op := range c.Ops {
		var out any
		var ok bool
		call := func() {}
		desc := ""
		bad := false // a call documented to panic
		switch op.K {
		case "load":
			desc = "Load()"
			call = func() { out = a.Load() }
		case "store":
			desc = fmt.Sprintf("Store(%d)", op.A)
			call = func() { a.Store(enc(op.A)) }
		case "swap":
			desc = fmt.Sprintf("Swap(%d)", op.A)
			call = func() { out = a.Swap(enc(op.A)) }
		case "cas":
			desc = fmt.Sprintf("CompareAndSwap(%d,%d)", op.B, op.A)
			call = func() { ok = a.CompareAndSwap(enc(op.B), enc(op.A)) }
		case "storenil":
			desc, bad = "Store(nil)", true
			call = func() { a.Store(nil) }
		case "swapnil":
			desc, bad = "Swap(nil)", true
			call = func() { out = a.Swap(nil) }
		case "casnil":
			desc, bad = fmt.Sprintf("CompareAndSwap(%d,nil)", op.B), true
			call = func() { ok = a.CompareAndSwap(enc(op.B), nil) }
		case "storestr":
			desc, bad = `Store("text")`, state >= 0
			call = func() { a.Store("text") }
		case "swapstr":
			desc, bad = `Swap("text")`, state >= 0
			call = func() { out = a.Swap("text") }
		case "casstr":
			desc, bad = fmt.Sprintf(`CompareAndSwap(%d,"text")`, op.B), state >= 0
			call = func() { ok = a.CompareAndSwap(enc(op.B), "text") }
		}
		if !bad && (op.K == "storestr" || op.K == "swapstr" || op.K == "casstr") {
			continue // a string as the FIRST value would make the ints the inconsistent ones: not generated
		}
		var pan any
		if panics > 0 || bad {
			var hung string
			var inc bool
			pan, hung, inc = guarded(call)
			if inc {
				return pbt.Outcome{Inconclusive: "a call neither returned nor was seen blocked within 20s"}
			}
			if hung != "" {
				return pbt.Fail("op %d: %s on an AtomicValue[any] never returns (goroutine blocked in %q, nobody else around) after %d earlier call(s) had panicked as documented and been recovered", i, desc, hung, panics)
			}
		} else {
			func() {
				defer func() { pan = recover() }()
				call()
			}()
		}
		if bad {
			if pan != nil {
				panics++
				continue // documented panic: the register is unchanged
			}
			// no panic: nothing is asserted about such a call; the model cannot follow: stop here
			return pbt.Outcome{Evals: i + 1, Labels: []string{"call-documented-to-panic-did-not"}}
		}
		if pan != nil {
			return pbt.Fail("op %d: %s on an AtomicValue[any] holding %s panicked: %v (after %d documented, recovered panics)", i, desc, stateStr(state), pan, panics)
		}
		if panics > 0 {
			after++
		}
		switch op.K {
		case "load":
			if dec(out) != max(state, 0) || (state < 0 && out != nil) {
				return pbt.Fail("op %d: Load() = %v but the register holds %s (after %d recovered panics)", i, out, stateStr(state), panics)
			}
		case "store":
			state = op.A
		case "swap":
			if dec(out) != max(state, 0) {
				return pbt.Fail("op %d: %s returned %v but the register held %s", i, desc, out, stateStr(state))
			}
			state = op.A
		case "cas":
			if state >= 0 {
				if ok != (state == op.B) {
					return pbt.Fail("op %d: %s = %v but the register holds %s", i, desc, ok, stateStr(state))
				}
				if ok {
					state = op.A
				}
			} else if ok {
				state = op.A
			}
		}
	}
	out := pbt.Outcome{Evals: len(c.Ops), NonTrivial: panics > 0 && after >= 2}
	if panics > 0 {
		out.Labels = append(out.Labels, "calls-after-a-recovered-documented-panic")
	}
	return out
}

var specAVAny = pbt.Register(&pbt.Spec[YCase]{
	Property: "C18", Name: "C18.avany",
	Rule: "single goroutine, AtomicValue[any] holding ints: rapid lists of Load/Store/Swap/CompareAndSwap plus calls documented to panic (nil as the new value; a value of another dynamic type than the stored one - inherited from sync/atomic.Value), " +
		"which the caller recovers; oracle: the register model, a documented panic leaves the register unchanged, and every later call returns (run in a goroutine of its own: seen blocked in a mutex with nobody else around = never returns); " +
		"non-trivial = at least two ordinary calls after a recovered panic",
	Gen: func(t *rapid.T) YCase {
		op := rapid.Custom(func(t *rapid.T) YOp {
			k := rapid.SampledFrom([]string{"load", "load", "store", "store", "swap", "cas", "cas", "storenil", "swapnil", "casnil", "storestr", "swapstr", "casstr"}).Draw(t, "k")
			return YOp{K: k, A: rapid.IntRange(1, 3).Draw(t, "a"), B: rapid.IntRange(1, 3).Draw(t, "b")}
		})
		return YCase{Ops: pbt.OpsOf(t, op, []int{1, 4, 10}, "ops")}
	},
	Run: RunAVAny, Quick: 3000, Thorough: 40000, Crashy: true,
})

func TestC18AVAny(t *testing.T) { pbt.Check(t, specAVAny) }
