package c18

import (
	"fmt"
	"runtime"
	"sync"
	"sync/atomic"
	"testing"
	"time"

	"gopkg.in/typ.v4/sync2"
	"pgregory.net/rapid"
	"verifharness/internal/pbt"
)

// PSCase: ONE long-lived Pool, Workers goroutines looping Get / hold / Put for Iters iterations each, optionally while
// another goroutine keeps changing runtime.GOMAXPROCS and/or runs collections. An item carries an owner mark that is
// taken with a compare-and-swap on Get and given back before Put: two holders of one item show at once.
type PSCase struct {
	Workers int  `json:"workers"`
	Iters   int  `json:"iters"`
	Hold    int  `json:"hold"` // up to that many items held at once per worker
	Flip    bool `json:"flip"` // GOMAXPROCS flips between 2 and 7 meanwhile
	GC      bool `json:"gc"`   // collections meanwhile
	Procs   int  `json:"procs"`
}

func RunPoolSpin(c PSCase) pbt.Outcome {
	if c.Procs > 0 {
		defer runtime.GOMAXPROCS(runtime.GOMAXPROCS(c.Procs))
	}
	var serial atomic.Int64
	p := &sync2.Pool[*token]{New: func() *token { return &token{serial: serial.Add(1)} }}
	var viol atomic.Pointer[string]
	fail := func(s string) { viol.CompareAndSwap(nil, &s) }
	var stop atomic.Bool
	var bg sync.WaitGroup
	if c.Flip {
		bg.Add(1)
		go func() {
			defer bg.Done()
			for i := 0; !stop.Load(); i++ {
				runtime.GOMAXPROCS([]int{2, 7, 3, 6, 4, 5}[i%6])
				time.Sleep(40 * time.Microsecond)
			}
		}()
	}
	if c.GC {
		bg.Add(1)
		go func() {
			defer bg.Done()
			for !stop.Load() {
				runtime.GC()
				time.Sleep(200 * time.Microsecond)
			}
		}()
	}
	var wg sync.WaitGroup
	var reused atomic.Int64
	for w := 0; w < c.Workers; w++ {
		w := w
		wg.Add(1)
		go func() {
			defer wg.Done()
			var held []*token
			for i := 0; i < c.Iters && viol.Load() == nil; i++ {
				tk := p.Get()
				if tk == nil {
					fail(fmt.Sprintf("worker %d: Get returned nil although New is set", w))
					return
				}
				if !tk.owner.CompareAndSwap(0, 1) {
					fail(fmt.Sprintf("worker %d, iteration %d: Get returned token #%d, which another caller holds right now (never Put since)", w, i, tk.serial))
					return
				}
				if tk.plain != 0 {
					reused.Add(1)
				}
				tk.plain++
				held = append(held, tk)
				for len(held) > (i*7+w)%(c.Hold+1) {
					x := held[0]
					held = held[1:]
					if !x.owner.CompareAndSwap(1, 0) {
						fail(fmt.Sprintf("worker %d: token #%d lost its owner mark while held", w, x.serial))
						return
					}
					p.Put(x)
				}
			}
		}()
	}
	wg.Wait()
	stop.Store(true)
	bg.Wait()
	if v := viol.Load(); v != nil {
		return pbt.Fail("one long-lived Pool, %d workers x %d iterations (GOMAXPROCS flipping: %v, collections: %v): %s", c.Workers, c.Iters, c.Flip, c.GC, *v)
	}
	out := pbt.Outcome{Evals: c.Workers * c.Iters, NonTrivial: c.Workers >= 2 && reused.Load() > 0}
	if c.Flip {
		out.Labels = append(out.Labels, "GOMAXPROCS-changing-meanwhile")
	}
	if c.GC {
		out.Labels = append(out.Labels, "collections-meanwhile")
	}
	return out
}

var specPoolSpin = pbt.Register(&pbt.Spec[PSCase]{
	Property: "C18", Name: "C18.poolspin",
	Rule: "E4 free-spinning, no race detector (speed): ONE long-lived Pool, 2..12 workers looping Get / hold 0..3 items / Put for 20000..200000 iterations, in half of the cases while another goroutine changes runtime.GOMAXPROCS (2..7) every 40 us, " +
		"in a third while collections run; every item carries an owner mark taken by compare-and-swap on Get: an item held by two callers shows at once; non-trivial = >= 2 workers and some item was handed out again",
	Gen: func(t *rapid.T) PSCase {
		return PSCase{Workers: rapid.SampledFrom([]int{2, 4, 8, 12}).Draw(t, "workers"), Iters: rapid.SampledFrom([]int{20000, 200000}).Draw(t, "iters"), Hold: rapid.IntRange(0, 3).Draw(t, "hold"),
			Flip: rapid.Bool().Draw(t, "flip"), GC: rapid.IntRange(0, 2).Draw(t, "gc") == 1, Procs: rapid.SampledFrom([]int{4, 8, 16}).Draw(t, "procs")}
	},
	Run: RunPoolSpin, Quick: 16, Thorough: 400, Crashy: true, Retries: 20, CaseCPU: 120e9,
})

func TestC18PoolSpin(t *testing.T) { pbt.Check(t, specPoolSpin) }
