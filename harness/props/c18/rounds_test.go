package c18

import (
	"fmt"
	"os"
	"runtime"
	"sync"
	"sync/atomic"
	"testing"
	"time"

	"pgregory.net/rapid"
	"verifharness/internal/lin"
	"verifharness/internal/pbt"
)

// RoundsCase: thousands of tiny concurrent rounds, each on a FRESH AtomicValue (one-time windows such as "the very
// first Store" exist once per register, so they need many registers): a sequential prefix of 0..2 calls (often
// none: the register is still empty), then 2..3 persistent goroutines run their 1..2 calls at the same moment
// (spin barrier), then a final Load. Every round is judged by the linearizability checker against the register model.
type RoundsCase struct {
	Elem   int     `json:"elem"`
	Pre    []AOp   `json:"pre"`
	Progs  [][]AOp `json:"progs"`
	Rounds int     `json:"rounds"`
	Procs  int     `json:"procs"`
}

func RunAVRounds(c RoundsCase) pbt.Outcome {
	if c.Procs > 0 {
		defer runtime.GOMAXPROCS(runtime.GOMAXPROCS(c.Procs))
	}
	var clock atomic.Int64
	stamp := func() int { return int(clock.Add(1)) }
	var phase, done atomic.Int64
	var stop atomic.Bool
	var cur atomic.Pointer[av]
	W := len(c.Progs)
	recs := make([][]ARec, W)
	var wg sync.WaitGroup
	for w := range c.Progs {
		w := w
		wg.Add(1)
		go func() {
			defer wg.Done()
			for r := int64(1); r <= int64(c.Rounds); r++ {
				for spins := 0; phase.Load() < r; spins++ {
					if stop.Load() {
						return
					}
					if spins > 2000 {
						runtime.Gosched()
					}
					if spins > 20000 {
						time.Sleep(20 * time.Microsecond) // oversubscribed machine: give the core away
					}
				}
				a := *cur.Load()
				rs := recs[w][:0]
				for _, op := range c.Progs[w] {
					rec := ARec{Th: w, Op: op, Inv: stamp()}
					execA(a, op, &rec)
					rec.Resp = stamp()
					rs = append(rs, rec)
				}
				recs[w] = rs
				done.Add(1)
			}
		}()
	}
	overl := 0
	var hist []ARec
	t0 := time.Now()
	budget := 4 * time.Second
	if os.Getenv("VERIF_TIER") == "thorough" {
		budget = 30 * time.Second
	}
	roundsDone, cut := 0, false
	for r := 1; r <= c.Rounds; r++ {
		if r%128 == 0 && time.Since(t0) > budget {
			cut = true // an oversubscribed machine: the rounds judged so far stand, elapsed time is never a verdict
			break
		}
		roundsDone = r
		hist = hist[:0]
		a := newAV(c.Elem)
		for _, op := range c.Pre {
			rec := ARec{Th: -1, Op: op, Inv: stamp()}
			execA(a, op, &rec)
			rec.Resp = stamp()
			hist = append(hist, rec)
		}
		cur.Store(&a)
		phase.Store(int64(r))
		for spins := 0; done.Load() < int64(r*W); spins++ {
			if spins > 2000 {
				runtime.Gosched()
			}
			if spins > 20000 {
				time.Sleep(20 * time.Microsecond)
			}
		}
		for w := range recs {
			hist = append(hist, recs[w]...)
		}
		rec := ARec{Th: -2, Op: AOp{K: "load"}, Inv: stamp()}
		execA(a, rec.Op, &rec)
		rec.Resp = stamp()
		hist = append(hist, rec)
		ops := make([]lin.Op[int], len(hist))
		for i, h := range hist {
			ops[i] = lin.Op[int]{Inv: h.Inv, Resp: h.Resp, Apply: applyA(h), Name: h.String()}
		}
		if !lin.Check(-1, ops) {
			stop.Store(true)
			wg.Wait()
			msg := fmt.Sprintf("round %d of %d, each on a fresh AtomicValue: the round's history is not linearizable to an atomic register (values are codes, 0 = the zero value; the register starts empty):", r, c.Rounds)
			for _, h := range hist {
				msg += "\n   " + h.String()
			}
			return pbt.Fail("%s", msg)
		}
		if r%32 == 1 {
			for i, x := range hist {
				for _, y := range hist[i+1:] {
					if x.Th >= 0 && y.Th >= 0 && x.Th != y.Th && x.Inv < y.Resp && y.Inv < x.Resp {
						overl++
					}
				}
			}
		}
	}
	stop.Store(true)
	wg.Wait()
	out := pbt.Outcome{Evals: roundsDone, NonTrivial: overl > 0, Labels: []string{fmt.Sprintf("elem=%d", c.Elem)}}
	if cut {
		out.Labels = append(out.Labels, "case-cut-short-by-its-wall-clock-budget")
	}
	if len(c.Pre) == 0 {
		out.Labels = append(out.Labels, "register-empty-when-the-goroutines-start")
	}
	return out
}

var specAVRounds = pbt.Register(&pbt.Spec[RoundsCase]{
	Property: "C18", Name: "C18.avrounds",
	Rule: "E4 free-running, no race detector (speed): 2000..20000 rounds, each on a fresh AtomicValue[T] (T in {int,string,struct,fmt.Stringer}): sequential prefix of 0..2 calls (half of the cases none: empty register), then 2..3 persistent goroutines run 1..2 calls " +
		"{Load, Store, Swap, CompareAndSwap; values 0..3, 0 = the zero value} at the same moment (spin barrier), then a final Load; oracle = linearizability of each round against the register model (CompareAndSwap on a never-stored register is unconstrained, " +
		"but cannot undo a completed Store); non-trivial = sampled rounds had overlapping calls",
	Gen: func(t *rapid.T) RoundsCase {
		c := RoundsCase{Elem: rapid.IntRange(0, 3).Draw(t, "elem"), Procs: rapid.SampledFrom([]int{4, 8, 16}).Draw(t, "procs"),
			Rounds: rapid.SampledFrom([]int{2000, 6000, 20000}).Draw(t, "rounds")}
		if rapid.Bool().Draw(t, "pre?") {
			c.Pre = rapid.SliceOfN(genAOp(true), 1, 2).Draw(t, "pre")
		}
		n := rapid.IntRange(2, 3).Draw(t, "goroutines")
		for i := 0; i < n; i++ {
			c.Progs = append(c.Progs, rapid.SliceOfN(genAOp(true), 1, 2).Draw(t, fmt.Sprintf("p%d", i)))
		}
		return c
	},
	Run: RunAVRounds, Quick: 40, Thorough: 300, Crashy: true, Retries: 50, CaseCPU: 120e9,
})

func TestC18AVRounds(t *testing.T) { pbt.Check(t, specAVRounds) }
