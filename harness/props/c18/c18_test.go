// Package c18 decides C18: AtomicValue is an atomic register (sequential model
// + linearizability of free-running histories under -race) and Pool never hands
// one item to two users (ownership tokens + race detector).
package c18

import (
	"fmt"
	"runtime"
	"sync"
	"sync/atomic"
	"testing"

	"gopkg.in/typ.v4/sync2"
	"pgregory.net/rapid"
	"verifharness/internal/lin"
	"verifharness/internal/pbt"
)

// AOp: K in load store swap cas. A = new value (store/swap/cas), B = old (cas). Values 1..4 (0 is the zero value = "empty" reading).
type AOp struct {
	K string `json:"k"`
	A int    `json:"a,omitempty"`
	B int    `json:"b,omitempty"`
}

type pt struct {
	X int
	S string
}

// av abstracts the element type: values are small ints mapped injectively into T (0 -> zero value).
type av interface {
	load() int
	store(v int)
	swap(v int) int
	cas(old, new int) bool
}

type avInt struct{ v sync2.AtomicValue[int] }

// ints are scaled beyond 255 so that boxing allocates (the runtime shares boxes of small ints)
func (a *avInt) load() int             { return a.v.Load() / 1000 }
func (a *avInt) store(v int)           { a.v.Store(v * 1000) }
func (a *avInt) swap(v int) int        { return a.v.Swap(v*1000) / 1000 }
func (a *avInt) cas(old, new int) bool { return a.v.CompareAndSwap(old*1000, new*1000) }

var strs = []string{"", "one", "two", "three", "four"}

func strIdx(s string) int {
	for i, x := range strs {
		if x == s {
			return i
		}
	}
	return -99
}

type avStr struct{ v sync2.AtomicValue[string] }

func (a *avStr) load() int             { return strIdx(a.v.Load()) }
func (a *avStr) store(v int)           { a.v.Store(strs[v]) }
func (a *avStr) swap(v int) int        { return strIdx(a.v.Swap(strs[v])) }
func (a *avStr) cas(old, new int) bool { return a.v.CompareAndSwap(strs[old], strs[new]) }

func mkpt(v int) pt {
	if v == 0 {
		return pt{}
	}
	return pt{X: v * 11, S: strs[v]}
}
func unpt(p pt) int {
	if p == (pt{}) {
		return 0
	}
	if p.X%11 != 0 || p.X/11 < 1 || p.X/11 > 4 || p.S != strs[p.X/11] {
		return -99 // torn / invented value
	}
	return p.X / 11
}

type avPt struct{ v sync2.AtomicValue[pt] }

func (a *avPt) load() int             { return unpt(a.v.Load()) }
func (a *avPt) store(v int)           { a.v.Store(mkpt(v)) }
func (a *avPt) swap(v int) int        { return unpt(a.v.Swap(mkpt(v))) }
func (a *avPt) cas(old, new int) bool { return a.v.CompareAndSwap(mkpt(old), mkpt(new)) }

// avIface: T is an INTERFACE type (fmt.Stringer) holding values of one named integer type
type strv int

func (s strv) String() string { return fmt.Sprint(int(s)) }

type avIface struct {
	v sync2.AtomicValue[fmt.Stringer]
}

func (a *avIface) load() int   { return unstr2(a.v.Load()) }
func (a *avIface) store(v int) { a.v.Store(strv(v*1000 + 1000)) }
func (a *avIface) swap(v int) int {
	return unstr2(a.v.Swap(strv(v*1000 + 1000)))
}
func (a *avIface) cas(old, new int) bool {
	return a.v.CompareAndSwap(strv(old*1000+1000), strv(new*1000+1000))
}

// unstr2 / the +1000 shift: code v is stored as strv((v+1)*1000), so that code 0 is a non-nil interface value too; a nil
// interface (nothing stored yet) reads as code 0 like the zero value of the other element types
func unstr2(x fmt.Stringer) int {
	if x == nil {
		return 0
	}
	if s, ok := x.(strv); ok && int(s)%1000 == 0 && s >= 1000 {
		return int(s)/1000 - 1
	}
	return -99
}

func newAV(elem int) av {
	switch elem {
	case 0:
		return &avInt{}
	case 1:
		return &avStr{}
	case 3:
		return &avIface{}
	}
	return &avPt{}
}

// register model: state -1 = nothing stored yet, otherwise the stored value (0..4; 0 = the zero value of T, storable too)
type ARec struct {
	Th   int  `json:"th"`
	Op   AOp  `json:"op"`
	Inv  int  `json:"inv"`
	Resp int  `json:"resp"`
	Out  int  `json:"out"`
	OK   bool `json:"ok"`
}

func (r ARec) String() string {
	switch r.Op.K {
	case "load":
		return fmt.Sprintf("[%d,%d] T%d Load()=%d", r.Inv, r.Resp, r.Th, r.Out)
	case "store":
		return fmt.Sprintf("[%d,%d] T%d Store(%d)", r.Inv, r.Resp, r.Th, r.Op.A)
	case "swap":
		return fmt.Sprintf("[%d,%d] T%d Swap(%d)=%d", r.Inv, r.Resp, r.Th, r.Op.A, r.Out)
	}
	return fmt.Sprintf("[%d,%d] T%d CompareAndSwap(old=%d,new=%d)=%v", r.Inv, r.Resp, r.Th, r.Op.B, r.Op.A, r.OK)
}

func applyA(r ARec) func(s int) (int, bool) {
	switch r.Op.K {
	case "load":
		return func(s int) (int, bool) { return s, r.Out == max(s, 0) }
	case "store":
		return func(s int) (int, bool) { return r.Op.A, true }
	case "swap":
		return func(s int) (int, bool) { return r.Op.A, r.Out == max(s, 0) }
	}
	return func(s int) (int, bool) {
		if s < 0 { // nothing stored yet: the statement leaves CompareAndSwap unconstrained
			if r.OK {
				return r.Op.A, true
			}
			return s, true
		}
		if s == r.Op.B {
			return r.Op.A, r.OK
		}
		return s, !r.OK
	}
}

func execA(a av, op AOp, r *ARec) {
	switch op.K {
	case "load":
		r.Out = a.load()
	case "store":
		a.store(op.A)
	case "swap":
		r.Out = a.swap(op.A)
	case "cas":
		r.OK = a.cas(op.B, op.A)
	}
}

// ---------------------------------------------------------------- sequential

type SeqCase struct {
	Elem int   `json:"elem"`
	Ops  []AOp `json:"ops"`
}

func RunSeq(c SeqCase) pbt.Outcome {
	a := newAV(c.Elem)
	state := -1
	var out pbt.Outcome
	casTrue, casFalse, swapEmpty := false, false, false
	for i, op := range c.Ops {
		r := ARec{Op: op, Inv: 2 * i, Resp: 2*i + 1}
		execA(a, op, &r)
		if op.K == "swap" && state < 0 {
			swapEmpty = true
		}
		next, ok := applyA(r)(state)
		if !ok {
			return pbt.Fail("op %d: %s but the register holds %s", i, r, stateStr(state))
		}
		if op.K == "cas" && state >= 0 {
			if r.OK {
				casTrue = true
			} else {
				casFalse = true
			}
		}
		state = next
	}
	if got := a.load(); got != max(state, 0) {
		return pbt.Fail("final Load()=%d but the register holds %s", got, stateStr(state))
	}
	out.Evals = len(c.Ops) + 1
	out.NonTrivial = casTrue && casFalse && len(c.Ops) >= 4
	if casTrue {
		out.Labels = append(out.Labels, "cas-succeeds")
	}
	if casFalse {
		out.Labels = append(out.Labels, "cas-fails")
	}
	if swapEmpty {
		out.Labels = append(out.Labels, "swap-on-empty")
	}
	out.Labels = append(out.Labels, fmt.Sprintf("elem=%d", c.Elem))
	return out
}

func stateStr(s int) string {
	if s < 0 {
		return "nothing yet (Load must give the zero value)"
	}
	return fmt.Sprint(s)
}

func genAOp(storeZero bool) *rapid.Generator[AOp] {
	lo := 1
	if storeZero {
		lo = 0
	}
	return rapid.Custom(func(t *rapid.T) AOp {
		k := rapid.SampledFrom([]string{"load", "load", "store", "swap", "cas", "cas"}).Draw(t, "k")
		op := AOp{K: k}
		if k != "load" {
			op.A = rapid.IntRange(lo, 3).Draw(t, "a")
		}
		if k == "cas" {
			op.B = rapid.IntRange(lo, 3).Draw(t, "b")
		}
		return op
	})
}

var specSeq = pbt.Register(&pbt.Spec[SeqCase]{
	Property: "C18", Name: "C18.avseq",
	Rule: "single goroutine: rapid lists of Load/Store/Swap/CompareAndSwap on an initially empty AtomicValue[T], T in {int,string,struct,an interface type (fmt.Stringer)}, values 0..3 (0 = zero value, storable), against the register model " +
		"(Load = zero value before the first Store; Swap returns the replaced value; once stored CAS succeeds iff current == old; CAS on the still-empty value unconstrained); non-trivial = >=4 ops with a succeeding and a failing CAS",
	Gen: func(t *rapid.T) SeqCase {
		return SeqCase{Elem: rapid.IntRange(0, 3).Draw(t, "elem"), Ops: pbt.OpsOf(t, genAOp(true), []int{0, 3, 8, 20}, "ops")}
	},
	Run: RunSeq, Quick: 20000, Thorough: 150000,
})

func TestC18AVSeq(t *testing.T) { pbt.Check(t, specSeq) }

// ---------------------------------------------------------------- concurrent AtomicValue (E4)

type ConcCase struct {
	Elem    int     `json:"elem"`
	Pre     []AOp   `json:"pre"` // sequential prefix (may leave the value empty)
	Threads [][]AOp `json:"threads"`
	Procs   int     `json:"procs"`
}

const avReps = 60

func RunConc(c ConcCase) pbt.Outcome {
	if c.Procs > 0 {
		defer runtime.GOMAXPROCS(runtime.GOMAXPROCS(c.Procs))
	}
	overl := false
	for rep := 0; rep < avReps; rep++ {
		a := newAV(c.Elem)
		var clock atomic.Int64
		stamp := func() int { return int(clock.Add(1)) }
		var hist []ARec
		for _, op := range c.Pre {
			r := ARec{Th: -1, Op: op, Inv: stamp()}
			execA(a, op, &r)
			r.Resp = stamp()
			hist = append(hist, r)
		}
		recs := make([][]ARec, len(c.Threads))
		var wg sync.WaitGroup
		var gate atomic.Int32
		for ti, prog := range c.Threads {
			ti, prog := ti, prog
			wg.Add(1)
			go func() {
				defer wg.Done()
				gate.Add(1)
				for int(gate.Load()) < len(c.Threads) {
					runtime.Gosched()
				}
				for k := 0; k < (ti+rep)%3; k++ {
					runtime.Gosched()
				}
				for _, op := range prog {
					r := ARec{Th: ti, Op: op, Inv: stamp()}
					execA(a, op, &r)
					r.Resp = stamp()
					recs[ti] = append(recs[ti], r)
				}
			}()
		}
		wg.Wait()
		for _, rs := range recs {
			hist = append(hist, rs...)
		}
		r := ARec{Th: -2, Op: AOp{K: "load"}, Inv: stamp()}
		execA(a, r.Op, &r)
		r.Resp = stamp()
		hist = append(hist, r)
		ops := make([]lin.Op[int], len(hist))
		for i, h := range hist {
			ops[i] = lin.Op[int]{Inv: h.Inv, Resp: h.Resp, Apply: applyA(h), Name: h.String()}
		}
		if !lin.Check(-1, ops) {
			msg := fmt.Sprintf("free-running repetition %d: history is not linearizable to an atomic register:", rep)
			for _, h := range hist {
				msg += "\n   " + h.String()
			}
			return pbt.Fail("%s", msg)
		}
		for i, x := range hist {
			for _, y := range hist[i+1:] {
				if x.Th >= 0 && y.Th >= 0 && x.Th != y.Th && x.Inv < y.Resp && y.Inv < x.Resp &&
					((x.Op.K == "cas" && y.Op.K == "swap") || (x.Op.K == "swap" && y.Op.K == "cas") || (x.Op.K == "cas" && y.Op.K == "cas") || (x.Op.K == "swap" && y.Op.K == "swap")) {
					overl = true
				}
			}
		}
	}
	out := pbt.Outcome{Evals: avReps, NonTrivial: overl}
	if overl {
		out.Labels = append(out.Labels, "overlapping-cas/swap")
	}
	out.Labels = append(out.Labels, fmt.Sprintf("elem=%d", c.Elem))
	return out
}

var specConc = pbt.Register(&pbt.Spec[ConcCase]{
	Property: "C18", Name: "C18.avconc",
	Rule: "E4 under -race: sequential prefix (0..3 ops) + 2..6 goroutines x 1..4 ops (Load/Store/Swap/CAS, values 1..3) on one AtomicValue[T] (T: int, string, struct or the interface type fmt.Stringer), spin-barrier start, 60 repetitions, atomic-counter stamps; " +
		"oracle = linearizability (Wing-Gong) against the register model incl. a final Load; torn/invented struct values map to an impossible code; non-trivial = two CAS/Swap calls of different goroutines overlapped",
	Gen: func(t *rapid.T) ConcCase {
		c := ConcCase{Elem: rapid.IntRange(0, 3).Draw(t, "elem"), Procs: rapid.SampledFrom([]int{2, 4, 8, 16}).Draw(t, "procs")}
		c.Pre = rapid.SliceOfN(genAOp(false), 0, 3).Draw(t, "pre")
		n := rapid.SampledFrom([]int{2, 2, 3, 4, 6}).Draw(t, "threads")
		for i := 0; i < n; i++ {
			c.Threads = append(c.Threads, rapid.SliceOfN(genAOp(false), 1, 4).Draw(t, fmt.Sprintf("t%d", i)))
		}
		return c
	},
	Run: RunConc, Quick: 300, Thorough: 4000, Crashy: true, Retries: 100,
})

func TestC18AVConc(t *testing.T) { pbt.Check(t, specConc) }

// ---------------------------------------------------------------- Pool (E4)

type PoolCase struct {
	NewNil  bool    `json:"new_nil"`
	Threads [][]int `json:"threads"` // per goroutine: 1 = Get (and keep), 0 = Put the oldest kept token
	Procs   int     `json:"procs"`
}

type token struct {
	serial int64
	owner  atomic.Int32 // 0 = in the pool / fresh, 1 = held by a caller
	plain  int          // written while held: two holders => race report
}

const poolReps = 40

func RunPool(c PoolCase) pbt.Outcome {
	if c.Procs > 0 {
		defer runtime.GOMAXPROCS(runtime.GOMAXPROCS(c.Procs))
	}
	reused := false
	for rep := 0; rep < poolReps; rep++ {
		var serial atomic.Int64
		var p sync2.Pool[*token]
		if !c.NewNil {
			p.New = func() *token { return &token{serial: serial.Add(1)} }
		}
		var viol atomic.Pointer[string]
		fail := func(s string) { viol.CompareAndSwap(nil, &s) }
		var reuse atomic.Int32
		var wg sync.WaitGroup
		var gate atomic.Int32
		for ti, prog := range c.Threads {
			ti, prog := ti, prog
			wg.Add(1)
			go func() {
				defer wg.Done()
				gate.Add(1)
				for int(gate.Load()) < len(c.Threads) {
					runtime.Gosched()
				}
				var held []*token
				seen := map[int64]bool{}
				for _, op := range prog {
					if op == 1 {
						tk := p.Get()
						if c.NewNil {
							// New is nil: the zero value (nil) or a token previously Put; we never Put a nil
							if tk == nil {
								continue
							}
						} else if tk == nil {
							fail(fmt.Sprintf("goroutine %d: Get returned nil although New is set", ti))
							continue
						}
						if !tk.owner.CompareAndSwap(0, 1) {
							fail(fmt.Sprintf("goroutine %d: Get returned token #%d which another caller already holds (never Put since)", ti, tk.serial))
							continue
						}
						if tk.plain != 0 {
							reuse.Add(1)
						}
						tk.plain++ // plain write while held
						if seen[tk.serial] {
							reuse.Add(1)
						}
						seen[tk.serial] = true
						held = append(held, tk)
					} else if len(held) > 0 {
						tk := held[0]
						held = held[1:]
						tk.plain++
						if !tk.owner.CompareAndSwap(1, 0) {
							fail(fmt.Sprintf("goroutine %d: token #%d lost its owner mark while held", ti, tk.serial))
						}
						p.Put(tk)
					} else if c.NewNil {
						// seed the pool so that Get has something to hand out even without New
						tk := &token{serial: -int64(ti*100 + len(seen) + 1)}
						p.Put(tk)
					}
				}
			}()
		}
		wg.Wait()
		if v := viol.Load(); v != nil {
			return pbt.Fail("free-running repetition %d: %s", rep, *v)
		}
		if reuse.Load() > 0 {
			reused = true
		}
	}
	out := pbt.Outcome{Evals: poolReps, NonTrivial: len(c.Threads) >= 2}
	if reused {
		out.Labels = append(out.Labels, "pooled-token-handed-out-again")
	}
	if c.NewNil {
		out.Labels = append(out.Labels, "New=nil")
	} else {
		out.Labels = append(out.Labels, "New=factory")
	}
	return out
}

var specPool = pbt.Register(&pbt.Spec[PoolCase]{
	Property: "C18", Name: "C18.pool",
	Rule: "E4 under -race: Pool[*token] with New in {nil, factory of serially numbered tokens}, 2..8 goroutines x 2..10 Get/Put steps, 40 repetitions; on Get the token's owner mark is CAS'd 0->1 " +
		"(failure = the item is held by two callers at once), on Put 1->0 first; a plain field is written while held so the race detector sees any double hand-out; any DATA RACE report (e.g. on the wrapped pool's New field) is a violation; " +
		"non-trivial = >=2 goroutines",
	Gen: func(t *rapid.T) PoolCase {
		c := PoolCase{NewNil: rapid.IntRange(0, 3).Draw(t, "newnil") == 0, Procs: rapid.SampledFrom([]int{2, 4, 8, 16}).Draw(t, "procs")}
		n := rapid.SampledFrom([]int{2, 2, 3, 4, 8}).Draw(t, "threads")
		for i := 0; i < n; i++ {
			c.Threads = append(c.Threads, rapid.SliceOfN(rapid.SampledFrom([]int{1, 1, 0}), 2, 10).Draw(t, fmt.Sprintf("t%d", i)))
		}
		return c
	},
	Run: RunPool, Quick: 300, Thorough: 4000, Crashy: true, Retries: 100,
})

func TestC18Pool(t *testing.T) { pbt.Check(t, specPool) }
func TestReplay(t *testing.T)  { pbt.Replay(t) }
