package c18

import (
	"fmt"
	"runtime"
	"sync"
	"sync/atomic"
	"testing"
	"time"

	"gopkg.in/typ.v4/sync2"
	"pgregory.net/rapid"
	"verifharness/internal/pbt"
)

// ---------------------------------------------------------------- AtomicValue: conservation under CAS loops

// CounterCase: Inc goroutines each perform N increments with a Load/CompareAndSwap(v, v+1) retry loop while Churn
// goroutines keep doing CompareAndSwap(x, x) and Swap-back-the-same-value on whatever they read (equal-valued
// writes: they never change the value, but for non-pointer-shaped T every one of them installs a new box).
// Conservation: the final value is start + Inc*N, and no increment may be lost or doubled.
type CounterCase struct {
	Elem  int `json:"elem"` // 0 int (>=1000, boxed), 1 struct
	Inc   int `json:"inc"`
	Churn int `json:"churn"`
	N     int `json:"n"`
	Procs int `json:"procs"`
}

type cnt struct {
	V   int
	Pad string
}

func RunCounter(c CounterCase) pbt.Outcome {
	if c.Procs > 0 {
		defer runtime.GOMAXPROCS(runtime.GOMAXPROCS(c.Procs))
	}
	const start = 1000
	var wg sync.WaitGroup
	var stop atomic.Bool
	var final int
	var bad atomic.Pointer[string]
	fail := func(s string) { bad.CompareAndSwap(nil, &s) }
	if c.Elem == 0 {
		var v sync2.AtomicValue[int]
		v.Store(start)
		for g := 0; g < c.Inc; g++ {
			wg.Add(1)
			go func() {
				defer wg.Done()
				last := 0
				for i := 0; i < c.N; i++ {
					for {
						cur := v.Load()
						if cur < last {
							fail(fmt.Sprintf("Load went backwards: %d after %d", cur, last))
						}
						last = cur
						if v.CompareAndSwap(cur, cur+1) {
							break
						}
					}
				}
			}()
		}
		var cw sync.WaitGroup
		for g := 0; g < c.Churn; g++ {
			cw.Add(1)
			go func() {
				defer cw.Done()
				for !stop.Load() {
					x := v.Load()
					v.CompareAndSwap(x, x)
				}
			}()
		}
		wg.Wait()
		stop.Store(true)
		cw.Wait()
		final = v.Load()
	} else {
		var v sync2.AtomicValue[cnt]
		v.Store(cnt{start, "p"})
		for g := 0; g < c.Inc; g++ {
			wg.Add(1)
			go func() {
				defer wg.Done()
				for i := 0; i < c.N; i++ {
					for {
						cur := v.Load()
						if cur.Pad != "p" {
							fail(fmt.Sprintf("Load returned a torn/invented value %+v", cur))
						}
						if v.CompareAndSwap(cur, cnt{cur.V + 1, "p"}) {
							break
						}
					}
				}
			}()
		}
		var cw sync.WaitGroup
		for g := 0; g < c.Churn; g++ {
			cw.Add(1)
			go func() {
				defer cw.Done()
				for !stop.Load() {
					x := v.Load()
					v.CompareAndSwap(x, x)
				}
			}()
		}
		wg.Wait()
		stop.Store(true)
		cw.Wait()
		final = v.Load().V
	}
	if b := bad.Load(); b != nil {
		return pbt.Fail("%s", *b)
	}
	if want := start + c.Inc*c.N; final != want {
		return pbt.Fail("%d goroutines x %d successful CompareAndSwap(v, v+1) from %d with %d goroutines doing CompareAndSwap(x, x) meanwhile: final value %d, want %d (an update was lost or a CompareAndSwap reported success although current != old)", c.Inc, c.N, start, c.Churn, final, want)
	}
	return pbt.Outcome{Evals: c.Inc * c.N, NonTrivial: c.Inc >= 2 && c.Churn >= 1, Labels: []string{fmt.Sprintf("elem=%d", c.Elem), fmt.Sprintf("churn=%d", c.Churn)}}
}

var specCounter = pbt.Register(&pbt.Spec[CounterCase]{
	Property: "C18", Name: "C18.avcounter",
	Rule: "conservation under contention: 2..6 goroutines x N (50..2000) increments by Load/CompareAndSwap(v,v+1) retry loops on one AtomicValue[T] (boxed int or struct), with 0..3 goroutines doing " +
		"CompareAndSwap(x,x) on whatever they read (equal-valued writes that install new boxes); final value must be start + all successful increments, Loads never go backwards / never torn; " +
		"non-trivial = >=2 incrementers and >=1 equal-value writer",
	Gen: func(t *rapid.T) CounterCase {
		return CounterCase{Elem: rapid.IntRange(0, 1).Draw(t, "elem"), Inc: rapid.IntRange(2, 6).Draw(t, "inc"), Churn: rapid.SampledFrom([]int{0, 1, 3, 6, 10}).Draw(t, "churn"),
			N: rapid.SampledFrom([]int{50, 500, 3000, 10000}).Draw(t, "n"), Procs: rapid.SampledFrom([]int{2, 4, 8, 16}).Draw(t, "procs")}
	},
	Run: RunCounter, Quick: 100, Thorough: 600, Crashy: true, Retries: 20,
})

func TestC18AVCounter(t *testing.T) { pbt.Check(t, specCounter) }

// ---------------------------------------------------------------- Pool: long sequential histories

// POp: "get" | "put" (the A-th held token) | "putall" | "getn" (A Gets) | "setnew" (install a new factory)
type POp struct {
	K string `json:"k"`
	A int    `json:"a,omitempty"`
}

type PoolSeqCase struct {
	NewNil bool  `json:"new_nil"`
	Ops    []POp `json:"ops"`
	// Kind of the item type T of Pool[T]: 0 *token, 1 any (holding *token), 2 int (the token's serial), 3 struct by value, 4 error (non-empty interface)
	Kind int `json:"kind,omitempty"`
}

// stok is the harness's record of one item (kept apart from the item itself, so that an item the caller drops really
// becomes garbage); items carry the serial.
type stok struct {
	serial  int
	factory int
	held    bool
	dropped bool // handed out, then forgotten by the caller without a Put
}

// stokItem is what pointer-typed pools hand around.
type stokItem struct {
	Serial int
	pad    [48]byte
}

type stokVal struct {
	Serial int
	Tag    string
}

type stokErr struct{ Serial int }

func (e *stokErr) Error() string { return fmt.Sprint("token ", e.Serial) }

// gcAndFinalizers runs a garbage collection and waits until the finalizer goroutine has worked through what that
// collection queued (a finalizer of our own, set just before, has run); 1..3 cycles (things that age per cycle).
func gcAndFinalizers(cycles int) {
	for i := 0; i < cycles; i++ {
		done := make(chan struct{})
		obj := &struct {
			p   *int
			pad [64]byte
		}{}
		runtime.SetFinalizer(obj, func(any) { close(done) })
		obj = nil
		runtime.GC()
		select {
		case <-done:
		case <-time.After(200 * time.Millisecond):
		}
		time.Sleep(200 * time.Microsecond) // the finalizer goroutine works through the rest of its batch
	}
}

func RunPoolSeq(c PoolSeqCase) pbt.Outcome {
	switch c.Kind {
	case 1:
		return runPoolSeq(c, func(n int) any { return &stokItem{Serial: n} }, func(v any) (int, bool) {
			if v == nil {
				return 0, true
			}
			it, ok := v.(*stokItem)
			if !ok || it == nil {
				return 0, false
			}
			return it.Serial, true
		})
	case 2:
		return runPoolSeq(c, func(n int) int { return n }, func(v int) (int, bool) { return v, v >= 0 })
	case 3:
		return runPoolSeq(c, func(n int) stokVal { return stokVal{n, "t"} }, func(v stokVal) (int, bool) {
			return v.Serial, v == stokVal{} || (v.Serial > 0 && v.Tag == "t")
		})
	case 4:
		return runPoolSeq(c, func(n int) error { return &stokErr{n} }, func(v error) (int, bool) {
			if v == nil {
				return 0, true
			}
			e, ok := v.(*stokErr)
			if !ok || e == nil {
				return 0, false
			}
			return e.Serial, true
		})
	}
	return runPoolSeq(c, func(n int) *stokItem { return &stokItem{Serial: n} }, func(v *stokItem) (int, bool) {
		if v == nil {
			return 0, true
		}
		return v.Serial, true
	})
}

// runPoolSeq: mk makes the item of a serial number, serialOf reads it back (0 = the zero item; ok=false = a value that
// is neither an item nor the zero value: invented). The harness itself keeps items only while it "holds" them.
func runPoolSeq[T any](c PoolSeqCase, mk func(int) T, serialOf func(T) (int, bool)) pbt.Outcome {
	// the Pool sits behind an int32 field of a heap-allocated struct: where int is 32 bits wide that puts it at an address
	// that is 4 mod 8 (a library that uses 64-bit atomics on plain uint64 fields must keep them aligned itself)
	holder := &struct {
		pad int32
		p   sync2.Pool[T]
	}{}
	p := &holder.p
	reg := map[int]*stok{}
	serial, factory := 0, 0
	install := func() {
		factory++
		f := factory
		p.New = func() T {
			serial++
			reg[serial] = &stok{serial: serial, factory: f}
			return mk(serial)
		}
	}
	if !c.NewNil {
		install()
	}
	type heldItem struct {
		tk   *stok
		item T
	}
	var held []heldItem
	seen := map[int]bool{}
	maxPooled, pooled, reused, gcs, afterGC, drops, sleeps := 0, 0, 0, 0, 0, 0, 0
	get := func(step int) string {
		item := p.Get()
		n, ok := serialOf(item)
		if !ok || (n != 0 && reg[n] == nil) {
			return fmt.Sprintf("step %d: Get returned %#v, which was never Put and is no result of New", step, item)
		}
		if n == 0 {
			if !c.NewNil || p.New != nil {
				return fmt.Sprintf("step %d: Get returned the zero value although New is set", step)
			}
			return ""
		}
		tk := reg[n]
		if tk.dropped {
			return fmt.Sprintf("step %d: Get returned token #%d, which an earlier Get handed out and which was never Put back (its holder had just let go of it): neither a value previously Put nor a fresh result of New", step, tk.serial)
		}
		if tk.held {
			return fmt.Sprintf("step %d: Get returned token #%d, which an earlier Get already handed out and which was not Put since", step, tk.serial)
		}
		if seen[n] {
			reused++
			pooled--
			if gcs > 0 {
				afterGC++
			}
		} else {
			// a fresh result of New: it must come from the New function installed NOW
			if p.New == nil {
				return fmt.Sprintf("step %d: Get invented a token although New is nil and it was never Put", step)
			}
			if tk.factory != factory {
				return fmt.Sprintf("step %d: Get returned a fresh item made by an OLD New function (factory %d, current %d): not a fresh result of New", step, tk.factory, factory)
			}
			seen[n] = true
		}
		tk.held = true
		held = append(held, heldItem{tk, item})
		return ""
	}
	put := func(i int) {
		h := held[i]
		held = append(held[:i], held[i+1:]...)
		h.tk.held = false
		p.Put(h.item)
		pooled++
		if pooled > maxPooled {
			maxPooled = pooled
		}
	}
	for step, op := range c.Ops {
		switch op.K {
		case "get":
			if m := get(step); m != "" {
				return pbt.Fail("%s", m)
			}
		case "getn":
			for i := 0; i < op.A; i++ {
				if m := get(step); m != "" {
					return pbt.Fail("%s", m)
				}
			}
		case "put":
			if len(held) > 0 {
				put(op.A % len(held))
			}
		case "putall":
			for len(held) > 0 {
				put(len(held) - 1)
			}
		case "setnew":
			if !c.NewNil {
				install()
			}
		case "gc":
			gcAndFinalizers(1 + op.A%3)
			gcs++
		case "drop":
			// the holder lets go of an item without putting it back: it is garbage from now on
			if len(held) > 0 {
				i := op.A % len(held)
				held[i].tk.dropped = true
				held = append(held[:i], held[i+1:]...)
				drops++
			}
		case "sleep":
			time.Sleep(time.Duration(op.A) * time.Millisecond)
			sleeps = max(sleeps, op.A)
		}
	}
	out := pbt.Outcome{Evals: len(c.Ops), NonTrivial: reused > 0 && len(c.Ops) >= 4}
	if maxPooled >= 33 {
		out.Labels = append(out.Labels, "pooled>=33-at-once")
	}
	if maxPooled >= 8 {
		out.Labels = append(out.Labels, "pooled>=8-at-once")
	}
	if reused > 0 {
		out.Labels = append(out.Labels, "pooled-item-handed-out-again")
	}
	if factory > 1 {
		out.Labels = append(out.Labels, "New-reassigned")
	}
	if gcs > 0 {
		out.Labels = append(out.Labels, "garbage-collection-in-the-history")
	}
	if afterGC > 0 {
		out.Labels = append(out.Labels, "pooled-item-handed-out-again-after-a-collection")
	}
	if drops > 0 && gcs > 0 {
		out.Labels = append(out.Labels, "item-dropped-by-its-holder-then-collections")
	}
	if sleeps >= 2000 {
		out.Labels = append(out.Labels, "pool-left-idle-for-2s")
	} else if sleeps > 0 {
		out.Labels = append(out.Labels, "pool-left-idle-briefly")
	}
	out.Labels = append(out.Labels, "item-type="+[]string{"*struct", "any", "int", "struct", "error"}[c.Kind%5])
	return out
}

var specPoolSeq = pbt.Register(&pbt.Spec[PoolSeqCase]{
	Property: "C18", Name: "C18.poolseq",
	Rule: "single goroutine (no race detector: sync.Pool then keeps what is Put), Pool[T] for T in {*struct, any, int, struct by value, error}: op lists of get / put / putall / batches of up to 100 Gets / reassigning the exported New field / a garbage collection followed by the finalizers it queued / the holder letting go of an item without a Put (the harness keeps only its serial number, so the item really becomes garbage) / leaving the pool idle (1 ms .. 2.1 s of wall-clock time); every Get must return an item that was Put or made by New (nothing else), that an item that is not currently held " +
		"(never handed to two holders), and an item never seen before must be a fresh result of the New function installed at that moment (nil only when New is nil); non-trivial = some pooled item was handed out again",
	Gen: func(t *rapid.T) PoolSeqCase {
		withGC := rapid.IntRange(0, 4).Draw(t, "gc?") == 2
		withSleep := rapid.IntRange(0, 24).Draw(t, "sleep?") == 12
		longSleeps := 0
		long2s := rapid.IntRange(0, 59).Draw(t, "2s?") == 7 // one case in ~1500 really leaves the pool idle for 2.1 s
		op := rapid.Custom(func(t *rapid.T) POp {
			k := rapid.SampledFrom([]string{"get", "get", "get", "put", "put", "putall", "getn", "setnew", "gc", "drop", "sleep"}).Draw(t, "k")
			if (k == "gc" || k == "drop") && !withGC {
				k = "put"
			}
			if k == "sleep" && !withSleep {
				k = "get"
			}
			o := POp{K: k}
			switch k {
			case "put":
				o.A = rapid.IntRange(0, 50).Draw(t, "i")
			case "gc":
				o.A = rapid.IntRange(0, 2).Draw(t, "cycles")
			case "drop":
				o.A = rapid.IntRange(0, 50).Draw(t, "i")
			case "sleep":
				o.A = rapid.SampledFrom([]int{1, 20, 2100}).Draw(t, "ms")
				if o.A == 2100 {
					longSleeps++
					if longSleeps > 1 || !long2s {
						o.A = 3
					}
				}
			case "getn":
				o.A = rapid.SampledFrom([]int{3, 10, 33, 40, 70, 100}).Draw(t, "n")
			}
			return o
		})
		return PoolSeqCase{NewNil: rapid.IntRange(0, 5).Draw(t, "newnil") == 0, Kind: rapid.IntRange(0, 4).Draw(t, "kind"), Ops: pbt.OpsOf(t, op, []int{1, 4, 10, 20}, "ops")}
	},
	Run: RunPoolSeq, Quick: 5000, Thorough: 50000,
})

func TestC18PoolSeq(t *testing.T) { pbt.Check(t, specPoolSeq) }

// ---------------------------------------------------------------- Pool left idle for real time

var specPoolIdle = pbt.Register(&pbt.Spec[PoolSeqCase]{
	Property: "C18", Name: "C18.poolidle",
	Rule: "enumerated: k items (k = 2, 9, 40) are taken and put back, the pool is left idle for 2.1 s of wall-clock time (thorough: also 5.2 s), one more Put, then k+3 Gets without Puts, for each of the five item types; " +
		"the oracle of C18.poolseq (no item handed to two holders, nothing invented); non-trivial = always",
	Enum: func(shard, shards int, tier string, yield func(PoolSeqCase) bool) {
		i := 0
		sleeps := []int{2100}
		if tier == "thorough" {
			sleeps = append(sleeps, 5200)
		}
		for _, ms := range sleeps {
			for kind := 0; kind < 5; kind++ {
				for _, k := range []int{2, 9, 40} {
					if tier != "thorough" && (kind+k)%2 == 1 {
						continue
					}
					i++
					if (i-1)%shards != shard {
						continue
					}
					c := PoolSeqCase{Kind: kind, Ops: []POp{{K: "getn", A: k}, {K: "putall"}, {K: "sleep", A: ms}, {K: "get"}, {K: "put"}, {K: "getn", A: k + 3}, {K: "putall"}, {K: "getn", A: 2}}}
					if !yield(c) {
						return
					}
				}
			}
		}
	},
	Run: RunPoolSeq, Exhaustive: true,
})

func TestC18PoolIdle(t *testing.T) { pbt.Check(t, specPoolIdle) }

// ---------------------------------------------------------------- the same histories in a 32-bit build

var specX86 = pbt.Register(&pbt.Spec[PoolSeqCase]{
	Property: "C18", Name: "C18.x86",
	Rule: "the histories of C18.poolseq (without the long sleeps) in a GOARCH=386 build (plan.json): int, uint and uintptr are 32 bits wide, and the Pool sits at an address that is 4 mod 8",
	Gen:  func(t *rapid.T) PoolSeqCase { return specPoolSeq.Gen(t) },
	Run: func(c PoolSeqCase) pbt.Outcome {
		for i := range c.Ops {
			if c.Ops[i].K == "sleep" && c.Ops[i].A > 100 {
				c.Ops[i].A = 2
			}
		}
		return RunPoolSeq(c)
	},
	Quick: 1500, Thorough: 20000,
})

func TestC18X86(t *testing.T) { pbt.Check(t, specX86) }
