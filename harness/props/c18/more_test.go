package c18

import (
	"fmt"
	"runtime"
	"sync"
	"sync/atomic"
	"testing"
	"time"

	"gopkg.in/typ.v4/sync2"
	"pgregory.net/rapid"
	"verifharness/internal/pbt"
)

// ---------------------------------------------------------------- AtomicValue: conservation under CAS loops

// CounterCase: Inc goroutines each perform N increments with a Load/CompareAndSwap(v, v+1) retry loop while Churn
// goroutines keep doing CompareAndSwap(x, x) and Swap-back-the-same-value on whatever they read (equal-valued
// writes: they never change the value, but for non-pointer-shaped T every one of them installs a new box).
// Conservation: the final value is start + Inc*N, and no increment may be lost or doubled.
type CounterCase struct {
	Elem  int `json:"elem"` // 0 int (>=1000, boxed), 1 struct
	Inc   int `json:"inc"`
	Churn int `json:"churn"`
	N     int `json:"n"`
	Procs int `json:"procs"`
}

type cnt struct {
	V   int
	Pad string
}

func RunCounter(c CounterCase) pbt.Outcome {
	if c.Procs > 0 {
		defer runtime.GOMAXPROCS(runtime.GOMAXPROCS(c.Procs))
	}
	const start = 1000
	var wg sync.WaitGroup
	var stop atomic.Bool
	var final int
	var bad atomic.Pointer[string]
	fail := func(s string) { bad.CompareAndSwap(nil, &s) }
	if c.Elem == 0 {
		var v sync2.AtomicValue[int]
		v.Store(start)
		for g := 0; g < c.Inc; g++ {
			wg.Add(1)
			go func() {
				defer wg.Done()
				last := 0
				for i := 0; i < c.N; i++ {
					for {
						cur := v.Load()
						if cur < last {
							fail(fmt.Sprintf("Load went backwards: %d after %d", cur, last))
						}
						last = cur
						if v.CompareAndSwap(cur, cur+1) {
							break
						}
					}
				}
			}()
		}
		var cw sync.WaitGroup
		for g := 0; g < c.Churn; g++ {
			cw.Add(1)
			go func() {
				defer cw.Done()
				for !stop.Load() {
					x := v.Load()
					v.CompareAndSwap(x, x)
				}
			}()
		}
		wg.Wait()
		stop.Store(true)
		cw.Wait()
		final = v.Load()
	} else {
		var v sync2.AtomicValue[cnt]
		v.Store(cnt{start, "p"})
		for g := 0; g < c.Inc; g++ {
			wg.Add(1)
			go func() {
				defer wg.Done()
				for i := 0; i < c.N; i++ {
					for {
						cur := v.Load()
						if cur.Pad != "p" {
							fail(fmt.Sprintf("Load returned a torn/invented value %+v", cur))
						}
						if v.CompareAndSwap(cur, cnt{cur.V + 1, "p"}) {
							break
						}
					}
				}
			}()
		}
		var cw sync.WaitGroup
		for g := 0; g < c.Churn; g++ {
			cw.Add(1)
			go func() {
				defer cw.Done()
				for !stop.Load() {
					x := v.Load()
					v.CompareAndSwap(x, x)
				}
			}()
		}
		wg.Wait()
		stop.Store(true)
		cw.Wait()
		final = v.Load().V
	}
	if b := bad.Load(); b != nil {
		return pbt.Fail("%s", *b)
	}
	if want := start + c.Inc*c.N; final != want {
		return pbt.Fail("%d goroutines x %d successful CompareAndSwap(v, v+1) from %d with %d goroutines doing CompareAndSwap(x, x) meanwhile: final value %d, want %d (an update was lost or a CompareAndSwap reported success although current != old)", c.Inc, c.N, start, c.Churn, final, want)
	}
	return pbt.Outcome{Evals: c.Inc * c.N, NonTrivial: c.Inc >= 2 && c.Churn >= 1, Labels: []string{fmt.Sprintf("elem=%d", c.Elem), fmt.Sprintf("churn=%d", c.Churn)}}
}

var specCounter = pbt.Register(&pbt.Spec[CounterCase]{
	Property: "C18", Name: "C18.avcounter",
	Rule: "conservation under contention: 2..6 goroutines x N (50..2000) increments by Load/CompareAndSwap(v,v+1) retry loops on one AtomicValue[T] (boxed int or struct), with 0..3 goroutines doing " +
		"CompareAndSwap(x,x) on whatever they read (equal-valued writes that install new boxes); final value must be start + all successful increments, Loads never go backwards / never torn; " +
		"non-trivial = >=2 incrementers and >=1 equal-value writer",
	Gen: func(t *rapid.T) CounterCase {
		return CounterCase{Elem: rapid.IntRange(0, 1).Draw(t, "elem"), Inc: rapid.IntRange(2, 6).Draw(t, "inc"), Churn: rapid.SampledFrom([]int{0, 1, 3, 6, 10}).Draw(t, "churn"),
			N: rapid.SampledFrom([]int{50, 500, 3000, 10000}).Draw(t, "n"), Procs: rapid.SampledFrom([]int{2, 4, 8, 16}).Draw(t, "procs")}
	},
	Run: RunCounter, Quick: 60, Thorough: 600, Crashy: true, Retries: 20,
})

func TestC18AVCounter(t *testing.T) { pbt.Check(t, specCounter) }

// ---------------------------------------------------------------- Pool: long sequential histories

// POp: "get" | "put" (the A-th held token) | "putall" | "getn" (A Gets) | "setnew" (install a new factory)
type POp struct {
	K string `json:"k"`
	A int    `json:"a,omitempty"`
}

type PoolSeqCase struct {
	NewNil bool  `json:"new_nil"`
	Ops    []POp `json:"ops"`
	// Kind of the item type T of Pool[T]: 0 *token, 1 any (holding *token), 2 int (the token's serial), 3 struct by value, 4 error (non-empty interface)
	Kind int `json:"kind,omitempty"`
}

type stok struct {
	serial  int
	factory int
	held    bool
}

type stokVal struct {
	Serial int
	Tag    string
}

type stokErr struct{ tk *stok }

func (e *stokErr) Error() string { return fmt.Sprint("token ", e.tk.serial) }

// gcAndFinalizers runs a garbage collection and waits until the finalizer goroutine has worked through what that
// collection queued (a finalizer of our own, set just before, has run); 1..3 cycles (things that age per cycle).
func gcAndFinalizers(cycles int) {
	for i := 0; i < cycles; i++ {
		done := make(chan struct{})
		obj := &struct {
			p   *int
			pad [64]byte
		}{}
		runtime.SetFinalizer(obj, func(any) { close(done) })
		obj = nil
		runtime.GC()
		select {
		case <-done:
		case <-time.After(200 * time.Millisecond):
		}
		time.Sleep(200 * time.Microsecond) // the finalizer goroutine works through the rest of its batch
	}
}

func RunPoolSeq(c PoolSeqCase) pbt.Outcome {
	reg := map[int]*stok{}
	switch c.Kind {
	case 1:
		return runPoolSeq(c, reg, func(tk *stok) any { return tk }, func(v any) (*stok, bool) { tk, ok := v.(*stok); return tk, ok || v == nil })
	case 2:
		return runPoolSeq(c, reg, func(tk *stok) int { return tk.serial }, func(v int) (*stok, bool) { return reg[v], v == 0 || reg[v] != nil })
	case 3:
		return runPoolSeq(c, reg, func(tk *stok) stokVal { return stokVal{tk.serial, "t"} }, func(v stokVal) (*stok, bool) {
			return reg[v.Serial], v == stokVal{} || (reg[v.Serial] != nil && v.Tag == "t")
		})
	case 4:
		return runPoolSeq(c, reg, func(tk *stok) error { return &stokErr{tk} }, func(v error) (*stok, bool) {
			if v == nil {
				return nil, true
			}
			e, ok := v.(*stokErr)
			if !ok {
				return nil, false
			}
			return e.tk, true
		})
	}
	return runPoolSeq(c, reg, func(tk *stok) *stok { return tk }, func(v *stok) (*stok, bool) { return v, true })
}

// runPoolSeq: wrap turns a token into an item of type T, unwrap finds the token of an item (nil token = the zero
// item; ok=false = an item that is neither a token's item nor the zero value: invented).
func runPoolSeq[T any](c PoolSeqCase, reg map[int]*stok, wrap func(*stok) T, unwrap func(T) (*stok, bool)) pbt.Outcome {
	var p sync2.Pool[T]
	serial, factory := 0, 0
	install := func() {
		factory++
		f := factory
		p.New = func() T {
			serial++
			tk := &stok{serial: serial, factory: f}
			reg[serial] = tk
			return wrap(tk)
		}
	}
	if !c.NewNil {
		install()
	} else {
		// items to Put must come from somewhere: the harness makes them itself
	}
	var held []*stok
	seen := map[*stok]bool{}
	maxPooled, pooled, reused, gcs, afterGC := 0, 0, 0, 0, 0
	get := func(step int) string {
		item := p.Get()
		tk, ok := unwrap(item)
		if !ok {
			return fmt.Sprintf("step %d: Get returned %#v, which was never Put and is no result of New", step, item)
		}
		if tk == nil {
			if !c.NewNil || p.New != nil {
				return fmt.Sprintf("step %d: Get returned the zero value although New is set", step)
			}
			return ""
		}
		if tk.held {
			return fmt.Sprintf("step %d: Get returned token #%d, which an earlier Get already handed out and which was not Put since", step, tk.serial)
		}
		if seen[tk] {
			reused++
			pooled--
			if gcs > 0 {
				afterGC++
			}
		} else {
			// a fresh result of New: it must come from the New function installed NOW
			if p.New == nil {
				return fmt.Sprintf("step %d: Get invented a token although New is nil and it was never Put", step)
			}
			if tk.factory != factory {
				return fmt.Sprintf("step %d: Get returned a fresh item made by an OLD New function (factory %d, current %d): not a fresh result of New", step, tk.factory, factory)
			}
			seen[tk] = true
		}
		tk.held = true
		held = append(held, tk)
		return ""
	}
	put := func(i int) {
		tk := held[i]
		held = append(held[:i], held[i+1:]...)
		tk.held = false
		p.Put(wrap(tk))
		pooled++
		if pooled > maxPooled {
			maxPooled = pooled
		}
	}
	for step, op := range c.Ops {
		switch op.K {
		case "get":
			if m := get(step); m != "" {
				return pbt.Fail("%s", m)
			}
		case "getn":
			for i := 0; i < op.A; i++ {
				if m := get(step); m != "" {
					return pbt.Fail("%s", m)
				}
			}
		case "put":
			if len(held) > 0 {
				put(op.A % len(held))
			}
		case "putall":
			for len(held) > 0 {
				put(len(held) - 1)
			}
		case "setnew":
			if !c.NewNil {
				install()
			}
		case "gc":
			gcAndFinalizers(1 + op.A%3)
			gcs++
		}
	}
	out := pbt.Outcome{Evals: len(c.Ops), NonTrivial: reused > 0 && len(c.Ops) >= 4}
	if maxPooled >= 33 {
		out.Labels = append(out.Labels, "pooled>=33-at-once")
	}
	if maxPooled >= 8 {
		out.Labels = append(out.Labels, "pooled>=8-at-once")
	}
	if reused > 0 {
		out.Labels = append(out.Labels, "pooled-item-handed-out-again")
	}
	if factory > 1 {
		out.Labels = append(out.Labels, "New-reassigned")
	}
	if gcs > 0 {
		out.Labels = append(out.Labels, "garbage-collection-in-the-history")
	}
	if afterGC > 0 {
		out.Labels = append(out.Labels, "pooled-item-handed-out-again-after-a-collection")
	}
	out.Labels = append(out.Labels, "item-type="+[]string{"*struct", "any", "int", "struct", "error"}[c.Kind%5])
	return out
}

var specPoolSeq = pbt.Register(&pbt.Spec[PoolSeqCase]{
	Property: "C18", Name: "C18.poolseq",
	Rule: "single goroutine (no race detector: sync.Pool then keeps what is Put), Pool[T] for T in {*struct, any, int, struct by value, error}: op lists of get / put / putall / batches of up to 100 Gets / reassigning the exported New field / a garbage collection followed by the finalizers it queued; every Get must return an item that was Put or made by New (nothing else), that an item that is not currently held " +
		"(never handed to two holders), and an item never seen before must be a fresh result of the New function installed at that moment (nil only when New is nil); non-trivial = some pooled item was handed out again",
	Gen: func(t *rapid.T) PoolSeqCase {
		withGC := rapid.IntRange(0, 4).Draw(t, "gc?") == 2
		op := rapid.Custom(func(t *rapid.T) POp {
			k := rapid.SampledFrom([]string{"get", "get", "get", "put", "put", "putall", "getn", "setnew", "gc"}).Draw(t, "k")
			if k == "gc" && !withGC {
				k = "put"
			}
			o := POp{K: k}
			switch k {
			case "put":
				o.A = rapid.IntRange(0, 50).Draw(t, "i")
			case "gc":
				o.A = rapid.IntRange(0, 2).Draw(t, "cycles")
			case "getn":
				o.A = rapid.SampledFrom([]int{3, 10, 33, 40, 70, 100}).Draw(t, "n")
			}
			return o
		})
		return PoolSeqCase{NewNil: rapid.IntRange(0, 5).Draw(t, "newnil") == 0, Kind: rapid.IntRange(0, 4).Draw(t, "kind"), Ops: pbt.OpsOf(t, op, []int{1, 4, 10, 20}, "ops")}
	},
	Run: RunPoolSeq, Quick: 5000, Thorough: 50000,
})

func TestC18PoolSeq(t *testing.T) { pbt.Check(t, specPoolSeq) }
