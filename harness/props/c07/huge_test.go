package c07

import (
	"fmt"
	"testing"
	"time"

	"gopkg.in/typ.v4/slices"
	"verifharness/internal/pbt"
)

// ---- HUGE inputs: 2^13 .. 2^17 (2^18, thorough 2^20) values under every GOMAXPROCS setting

var hugeOrders = []string{"int", "desc", "str", "lex", "weak", "float", "named", "ifdesc", "edge", "ifweak", "ifstr", "ifptr", "iffloat", "ifweird"}

// hugePatterns: the non-degenerate value patterns first (a stale or zeroed stretch must be visible).
var hugePatterns = []pattern{patterns[6], patterns[1], patterns[3], patterns[0], patterns[2], patterns[5], patterns[4]}

// hugeCase: NewSorted over n values under GOMAXPROCS(procs), then a short history that crosses the next power of two
// in both directions when n is within 12 of it: sweeps, 24 scattered Adds, 24 scattered Removes, 24 RemoveAt, the
// out-of-range calls; every call followed by the full comparison with the model (see run).
func hugeCase(order string, p pattern, n, procs, k int) Case {
	a, s, vals := p.f(n)
	c := Case{Order: order, Vals: vals, Init: []int{}, Bulk: []Fill{{N: n, A: a, S: s}}, Spare: k % 3, Procs: procs}
	grow := []Op{{K: opAdd, A: a + 1, S: 7919, R: 23}, {K: opSweep, A: 1}}
	shrink := []Op{{K: opRemoveAt, A: 5, B: 0, S: 104729, R: 11}, {K: opRemove, A: a, S: 7919, R: 11}, {K: opSweep, A: 2}}
	c.Ops = []Op{{K: opSweep, A: 0}}
	if k%2 == 0 {
		c.Ops = append(append(c.Ops, grow...), shrink...)
	} else {
		c.Ops = append(append(c.Ops, shrink...), grow...)
	}
	c.Ops = append(c.Ops,
		Op{K: opRemoveAt, A: 0, B: 0}, Op{K: opRemoveAt, A: -1, B: 0}, Op{K: opRemoveAt, B: 7},
		Op{K: opGet, B: 2}, Op{K: opGet, B: 1}, Op{K: opRemoveAt, B: 2}, Op{K: opRemoveAt, B: 5},
		Op{K: opGC, A: k}, Op{K: opAdd, A: a + 3}, Op{K: opIndex, A: a + 3}, Op{K: opContains, A: a + 5}, Op{K: opLen}, Op{K: opSweep, A: 3})
	if n <= 20000 {
		c.Ops = append(c.Ops, Op{K: opString})
	}
	return c
}

func hugeCases(tier string, yield func(Case) bool) {
	k := 0
	procs := []int{1, 2, 3, 4, 5, 6, 7, 8, 12, 16}
	offs := []int{-12, -1, 0, 1, 12}
	if tier == "thorough" {
		procs = []int{1, 2, 3, 4, 5, 6, 7, 8, 9, 10, 11, 12, 13, 14, 15, 16, 17, 24, 32}
	}
	for _, p := range []int{1 << 13, 1 << 14, 1 << 15, 1 << 16, 1 << 17} {
		for pi, pr := range procs {
			for oi, off := range offs {
				// quick: every (power of two, GOMAXPROCS) pair meets two of the five sizes
				if tier != "thorough" && (oi+pi)%5 != 0 && (oi+pi)%5 != 2 {
					continue
				}
				k++
				if !yield(hugeCase(hugeOrders[k%len(hugeOrders)], hugePatterns[k%3], p+off, pr, k)) {
					return
				}
				if tier == "thorough" {
					k++
					if !yield(hugeCase(hugeOrders[(k*5)%len(hugeOrders)], hugePatterns[k%len(hugePatterns)], p+off, pr, k)) {
						return
					}
				}
			}
		}
	}
	big := []int{1<<18 + 1}
	bigProcs := []int{16, 3, 6, 7}
	if tier == "thorough" {
		big = []int{1<<18 - 1, 1 << 18, 1<<18 + 1, 1<<19 + 1, 1 << 20, 1<<20 + 1}
		bigProcs = []int{16, 1, 2, 3, 5, 6, 7, 12}
	}
	for _, n := range big {
		for _, pr := range bigProcs {
			k++
			if !yield(hugeCase(hugeOrders[k%5], hugePatterns[k%3], n, pr, k)) {
				return
			}
		}
	}
	// while another goroutine keeps switching GOMAXPROCS between 2 and 7
	flips := []int{1<<14 + 1, 1<<16 + 1, 1<<17 - 12, 1<<18 + 1}
	if tier == "thorough" {
		flips = append(flips, 1<<13, 1<<15+12, 1<<16, 1<<17+1, 1<<19+1, 1<<20+1)
	}
	for _, n := range flips {
		k++
		c := hugeCase(hugeOrders[k%len(hugeOrders)], hugePatterns[k%3], n, 0, k)
		c.Flip = true
		if !yield(c) {
			return
		}
	}
}

var specHuge = pbt.Register(&pbt.Spec[Case]{
	Property: "C07", Name: "C07.huge",
	Rule: "enumerated HUGE inputs: NewSorted/NewSortedOrdered over n values for n in {p-12, p-1, p, p+1, p+12 : p = 2^13, 2^14, 2^15, 2^16, 2^17} and 2^18+1 (thorough: 2^18-1..2^20+1) under runtime.GOMAXPROCS 1, 2, 3, 4, 5, 6, 7, 8, 12, 16 " +
		"(quick: every (p, GOMAXPROCS) pair with two of the five sizes; thorough: all five, GOMAXPROCS 1..17, 24, 32, two orders each), value patterns mostly-distinct scattered / descending / scattered pairs (thorough: also ascending, 7 values, two values, all equal), 14 orders/element types in rotation; " +
		"then a short history: Sweep, 24 scattered Adds, Sweep, 12 scattered RemoveAt, 12 scattered Removes (crossing p in both directions for the sizes within 12 of it), RemoveAt first/last/middle, out-of-range Get/RemoveAt, runtime.GC(), Add/Index/Contains/Len/Sweep; four more cases (2^14+1, 2^16+1, 2^17-12, 2^18+1 values; thorough ten) run while another goroutine keeps switching runtime.GOMAXPROCS between 2 and 7. " + rule + ruleNT,
	Enum: func(shard, shards int, tier string, yield func(Case) bool) {
		i := 0
		hugeCases(tier, func(c Case) bool {
			i++
			if shards > 1 && i%shards != shard {
				return true
			}
			return yield(c)
		})
	},
	Run: Run, CaseCPU: 120 * time.Second,
})

// ---- CHURN: more than 2^16 (2^17) calls of every kind on one small Sorted

// churnCases: per order (a) 22000 (thorough 44000) rounds of [3 Adds, Index, 2 RemoveAt first, RemoveAt middle, Get, Contains, Remove of an absent value, Len,
// Add v, Remove v] on a Sorted of 8..12 values: > 2^16 Adds, > 2^16 removals, > 2^17 calls in all; (b) 2^16+40 (thorough 2^17+40) calls each of
// Index, Contains, Get on 40 values followed by the mutating calls.
func churnCases(tier string, yield func(Case) bool) {
	rounds, reads := 22000, 1<<16+40
	if tier == "thorough" {
		rounds, reads = 44000, 1<<17+40
	}
	for i, o := range []string{"int", "str", "desc", "weak", "lex", "float", "unit", "ifweak", "named", "edge"} {
		if tier != "thorough" && i >= 7 {
			break
		}
		// balanced: every round adds four values (even raw values only) and removes four; raw 7 is never present after the first rounds
		c := Case{Order: o, Vals: 12, Init: []int{3, 1, 4, 1, 5, 9, 2, 6}, Spare: i % 3, Rounds: rounds, Ops: []Op{
			{K: opAdd, A: 2 * i, S: 2, R: 2}, {K: opIndex, A: 1, S: 1}, {K: opRemoveAt, A: 0, B: 0, R: 1}, {K: opRemoveAt, B: 7}, {K: opGet, A: 2, B: 0, S: 1}, {K: opContains, A: 0, S: 5},
			{K: opRemove, A: 7}, {K: opLen}, {K: opAdd, A: 4, S: 4}, {K: opRemove, A: 4, S: 4},
		}}
		if !yield(c) {
			return
		}
		c = Case{Order: o, Vals: 50, Init: []int{}, Bulk: []Fill{{N: 40, A: 7, S: 13}}, Spare: 1, Ops: []Op{
			{K: opIndex, A: 0, S: 1, R: reads}, {K: opAdd, A: 3}, {K: opContains, A: 0, S: 7, R: reads}, {K: opRemoveAt, B: 7},
			{K: opGet, A: 0, B: 0, S: 1, R: reads}, {K: opRemove, A: 20}, {K: opLen, R: reads}, {K: opAdd, A: 9}, {K: opSweep},
		}}
		if !yield(c) {
			return
		}
	}
	stampCases(tier, yield)
}

// stampCases: two calls with the same argument separated by g calls of the same function with OTHER arguments, for g
// around 2^16 (thorough: also 2^17), and by m mutating calls around 2^16. 40 of the 50 values (raw x -> x mod 50) are
// stored; the calls in between walk over the values of the other parity (50 is even, the stride is 2), so the probed value
// v is not looked at in between.
func stampCases(tier string, yield func(Case) bool) {
	pows := []int{1 << 16}
	if tier == "thorough" {
		pows = append(pows, 1<<17, 1<<15)
	}
	k := 0
	for _, pw := range pows {
		for d := -2; d <= 2; d++ {
			k++
			o := []string{"int", "str", "desc", "lex", "float", "named", "ifdesc", "u32"}[k%8]
			g := pw + d // calls in between
			v := 7 + 13*(k%40)
			c := Case{Order: o, Vals: 50, Init: []int{}, Bulk: []Fill{{N: 40, A: 7, S: 13}}, Spare: k % 3}
			for _, kind := range []int{opIndex, opContains, opGet, opLen} {
				c.Ops = append(c.Ops, Op{K: kind, A: v}, Op{K: kind, A: v + 1, S: 2, R: g - 1})
				if d%2 == 0 { // something moves v (or what sits at position v mod Len) in the meantime
					c.Ops = append(c.Ops, Op{K: opAdd, A: 7 + 13*41}, Op{K: kind, A: v}, Op{K: opRemove, A: 7 + 13*41})
				}
				c.Ops = append(c.Ops, Op{K: kind, A: v}, Op{K: opSweep, A: v})
			}
			if !yield(c) {
				return
			}
			// mutations in between: adds Adds of absent values, then pairs of [Add, RemoveAt/Remove]: adds + 2*pairs calls
			for _, adds := range []int{1, 2} {
				pairs := (g - adds + 1) / 2
				c = Case{Order: o, Vals: 50, Init: []int{}, Bulk: []Fill{{N: 40, A: 7, S: 13}}, Spare: k % 3, Ops: []Op{
					{K: opIndex, A: v}, {K: opContains, A: v}, {K: opGet, A: 3, B: 0}, {K: opGet, B: 7}, {K: opLen},
					{K: opAdd, A: 7 + 13*42, S: 13, R: adds - 1}, {K: opPair, A: v + 1, B: pairs - 1},
					{K: opIndex, A: v}, {K: opContains, A: v}, {K: opGet, A: 3, B: 0}, {K: opGet, B: 7}, {K: opLen}, {K: opRemove, A: v}, {K: opSweep, A: v},
					{K: opPair, A: v + 1, B: pairs - 1}, {K: opAdd, A: v}, {K: opIndex, A: v}, {K: opRemoveAt, A: 0, B: 0}, {K: opSweep, A: v + 1}}}
				if !yield(c) {
					return
				}
			}
		}
	}
}

var specChurn = pbt.Register(&pbt.Spec[Case]{
	Property: "C07", Name: "C07.churn",
	Rule: "enumerated LONG histories on one small Sorted, for the orders int, strings, descending, weak, lexicographic, floats, zero-size (thorough: also ifweak, named, edge): " +
		"(a) 22000 rounds (thorough 44000) of [3 Adds with advancing values, Index, 2 RemoveAt(0), RemoveAt(middle), Get, Contains, Remove of an absent value, Len, Add v, Remove v] on 8..12 values - more than 2^16 Adds, more than 2^16 removals and more than 2^17 calls on one object; " +
		"(b) 2^16+41 (thorough 2^17+41) consecutive calls each of Index, Contains, Get and Len on 40 values with a mutating call in between; " +
		"(c) for g = 2^16-2..2^16+2 (thorough also around 2^15 and 2^17), eight orders in rotation: F(v), then g calls of F with OTHER arguments (the values of the other parity), (for even g-2^16: Add of a smaller value, F(v), Remove of it,) F(v), Sweep - for F = Index, Contains, Get, Len in turn; " +
		"(d) for the same g: Index/Contains/Get/Len, then g or g+1 mutating calls (1 or 2 Adds of absent values, then Add/RemoveAt and Add/Remove pairs of other values, every return value checked), then Index/Contains/Get/Len/Remove of v and a Sweep, once more the same number of pairs, Add v/Index v/RemoveAt(0)/Sweep. " + rule + ruleNT,
	Enum: func(shard, shards int, tier string, yield func(Case) bool) {
		i := 0
		churnCases(tier, func(c Case) bool {
			i++
			if shards > 1 && i%shards != shard {
				return true
			}
			return yield(c)
		})
	},
	Run: Run, CaseCPU: 120 * time.Second,
})

// ---- WRAP32 (thorough only): more than 2^32 calls on one Sorted

// WCase: 2^Log2 + Extra iterations of one shape on a Sorted[int] built from 3 1 4 1 5 9 2 6:
//
//	"get"       Get(i mod 8) and Len()
//	"index"     Index(i mod 11)
//	"contains"  Contains(i mod 11)
//	"addremove" p = Add(i mod 11); Get(p); then RemoveAt(p) (even i) or Remove(i mod 11) (odd i)
//
// Every return value is checked in every iteration; the whole contents are read back in the three iterations around
// every multiple of 2^16 (and at the end).
type WCase struct {
	Shape string `json:"shape"`
	Log2  int    `json:"log2"`
	Extra int    `json:"extra"`
}

func RunWrap(c WCase) pbt.Outcome {
	if c.Log2 < 0 || c.Log2 > 33 {
		return pbt.Fail("malformed case: log2 = %d", c.Log2)
	}
	s := slices.NewSortedOrdered(3, 1, 4, 1, 5, 9, 2, 6)
	model := []int{1, 1, 2, 3, 4, 5, 6, 9}
	const vals = 11
	var first, lb, ub [vals]int
	for v := 0; v < vals; v++ {
		first[v] = firstIndex(model, v)
		for lb[v] = 0; lb[v] < len(model) && model[lb[v]] < v; lb[v]++ {
		}
		for ub[v] = lb[v]; ub[v] < len(model) && model[ub[v]] == v; ub[v]++ {
		}
	}
	total := uint64(1)<<uint(c.Log2) + uint64(mod(c.Extra, 1<<20))
	full := func(i uint64) string {
		if l := s.Len(); l != len(model) {
			return fmt.Sprintf("iteration %d: Len() = %d, want %d", i, l, len(model))
		}
		for j, w := range model {
			if g := s.Get(j); g != w {
				return fmt.Sprintf("iteration %d: Get(%d) = %d, want %d (contents must be %v)", i, j, g, w, model)
			}
		}
		return ""
	}
	for i := uint64(0); i < total; i++ {
		switch c.Shape {
		case "get":
			idx := int(i & 7)
			if g := s.Get(idx); g != model[idx] {
				return pbt.Fail("shape get, iteration %d: Get(%d) = %d, want %d", i, idx, g, model[idx])
			}
			if l := s.Len(); l != 8 {
				return pbt.Fail("shape get, iteration %d: Len() = %d, want 8", i, l)
			}
		case "index":
			v := int(i % vals)
			if g := s.Index(v); g != first[v] {
				return pbt.Fail("shape index, iteration %d: Index(%d) = %d, want %d on %v", i, v, g, first[v], model)
			}
		case "contains":
			v := int(i % vals)
			if g := s.Contains(v); g != (first[v] >= 0) {
				return pbt.Fail("shape contains, iteration %d: Contains(%d) = %v, want %v on %v", i, v, g, first[v] >= 0, model)
			}
		case "addremove":
			v := int(i % vals)
			p := s.Add(v)
			if p < lb[v] || p > ub[v] {
				return pbt.Fail("shape addremove, iteration %d: Add(%d) = %d on %v, want a position in [%d,%d]", i, v, p, model, lb[v], ub[v])
			}
			if g := s.Get(p); g != v {
				return pbt.Fail("shape addremove, iteration %d: Add(%d) = %d but Get(%d) = %d", i, v, p, p, g)
			}
			if l := s.Len(); l != 9 {
				return pbt.Fail("shape addremove, iteration %d: Len() = %d after Add on 8 values", i, l)
			}
			if i&1 == 0 {
				s.RemoveAt(p)
			} else if r := s.Remove(v); r < lb[v] || r > ub[v] {
				return pbt.Fail("shape addremove, iteration %d: Remove(%d) = %d, want a position in [%d,%d] (%v plus the added %d)", i, v, r, lb[v], ub[v], model, v)
			}
			if l := s.Len(); l != 8 {
				return pbt.Fail("shape addremove, iteration %d: Len() = %d after Add and removal on 8 values", i, l)
			}
		default:
			return pbt.Fail("malformed case: shape %q", c.Shape)
		}
		if lo := i & 0xFFFF; lo <= 1 || lo == 0xFFFF {
			if m := full(i); m != "" {
				return pbt.Fail("shape %s, %s", c.Shape, m)
			}
		}
	}
	if m := full(total); m != "" {
		return pbt.Fail("shape %s, at the end, %s", c.Shape, m)
	}
	ev := int(total >> 10)
	return pbt.Outcome{NonTrivial: c.Log2 >= 31, Evals: ev + 1, Labels: []string{"shape=" + c.Shape, fmt.Sprintf("calls>2^%d", c.Log2)}}
}

// wrapCases: 2^32 (+70000) iterations of the read-only shapes; the mutating shape costs ~60 ns per iteration, so it goes
// past 2^31 only (a signed 32-bit counter), not past 2^32.
var wrapCases = []WCase{{"get", 32, 70000}, {"index", 32, 70000}, {"contains", 32, 70000}, {"addremove", 31, 70000}}

var specWrap32 = pbt.Register(&pbt.Spec[WCase]{
	Property: "C07", Name: "C07.wrap32",
	Rule: "thorough only, enumerated: 2^32 + 70000 iterations on ONE Sorted[int] of 8 values, one shape per case (and shard): Get+Len; Index of present, duplicate and absent values; Contains of the same; " +
		"and 2^31 + 70000 iterations of Add + RemoveAt / Remove of the added value (2^32 of those would take about five minutes). Every return value is checked in every iteration (Add/Remove: a position inside the run of the value), the whole contents in the three iterations around every multiple of 2^16 and at the end; " +
		"evaluations are counted in units of 1024 iterations. non-trivial = more than 2^31 iterations",
	Enum: func(shard, shards int, tier string, yield func(WCase) bool) {
		for i, c := range wrapCases {
			if shards > 1 && i%shards != shard {
				continue
			}
			if !yield(c) {
				return
			}
		}
	},
	Run: RunWrap, CaseCPU: 30 * time.Minute,
})

func TestC07Huge(t *testing.T)   { pbt.Check(t, specHuge) }
func TestC07Churn(t *testing.T)  { pbt.Check(t, specChurn) }
func TestC07Wrap32(t *testing.T) { pbt.Check(t, specWrap32) }
