package c07

import (
	"fmt"
	"runtime"
	"sort"
	"strconv"
	"sync"
	"testing"

	"gopkg.in/typ.v4/slices"
	"pgregory.net/rapid"
	"verifharness/internal/pbt"
)

// Several Sorted values alive at once. Every Sorted is built by NewSorted/NewSortedOrdered "over any input (which is
// copied, never aliased or reordered)", so each one is an object of its own: a call on one of them, the construction of
// another one, a garbage collection or a write of the caller into its own buffer must leave all the others exactly as
// they were. The inputs are views of ONE caller-owned buffer (the arena), in any position, overlapping or identical,
// with spare capacity that reaches into the values of other views.

// MOp kinds.
const (
	mAdd      = 0  // object O: Add(elem(A))
	mRemove   = 1  // object O: Remove(elem(A))
	mRemoveAt = 2  // object O: RemoveAt(index(A, mode B))
	mGet      = 3  // object O: Get(index(A, mode B))
	mIndex    = 4  // object O: Index(elem(A))
	mContains = 5  // object O: Contains(elem(A))
	mLen      = 6  // object O: Len()
	mString   = 7  // object O: String(); the result is kept and compared again after every later call
	mSweep    = 8  // object O, strict orders: Index/Contains of up to 16 evenly spread stored values and of elem(A..A+3)
	mNew      = 9  // a further Sorted over the view (Off A, N B, Spare S) of the arena; replaces object O when maxObjs are alive
	mGC       = 10 // runtime.GC(), twice when A is odd (the first four of a case only)
	mScribble = 11 // the caller writes elem(B) into position A of the arena
	mForeign  = 12 // a Sorted of ANOTHER element type (strings; ints when the case is about strings) with A mod 5000 values, kept alive (at most 3)
	mDrop     = 13 // the harness forgets object O (it becomes garbage) unless it is the only one
	mBurst    = 14 // 1 + R mod 2^17 times in a row: NewSorted over the view (Off A [+ j*S for the j-th], N B mod 64, no spare), each result checked; the last one is kept like mNew's
	nMOps     = 15
)

const (
	maxObjs     = 5
	maxArenaRun = 1 << 14
	maxMRepeat  = 64
)

// MOp: one step; Add/Remove/RemoveAt/Get/Index/Contains are executed 1 + R mod 64 times with A advancing by S.
type MOp struct {
	O int `json:"o"`
	K int `json:"k"`
	A int `json:"a"`
	B int `json:"b,omitempty"`
	R int `json:"r,omitempty"`
	S int `json:"s,omitempty"`
}

// View: the slice arena[off : off+n : off+n+spare] with off = Off mod (L+1), n = N mod (L-off+1),
// spare = Spare mod (L-off-n+1) for an arena of L values (nil when off, n and spare are all 0).
type View struct {
	Off   int `json:"off"`
	N     int `json:"n"`
	Spare int `json:"spare"`
}

// MCase: the arena holds the explicit raw values Init followed by the arithmetic runs Arena (raw x -> element as in
// Case); the objects Objs are built one after the other (at least one; a missing list means one Sorted over the whole
// arena), then Ops are executed. After the construction of each object and after EVERY step ALL live objects are
// read back and compared with their models.
type MCase struct {
	Order string `json:"order"`
	Vals  int    `json:"vals,omitempty"`
	Procs int    `json:"procs,omitempty"`
	Init  []int  `json:"init"`
	Arena []Fill `json:"arena,omitempty"`
	Objs  []View `json:"objs"`
	Ops   []MOp  `json:"ops"`
}

type mobj[E comparable] struct {
	s     slices.Sorted[E]
	model []E
	name  string // "#3 (NewSorted over arena[5:37], built after step 4)"
	buf   []E
}

type keptString struct {
	got, want string
	name      string
}

// foreign: a Sorted of another element type that only has to stay what it was.
type foreign interface{ check() string }

type fobj[F comparable] struct {
	s    slices.Sorted[F]
	want []F
	name string
}

func (f *fobj[F]) check() string {
	if l := f.s.Len(); l != len(f.want) {
		return fmt.Sprintf("%s has Len() = %d, want %d", f.name, l, len(f.want))
	}
	for i, w := range f.want {
		if g := f.s.Get(i); g != w {
			return fmt.Sprintf("%s holds %v at position %d, want %v (the sorted input)", f.name, g, i, w)
		}
	}
	return ""
}

func RunMulti(c MCase) pbt.Outcome {
	return withProcs(c.Procs, func() pbt.Outcome {
		out := runMultiAny(c)
		if out.Violation == "" {
			out.Labels = append(out.Labels, procsLabel(c.Procs))
		}
		return out
	})
}

func runMultiAny(c MCase) pbt.Outcome {
	return withEnv(c.Order, c.Vals, envRunner{
		Int:   func(e env[int]) pbt.Outcome { return runMulti(c, e) },
		Str:   func(e env[string]) pbt.Outcome { return runMulti(c, e) },
		Float: func(e env[float64]) pbt.Outcome { return runMulti(c, e) },
		KT:    func(e env[kt]) pbt.Outcome { return runMulti(c, e) },
		Unit:  func(e env[struct{}]) pbt.Outcome { return runMulti(c, e) },
	})
}

func runMulti[E comparable](c MCase, e env[E]) pbt.Outcome {
	arena := make([]E, 0, len(c.Init))
	for _, x := range c.Init {
		arena = append(arena, e.elem(x))
	}
	for _, f := range c.Arena {
		for j, nn := 0, mod(f.N, maxArenaRun); j < nn; j++ {
			arena = append(arena, e.elem(f.A+j*f.S))
		}
	}
	arena = arena[:len(arena):len(arena)]
	L := len(arena)
	wantArena := append([]E(nil), arena...)
	hdr := fmt.Sprintf("order=%s vals=%d arena=%s", c.Order, c.Vals, show(wantArena, 0))
	var zero E
	_, elemIsString := any(zero).(string)

	var (
		objs     []*mobj[E]
		kept     []keptString
		foreigns []foreign
		evals    int
		stepNo   = -1 // -1: initial constructions
		what     string
	)
	fail := func(format string, a ...any) pbt.Outcome {
		at := "initial construction"
		if stepNo >= 0 {
			at = fmt.Sprintf("step %d", stepNo)
		}
		return pbt.Fail("%s: %s: %s: %s", hdr, at, what, fmt.Sprintf(format, a...))
	}
	read := func(o *mobj[E], buf []E) ([]E, string) {
		l := o.s.Len()
		if l < 0 || l > maxLenSeen {
			return nil, fmt.Sprintf("object %s: Len() = %d", o.name, l)
		}
		if cap(buf) < l {
			buf = make([]E, l, l+l/4+8)
		}
		buf = buf[:l]
		for i := range buf {
			buf[i] = o.s.Get(i)
		}
		evals += l + 1
		return buf, ""
	}
	sortedMsg := func(obs []E) string {
		for i := 0; i+1 < len(obs); i++ {
			if e.less(obs[i+1], obs[i]) {
				return fmt.Sprintf("contents not in non-decreasing order: position %d holds %v, position %d holds %v; contents %s", i, obs[i], i+1, obs[i+1], show(obs, i))
			}
		}
		return ""
	}
	multisetMsg := func(obs, want []E) string {
		if len(obs) != len(want) {
			return fmt.Sprintf("contents have %d element(s), want %d; contents %s, expected multiset %s", len(obs), len(want), show(obs, 0), show(want, 0))
		}
		cnt := make(map[E]int, len(want))
		for _, v := range want {
			cnt[v]++
		}
		for _, v := range obs {
			cnt[v]--
		}
		for _, v := range want {
			if cnt[v] != 0 {
				return fmt.Sprintf("contents hold %v %d time(s), want %d; contents %s, expected multiset %s", v, count(obs, v), count(want, v), show(obs, firstIndex(obs, v)), show(want, firstIndex(want, v)))
			}
		}
		for _, v := range obs {
			if cnt[v] != 0 {
				return fmt.Sprintf("contents hold %v %d time(s), want %d; contents %s, expected multiset %s", v, count(obs, v), count(want, v), show(obs, firstIndex(obs, v)), show(want, 0))
			}
		}
		return ""
	}
	// others: everything except the object skip must be exactly what it was.
	others := func(skip *mobj[E]) string {
		for _, o := range objs {
			if o == skip {
				continue
			}
			obs, m := read(o, o.buf)
			if m != "" {
				return m
			}
			o.buf = obs
			if !eq(obs, o.model) {
				d := firstDiff(obs, o.model)
				return fmt.Sprintf("ANOTHER Sorted, %s, which this call does not involve, changed at position %d: now %s, want %s", o.name, d, show(obs, d), show(o.model, d))
			}
		}
		for _, k := range kept {
			if k.got != k.want {
				return fmt.Sprintf("the string returned earlier by String() of %s has changed: now %q, want %q", k.name, k.got, k.want)
			}
		}
		for _, f := range foreigns {
			if m := f.check(); m != "" {
				return "ANOTHER Sorted (of another element type) changed: " + m
			}
		}
		if !eq(arena, wantArena) {
			d := firstDiff(arena, wantArena)
			return fmt.Sprintf("the caller's buffer changed at position %d: now %s, want %s", d, show(arena, d), show(wantArena, d))
		}
		return ""
	}

	var (
		sameView, overlap, spareInto, rebuilt, replaced, gced, scribbled, foreignBuilt, dropped, keptStr bool
		alternations, maxAlive, maxSize, mutations, builtWhileOthersBig                                  int
		lastObj                                                                                          *mobj[E]
		views                                                                                            [][3]int
	)
	build := func(v View, replace int) pbt.Outcome {
		off := mod(v.Off, L+1)
		n := mod(v.N, L-off+1)
		spare := mod(v.Spare, L-off-n+1)
		var in []E
		if off+n+spare > 0 {
			in = arena[off : off+n : off+n+spare]
		}
		for _, w := range views {
			if w[0] == off && w[1] == n && n > 0 {
				sameView = true
			} else if n > 0 && w[1] > 0 && off < w[0]+w[1] && w[0] < off+n {
				overlap = true
			}
		}
		if spare > 0 {
			spareInto = true
		}
		views = append(views, [3]int{off, n, spare})
		for _, o := range objs {
			if len(o.model) > 16 && n > 16 {
				builtWhileOthersBig++
				break
			}
		}
		o := &mobj[E]{name: fmt.Sprintf("#%d (NewSorted over arena[%d:%d:%d]%s)", len(views)-1, off, off+n, off+n+spare, map[bool]string{true: fmt.Sprintf(" at step %d", stepNo), false: ""}[stepNo >= 0])}
		what = fmt.Sprintf("NewSorted over arena[%d:%d:%d] = %s -> object #%d", off, off+n, off+n+spare, show(wantArena[off:off+n], 0), len(views)-1)
		o.s = e.build(in)
		obs, m := read(o, nil)
		if m != "" {
			return fail("%s", m)
		}
		if m := sortedMsg(obs); m != "" {
			return fail("%s", m)
		}
		if m := multisetMsg(obs, wantArena[off:off+n]); m != "" {
			return fail("%s", m)
		}
		o.model = obs
		if n > maxSize {
			maxSize = n
		}
		if replace >= 0 {
			objs[replace] = o
			replaced = true
		} else {
			objs = append(objs, o)
		}
		if len(objs) > maxAlive {
			maxAlive = len(objs)
		}
		if m := others(o); m != "" {
			return fail("%s", m)
		}
		return pbt.Outcome{}
	}

	initial := c.Objs
	if len(initial) == 0 {
		initial = []View{{Off: 0, N: L}}
	}
	for i, v := range initial {
		if i >= maxObjs {
			break
		}
		if o := build(v, -1); o.Violation != "" {
			return o
		}
	}

	// call: one library call on object o; returns a violation message or "".
	call := func(o *mobj[E], k, a, b int) string {
		model := o.model
		isAdd, removedAt, addedAt := false, -1, -1
		var added E
		switch k {
		case mAdd:
			v := e.elem(a)
			what = fmt.Sprintf("%s.Add(%v)", o.name, v)
			ret := o.s.Add(v)
			if e.strict {
				if ret < 0 || ret > len(model) {
					return fmt.Sprintf("returned %d, outside [0,%d]", ret, len(model))
				}
				if got := o.s.Get(ret); got != v {
					return fmt.Sprintf("returned %d but Get(%d) = %v: the new value does not sit there", ret, ret, got)
				}
			}
			isAdd, added, addedAt = true, v, ret
			mutations++
		case mRemove:
			v := e.elem(a)
			what = fmt.Sprintf("%s.Remove(%v)", o.name, v)
			first := firstIndex(model, v)
			var ret int
			if p, pv := try(func() { ret = o.s.Remove(v) }); p {
				return fmt.Sprintf("panicked: %v", pv)
			}
			switch {
			case e.strict && first < 0:
				if ret != -1 {
					return fmt.Sprintf("returned %d for an absent value, want -1", ret)
				}
			case e.strict:
				if ret < 0 || ret >= len(model) || model[ret] != v {
					return fmt.Sprintf("returned %d, which is not a position that held %v; contents were %s", ret, v, show(model, first))
				}
				removedAt = ret
			case ret == -1:
			case ret < 0 || ret >= len(model):
				return fmt.Sprintf("returned %d, outside [0,%d)", ret, len(model))
			default:
				removedAt = ret
			}
			if removedAt >= 0 {
				mutations++
			}
		case mRemoveAt:
			idx := indexArg(a, b, len(model))
			what = fmt.Sprintf("%s.RemoveAt(%d)", o.name, idx)
			p, pv := try(func() { o.s.RemoveAt(idx) })
			if idx < 0 || idx >= len(model) {
				if !p {
					return fmt.Sprintf("did not panic although the index is outside [0,%d)", len(model))
				}
			} else {
				if p {
					return fmt.Sprintf("panicked for a valid index: %v", pv)
				}
				removedAt = idx
				mutations++
			}
		case mGet:
			idx := indexArg(a, b, len(model))
			what = fmt.Sprintf("%s.Get(%d)", o.name, idx)
			var got E
			p, pv := try(func() { got = o.s.Get(idx) })
			if idx < 0 || idx >= len(model) {
				if !p {
					return fmt.Sprintf("returned %v and did not panic although the index is outside [0,%d)", got, len(model))
				}
			} else {
				if p {
					return fmt.Sprintf("panicked for a valid index: %v", pv)
				}
				if got != model[idx] {
					return fmt.Sprintf("= %v, want %v", got, model[idx])
				}
			}
		case mIndex:
			v := e.elem(a)
			what = fmt.Sprintf("%s.Index(%v)", o.name, v)
			got := o.s.Index(v)
			if first := firstIndex(model, v); e.strict && got != first {
				return fmt.Sprintf("= %d, want %d (first position holding the value, or -1); contents %s", got, first, show(model, first))
			}
		case mContains:
			v := e.elem(a)
			what = fmt.Sprintf("%s.Contains(%v)", o.name, v)
			got := o.s.Contains(v)
			if e.strict {
				if w := firstIndex(model, v) >= 0; got != w {
					return fmt.Sprintf("= %v, want %v", got, w)
				}
				if ix := o.s.Index(v); got != (ix != -1) {
					return fmt.Sprintf("= %v but Index(%v) = %d: Contains disagrees with Index", got, v, ix)
				}
			}
		case mLen:
			what = o.name + ".Len()"
			if got := o.s.Len(); got != len(model) {
				return fmt.Sprintf("= %d, want %d", got, len(model))
			}
		case mString:
			what = o.name + ".String()"
			got, w := o.s.String(), fmt.Sprint(model)
			if got != w {
				return fmt.Sprintf("= %q, want %q", got, w)
			}
			if len(kept) >= 4 {
				kept = kept[1:]
			}
			kept = append(kept, keptString{got: got, want: w, name: o.name})
			keptStr = true
		case mSweep:
			what = o.name + ": Sweep"
			if !e.strict {
				break
			}
			var starts []int
			for i := range model {
				if i == 0 || model[i] != model[i-1] {
					starts = append(starts, i)
				}
			}
			stride, off := 1, 0
			if len(starts) > 16 {
				stride = len(starts) / 16
				off = mod(a, stride)
			}
			for j := off; j < len(starts); j += stride {
				i := starts[j]
				if got := o.s.Index(model[i]); got != i {
					return fmt.Sprintf("Index(%v) = %d, want %d (first position holding the value); contents %s", model[i], got, i, show(model, i))
				}
				if !o.s.Contains(model[i]) {
					return fmt.Sprintf("Contains(%v) = false although position %d holds it", model[i], i)
				}
			}
			for j := 0; j < 4; j++ {
				v := e.elem(a + j)
				first := firstIndex(model, v)
				if got := o.s.Index(v); got != first {
					return fmt.Sprintf("Index(%v) = %d, want %d (first position holding the value, or -1); contents %s", v, got, first, show(model, first))
				}
				if got := o.s.Contains(v); got != (first >= 0) {
					return fmt.Sprintf("Contains(%v) = %v, want %v", v, got, first >= 0)
				}
			}
		}
		evals++
		var obs []E
		var m string
		if obs, m = read(o, o.buf); m != "" {
			return m
		}
		switch {
		case isAdd:
			if m := sortedMsg(obs); m != "" {
				return m
			}
			fast := addedAt >= 0 && addedAt <= len(model) && len(obs) == len(model)+1 && obs[addedAt] == added &&
				eq(obs[:addedAt], model[:addedAt]) && eq(obs[addedAt+1:], model[addedAt:])
			if !fast {
				exp := append(append(make([]E, 0, len(model)+1), model...), added)
				if m := multisetMsg(obs, exp); m != "" {
					return m
				}
			}
		case removedAt >= 0:
			if len(obs) != len(model)-1 || !eq(obs[:removedAt], model[:removedAt]) || !eq(obs[removedAt:], model[removedAt+1:]) {
				want := without(model, removedAt)
				d := firstDiff(obs, want)
				return fmt.Sprintf("contents afterwards differ from the expected ones (the former contents %s without position %d) at position %d: %s, want %s", show(model, removedAt), removedAt, d, show(obs, d), show(want, d))
			}
		default:
			if !eq(obs, model) {
				d := firstDiff(obs, model)
				return fmt.Sprintf("contents changed at position %d: %s, want them unchanged: %s", d, show(obs, d), show(model, d))
			}
		}
		o.buf, o.model = model[:0], obs
		if len(obs) > maxSize {
			maxSize = len(obs)
		}
		return ""
	}

	nForeign, gcs := 0, 0
	burst16 := false
	var burstBuf []E
	for si, op := range c.Ops {
		stepNo = si
		k := mod(op.K, nMOps)
		switch k {
		case mNew:
			rebuilt = true
			replace := -1
			if len(objs) >= maxObjs {
				replace = mod(op.O, len(objs))
			}
			if o := build(View{Off: op.A, N: op.B, Spare: op.S}, replace); o.Violation != "" {
				return o
			}
			lastObj = nil
		case mBurst:
			reps := mod(op.R, 1<<17)
			v := View{Off: op.A, N: op.B}
			{
				off := mod(v.Off, L+1)
				v.N = mod(mod(v.N, L-off+1), 64)
				v.Off = off
			}
			var firstObs []E // a result that passed the full check: an identical one needs no second look
			bo := &mobj[E]{name: "(burst)"}
			off0 := v.Off
			for j := 0; j < reps; j++ {
				// the intermediate ones are checked on their own and dropped at once
				if op.S != 0 { // a sliding view: every construction sees other data than its predecessor
					v.Off = mod(off0+j*op.S, L-v.N+1)
				}
				bo.s = e.build(arena[v.Off : v.Off+v.N : v.Off+v.N])
				obs, m := read(bo, burstBuf)
				burstBuf = obs
				if m == "" && (firstObs == nil || !eq(obs, firstObs)) {
					if m = sortedMsg(obs); m == "" {
						m = multisetMsg(obs, wantArena[v.Off:v.Off+v.N])
					}
					if m == "" && firstObs == nil {
						firstObs = append([]E{}, obs...)
					}
				}
				if m != "" {
					what = fmt.Sprintf("NewSorted number %d of a burst of %d over arena[%d:%d]", j, reps+1, v.Off, v.Off+v.N)
					return fail("%s", m)
				}
				if j&1023 == 1023 {
					if m := others(nil); m != "" {
						what = fmt.Sprintf("NewSorted number %d of a burst of %d over arena[%d:%d]", j, reps+1, v.Off, v.Off+v.N)
						return fail("%s", m)
					}
				}
			}
			if reps >= 1<<16 {
				burst16 = true
			}
			replace := -1
			if len(objs) >= maxObjs {
				replace = mod(op.O, len(objs))
			}
			if o := build(v, replace); o.Violation != "" {
				return o
			}
			lastObj = nil
		case mGC:
			if gcs >= maxGCs {
				continue
			}
			gcs++
			what = "runtime.GC()"
			runtime.GC()
			if mod(op.A, 2) == 1 {
				what = "runtime.GC() twice"
				runtime.GC()
			}
			gced = true
			if m := others(nil); m != "" {
				return fail("%s", m)
			}
		case mScribble:
			if L == 0 {
				continue
			}
			pos, v := mod(op.A, L), e.elem(op.B)
			what = fmt.Sprintf("caller writes arena[%d] = %v", pos, v)
			arena[pos] = v
			wantArena[pos] = v
			scribbled = true
			if m := others(nil); m != "" {
				return fail("%s", m)
			}
		case mForeign:
			n := mod(op.A, 5000)
			var f foreign
			var m string
			what = fmt.Sprintf("NewSortedOrdered over %d values of another element type", n)
			if elemIsString {
				f, m = buildForeign(n, op.B, func(x int) int { return x }, fmt.Sprintf("the Sorted[int] of %d values built at step %d", n, si))
			} else {
				f, m = buildForeign(n, op.B, func(x int) string { return strconv.Itoa(x) }, fmt.Sprintf("the Sorted[string] of %d values built at step %d", n, si))
			}
			if m != "" {
				return fail("%s", m)
			}
			if len(foreigns) < 3 {
				foreigns = append(foreigns, f)
			} else {
				foreigns[nForeign%3] = f
			}
			nForeign++
			foreignBuilt = true
			evals += n
			if m := others(nil); m != "" {
				return fail("%s", m)
			}
		case mDrop:
			if len(objs) < 2 {
				continue
			}
			i := mod(op.O, len(objs))
			what = "the harness drops " + objs[i].name
			objs = append(objs[:i:i], objs[i+1:]...)
			dropped = true
			lastObj = nil
		default:
			if len(objs) == 0 {
				continue
			}
			o := objs[mod(op.O, len(objs))]
			if lastObj != nil && lastObj != o {
				alternations++
			}
			lastObj = o
			reps := 0
			if k <= mContains {
				reps = mod(op.R, maxMRepeat)
			}
			for j := 0; j <= reps; j++ {
				if m := call(o, k, op.A+j*op.S, op.B); m != "" {
					if reps > 0 {
						m = fmt.Sprintf("(repeat %d) %s", j, m)
					}
					return fail("%s", m)
				}
				if m := others(o); m != "" {
					return fail("%s", m)
				}
			}
		}
	}

	out := pbt.Outcome{Evals: evals}
	out.NonTrivial = maxAlive >= 2 && (alternations >= 2 || builtWhileOthersBig > 0)
	lab := func(cond bool, l string) {
		if cond {
			out.Labels = append(out.Labels, l)
		}
	}
	out.Labels = append(out.Labels, "order="+c.Order, "alive-at-once="+strconv.Itoa(maxAlive))
	lab(sameView, "two-sorted-over-the-same-view")
	lab(overlap, "overlapping-views")
	lab(spareInto, "view-with-spare-capacity-inside-the-arena")
	lab(rebuilt, "newsorted-in-the-middle")
	lab(replaced, "object-replaced")
	lab(dropped, "object-dropped")
	lab(gced, "gc-in-the-middle")
	lab(burst16, "more-than-2^16-newsorted-in-a-row")
	lab(scribbled, "caller-scribbles-arena")
	lab(foreignBuilt, "foreign-element-type-in-between")
	lab(keptStr, "string-kept-and-reread")
	lab(builtWhileOthersBig > 0, "built>16-while-another>16-alive")
	lab(builtWhileOthersBig > 2, "built>16-while-another>16-alive>=3x")
	lab(alternations >= 2, "alternating-objects")
	lab(alternations >= 8, "alternating-objects>=8x")
	lab(mutations >= 4, "mutations>=4")
	for _, t := range []int{16, 32, 64, 128, 256, 512, 1024, 2048, 4096, 8192} {
		if maxSize > t {
			out.Labels = append(out.Labels, "maxsize>"+strconv.Itoa(t))
		}
	}
	return out
}

// buildForeign builds a Sorted over n values conv((seed + i*7919) mod (n/2+1)) and checks it against the sorted input.
func buildForeign[F interface {
	comparable
	~int | ~string
}](n, seed int, conv func(int) F, name string) (foreign, string) {
	in := make([]F, n)
	for i := range in {
		in[i] = conv(mod(seed+i*7919, n/2+1))
	}
	want := append([]F(nil), in...)
	sort.Slice(want, func(i, j int) bool { return want[i] < want[j] })
	keep := append([]F(nil), in...)
	f := &fobj[F]{s: slices.NewSortedOrdered(in...), want: want, name: name}
	if !eq(in, keep) {
		return nil, "the input slice was changed by NewSortedOrdered"
	}
	return f, f.check()
}

// ---- generators

// multiSizes: object sizes; every band between two powers of two is hit at its ends and inside.
var multiSizes = []int{0, 1, 2, 3, 5, 8, 12, 15, 16, 17, 18, 20, 21, 24, 28, 31, 32, 33, 40, 48, 63, 64, 65, 66, 80, 96, 100, 127, 128, 129,
	160, 192, 255, 256, 257, 300, 384, 511, 512, 513, 640, 768, 1023, 1024, 1025, 1500, 2047, 2048, 2049}
var multiSizesThorough = append(append([]int{}, multiSizes...), 3000, 4095, 4096, 4097, 6000, 8191, 8192, 8193)

var multiKinds = []int{
	mAdd, mAdd, mAdd, mAdd, mRemove, mRemove, mRemove, mRemoveAt, mRemoveAt, mGet, mIndex, mContains, mLen, mString, mString, mSweep, mSweep,
	mNew, mNew, mNew, mNew, mNew, mScribble, mForeign, mDrop,
}

// multiKindsGC: for one case in five (a collection costs as much as thousands of calls, far more on a busy machine).
var multiKindsGC = append(append([]int{}, multiKinds...), mGC, mGC)

func genMulti(t *rapid.T, sizes []int, procs []int) MCase {
	c := MCase{Order: rapid.SampledFrom(allOrders).Draw(t, "order"), Vals: rapid.SampledFrom(bigVals).Draw(t, "vals"),
		Procs: rapid.SampledFrom(procs).Draw(t, "procs")}
	size := rapid.SampledFrom(sizes)
	nObj := rapid.IntRange(1, 4).Draw(t, "nobj")
	ns := make([]int, nObj)
	maxN := 0
	for i := range ns {
		ns[i] = size.Draw(t, "size")
		if ns[i] > maxN {
			maxN = ns[i]
		}
	}
	// the arena: explicit values plus one or two runs, at least as long as the biggest object
	c.Init = rapid.SliceOfN(rapid.IntRange(0, 300), 0, 4).Draw(t, "init")
	if c.Init == nil {
		c.Init = []int{}
	}
	extra := rapid.SampledFrom([]int{0, 0, 1, 7, 40, 300}).Draw(t, "extra")
	c.Arena = []Fill{{N: maxN, A: rapid.IntRange(0, 300).Draw(t, "a"), S: rapid.SampledFrom(bigStrides).Draw(t, "s")}}
	if extra > 0 {
		c.Arena = append(c.Arena, Fill{N: extra, A: rapid.IntRange(0, 300).Draw(t, "a2"), S: rapid.SampledFrom(bigStrides).Draw(t, "s2")})
	}
	L := len(c.Init) + maxN + extra
	view := func(n int) View {
		if n > L {
			n = L
		}
		v := View{N: n, Off: rapid.IntRange(0, L-n).Draw(t, "off")}
		v.Spare = rapid.SampledFrom([]int{0, 0, 1, 3, 1 << 20}).Draw(t, "spare") // reduced modulo what is left of the arena
		return v
	}
	for _, n := range ns {
		c.Objs = append(c.Objs, view(n))
	}
	kinds := multiKinds
	if rapid.IntRange(0, 4).Draw(t, "withgc") == 4 {
		kinds = multiKindsGC
	}
	opGen := rapid.Custom(func(t *rapid.T) MOp {
		op := MOp{O: rapid.IntRange(0, maxObjs-1).Draw(t, "o"), K: rapid.SampledFrom(kinds).Draw(t, "k"), A: rapid.IntRange(0, 300).Draw(t, "a")}
		switch op.K {
		case mRemoveAt, mGet:
			op.B = rapid.SampledFrom(modeTable).Draw(t, "mode")
		case mScribble:
			op.B = rapid.IntRange(0, 300).Draw(t, "b")
			op.A = rapid.IntRange(0, L).Draw(t, "pos")
		case mNew:
			var v View
			if again := rapid.IntRange(0, 4*len(c.Objs)-1).Draw(t, "sameview"); again < len(c.Objs) {
				v = c.Objs[again] // one in four: exactly the view an initial object was built from
			} else {
				v = view(size.Draw(t, "newsize"))
			}
			op.A, op.B, op.S = v.Off, v.N, v.Spare
		case mForeign:
			op.A = size.Draw(t, "foreignsize")
			op.B = rapid.IntRange(0, 300).Draw(t, "b")
		}
		if op.K <= mContains {
			op.R = rapid.SampledFrom([]int{0, 0, 0, 0, 0, 1, 2, 5, 17, 40}).Draw(t, "r")
			if op.R > 0 {
				op.S = rapid.SampledFrom([]int{0, 1, -1, 3, 7, 13}).Draw(t, "s")
			}
		}
		return op
	})
	c.Ops = pbt.OpsOf(t, opGen, []int{0, 3, 8, 14}, "ops")
	if c.Ops == nil {
		c.Ops = []MOp{}
	}
	return c
}

const ruleMulti = "SEVERAL Sorted values of one element type alive at once (up to 5), all built by NewSorted/NewSortedOrdered from views arena[off:off+n:off+n+spare] of ONE caller-owned buffer " +
	"(any position, overlapping, identical, spare capacity reaching into other views' values); steps: Add/Remove/RemoveAt/Get/Index/Contains (repeatable up to 64 times with a stride)/Len/String/Sweep on one of the objects, " +
	"NewSorted of a further object in the middle (replacing one when 5 are alive; one in four over exactly the view of an earlier object), bursts of up to 2^17 NewSorted calls in a row (enumerated unit), dropping an object, runtime.GC() once or twice, the caller overwriting a position of its buffer, construction of a Sorted of ANOTHER element type (kept alive); " +
	"the call itself is checked as in the single-object units (return values, sortedness, exact multiset, exact position removed, panics outside [0,Len)); " +
	"after the construction of each object and after EVERY step ALL other live objects are read back through Len+Get and must be exactly what they were, every string returned by String() earlier must still read the same, and the caller's buffer must be unchanged. "

const ruleMultiNT = "non-trivial = at least two objects alive at once and (consecutive calls went to different objects at least twice, or a Sorted of more than 16 values was built while another of more than 16 values was alive)"

var multiProcs = []int{0, 0, 0, 0, 0, 0, 1, 1, 2, 3, 5, 6, 7, 16}

var specMulti = pbt.Register(&pbt.Spec[MCase]{
	Property: "C07", Name: "C07.multi",
	Rule: "rapid: " + ruleMulti + "Object sizes drawn from 0..33 densely and the ends and the inside of every band between powers of two up to 2049 (thorough: 8193), 1..4 initial objects, 0..34 steps (one in five a further NewSorted; in one case of five, two steps in 27 are garbage collections), all 15 orders/element types, " +
		"Vals in {1,2,3,7,30,300,5000}, GOMAXPROCS 4 (process default, plan.json) or 1, 2, 3, 5, 6, 7, 16. " + ruleMultiNT,
	Gen: func(t *rapid.T) MCase {
		if pbt.GetEnv().Tier == "thorough" {
			return genMulti(t, multiSizesThorough, multiProcs)
		}
		return genMulti(t, multiSizes, multiProcs)
	},
	Run: RunMulti, Quick: 3000, Thorough: 12000,
})

// ---- enumerated pairs

// pairSizes: the size of the first object.
func pairSizes(tier string) []int {
	out := []int{0, 1, 2, 8, 15, 16, 17, 18, 20, 21, 24}
	top := 4096
	if tier == "thorough" {
		top = 16384
	}
	for p := 32; p <= top; p *= 2 {
		out = append(out, p-1, p, p+1, p+p/2)
	}
	return out
}

// pairCases: for every first size n1 and every second size n2 in {n1, n1-1, n1+1, n1/2, n1/2+1, 17, 33, 2*n1, 3}:
// A over n1 values, B over n2 values, [a foreign-type Sorted in between], alternating calls, C over n2 values, D over
// n1 values, a GC, a write of the caller into A's view, E over exactly A's view, a double GC, F over n2 values; sweeps
// of every object in between. At the end: per order one case with 2^16+300 NewSorted calls in a row while two others live.
// gcOp: a garbage collection (twice when a is odd) in every third case, a Len() otherwise.
func gcOp(k, a int) MOp {
	if k%3 == 0 {
		return MOp{K: mGC, A: a}
	}
	return MOp{K: mLen}
}

func pairCases(tier string, yield func(MCase) bool) {
	k := 0
	for _, n1 := range pairSizes(tier) {
		seen := map[int]bool{}
		for _, n2 := range []int{n1, n1 - 1, n1 + 1, n1 / 2, n1/2 + 1, 17, 33, 2 * n1, 3} {
			if n2 < 0 || seen[n2] {
				continue
			}
			seen[n2] = true
			for rot := 0; rot < 2; rot++ {
				k++
				order := allOrders[(k*7+rot)%len(allOrders)]
				p := patterns[(k*3+rot)%len(patterns)]
				big := n1
				if n2 > big {
					big = n2
				}
				a, s, vals := p.f(big)
				L := big + 9
				c := MCase{Order: order, Vals: vals, Procs: enumProcs[k%len(enumProcs)], Init: []int{}, Arena: []Fill{{N: L, A: a, S: s}}}
				offB := (k * 5) % (L - n2 + 1)
				offA := k % (L - n1 + 1)
				c.Objs = []View{{Off: offA, N: n1, Spare: rot}, {Off: offB, N: n2, Spare: 1 << 20 * rot}}
				ops := []MOp{}
				if k%3 == 0 {
					ops = append(ops, MOp{K: mForeign, A: n2, B: k})
				}
				ops = append(ops,
					MOp{O: 0, K: mString}, MOp{O: 1, K: mString},
					MOp{O: 0, K: mAdd, A: a + 1, S: 5, R: 2}, MOp{O: 1, K: mAdd, A: a + 2, S: 3, R: 2},
					MOp{O: 0, K: mSweep, A: 1}, MOp{O: 1, K: mSweep, A: 2},
					MOp{O: 0, K: mRemove, A: a, S: 7, R: 3}, MOp{O: 1, K: mRemoveAt, A: 1, B: 0, R: 1},
					MOp{K: mNew, A: offB / 2, B: n2, S: 0}, // C
					MOp{O: 2, K: mAdd, A: a + 3}, MOp{O: 0, K: mSweep}, MOp{O: 1, K: mSweep}, MOp{O: 2, K: mSweep},
					MOp{K: mNew, A: 1, B: n1, S: 2}, // D
					MOp{O: 3, K: mRemoveAt, B: 7}, MOp{O: 0, K: mAdd, A: a + 4},
					gcOp(k, 0),
					MOp{K: mScribble, A: offA + n1/2, B: a + 9},
					MOp{K: mNew, A: offA, B: n1, S: rot}, // E: exactly the view of A, whose middle value the caller has just replaced
					MOp{O: 4, K: mSweep, A: 3}, MOp{O: 1, K: mString},
					gcOp(k+1, 1),
					MOp{O: k, K: mNew, A: 2, B: n2, S: 1}, // F replaces one of the five
					MOp{O: 0, K: mSweep}, MOp{O: 1, K: mSweep}, MOp{O: 2, K: mSweep}, MOp{O: 3, K: mSweep}, MOp{O: 4, K: mSweep},
				)
				c.Ops = ops
				if !yield(c) {
					return
				}
			}
		}
	}
	// bursts: more than 2^16 constructions in one process state, two other objects alive all the time
	for i, o := range []string{"int", "str", "desc", "weak", "float", "lex", "ifdesc", "unit"} {
		if tier != "thorough" && i >= 4 {
			break
		}
		c := MCase{Order: o, Vals: 40, Procs: enumProcs[i%len(enumProcs)], Init: []int{}, Arena: []Fill{{N: 200, A: 3, S: 7919}},
			Objs: []View{{Off: 0, N: 40}, {Off: 20, N: 100}},
			Ops: []MOp{{K: mBurst, A: 5, B: 3 + 14*(i%2), R: 1<<16 + 300}, {O: 0, K: mSweep}, {O: 1, K: mSweep}, {O: 2, K: mSweep},
				{O: 0, K: mAdd, A: 3}, {K: mNew, A: 0, B: 100}, {O: 3, K: mSweep}}}
		if !yield(c) {
			return
		}
		// the same with a sliding view: the constructions 2^16-1, 2^16 and 2^16+1 calls after a given one see the same
		// data again (the offsets repeat with period L-N+1 = 2^13 or 2^12), every other one in between sees other data
		if tier != "thorough" && i >= 2 {
			continue
		}
		n := 3 + 14*(i%2)
		L := 1<<(13-i%2) + n - 1
		c = MCase{Order: o, Vals: 5000, Procs: enumProcs[(i+3)%len(enumProcs)], Init: []int{}, Arena: []Fill{{N: L, A: 3, S: 7919}},
			Objs: []View{{Off: 0, N: 40}, {Off: 20, N: 100}},
			Ops: []MOp{{K: mBurst, A: 5, B: n, S: 1, R: 1<<16 + 300}, {O: 0, K: mSweep}, {O: 1, K: mSweep}, {O: 2, K: mSweep},
				{K: mBurst, A: 9, B: n, S: 7, R: 1<<16 + 2}, {O: 0, K: mAdd, A: 3}, {K: mNew, A: 0, B: 100}, {O: 3, K: mSweep}}}
		if !yield(c) {
			return
		}
	}
}

var specPairs = pbt.Register(&pbt.Spec[MCase]{
	Property: "C07", Name: "C07.pairs",
	Rule: "enumerated: " + ruleMulti + "For every first size n1 in {0,1,2,8,15,16,17,18,20,21,24} and {p-1,p,p+1,1.5p : p = 32..4096} (thorough: ..16384) and every second size n2 in {n1, n1-1, n1+1, n1/2, n1/2+1, 17, 33, 2*n1, 3}, with two orders/value patterns each: " +
		"A over n1 values, B over n2 values, (every third case: a Sorted of another element type), kept Strings, alternating Adds/Removes/Sweeps on A and B, C over n2 values, D over n1 values, (every third case) GC, the caller overwrites the middle of A's view, E over exactly A's view, (every third case) double GC, F over n2 values replacing one of the five, sweeps of all five; GOMAXPROCS 4 (process default)/1/2/3/5/6/7/12/16 in rotation; plus four cases (thorough eight) with 2^16+301 NewSorted calls in a row over 3 or 17 values while two other objects are alive, and two (thorough eight) in which the view of those calls slides over an arena of 2^13 or 2^12 positions (stride 1, then stride 7), so that a construction sees other data than the ones before it and the same data as the one 2^13 (2^12) calls earlier. " + ruleMultiNT,
	Enum: func(shard, shards int, tier string, yield func(MCase) bool) {
		i := 0
		pairCases(tier, func(c MCase) bool {
			i++
			if shards > 1 && i%shards != shard {
				return true
			}
			return yield(c)
		})
	},
	Run: RunMulti,
})

// ---- independent histories running concurrently

// CCase: each history runs in a goroutine of its own on objects of its own; nothing is shared between them.
type CCase struct {
	Procs int     `json:"procs,omitempty"`
	Hist  []MCase `json:"hist"`
}

func RunConc(c CCase) pbt.Outcome {
	return withProcs(c.Procs, func() pbt.Outcome {
		outs := make([]pbt.Outcome, len(c.Hist))
		var wg sync.WaitGroup
		start := make(chan struct{})
		for i := range c.Hist {
			wg.Add(1)
			go func(i int) {
				defer wg.Done()
				defer func() {
					if p := recover(); p != nil {
						outs[i] = pbt.Fail("unexpected panic: %v", p)
					}
				}()
				<-start
				outs[i] = runMultiAny(c.Hist[i])
			}(i)
		}
		close(start)
		wg.Wait()
		out := pbt.Outcome{NonTrivial: len(c.Hist) >= 2, Labels: []string{"goroutines=" + strconv.Itoa(len(c.Hist)), procsLabel(c.Procs)}}
		same := len(c.Hist) >= 2
		for i, o := range outs {
			if o.Violation != "" {
				return pbt.Fail("history %d of %d independent histories running concurrently (each in its own goroutine on its own Sorted values and its own buffer): %s", i, len(outs), o.Violation)
			}
			out.Evals += o.Evals
			if c.Hist[i].Order != c.Hist[0].Order {
				same = false
			}
		}
		if same {
			out.Labels = append(out.Labels, "all-histories-same-order")
		}
		return out
	})
}

var specConc = pbt.Register(&pbt.Spec[CCase]{
	Property: "C07", Name: "C07.conc",
	Rule: "rapid: 2..4 INDEPENDENT multi-object histories (as in C07.multi; half of the cases: all over the same order/element type) started together, each in a goroutine of its own on its own Sorted values and its own caller buffer: " +
		"every single history must satisfy everything C07.multi checks (no data is shared between the histories, so no interleaving can excuse a difference); GOMAXPROCS 4 (process default), 2, 3, 7 or 16. " +
		"non-trivial = at least two histories",
	Gen: func(t *rapid.T) CCase {
		c := CCase{Procs: rapid.SampledFrom([]int{0, 0, 2, 3, 7, 16}).Draw(t, "procs")}
		n := rapid.IntRange(2, 4).Draw(t, "goroutines")
		same := rapid.Bool().Draw(t, "sameorder")
		for i := 0; i < n; i++ {
			h := genMulti(t, multiSizes, []int{0})
			if same && i > 0 {
				h.Order = c.Hist[0].Order
			}
			c.Hist = append(c.Hist, h)
		}
		return c
	},
	Run: RunConc, Quick: 600, Thorough: 4000, Retries: 5,
})

func TestC07Multi(t *testing.T) { pbt.Check(t, specMulti) }
func TestC07Pairs(t *testing.T) { pbt.Check(t, specPairs) }
func TestC07Conc(t *testing.T)  { pbt.Check(t, specConc) }
