package c07

import (
	"fmt"
	"runtime"
	"runtime/debug"
	"sort"
	"syscall"
	"testing"
	"time"
	"unsafe"

	"gopkg.in/typ.v4/slices"
	"verifharness/internal/pbt"
)

// ---- stack

//go:noinline
func growStack(depth int, pad [8]uint64) uint64 {
	if depth == 0 {
		return pad[0]
	}
	pad[depth&7] += uint64(depth)
	return growStack(depth-1, pad) + pad[(depth+1)&7]
}

var stackSink uint64

// stackInts runs the scenario on a goroutine of its own (a fresh, small stack). Nothing here may hand arr (or a slice
// of it) to fmt or store it anywhere: it has to stay a stack variable of this function.
//
//go:noinline
func stackInts(off, n, depth int, desc bool) (msg string) {
	var arr [1024]int
	for i := range arr {
		arr[i] = (i*7919 + 5) % 1543
	}
	less := func(a, b int) bool { return a < b }
	var s slices.Sorted[int]
	if desc {
		less = func(a, b int) bool { return a > b }
		s = slices.NewSorted(arr[off:off+n], less)
	} else {
		s = slices.NewSortedOrdered(arr[off : off+n]...)
	}
	model := make([]int, n)
	for i := range model {
		model[i] = ((off+i)*7919 + 5) % 1543
	}
	sort.SliceStable(model, func(i, j int) bool { return less(model[i], model[j]) })
	check := func(when string) string {
		if l := s.Len(); l != len(model) {
			return fmt.Sprintf("%s: Len() = %d, want %d", when, l, len(model))
		}
		for i, w := range model {
			if g := s.Get(i); g != w {
				return fmt.Sprintf("%s: Get(%d) = %d, want %d", when, i, g, w)
			}
		}
		return ""
	}
	if m := check("right after NewSorted"); m != "" {
		return m
	}
	stackSink += growStack(depth, [8]uint64{1, 2, 3}) // the goroutine's stack is reallocated (and arr moves with it)
	var wgo [4]chan uint64
	for i := range wgo { // other goroutines take over the freed stack memory
		wgo[i] = make(chan uint64, 1)
		go func(c chan uint64, i int) { c <- growStack(depth/2+i, [8]uint64{9, 9, 9, 9, 9, 9, 9, 9}) }(wgo[i], i)
	}
	for i := range wgo {
		stackSink += <-wgo[i]
	}
	if m := check("after the caller's stack has grown (a deep recursion) - the input was a local array of the caller"); m != "" {
		return m
	}
	for i := range arr {
		if w := (i*7919 + 5) % 1543; arr[i] != w {
			return fmt.Sprintf("the caller's local array changed at position %d: %d, want %d (the input was positions %d..%d)", i, arr[i], w, off, off+n-1)
		}
	}
	for i := range arr {
		arr[i] = -7
	}
	runtime.GC()
	if m := check("after the caller has overwritten its local array (the input) and a garbage collection"); m != "" {
		return m
	}
	p := s.Add(-7)
	lb := sort.Search(len(model), func(k int) bool { return !less(model[k], -7) })
	if p != lb {
		return fmt.Sprintf("Add(-7) = %d, want %d", p, lb)
	}
	model = append(model[:lb], append([]int{-7}, model[lb:]...)...)
	if n > 0 {
		s.RemoveAt(len(model) / 2)
		model = without(model, len(model)/2)
	}
	stackSink += growStack(depth*2, [8]uint64{4})
	return check("after Add, RemoveAt and a second stack growth")
}

//go:noinline
func stackKT(off, n, depth int) (msg string) {
	var arr [256]kt
	for i := range arr {
		arr[i] = kt{(i * 37) % 101, i}
	}
	less := func(a, b kt) bool { return a.K < b.K || (a.K == b.K && a.T < b.T) }
	s := slices.NewSorted(arr[off:off+n], less)
	model := make([]kt, n)
	for i := range model {
		model[i] = kt{((off + i) * 37) % 101, off + i}
	}
	sort.SliceStable(model, func(i, j int) bool { return less(model[i], model[j]) })
	stackSink += growStack(depth, [8]uint64{1})
	for i := range arr {
		arr[i] = kt{-1, -1}
	}
	stackSink += growStack(depth*2, [8]uint64{2})
	if l := s.Len(); l != n {
		return fmt.Sprintf("Len() = %d, want %d", l, n)
	}
	for i, w := range model {
		if g := s.Get(i); g != w {
			return fmt.Sprintf("after the caller's stack has grown and its local array (the input) was overwritten: Get(%d) = %v, want %v", i, g, w)
		}
		if g := s.Index(w); g != i {
			return fmt.Sprintf("after the caller's stack has grown: Index(%v) = %d, want %d", w, g, i)
		}
	}
	return ""
}

func runStack(c XCase) (string, []string) {
	depth := 200 + mod(c.K, 1<<16)
	ch := make(chan string, 1)
	go func() {
		defer func() {
			if p := recover(); p != nil {
				ch <- fmt.Sprintf("panic: %v", p)
			}
		}()
		switch c.Order {
		case "int", "desc":
			n := mod(c.N, 1025)
			off := mod(c.Loops, 1024-n+1)
			ch <- stackInts(off, n, depth, c.Order == "desc")
		default:
			n := mod(c.N, 257)
			off := mod(c.Loops, 256-n+1)
			ch <- stackKT(off, n, depth)
		}
	}()
	if m := <-ch; m != "" {
		return fmt.Sprintf("NewSorted over part of a local fixed-size array of the caller (order %s, n=%d): %s", c.Order, c.N, m), nil
	}
	return "", []string{"order=" + c.Order}
}

// ---- fence

// fenced maps three pages [no access][read-write][no access] and returns the middle one.
func fenced() (all, mid []byte, err error) {
	ps := syscall.Getpagesize()
	all, err = syscall.Mmap(-1, 0, 3*ps, syscall.PROT_READ|syscall.PROT_WRITE, syscall.MAP_ANON|syscall.MAP_PRIVATE)
	if err != nil {
		return nil, nil, err
	}
	if err = syscall.Mprotect(all[:ps], syscall.PROT_NONE); err == nil {
		err = syscall.Mprotect(all[2*ps:], syscall.PROT_NONE)
	}
	if err != nil {
		syscall.Munmap(all)
		return nil, nil, err
	}
	return all, all[ps : 2*ps], nil
}

// fenceScenario: n values of the pointer-free type E placed at the end (where = 0), at the beginning (1) or, with
// spare capacity up to the end, spare values before the end (2) of the readable page.
func fenceScenario[E comparable](n, where int, elem func(i int) E, less func(a, b E) bool, build func([]E) slices.Sorted[E]) (msg string) {
	all, mid, err := fenced()
	if err != nil {
		return "" // no such mapping on this system: nothing to decide
	}
	mapped := true
	defer func() {
		if mapped {
			syscall.Munmap(all)
		}
	}()
	var z E
	size := int(unsafe.Sizeof(z))
	max := len(mid)
	if size > 0 {
		max = len(mid) / size
	}
	if n > max {
		n = max
	}
	if n == 0 {
		return ""
	}
	start, capE := len(mid)-n*size, n
	switch where {
	case 1:
		start = 0
	case 2:
		spare := 3
		if n+spare > max {
			spare = 0
		}
		start, capE = len(mid)-(n+spare)*size, n+spare
	}
	in := unsafe.Slice((*E)(unsafe.Add(unsafe.Pointer(&mid[0]), start)), capE)[:n]
	model := make([]E, n)
	for i := range in {
		in[i] = elem(i)
		model[i] = in[i]
	}
	sort.SliceStable(model, func(i, j int) bool { return less(model[i], model[j]) })
	place := []string{"ending exactly at the end of readable memory (the next page is not accessible)", "starting exactly at the beginning of readable memory (the page before is not accessible)", "with 3 values of spare capacity that end exactly at the end of readable memory"}[where]
	defer debug.SetPanicOnFault(debug.SetPanicOnFault(true))
	defer func() {
		if p := recover(); p != nil {
			msg = fmt.Sprintf("NewSorted over %d values of %d bytes %s, or a later call on the result after the input has been unmapped, faulted or panicked: %v", n, size, place, p)
		}
	}()
	s := build(in)
	check := func(when string) string {
		if l := s.Len(); l != len(model) {
			return fmt.Sprintf("%s: Len() = %d, want %d", when, l, len(model))
		}
		for i, w := range model {
			if g := s.Get(i); g != w {
				return fmt.Sprintf("%s: Get(%d) = %v, want %v", when, i, g, w)
			}
		}
		return ""
	}
	if m := check("after NewSorted over " + fmt.Sprint(n) + " values " + place); m != "" {
		return m
	}
	for i := range in {
		if in[i] != elem(i) {
			return fmt.Sprintf("NewSorted changed position %d of the caller's slice", i)
		}
	}
	// the input goes away altogether: the Sorted has its own copy
	mapped = false
	if err := syscall.Munmap(all); err != nil {
		return ""
	}
	v := elem(n / 2)
	lb := sort.Search(len(model), func(k int) bool { return !less(model[k], v) })
	if p := s.Add(v); p < lb || p > lb+count(model, v) || s.Get(p) != v {
		return fmt.Sprintf("after the caller has unmapped its input: Add(%v) = %d, want %d", v, p, lb)
	}
	model = append(model[:lb], append([]E{v}, model[lb:]...)...)
	if m := check("after the caller has unmapped its input and an Add"); m != "" {
		return m
	}
	if g := s.Index(model[len(model)-1]); g != firstIndex(model, model[len(model)-1]) {
		return fmt.Sprintf("after the caller has unmapped its input: Index(%v) = %d, want %d", model[len(model)-1], g, firstIndex(model, model[len(model)-1]))
	}
	s.RemoveAt(0)
	model = model[1:]
	if g, w := s.String(), fmt.Sprint(model); g != w {
		return fmt.Sprintf("after the caller has unmapped its input: String() = %s, want %s", clip(g), clip(w))
	}
	return check("after the caller has unmapped its input, Add and RemoveAt(0)")
}

func runFence(c XCase) (string, []string) {
	n, where := mod(c.N, 1<<13), mod(c.K, 3)
	labels := []string{"order=" + c.Order, "where=" + []string{"end", "begin", "spare-to-end"}[where]}
	switch c.Order {
	case "u8":
		return fenceScenario(n, where, func(i int) uint8 { return uint8(i*37 + 11) }, func(a, b uint8) bool { return a < b }, func(v []uint8) slices.Sorted[uint8] { return slices.NewSortedOrdered(v...) }), labels
	case "u32":
		return fenceScenario(n, where, func(i int) uint32 { return uint32(i*7919+3) % 1000 }, func(a, b uint32) bool { return a > b }, func(v []uint32) slices.Sorted[uint32] {
			return slices.NewSorted(v, func(a, b uint32) bool { return a > b })
		}), labels
	case "int":
		return fenceScenario(n, where, func(i int) int { return (i*104729 + 1) % 513 }, func(a, b int) bool { return a < b }, func(v []int) slices.Sorted[int] { return slices.NewSortedOrdered(v...) }), labels
	case "lex":
		lex := func(a, b kt) bool { return a.K < b.K || (a.K == b.K && a.T < b.T) }
		return fenceScenario(n, where, func(i int) kt { return kt{(i * 37) % 11, (i * 7) % 5} }, lex, func(v []kt) slices.Sorted[kt] { return slices.NewSorted(v, lex) }), labels
	case "unit":
		never := func(a, b struct{}) bool { return false }
		return fenceScenario(n, where, func(i int) struct{} { return struct{}{} }, never, func(v []struct{}) slices.Sorted[struct{}] { return slices.NewSorted(v, never) }), labels
	}
	return fmt.Sprintf("malformed case: order %q", c.Order), nil
}

// ---- zero-size values in astronomic numbers

type zstSentinel struct{ calls int }

// zstLen: 2^k + off, k in 0..62.
func zstLen(k, off int) int {
	k = mod(k, 63)
	off = mod(off+1024, 2049) - 1024
	l := 1<<uint(k) + off
	if l < 0 {
		l = 0
	}
	return l
}

func runZstAbort(c XCase) (string, []string) {
	l := zstLen(c.K, c.N)
	abortAt := 300 + mod(c.Loops, 1000)
	sentinel := &zstSentinel{}
	calls := 0
	less := func(a, b struct{}) bool {
		calls++
		if calls == abortAt {
			sentinel.calls = calls
			panic(sentinel)
		}
		return false
	}
	pre := fmt.Sprintf("NewSorted over make([]struct{}, 2^%d%+d) with a less function that panics with a sentinel at its call number %d", mod(c.K, 63), l-1<<uint(mod(c.K, 63)), abortAt)
	var s slices.Sorted[struct{}]
	p, pv := try(func() { s = slices.NewSorted(make([]struct{}, l), less) })
	switch {
	case p && pv != any(sentinel):
		return fmt.Sprintf("%s: panicked with %v after %d calls of less (no call of less had panicked yet)", pre, pv, calls), nil
	case !p:
		if g := s.Len(); g != l {
			return fmt.Sprintf("%s: returned after %d calls of less with Len() = %d", pre, calls, g), nil
		}
	}
	// an independent construction afterwards
	calls = -1 << 40
	t := slices.NewSorted(make([]struct{}, 70), less)
	if g := t.Len(); g != 70 {
		return fmt.Sprintf("%s (recovered); then NewSorted over 70 zero-size values: Len() = %d", pre, g), nil
	}
	if g := t.Add(struct{}{}); g < 0 || g > 70 || t.Len() != 71 || t.Index(struct{}{}) != 0 {
		return fmt.Sprintf("%s (recovered); then NewSorted over 70 zero-size values: Add = %d, Len() = %d, Index = %d", pre, g, t.Len(), t.Index(struct{}{})), nil
	}
	u := slices.NewSortedOrdered(5, 3, 9, 1)
	if g := u.String(); g != "[1 3 5 9]" {
		return fmt.Sprintf("%s (recovered); then NewSortedOrdered(5, 3, 9, 1).String() = %s", pre, g), nil
	}
	return "", []string{fmt.Sprintf("zero-size-values>=2^%d", mod(c.K, 63)), fmt.Sprintf("aborted=%v", p)}
}

// ---- the unit

func exoticCases(tier string, yield func(XCase) bool) {
	var list []XCase
	// string lengths 2^k-1, 2^k, 2^k+1 for k = 12..17 (thorough 10..17 and +-2)
	ds := []int{-1, 0, 1}
	lo := 12
	if tier == "thorough" {
		ds, lo = []int{-2, -1, 0, 1, 2}, 10
	}
	i := 0
	for k := lo; k <= 17; k++ {
		for _, d := range ds {
			i++
			loops := 4 + 1<<17>>uint(k) // an eighth of a megabyte of output and four calls more (thorough: four times that)
			if tier == "thorough" {
				loops *= 4
			}
			list = append(list, XCase{Kind: "string", Order: []string{"int", "str", "desc", "u8"}[i%4], N: 1<<uint(k) + d, K: i, Loops: loops})
			if d == 0 {
				list = append(list, XCase{Kind: "string", Order: []string{"int", "str", "desc", "u8"}[(i+1)%4], N: 1 << uint(k), K: i + 1, Loops: loops})
			}
		}
	}
	list = append(list, XCase{Kind: "string", Order: "int", N: 64, K: 1, Loops: 6000}, XCase{Kind: "string", Order: "str", N: 200, K: 2, Loops: 6000})
	for _, n := range []int{0, 3, 17, 64, 300} {
		list = append(list, XCase{Kind: "twins", N: n, Loops: 3000})
	}
	for j, n := range []int{1, 8, 64, 255, 256, 1000, 1024} {
		for _, depth := range []int{300, 5000, 60000} {
			list = append(list, XCase{Kind: "stack", Order: []string{"int", "desc", "lex"}[(j+depth)%3], N: n, K: depth, Loops: j * 131})
		}
	}
	for j, o := range []string{"u8", "u32", "int", "lex", "unit"} {
		for _, n := range []int{1, 2, 3, 7, 8, 15, 16, 17, 31, 32, 33, 64, 100, 255, 256, 257, 511, 512, 1000, 1024, 4095, 4096} {
			for where := 0; where < 3; where++ {
				if tier != "thorough" && (n+where+j)%2 == 1 && n > 33 {
					continue
				}
				list = append(list, XCase{Kind: "fence", Order: o, N: n, K: where})
			}
		}
	}
	for _, k := range []int{31, 32, 33, 40, 62, 20, 16} {
		for _, off := range []int{-1, 0, 1, 5} {
			list = append(list, XCase{Kind: "zstabort", K: k, N: off, Loops: k*7 + off})
		}
	}
	for _, c := range list {
		if !yield(c) {
			return
		}
	}
}

var specExotic = pbt.Register(&pbt.Spec[XCase]{
	Property: "C07", Name: "C07.exotic",
	Rule: "enumerated special situations, each also run as 4 parallel independent copies: (string) two Sorted values over int / descending int / uint8 / string whose String() is exactly 2^k-1, 2^k, 2^k+1 bytes long for k = 12..17 (thorough 10..17, +-2): every result is compared with fmt.Sprint of the model and read AGAIN after String() of the other object, after an Add, and after each call of a tight loop of alternating String() calls (an eighth of a megabyte per object plus four calls, thorough four times that; 6000 calls for two short ones); " +
		"(twins) three element types that are all called job (function-local struct types of 24, 8 and 3 bytes) in Sorted values of 0..302 values used alternately for 3000 steps each (Add/Index/Contains/Remove/RemoveAt/String, full read-back after every step, a GC in the middle), then four fresh ones each in a goroutine of its own; " +
		"(stack) the input is a part (1..1024 values at some offset) of a LOCAL [1024]int or [256]struct array of a fresh goroutine; the Sorted is read back after a recursion 300, 5000 or 60000 frames deep has moved the stack and other goroutines have reused the memory, after the array has been overwritten and a GC, after Add/RemoveAt and a second growth; " +
		"(fence) the input of 1..4096 values of 0, 1, 4, 8 and 16 bytes ends exactly at the end of a readable page followed by an inaccessible one, or starts at the beginning of one preceded by an inaccessible one, or has spare capacity ending there; faults are turned into panics (debug.SetPanicOnFault); after NewSorted the whole mapping is unmapped and the Sorted used on (Add, Index, RemoveAt, String, read-back); " +
		"(zstabort) NewSorted over make([]struct{}, 2^k+d) for k = 16, 20, 31, 32, 33, 40, 62 and d = -1, 0, 1, 5 with a less function that panics with a sentinel at its call number 300..1300: only that sentinel may come out; then independent constructions must work. non-trivial = every case",
	Enum: func(shard, shards int, tier string, yield func(XCase) bool) {
		i := 0
		exoticCases(tier, func(c XCase) bool {
			i++
			if shards > 1 && i%shards != shard {
				return true
			}
			return yield(c)
		})
	},
	Run: RunX, CaseCPU: 120 * time.Second, Crashy: true, Replicas: 4, ReplicaEvery: 1,
})

// ---- ZST (thorough only): a complete Sorted of more than 2^31 zero-size values

// ZCase: NewSorted over make([]struct{}, 2^K + N) (all values are equal; less is always false), then calls at both ends.
type ZCase struct {
	K int `json:"k"`
	N int `json:"n"`
}

func RunZst(c ZCase) pbt.Outcome {
	k := mod(c.K, 34)
	l := zstLen(k, c.N)
	never := func(a, b struct{}) bool { return false }
	s := slices.NewSorted(make([]struct{}, l), never)
	pre := fmt.Sprintf("NewSorted over make([]struct{}, %d) (all values equal)", l)
	want := l
	chk := func(what string) string {
		if g := s.Len(); g != want {
			return fmt.Sprintf("%s: after %s: Len() = %d, want %d", pre, what, g, want)
		}
		for _, i := range []int{0, 1, want / 2, 1<<31 - 1, 1 << 31, 1<<31 + 1, 1<<32 - 1, 1 << 32, want - 2, want - 1} {
			if i >= 0 && i < want {
				if p, pv := try(func() { s.Get(i) }); p {
					return fmt.Sprintf("%s: after %s: Get(%d) panicked with Len() = %d: %v", pre, what, i, want, pv)
				}
			}
		}
		for _, i := range []int{-1, want, want + 1, -want, want + 1<<31, want + 1<<32} {
			if p, _ := try(func() { s.Get(i) }); !p {
				return fmt.Sprintf("%s: after %s: Get(%d) did not panic with Len() = %d", pre, what, i, want)
			}
			if p, _ := try(func() { s.RemoveAt(i) }); !p {
				return fmt.Sprintf("%s: after %s: RemoveAt(%d) did not panic with Len() = %d", pre, what, i, want)
			}
		}
		if want > 0 {
			if g := s.Index(struct{}{}); g != 0 {
				return fmt.Sprintf("%s: after %s: Index(struct{}{}) = %d, want 0 (the first position holding the value)", pre, what, g)
			}
			if !s.Contains(struct{}{}) {
				return fmt.Sprintf("%s: after %s: Contains(struct{}{}) = false", pre, what)
			}
		}
		return ""
	}
	if m := chk("construction"); m != "" {
		return pbt.Fail("%s", m)
	}
	for i := 0; i < 3; i++ {
		if g := s.Add(struct{}{}); g < 0 || g > want {
			return pbt.Fail("%s: Add(struct{}{}) = %d with Len() = %d", pre, g, want)
		}
		want++
		if m := chk("Add"); m != "" {
			return pbt.Fail("%s", m)
		}
	}
	s.RemoveAt(want - 1)
	want--
	if m := chk("RemoveAt(last)"); m != "" {
		return pbt.Fail("%s", m)
	}
	s.RemoveAt(0)
	want--
	if m := chk("RemoveAt(0)"); m != "" {
		return pbt.Fail("%s", m)
	}
	if g := s.Remove(struct{}{}); g < 0 || g > want {
		return pbt.Fail("%s: Remove(struct{}{}) = %d with Len() = %d", pre, g, want)
	}
	want--
	if m := chk("Remove"); m != "" {
		return pbt.Fail("%s", m)
	}
	return pbt.Outcome{NonTrivial: l > 1<<31, Evals: 1 + l>>10, Labels: []string{fmt.Sprintf("zero-size-values>2^%d", k)}}
}

var specZst = pbt.Register(&pbt.Spec[ZCase]{
	Property: "C07", Name: "C07.zst",
	Rule: "thorough only, enumerated: a COMPLETE NewSorted over make([]struct{}, n) for n = 2^31+5 and 2^32+3 (no memory; about 2^31 calls of less each, evaluations are counted in units of 1024 values), then Len, Get at both ends, around 2^31 and 2^32 and out of range, Index, Contains, three Adds, RemoveAt(last), RemoveAt(0), Remove, each followed by the same checks. non-trivial = more than 2^31 values",
	Enum: func(shard, shards int, tier string, yield func(ZCase) bool) {
		for i, c := range []ZCase{{31, 5}, {32, 3}} {
			if shards > 1 && i%shards != shard {
				continue
			}
			if !yield(c) {
				return
			}
		}
	},
	Run: RunZst, CaseCPU: 10 * time.Minute, Crashy: true,
})

func TestC07Exotic(t *testing.T) { pbt.Check(t, specExotic) }
func TestC07Zst(t *testing.T)    { pbt.Check(t, specZst) }
