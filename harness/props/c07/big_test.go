package c07

import (
	"testing"

	"pgregory.net/rapid"
	"verifharness/internal/pbt"
)

// Big histories: sizes around every power of two, reached both through NewSorted over a big input and through
// Adds from empty, drained again in several ways, with every single call checked against the model (see run).

var allOrders = append(append([]string{}, strictOrders...), weakOrders...)

// thresholds: n-1, n, n+1 around the powers of two (and 20/21: sort.Stable's insertion-sort block size).
func thresholds(from, to int) []int {
	var out []int
	for p := from; p <= to; p *= 2 {
		out = append(out, p-1, p, p+1)
	}
	return out
}

// pattern: how raw values are laid out (start, stride) and how many distinct values there are, for n values.
type pattern struct {
	name string
	f    func(n int) (a, s, vals int)
}

var patterns = []pattern{
	{"ascending-distinct", func(n int) (int, int, int) { return 0, 1, 4*n + 8 }},
	{"descending-distinct", func(n int) (int, int, int) { return n + 3, -1, 4*n + 8 }},
	{"scatter-7-values", func(n int) (int, int, int) { return 3, 37, 7 }},
	{"scatter-pairs", func(n int) (int, int, int) { return 1, 7919, n/2 + 1 }},
	{"all-equal", func(n int) (int, int, int) { return 4, 0, 7 }},
	{"two-values", func(n int) (int, int, int) { return 0, 1, 2 }},
	{"scatter-mostly-distinct", func(n int) (int, int, int) { return 5, 104729, 3*n + 1 }},
}

// drain: the removal op that is repeated until the slice is empty.
type drain struct {
	name string
	op   Op
}

var drains = []drain{
	{"removeat-front", Op{K: opRemoveAt, A: 0, B: 0}},
	{"removeat-back", Op{K: opRemoveAt, A: -1, B: 0}},
	{"removeat-middle", Op{K: opRemoveAt, B: 7}},
	{"removeat-scatter", Op{K: opRemoveAt, A: 5, B: 0, S: 7919}},
	{"remove-value-scatter", Op{K: opRemove, A: 2, S: 7919}},
	{"remove-value-ascending", Op{K: opRemove, A: 0, S: 1}},
	{"remove-value-descending", Op{K: opRemove, A: -1, S: -1}},
}

// bigShapes builds the histories for size n.
//
//	init-drain  NewSorted over n values, then [drain x r, Sweep] until empty (+ a front drain that ends on the empty slice)
//	add-drain   n Adds from the empty slice (sweeps in between), then the same
//	yoyo        n values, drained to under a quarter, grown back past n by Adds, drained to empty
//	mix         n values, then rounds of Add(v) / RemoveAt(low position) / Index(v) / Remove(w) / Index(v) / Contains(v) / Add(u) /
//	            RemoveAt(last) / Index(u) / Sweep: lookups of a just-added value after removals below and above it
//	saw         n values, rounds of 3 Adds / Sweep / 3 RemoveAt / Index: the length oscillates across n
func bigShapes(order string, n int, p pattern, d drain) []Case {
	a, s, vals := p.f(n)
	r := n / 16
	if r < 1 {
		r = 1
	}
	dr := d.op
	dr.R = r
	finish := Op{K: opRemoveAt, A: 0, B: 0, R: r}
	drainOps := []Op{dr, {K: opSweep, A: 1, S: 3}, finish, {K: opSweep, A: 2, S: 5}}
	// each round removes up to 2(r+1) elements; enough rounds to go a few calls past empty
	drainRounds := (n+2)/(2*(r+1)) + 1
	bulk := []Fill{{N: n, A: a, S: s}}

	var out []Case
	out = append(out, Case{Order: order, Vals: vals, Init: []int{}, Bulk: bulk, Spare: n % 3, Ops: drainOps, Rounds: drainRounds})

	// add-drain: phase one is expressed as rounds too, so build the two phases as one list with big repeats
	quarter := n / 4
	out = append(out, Case{Order: order, Vals: vals, Init: []int{}, Spare: 0, Ops: []Op{
		{K: opAdd, A: a, S: s, R: n/2 - 1}, {K: opSweep, A: 0}, {K: opAdd, A: a + (n/2)*s, S: s, R: n - n/2 - 1}, {K: opSweep, A: 3},
		withR(d.op, n-quarter), {K: opSweep, A: 1}, withR(d.op, quarter+2), {K: opRemoveAt, A: 0, B: 0, R: n + 2}, {K: opSweep},
		{K: opAdd, A: a, S: s, R: 2}, {K: opSweep},
	}})

	out = append(out, Case{Order: order, Vals: vals, Init: []int{}, Bulk: bulk, Spare: 1, Ops: []Op{
		withR(d.op, n-quarter+1), {K: opSweep, A: 2},
		{K: opAdd, A: a + 1, S: s + 1, R: n - quarter + 4}, {K: opSweep, A: 4},
		withR(d.op, n/2), {K: opRemoveAt, A: 0, B: 7, R: n}, {K: opIndex, A: a},
	}})

	out = append(out, Case{Order: order, Vals: vals, Init: []int{}, Bulk: bulk, Spare: 2, Rounds: 40, Ops: []Op{
		{K: opAdd, A: a + 2, S: 11}, {K: opRemoveAt, A: 1, B: 0, S: 3}, {K: opIndex, A: a + 2, S: 11},
		{K: opRemove, A: a, S: 5}, {K: opIndex, A: a + 2, S: 11}, {K: opContains, A: a + 2, S: 11},
		{K: opAdd, A: a + 1, S: 7}, {K: opRemoveAt, A: -1, B: 0}, {K: opIndex, A: a + 1, S: 7},
		{K: opRemoveAt, B: 7}, {K: opIndex, A: a + 1, S: 7}, {K: opSweep, A: 0, S: 1},
	}})

	out = append(out, Case{Order: order, Vals: vals, Init: []int{}, Bulk: bulk, Spare: 0, Rounds: 12, Ops: []Op{
		{K: opAdd, A: a, S: 13, R: 2}, {K: opSweep, A: 1, S: 2}, withR(d.op, 2), {K: opIndex, A: a, S: 13},
		withR(d.op, 2), {K: opAdd, A: a + 5, S: 17, R: 2}, {K: opGet, B: 7}, {K: opGet, B: 2},
	}})
	return out
}

func withR(op Op, r int) Op {
	if r < 0 {
		r = 0
	}
	op.R = r
	return op
}

// bigCases: the deterministic list for a tier. Sizes up to 1025 (quick) are crossed with every drain; order and value
// pattern rotate so that every (size, drain) pair meets several of them over the list. thorough crosses sizes up to
// 1025 with every order as well and adds the sizes around 8192 and 16384.
var enumProcs = []int{0, 1, 2, 3, 5, 6, 7, 12, 16}

func bigCases(tier string, yield func(Case) bool) {
	k := 0
	// heavy: which of the three heavy shapes (init-drain, add-drain, yoyo; cost ~ n*n) to emit, -1 = all
	emit := func(order string, n int, p pattern, d drain, heavy int) bool {
		for i, c := range bigShapes(order, n, p, d) {
			if i < 3 && heavy >= 0 && i != heavy {
				continue
			}
			// GOMAXPROCS rotates with the case number
			c.Procs = enumProcs[(k+i)%len(enumProcs)]
			if !yield(c) {
				return false
			}
		}
		return true
	}
	small := append([]int{15, 16, 17, 20, 21, 22}, thresholds(32, 1024)...)
	large := thresholds(2048, 4096)
	if tier == "thorough" {
		for _, n := range small {
			for _, d := range drains {
				for _, o := range allOrders {
					k++
					if !emit(o, n, patterns[k%len(patterns)], d, -1) {
						return
					}
				}
			}
		}
		large = thresholds(2048, 16384)
	} else {
		for _, n := range small {
			for _, d := range drains {
				k++
				if !emit(allOrders[k%len(allOrders)], n, patterns[k%len(patterns)], d, -1) {
					return
				}
				k++
				if !emit(allOrders[(k*7)%len(allOrders)], n, patterns[(k*3)%len(patterns)], d, -1) {
					return
				}
			}
		}
	}
	for ni, n := range large {
		for di, d := range drains {
			k++
			heavy := (ni + di) % 3 // over p-1, p, p+1 every drain meets every heavy shape once
			if tier == "thorough" && n < 16000 {
				heavy = -1
			}
			if !emit(allOrders[k%len(allOrders)], n, patterns[k%len(patterns)], d, heavy) {
				return
			}
		}
	}
}

var specBig = pbt.Register(&pbt.Spec[Case]{
	Property: "C07", Name: "C07.big",
	Rule: "enumerated BIG histories for every size n in {15,16,17,20,21,22} and {p-1,p,p+1 : p = 32,64,...,4096} (thorough: ...,16384) and every way of draining (RemoveAt first/last/middle/scattered position, Remove of scattered/ascending/descending values): " +
		"(1) NewSorted over n values then drained to empty and beyond in blocks with Sweeps in between, (2) n Adds from empty then drained, (3) drained to under a quarter, regrown past n, drained, " +
		"(4) 41 rounds of Add v/RemoveAt below/Index v/Remove w/Index v/Contains v/Add u/RemoveAt last/Index u/RemoveAt middle/Index u/Sweep at size n, (5) the length oscillating across n; " +
		"value patterns ascending, descending, all-equal, two values, 7 values scattered, pairs, mostly distinct; GOMAXPROCS 4 (the process default set in plan.json), 1, 2, 3, 5, 6, 7, 12, 16 in rotation; all 15 orders/element types in rotation (quick: two orders per size and drain up to 1025, above that one order and, of the shapes 1-3, one per size and drain such that over p-1,p,p+1 each drain meets each; thorough: every order up to 1025, all shapes up to 8193). " + rule + ruleNT,
	Enum: func(shard, shards int, tier string, yield func(Case) bool) {
		i := 0
		bigCases(tier, func(c Case) bool {
			i++
			if shards > 1 && i%shards != shard {
				return true
			}
			return yield(c)
		})
	},
	Run: Run,
})

// ---- random big histories

var bigSizes = []int{12, 19, 20, 21, 24, 30, 31, 32, 33, 34, 40, 47, 48, 49, 62, 63, 64, 65, 66, 80, 96, 127, 128, 129, 130, 200, 255, 256, 257, 258, 300}
var bigSizesThorough = append(append([]int{}, bigSizes...), 511, 512, 513, 700, 1023, 1024, 1025)
var bigStrides = []int{0, 1, -1, 2, 5, 7, 11, 13, 97, -3, 7919}
var bigVals = []int{1, 2, 3, 7, 7, 30, 300, 5000}

// bigAdvs: one run in four is laid out as a quicksort-killer permutation (see Fill.Adv).
var bigAdvs = []int{0, 0, 0, 0, 0, 0, 0, 0, 0, 0, 0, 0, 0, 0, 0, 0, 0, 0, 1, 1, 2, 4, 4, 6}

// bigKindTable: two ops in 27 are a runtime.GC() in the middle of the history (used by one case in six: a collection
// costs as much as thousands of calls, far more on a busy machine).
var bigKindTable = append(append([]int{}, kindTable...), opGC, opGC)

// 0 = the GOMAXPROCS of the unit's process (4, set in plan.json)
var bigProcs = []int{0, 0, 0, 0, 0, 0, 1, 2, 3, 5, 6, 7, 12, 16}

var bigOpGenGC = opGenWith(bigKindTable, 300, []int{0, 0, 0, 0, 0, 0, 0, 0, 1, 2, 3, 7, 16, 33, 70}, []int{0, 0, 1, -1, 3, 7, 13})

var bigOpGen = opGenWith(kindTable, 300, []int{0, 0, 0, 0, 0, 0, 0, 0, 1, 2, 3, 7, 16, 33, 70}, []int{0, 0, 1, -1, 3, 7, 13})

func genBig(t *rapid.T, sizes []int) Case {
	c := Case{Order: rapid.SampledFrom(allOrders).Draw(t, "order"), Vals: rapid.SampledFrom(bigVals).Draw(t, "vals")}
	c.Init = rapid.SliceOfN(rapid.IntRange(0, 300), 0, 6).Draw(t, "init")
	if c.Init == nil {
		c.Init = []int{}
	}
	fill := rapid.Custom(func(t *rapid.T) Fill {
		return Fill{N: rapid.SampledFrom(sizes).Draw(t, "n"), A: rapid.IntRange(0, 300).Draw(t, "a"), S: rapid.SampledFrom(bigStrides).Draw(t, "s"),
			Adv: rapid.SampledFrom(bigAdvs).Draw(t, "adv")}
	})
	c.Bulk = rapid.SliceOfN(fill, 1, 3).Draw(t, "bulk")
	c.Spare = rapid.IntRange(0, 3).Draw(t, "spare")
	og := bigOpGen
	if rapid.IntRange(0, 5).Draw(t, "withgc") == 5 {
		og = bigOpGenGC
	}
	c.Ops = pbt.OpsOf(t, og, []int{0, 3, 8, 14}, "ops")
	if c.Ops == nil {
		c.Ops = []Op{}
	}
	c.Rounds = rapid.SampledFrom([]int{0, 0, 0, 0, 1, 2, 3, 8}).Draw(t, "rounds")
	c.Procs = rapid.SampledFrom(bigProcs).Draw(t, "procs")
	return c
}

var specBigRand = pbt.Register(&pbt.Spec[Case]{
	Property: "C07", Name: "C07.bigrand",
	Rule: "rapid: BIG random histories: all 15 orders/element types; initial input = 0..6 explicit values plus 1..3 arithmetic runs whose lengths are drawn from sizes around 20, 32, 48, 64, 128, 256 (thorough: also 512, 1024), strides 0, +-1, small and large primes, one run in four laid out as a quicksort-killer permutation (McIlroy's adversary against the library itself, sort.Slice, the Go 1.18 sort.Sort or a middle-pivot quicksort), Vals in {1,2,3,7,30,300,5000}; " +
		"0..34 ops (raw arguments 0..300; in one case of six two ops in 27 are a runtime.GC(), once or twice), each repeated 1..71 times (half of them once) with strides, the list run 1..9 times; GOMAXPROCS 4 (process default, 6 cases in 14) or 1, 2, 3, 5, 6, 7, 12, 16. " + rule + ruleNT,
	Gen: func(t *rapid.T) Case {
		if pbt.GetEnv().Tier == "thorough" {
			return genBig(t, bigSizesThorough)
		}
		return genBig(t, bigSizes)
	},
	Run: Run, Quick: 2000, Thorough: 8000,
})

func TestC07Big(t *testing.T)     { pbt.Check(t, specBig) }
func TestC07Bigrand(t *testing.T) { pbt.Check(t, specBigRand) }
