// Package c07 decides C07: slices.Sorted is always sorted and is an exact multiset.
package c07

import (
	"fmt"
	"testing"

	"gopkg.in/typ.v4"
	"gopkg.in/typ.v4/slices"
	"pgregory.net/rapid"
	"verifharness/internal/pbt"
)

// Op kinds.
const (
	opAdd      = 0 // Add(elem(A))
	opRemove   = 1 // Remove(elem(A))
	opRemoveAt = 2 // RemoveAt(index(A, mode B))
	opGet      = 3 // Get(index(A, mode B))
	opIndex    = 4 // Index(elem(A))
	opContains = 5 // Contains(elem(A))
	opLen      = 6 // Len()
	opString   = 7 // String()
	opScribble = 8 // the caller overwrites position A mod n of the slice it passed to NewSorted with elem(B)
	nOps       = 9
)

// Index modes (Op.B of RemoveAt/Get): 0 = A mod Len (a valid index unless the
// slice is empty), 1 = -1, 2 = Len, 3 = Len+3, 4 = -(A+2).
const nModes = 5

type Op struct {
	K int `json:"k"`
	A int `json:"a"`
	B int `json:"b"`
}

// Case: one Sorted built from Init (raw ints, mapped to elements by the order,
// see elem functions) with Spare extra capacity behind the caller's slice,
// then Ops.
//
// Order: "int" (NewSortedOrdered[int]), "named" (NewSorted over a named slice
// type with typ.Less), "desc" (NewSorted with a > b), "str" (NewSortedOrdered
// over strings whose alphabetical order differs from their numbering) —
// these four are strict total orders consistent with == — and "weak"
// (NewSorted over {K,T} structs comparing K only).
type Case struct {
	Order string `json:"order"`
	Init  []int  `json:"init"`
	Spare int    `json:"spare"`
	Ops   []Op   `json:"ops"`
}

const rule = "Sorted built by NewSorted/NewSortedOrdered from 0..10 elements (raw x in 0..20: strict orders use value x mod 7, the weak order uses key x mod 7 and tag x div 7) in a caller slice with 0..3 spare capacity; " +
	"<= 40 ops Add/Remove/RemoveAt/Get/Index/Contains/Len/String plus Scribble (caller overwrites its own slice); indices are valid (A mod Len) or one of -1, Len, Len+3, -(A+2). " +
	"After EVERY call the contents are read back through Len+Get and compared with a slice model: non-decreasing under less and exact multiset after construction and Add; " +
	"exactly 'before minus position p' after Remove (p = returned index) and RemoveAt; unchanged (same sequence) after everything else including Remove->-1 and recovered out-of-range panics; " +
	"the caller's slice (and its spare capacity) must never change except by Scribble, and Scribble must not show through. " +
	"Strict orders additionally: Get(Add(v)) == v, Index == first position or -1, Contains <=> Index != -1, Remove(present) returns a position that held v, Remove(absent) == -1 without panic. " +
	"All orders: Get/RemoveAt act on exactly position i and panic outside [0,Len). " +
	"non-trivial = the history has a duplicate Add, a Remove of an absent value, an out-of-range Get or RemoveAt, and a RemoveAt strictly inside (0 < i < Len-1)"

type kt struct{ K, T int }
type myInts []int

func mod(x, m int) int { return ((x % m) + m) % m }

// strNames: alphabetical order differs from index order; includes "" and a prefix pair.
var strNames = []string{"d", "a", "", "g", "b", "ab", "c"}

type env[E comparable] struct {
	elem     func(x int) E
	less     func(a, b E) bool
	strict   bool
	build    func(in []E) slices.Sorted[E]
	sentinel E // fills the spare capacity of the caller's slice
}

func Run(c Case) pbt.Outcome {
	switch c.Order {
	case "int":
		return run(c, env[int]{elem: func(x int) int { return mod(x, 7) }, less: typ.Less[int], strict: true, sentinel: -99,
			build: func(in []int) slices.Sorted[int] { return slices.NewSortedOrdered(in...) }})
	case "named":
		return run(c, env[int]{elem: func(x int) int { return mod(x, 7) }, less: typ.Less[int], strict: true, sentinel: -99,
			build: func(in []int) slices.Sorted[int] { return slices.NewSorted(myInts(in), typ.Less[int]) }})
	case "desc":
		desc := func(a, b int) bool { return a > b }
		return run(c, env[int]{elem: func(x int) int { return mod(x, 7) }, less: desc, strict: true, sentinel: -99,
			build: func(in []int) slices.Sorted[int] { return slices.NewSorted(in, desc) }})
	case "str":
		return run(c, env[string]{elem: func(x int) string { return strNames[mod(x, 7)] }, less: typ.Less[string], strict: true, sentinel: "~spare~",
			build: func(in []string) slices.Sorted[string] { return slices.NewSortedOrdered(in...) }})
	case "weak":
		byKey := func(a, b kt) bool { return a.K < b.K }
		return run(c, env[kt]{elem: func(x int) kt { x = mod(x, 21); return kt{x % 7, x / 7} }, less: byKey, strict: false, sentinel: kt{-99, -99},
			build: func(in []kt) slices.Sorted[kt] { return slices.NewSorted(in, byKey) }})
	}
	return pbt.Fail("malformed case: unknown order %q", c.Order)
}

// try runs f and reports whether it panicked.
func try(f func()) (panicked bool, val any) {
	defer func() {
		if r := recover(); r != nil {
			panicked, val = true, r
		}
	}()
	f()
	return
}

func eq[E comparable](a, b []E) bool {
	if len(a) != len(b) {
		return false
	}
	for i := range a {
		if a[i] != b[i] {
			return false
		}
	}
	return true
}

func without[E any](s []E, p int) []E {
	out := make([]E, 0, len(s))
	out = append(out, s[:p]...)
	return append(out, s[p+1:]...)
}

func firstIndex[E comparable](s []E, v E) int {
	for i, x := range s {
		if x == v {
			return i
		}
	}
	return -1
}

func count[E comparable](s []E, v E) int {
	n := 0
	for _, x := range s {
		if x == v {
			n++
		}
	}
	return n
}

func run[E comparable](c Case, e env[E]) pbt.Outcome {
	n := len(c.Init)
	spare := mod(c.Spare, 8)
	back := make([]E, n+spare)
	for i := range back {
		back[i] = e.sentinel
	}
	for i, x := range c.Init {
		back[i] = e.elem(x)
	}
	in := back[:n] // what the caller hands over: len n, cap n+spare
	wantBack := append([]E(nil), back...)
	hdr := fmt.Sprintf("order=%s init=%v", c.Order, wantBack[:n])

	s := e.build(in)

	evals := 0
	contents := func() []E {
		l := s.Len()
		if l < 0 || l > 4096 {
			panic(fmt.Sprintf("Len() = %d", l))
		}
		out := make([]E, l)
		for i := range out {
			out[i] = s.Get(i)
		}
		evals += l + 1
		return out
	}
	sortedMsg := func(obs []E) string {
		for i := 0; i+1 < len(obs); i++ {
			if e.less(obs[i+1], obs[i]) {
				return fmt.Sprintf("contents not in non-decreasing order: position %d holds %v, position %d holds %v and less(%v,%v) is true; contents %v", i, obs[i], i+1, obs[i+1], obs[i+1], obs[i], obs)
			}
		}
		return ""
	}
	// multisetMsg: obs must hold exactly the elements of want (any order).
	multisetMsg := func(obs, want []E) string {
		if len(obs) != len(want) {
			return fmt.Sprintf("contents have %d element(s), want %d; contents %v, expected multiset %v", len(obs), len(want), obs, want)
		}
		for _, v := range want {
			if count(obs, v) != count(want, v) {
				return fmt.Sprintf("contents hold %v %d time(s), want %d; contents %v, expected multiset %v", v, count(obs, v), count(want, v), obs, want)
			}
		}
		return ""
	}
	backMsg := func() string {
		if !eq(back, wantBack) {
			return fmt.Sprintf("the caller's slice changed: now %v (with spare capacity: %v), want %v (%v)", back[:n], back, wantBack[:n], wantBack)
		}
		return ""
	}

	// after construction
	model := contents()
	if m := sortedMsg(model); m != "" {
		return pbt.Fail("%s: after construction: %s", hdr, m)
	}
	if m := multisetMsg(model, wantBack[:n]); m != "" {
		return pbt.Fail("%s: after construction: %s", hdr, m)
	}
	if m := backMsg(); m != "" {
		return pbt.Fail("%s: after construction: %s", hdr, m)
	}

	var (
		dupAdd, freshAdd, addLow, addHigh                 bool
		remAbsent, remPresent, remDupPresent, weakUnfound bool
		oobGet, oobRemoveAt, okGet                        bool
		ratMid, ratEdge, emptied                          bool
		idxAbsent, idxDup, idxPresent                     bool
		scribbled                                         bool
		maxLen                                            = len(model)
	)
	initDups := false
	for i := 0; i+1 < len(model); i++ {
		if model[i] == model[i+1] {
			initDups = true
		}
	}

	index := func(op Op) int {
		switch mod(op.B, nModes) {
		case 1:
			return -1
		case 2:
			return len(model)
		case 3:
			return len(model) + 3
		case 4:
			return -(mod(op.A, 1000) + 2)
		}
		if len(model) == 0 {
			return 0
		}
		return mod(op.A, len(model))
	}

	for i, op := range c.Ops {
		var what string
		want := model // expected exact contents after the call (default: unchanged)
		fail := func(format string, a ...any) pbt.Outcome {
			return pbt.Fail("%s: op %d %s on %v: %s", hdr, i, what, model, fmt.Sprintf(format, a...))
		}
		isAdd := false
		var added E
		switch mod(op.K, nOps) {
		case opAdd:
			v := e.elem(op.A)
			what = fmt.Sprintf("Add(%v)", v)
			if firstIndex(model, v) >= 0 {
				dupAdd = true
			} else {
				freshAdd = true
			}
			if len(model) > 0 {
				if e.less(v, model[0]) {
					addLow = true
				}
				if e.less(model[len(model)-1], v) {
					addHigh = true
				}
			}
			ret := s.Add(v)
			if e.strict {
				if ret < 0 || ret > len(model) {
					return fail("returned %d, outside [0,%d]", ret, len(model))
				}
				if got := s.Get(ret); got != v {
					return fail("returned %d but Get(%d) = %v: the new value does not sit there; contents now %v", ret, ret, got, contents())
				}
			}
			isAdd, added = true, v
		case opRemove:
			v := e.elem(op.A)
			what = fmt.Sprintf("Remove(%v)", v)
			first := firstIndex(model, v)
			var ret int
			if p, pv := try(func() { ret = s.Remove(v) }); p {
				return fail("panicked: %v", pv)
			}
			if first < 0 {
				remAbsent = true
			} else {
				remPresent = true
				if count(model, v) > 1 {
					remDupPresent = true
				}
			}
			if e.strict {
				if first < 0 {
					if ret != -1 {
						return fail("returned %d for an absent value, want -1", ret)
					}
				} else {
					if ret < 0 || ret >= len(model) || model[ret] != v {
						return fail("returned %d, which is not a position that held %v", ret, v)
					}
					want = without(model, ret)
				}
			} else {
				switch {
				case ret == -1:
					if first >= 0 {
						weakUnfound = true
					}
				case ret < 0 || ret >= len(model):
					return fail("returned %d, outside [0,%d)", ret, len(model))
				default:
					want = without(model, ret)
				}
			}
			if len(want) == 0 && len(model) > 0 {
				emptied = true
			}
		case opRemoveAt:
			idx := index(op)
			what = fmt.Sprintf("RemoveAt(%d)", idx)
			p, pv := try(func() { s.RemoveAt(idx) })
			if idx < 0 || idx >= len(model) {
				oobRemoveAt = true
				if !p {
					return fail("did not panic although the index is outside [0,%d); contents now %v", len(model), contents())
				}
			} else {
				if p {
					return fail("panicked for a valid index: %v", pv)
				}
				want = without(model, idx)
				if idx > 0 && idx < len(model)-1 {
					ratMid = true
				} else {
					ratEdge = true
				}
				if len(want) == 0 {
					emptied = true
				}
			}
		case opGet:
			idx := index(op)
			what = fmt.Sprintf("Get(%d)", idx)
			var got E
			p, pv := try(func() { got = s.Get(idx) })
			if idx < 0 || idx >= len(model) {
				oobGet = true
				if !p {
					return fail("returned %v and did not panic although the index is outside [0,%d)", got, len(model))
				}
			} else {
				okGet = true
				if p {
					return fail("panicked for a valid index: %v", pv)
				}
				if got != model[idx] {
					return fail("= %v, want %v", got, model[idx])
				}
			}
		case opIndex:
			v := e.elem(op.A)
			what = fmt.Sprintf("Index(%v)", v)
			got := s.Index(v)
			first := firstIndex(model, v)
			switch {
			case first < 0:
				idxAbsent = true
			case count(model, v) > 1:
				idxDup = true
			default:
				idxPresent = true
			}
			if e.strict && got != first {
				return fail("= %d, want %d (first position holding the value, or -1)", got, first)
			}
		case opContains:
			v := e.elem(op.A)
			what = fmt.Sprintf("Contains(%v)", v)
			got := s.Contains(v)
			if e.strict {
				if w := firstIndex(model, v) >= 0; got != w {
					return fail("= %v, want %v", got, w)
				}
				if ix := s.Index(v); got != (ix != -1) {
					return fail("= %v but Index(%v) = %d: Contains disagrees with Index", got, v, ix)
				}
			}
		case opLen:
			what = "Len()"
			if got := s.Len(); got != len(model) {
				return fail("= %d, want %d", got, len(model))
			}
		case opString:
			what = "String()"
			if got, w := s.String(), fmt.Sprint(model); got != w {
				return fail("= %q, want %q", got, w)
			}
		case opScribble:
			if n == 0 {
				what = "Scribble(nothing: empty input)"
				break
			}
			pos, v := mod(op.A, n), e.elem(op.B)
			what = fmt.Sprintf("caller writes input[%d] = %v", pos, v)
			in[pos] = v
			wantBack[pos] = v
			scribbled = true
		}
		evals++
		obs := contents()
		if isAdd {
			if m := sortedMsg(obs); m != "" {
				return fail("%s", m)
			}
			exp := append(append(make([]E, 0, len(model)+1), model...), added)
			if m := multisetMsg(obs, exp); m != "" {
				return fail("%s", m)
			}
		} else if !eq(obs, want) {
			return fail("contents afterwards %v, want %v", obs, want)
		}
		model = obs
		if len(model) > maxLen {
			maxLen = len(model)
		}
		if m := backMsg(); m != "" {
			return fail("%s", m)
		}
	}

	out := pbt.Outcome{Evals: evals}
	out.NonTrivial = dupAdd && remAbsent && (oobGet || oobRemoveAt) && ratMid
	lab := func(cond bool, l string) {
		if cond {
			out.Labels = append(out.Labels, l)
		}
	}
	out.Labels = append(out.Labels, "order="+c.Order)
	lab(n == 0, "init-empty")
	lab(initDups, "init-has-duplicates")
	lab(n > 0 && spare > 0, "init-spare-capacity")
	lab(dupAdd, "add-duplicate")
	lab(freshAdd, "add-new-value")
	lab(addLow, "add-below-min")
	lab(addHigh, "add-above-max")
	lab(remAbsent, "remove-absent")
	lab(remPresent, "remove-present")
	lab(remDupPresent, "remove-one-of-duplicates")
	lab(weakUnfound, "weak-remove-present-but-unfound(-1)")
	lab(oobGet, "get-out-of-range")
	lab(okGet, "get-valid")
	lab(oobRemoveAt, "removeat-out-of-range")
	lab(ratMid, "removeat-middle")
	lab(ratEdge, "removeat-first-or-last")
	lab(emptied, "emptied-by-removal")
	lab(idxAbsent, "index-absent")
	lab(idxPresent, "index-single")
	lab(idxDup, "index-among-duplicates")
	lab(scribbled, "caller-scribbles-input")
	lab(maxLen >= 8, "maxlen>=8")
	switch {
	case len(c.Ops) >= 20:
		out.Labels = append(out.Labels, "ops>=20")
	case len(c.Ops) >= 8:
		out.Labels = append(out.Labels, "ops=8..19")
	default:
		out.Labels = append(out.Labels, "ops<8")
	}
	return out
}

var kindTable = []int{
	opAdd, opAdd, opAdd, opAdd, opAdd, opAdd, opAdd,
	opRemove, opRemove, opRemove, opRemove, opRemove,
	opRemoveAt, opRemoveAt, opRemoveAt, opRemoveAt,
	opGet, opGet, opIndex, opIndex, opContains,
	opLen, opString, opScribble,
}

var modeTable = []int{0, 0, 0, 0, 0, 0, 1, 2, 3, 4}

var opGen = rapid.Custom(func(t *rapid.T) Op {
	op := Op{K: rapid.SampledFrom(kindTable).Draw(t, "k"), A: rapid.IntRange(0, 20).Draw(t, "a")}
	switch op.K {
	case opRemoveAt, opGet:
		op.B = rapid.SampledFrom(modeTable).Draw(t, "mode")
	case opScribble:
		op.B = rapid.IntRange(0, 20).Draw(t, "b")
	}
	return op
})

func genCase(t *rapid.T, orders []string) Case {
	c := Case{Order: rapid.SampledFrom(orders).Draw(t, "order")}
	c.Init = rapid.SliceOfN(rapid.IntRange(0, 20), 0, 10).Draw(t, "init")
	if c.Init == nil {
		c.Init = []int{}
	}
	c.Spare = rapid.IntRange(0, 3).Draw(t, "spare")
	// rapid's IntRange and SliceOfN lean heavily towards short lists; a drawn minimum length (max of two
	// draws) flattens the length distribution while SliceOfN keeps element-wise shrinking.
	lo := rapid.IntRange(0, 36).Draw(t, "minops")
	if l2 := rapid.IntRange(0, 36).Draw(t, "minops2"); l2 > lo {
		lo = l2
	}
	c.Ops = rapid.SliceOfN(opGen, lo, 40).Draw(t, "ops")
	if c.Ops == nil {
		c.Ops = []Op{}
	}
	return c
}

var strictOrders = []string{"int", "named", "desc", "str"}

var specStrict = pbt.Register(&pbt.Spec[Case]{
	Property: "C07", Name: "C07.strict", Rule: "rapid: orders int/named/desc/str (strict total orders consistent with ==); " + rule,
	Gen: func(t *rapid.T) Case { return genCase(t, strictOrders) },
	Run: Run, Quick: 30000, Thorough: 200000,
})

var specWeak = pbt.Register(&pbt.Spec[Case]{
	Property: "C07", Name: "C07.weak", Rule: "rapid: weak order on {K,T} comparing K only (first and last sentence of the statement only: the position of an added element among equivalents, and which equivalent element Remove takes or whether it finds one, are free); " + rule,
	Gen: func(t *rapid.T) Case { return genCase(t, []string{"weak"}) },
	Run: Run, Quick: 15000, Thorough: 100000,
})

func TestC07Strict(t *testing.T) { pbt.Check(t, specStrict) }
func TestC07Weak(t *testing.T)   { pbt.Check(t, specWeak) }
func TestReplay(t *testing.T)    { pbt.Replay(t) }
