// Package c07 decides C07: slices.Sorted is always sorted and is an exact multiset.
package c07

import (
	"fmt"
	"math"
	"runtime"
	"sort"
	"strconv"
	"testing"
	"time"

	"gopkg.in/typ.v4"
	"gopkg.in/typ.v4/slices"
	"pgregory.net/rapid"
	"verifharness/internal/pbt"
)

// Op kinds.
const (
	opAdd      = 0  // Add(elem(A))
	opRemove   = 1  // Remove(elem(A))
	opRemoveAt = 2  // RemoveAt(index(A, mode B))
	opGet      = 3  // Get(index(A, mode B))
	opIndex    = 4  // Index(elem(A))
	opContains = 5  // Contains(elem(A))
	opLen      = 6  // Len()
	opString   = 7  // String()
	opScribble = 8  // the caller overwrites position A mod n of the slice it passed to NewSorted with elem(B)
	opSweep    = 9  // strict orders: Index/Contains of (up to 64 evenly spread) distinct stored values and of 8 values elem(A), elem(A+1), ...
	opGC       = 10 // runtime.GC() (twice when A is odd: two cycles empty every sync.Pool); not a library call; the first four of a case only
	opPair     = 11 // strict orders: 1 + B mod 2^17 times in a row [p = Add(elem(A+2i)); Get(p); RemoveAt(p) (even i) or Remove(elem(A+2i)) (odd i)], every return value checked; the contents are read back after the whole series
	opSleep    = 12 // time.Sleep(100 ms * (A mod 80)): wall-clock time passes in the middle of the history (the first two of a case only); not a library call
	nOps       = 13
)

// Index modes (Op.B of RemoveAt/Get): 0 = A mod Len (a valid index unless the
// slice is empty; A = -1 is the last position), 1 = -1, 2 = Len, 3 = Len+3,
// 4 = -(A+2), 5 = MaxInt, 6 = MinInt, 7 = Len/2 (valid unless empty).
const nModes = 8

// Op: one call, executed 1+R times in a row; the k-th execution of this op
// (counted over repeats and rounds) uses A + k*S in place of A.
type Op struct {
	K int `json:"k"`
	A int `json:"a"`
	B int `json:"b"`
	R int `json:"r,omitempty"`
	S int `json:"s,omitempty"`
}

// Fill: N raw values A, A+S, A+2S, ... appended to the initial input.
type Fill struct {
	N int `json:"n"`
	A int `json:"a"`
	S int `json:"s"`
	// Adv != 0: the N values A, A+S, ... are not laid out in this order but as a quicksort-killer permutation of
	// their sorted sequence under the order's less (M. D. McIlroy, "A Killer Adversary for Quicksort"), built against
	// 1 the library's own NewSorted (that call is itself checked), 2 sort.Slice, 3 sort.SliceStable, 4 a copy of the
	// Go <= 1.18 sort.Sort quicksort (ninther, no depth limit), 5/6/7 a plain quicksort with first / middle /
	// median-of-three pivot (see antiRanks).
	Adv int `json:"adv,omitempty"`
}

const (
	maxRepeat  = 1 << 25 // R, Rounds and Fill.N are reduced modulo this
	maxLenSeen = 1 << 26
	maxSleeps  = 2 // opSleep beyond the second of a case does nothing
	maxGCs     = 4 // opGC beyond the fourth of a case does nothing
)

// Case: one Sorted built from Init followed by the runs of Bulk (raw ints,
// mapped to elements by the order and the alphabet size Vals, see the elem
// functions) with Spare extra capacity behind the caller's slice, then the
// list Ops executed 1+Rounds times.
//
// Strict total orders consistent with ==:
//
//	"int"     NewSortedOrdered[int]
//	"named"   NewSorted over a named slice type without methods, typ.Less
//	"desc"    NewSorted with a > b
//	"str"     NewSortedOrdered over strings whose alphabetical order differs from their numbering ("" and prefix pairs included)
//	"edge"    NewSortedOrdered[int] over MinInt, MinInt+1, -1, 0, 1, MaxInt-1, MaxInt (+ a band around 0)
//	"float"   NewSortedOrdered[float64] over -Inf, -0.0, +0.0, the smallest denormal, +Inf, ... (no NaN)
//	"lex"     NewSorted over {K,T} structs ordered by K, then T
//	"unit"    NewSorted over struct{} (zero-size, all values equal) with a less that is always false
//	"ifdesc"  NewSorted(sort.IntSlice, a > b): the slice type carries its own ascending sort.Interface
//	"ifstr"   NewSorted(sort.StringSlice, a > b)
//	"iffloat" NewSorted(sort.Float64Slice, a > b)
//	"ifweird" NewSorted(weirdInts, typ.Less): own value-receiver Less compares x mod 3 descending
//	"ifptr"   NewSorted(ptrInts, typ.Less): own pointer-receiver Len/Less/Swap, descending
//	"u32"     NewSortedOrdered[uint32] over the values x mod Vals (four bytes each: for inputs of millions of values)
//	"u8"      NewSortedOrdered[uint8] over the values (x mod Vals) div 65536 (one byte each; with Vals = 2^24 an ascending
//	          run of raw values gives 256 runs of exactly 2^16 equal values, so that every multiple of 2^16 is a boundary)
//
// Weak orders (first and last sentence of the statement only):
//
//	"weak"    NewSorted over {K,T} structs comparing K only
//	"ifweak"  the same over a named slice type whose own sort.Interface compares T only
type Case struct {
	Order  string `json:"order"`
	Vals   int    `json:"vals,omitempty"` // alphabet size; 0 = 7
	Init   []int  `json:"init"`
	Bulk   []Fill `json:"bulk,omitempty"`
	Spare  int    `json:"spare"`
	Ops    []Op   `json:"ops"`
	Rounds int    `json:"rounds,omitempty"`
	// Procs > 0: the whole case (construction included) runs under runtime.GOMAXPROCS(Procs), restored afterwards.
	Procs int `json:"procs,omitempty"`
	// Flip: while the case runs, another goroutine keeps switching runtime.GOMAXPROCS between 2 and 7.
	Flip bool `json:"flip,omitempty"`
}

const rule = "Sorted built by NewSorted/NewSortedOrdered from explicit raw values plus arithmetic runs (raw x: strict orders use the x mod Vals-th value of the order's alphabet, the weak orders key x mod Vals and tag x div Vals; Vals = 7 unless stated) in a caller slice with spare capacity (nil when empty); " +
	"ops Add/Remove/RemoveAt/Get/Index/Contains/Len/String, Scribble (caller overwrites its own slice), Sweep (Index+Contains of up to 64 evenly spread distinct stored values and of 8 more values) and, in the enumerated units, runtime.GC() in the middle of the history (at most four per case), time.Sleep (at most two) and series of Add/RemoveAt and Add/Remove pairs with every return value checked; the whole case optionally under another runtime.GOMAXPROCS; each op repeatable R times with its argument advancing by a stride, the whole list repeatable in rounds; " +
	"indices are valid (A mod Len, Len/2) or one of -1, Len, Len+3, -(A+2), MaxInt, MinInt. " +
	"After EVERY single call the contents are read back through Len+Get and compared with a slice model: non-decreasing under less and exact multiset after construction and Add; " +
	"exactly 'before minus position p' after Remove (p = returned index) and RemoveAt; unchanged (same sequence) after everything else including Remove->-1 and recovered out-of-range panics; " +
	"the caller's slice (and its spare capacity) must never change except by Scribble, and Scribble must not show through. " +
	"Strict orders additionally: Get(Add(v)) == v, Index == first position or -1, Contains <=> Index != -1, Remove(present) returns a position that held v, Remove(absent) == -1 without panic. " +
	"All orders: Get/RemoveAt act on exactly position i and panic outside [0,Len). "

const ruleNT = "non-trivial = the history has a duplicate Add, a Remove of an absent value, an out-of-range Get or RemoveAt, and a RemoveAt strictly inside (0 < i < Len-1), " +
	"or an element was removed while the slice held >= 32"

type kt struct{ K, T int }
type myInts []int

// weirdInts carries its own sort.Interface (value receivers) whose Less is NOT the order handed to NewSorted.
type weirdInts []int

func (w weirdInts) Len() int           { return len(w) }
func (w weirdInts) Swap(i, j int)      { w[i], w[j] = w[j], w[i] }
func (w weirdInts) Less(i, j int) bool { return w[i]%3 > w[j]%3 }

// ptrInts carries sort.Interface methods on the pointer receiver (descending).
type ptrInts []int

func (p *ptrInts) Len() int           { return len(*p) }
func (p *ptrInts) Swap(i, j int)      { (*p)[i], (*p)[j] = (*p)[j], (*p)[i] }
func (p *ptrInts) Less(i, j int) bool { return (*p)[i] > (*p)[j] }

// ktByTag is a slice of {K,T} whose own sort.Interface compares the tag only.
type ktByTag []kt

func (b ktByTag) Len() int           { return len(b) }
func (b ktByTag) Swap(i, j int)      { b[i], b[j] = b[j], b[i] }
func (b ktByTag) Less(i, j int) bool { return b[i].T > b[j].T }

func mod(x, m int) int { return ((x % m) + m) % m }

// strNames: alphabetical order differs from index order; includes "" and a prefix pair.
var strNames = []string{"d", "a", "", "g", "b", "ab", "c"}

var edgeInts = []int{0, math.MaxInt, math.MinInt, -1, math.MaxInt - 1, 1, math.MinInt + 1}

var floatVals = []float64{3, math.Inf(1), math.Copysign(0, -1), math.Inf(-1), 0, math.SmallestNonzeroFloat64, -2.5}

func intElem(vals int) func(int) int { return func(x int) int { return mod(x, vals) } }

func strElem(vals int) func(int) string {
	return func(x int) string {
		x = mod(x, vals)
		if x < 7 {
			return strNames[x]
		}
		return strNames[x%7] + strconv.Itoa(x/7) // injective; many prefix pairs ("a" < "a1" < "ab" < "ab1")
	}
}

func edgeElem(vals int) func(int) int {
	return func(x int) int {
		x = mod(x, vals)
		if x < 7 {
			return edgeInts[x]
		}
		return x/2*(1-2*(x%2)) + 7*(1-2*(x%2)) // 8 -> 11, 9 -> -11, 10 -> 12, ...: a band around 0 that avoids -1, 0, 1
	}
}

func floatElem(vals int) func(int) float64 {
	return func(x int) float64 {
		x = mod(x, vals)
		if x < 7 {
			return floatVals[x]
		}
		return float64(x-7)*0.7 - 10.1
	}
}

type env[E comparable] struct {
	elem     func(x int) E
	less     func(a, b E) bool
	strict   bool
	build    func(in []E) slices.Sorted[E]
	sentinel E // fills the spare capacity of the caller's slice
}

// envRunner: one generic function instantiated for each of the five element types.
type envRunner struct {
	Int   func(env[int]) pbt.Outcome
	Str   func(env[string]) pbt.Outcome
	Float func(env[float64]) pbt.Outcome
	KT    func(env[kt]) pbt.Outcome
	Unit  func(env[struct{}]) pbt.Outcome
	U32   func(env[uint32]) pbt.Outcome // nil where the giant element types are not used
	U8    func(env[uint8]) pbt.Outcome
}

func normVals(vals int) int {
	if vals <= 0 {
		vals = 7
	}
	if vals > 1<<30 {
		vals = 1 << 30
	}
	return vals
}

// withProcs runs f under GOMAXPROCS(procs) (procs <= 0: unchanged; capped at 64).
func withProcs(procs int, f func() pbt.Outcome) pbt.Outcome {
	if procs > 0 {
		if procs > 64 {
			procs = 64
		}
		defer runtime.GOMAXPROCS(runtime.GOMAXPROCS(procs))
	}
	return f()
}

func procsLabel(p int) string {
	if p <= 0 {
		return "gomaxprocs=default"
	}
	return "gomaxprocs=" + strconv.Itoa(p)
}

// flipProcs starts a goroutine that keeps switching runtime.GOMAXPROCS between 2 and 7; the returned function stops
// it and restores the former setting.
func flipProcs() (stop func()) {
	old := runtime.GOMAXPROCS(0)
	done, ack := make(chan struct{}), make(chan struct{})
	go func() {
		defer close(ack)
		for i := 0; ; i++ {
			select {
			case <-done:
				return
			default:
			}
			runtime.GOMAXPROCS(2 + 5*(i&1))
			time.Sleep(200 * time.Microsecond)
		}
	}()
	return func() { close(done); <-ack; runtime.GOMAXPROCS(old) }
}

func Run(c Case) pbt.Outcome {
	if c.Flip {
		defer flipProcs()()
	}
	return withProcs(c.Procs, func() pbt.Outcome {
		out := withEnv(c.Order, c.Vals, envRunner{
			U32:   func(e env[uint32]) pbt.Outcome { return run(c, e) },
			U8:    func(e env[uint8]) pbt.Outcome { return run(c, e) },
			Int:   func(e env[int]) pbt.Outcome { return run(c, e) },
			Str:   func(e env[string]) pbt.Outcome { return run(c, e) },
			Float: func(e env[float64]) pbt.Outcome { return run(c, e) },
			KT:    func(e env[kt]) pbt.Outcome { return run(c, e) },
			Unit:  func(e env[struct{}]) pbt.Outcome { return run(c, e) },
		})
		if c.Procs > 0 && out.Violation == "" {
			out.Labels = append(out.Labels, procsLabel(c.Procs))
		}
		if c.Flip && out.Violation == "" {
			out.Labels = append(out.Labels, "gomaxprocs-flipping-meanwhile")
		}
		return out
	})
}

// withEnv builds the element mapping, less function and constructor of an order and hands them to the runner.
func withEnv(order string, vals int, r envRunner) pbt.Outcome {
	vals = normVals(vals)
	descI := func(a, b int) bool { return a > b }
	descS := func(a, b string) bool { return a > b }
	descF := func(a, b float64) bool { return a > b }
	switch order {
	case "int":
		return r.Int(env[int]{elem: intElem(vals), less: typ.Less[int], strict: true, sentinel: -99,
			build: func(in []int) slices.Sorted[int] { return slices.NewSortedOrdered(in...) }})
	case "named":
		return r.Int(env[int]{elem: intElem(vals), less: typ.Less[int], strict: true, sentinel: -99,
			build: func(in []int) slices.Sorted[int] { return slices.NewSorted(myInts(in), typ.Less[int]) }})
	case "desc":
		return r.Int(env[int]{elem: intElem(vals), less: descI, strict: true, sentinel: -99,
			build: func(in []int) slices.Sorted[int] { return slices.NewSorted(in, descI) }})
	case "str":
		return r.Str(env[string]{elem: strElem(vals), less: typ.Less[string], strict: true, sentinel: "~spare~",
			build: func(in []string) slices.Sorted[string] { return slices.NewSortedOrdered(in...) }})
	case "edge":
		return r.Int(env[int]{elem: edgeElem(vals), less: typ.Less[int], strict: true, sentinel: -99,
			build: func(in []int) slices.Sorted[int] { return slices.NewSortedOrdered(in...) }})
	case "float":
		return r.Float(env[float64]{elem: floatElem(vals), less: typ.Less[float64], strict: true, sentinel: -99.5,
			build: func(in []float64) slices.Sorted[float64] { return slices.NewSortedOrdered(in...) }})
	case "lex":
		lex := func(a, b kt) bool { return a.K < b.K || (a.K == b.K && a.T < b.T) }
		return r.KT(env[kt]{elem: func(x int) kt { x = mod(x, vals); return kt{x / 3, x % 3} }, less: lex, strict: true, sentinel: kt{-99, -99},
			build: func(in []kt) slices.Sorted[kt] { return slices.NewSorted(in, lex) }})
	case "unit":
		never := func(a, b struct{}) bool { return false }
		return r.Unit(env[struct{}]{elem: func(int) struct{} { return struct{}{} }, less: never, strict: true,
			build: func(in []struct{}) slices.Sorted[struct{}] { return slices.NewSorted(in, never) }})
	case "ifdesc":
		return r.Int(env[int]{elem: intElem(vals), less: descI, strict: true, sentinel: -99,
			build: func(in []int) slices.Sorted[int] { return slices.NewSorted(sort.IntSlice(in), descI) }})
	case "ifstr":
		return r.Str(env[string]{elem: strElem(vals), less: descS, strict: true, sentinel: "~spare~",
			build: func(in []string) slices.Sorted[string] { return slices.NewSorted(sort.StringSlice(in), descS) }})
	case "iffloat":
		return r.Float(env[float64]{elem: floatElem(vals), less: descF, strict: true, sentinel: -99.5,
			build: func(in []float64) slices.Sorted[float64] { return slices.NewSorted(sort.Float64Slice(in), descF) }})
	case "ifweird":
		return r.Int(env[int]{elem: intElem(vals), less: typ.Less[int], strict: true, sentinel: -99,
			build: func(in []int) slices.Sorted[int] { return slices.NewSorted(weirdInts(in), typ.Less[int]) }})
	case "ifptr":
		return r.Int(env[int]{elem: intElem(vals), less: typ.Less[int], strict: true, sentinel: -99,
			build: func(in []int) slices.Sorted[int] { return slices.NewSorted(ptrInts(in), typ.Less[int]) }})
	case "u32":
		if r.U32 == nil {
			break
		}
		return r.U32(env[uint32]{elem: func(x int) uint32 { return uint32(mod(x, vals)) }, less: typ.Less[uint32], strict: true, sentinel: 4000000000,
			build: func(in []uint32) slices.Sorted[uint32] { return slices.NewSortedOrdered(in...) }})
	case "u8":
		if r.U8 == nil {
			break
		}
		return r.U8(env[uint8]{elem: func(x int) uint8 { return uint8(mod(x, vals) >> 16) }, less: typ.Less[uint8], strict: true, sentinel: 0x5a,
			build: func(in []uint8) slices.Sorted[uint8] { return slices.NewSortedOrdered(in...) }})
	case "weak":
		byKey := func(a, b kt) bool { return a.K < b.K }
		return r.KT(env[kt]{elem: func(x int) kt { x = mod(x, 3*vals); return kt{x % vals, x / vals} }, less: byKey, strict: false, sentinel: kt{-99, -99},
			build: func(in []kt) slices.Sorted[kt] { return slices.NewSorted(in, byKey) }})
	case "ifweak":
		byKey := func(a, b kt) bool { return a.K < b.K }
		return r.KT(env[kt]{elem: func(x int) kt { x = mod(x, 3*vals); return kt{x % vals, x / vals} }, less: byKey, strict: false, sentinel: kt{-99, -99},
			build: func(in []kt) slices.Sorted[kt] { return slices.NewSorted(ktByTag(in), byKey) }})
	}
	return pbt.Fail("malformed case: unknown order %q", order)
}

// indexArg: the index argument of Get/RemoveAt for raw A, mode B and current length n (see the index modes).
func indexArg(a, b, n int) int {
	switch mod(b, nModes) {
	case 1:
		return -1
	case 2:
		return n
	case 3:
		return n + 3
	case 4:
		return -(mod(a, 1000) + 2)
	case 5:
		return math.MaxInt
	case 6:
		return math.MinInt
	case 7:
		return n / 2
	}
	if n == 0 {
		return 0
	}
	return mod(a, n)
}

// try runs f and reports whether it panicked.
func try(f func()) (panicked bool, val any) {
	defer func() {
		if r := recover(); r != nil {
			panicked, val = true, r
		}
	}()
	f()
	return
}

func eq[E comparable](a, b []E) bool {
	if len(a) != len(b) {
		return false
	}
	for i := range a {
		if a[i] != b[i] {
			return false
		}
	}
	return true
}

func without[E any](s []E, p int) []E {
	out := make([]E, 0, len(s))
	out = append(out, s[:p]...)
	return append(out, s[p+1:]...)
}

func firstIndex[E comparable](s []E, v E) int {
	for i, x := range s {
		if x == v {
			return i
		}
	}
	return -1
}

func count[E comparable](s []E, v E) int {
	n := 0
	for _, x := range s {
		if x == v {
			n++
		}
	}
	return n
}

// show renders a slice for a message; long slices are abbreviated around the position of interest.
func show[E any](s []E, at int) string {
	if len(s) <= 48 {
		return fmt.Sprint(s)
	}
	lo, hi := at-6, at+7
	if lo < 0 {
		lo = 0
	}
	if hi > len(s) {
		hi = len(s)
	}
	if lo >= hi {
		lo, hi = 0, 6
	}
	return fmt.Sprintf("(len %d) first %v ... [%d:%d] = %v ... last %v", len(s), s[:4], lo, hi, s[lo:hi], s[len(s)-4:])
}

// firstDiff returns the first position at which a and b differ (min len if one is a prefix of the other).
func firstDiff[E comparable](a, b []E) int {
	for i := 0; i < len(a) && i < len(b); i++ {
		if a[i] != b[i] {
			return i
		}
	}
	if len(a) < len(b) {
		return len(a)
	}
	return len(b)
}

func run[E comparable](c Case, e env[E]) pbt.Outcome {
	init := make([]E, 0, len(c.Init))
	for _, x := range c.Init {
		init = append(init, e.elem(x))
	}
	advUsed := 0
	for _, f := range c.Bulk {
		nn := mod(f.N, maxRepeat)
		if f.Adv != 0 && nn <= maxAdv {
			// the values of this run in a quicksort-killer order
			run := make([]E, nn)
			for j := range run {
				run[j] = e.elem(f.A + j*f.S)
			}
			sort.SliceStable(run, func(i, j int) bool { return e.less(run[i], run[j]) })
			ranks, m := antiRanks(mod(f.Adv, nAdv), nn)
			if m != "" {
				return pbt.Fail("order=%s: while building the input: %s", c.Order, m)
			}
			for _, r := range ranks {
				init = append(init, run[r])
			}
			advUsed = mod(f.Adv, nAdv)
			continue
		}
		for j := 0; j < nn; j++ {
			init = append(init, e.elem(f.A+j*f.S))
		}
	}
	n := len(init)
	spare := mod(c.Spare, 8)
	var back []E
	if n+spare > 0 { // an empty input without spare capacity is handed over as a nil slice
		back = make([]E, n+spare)
	}
	for i := range back {
		back[i] = e.sentinel
	}
	copy(back, init)
	init = nil
	in := back[:n] // what the caller hands over: len n, cap n+spare
	wantBack := append([]E(nil), back...)
	hdr := fmt.Sprintf("order=%s vals=%d init=%s", c.Order, c.Vals, show(wantBack[:n], 0))

	s := e.build(in)

	evals := 0
	// contentsInto reads the contents through Len+Get into buf (reallocated when too small).
	contentsInto := func(buf []E) []E {
		l := s.Len()
		if l < 0 || l > maxLenSeen {
			panic(fmt.Sprintf("Len() = %d", l))
		}
		if cap(buf) < l {
			buf = make([]E, l, l+l/4+8)
		}
		out := buf[:l]
		for i := range out {
			out[i] = s.Get(i)
		}
		evals += l + 1
		return out
	}
	contents := func() []E { return contentsInto(nil) }
	var spareBuf []E // the buffer that does not hold the model
	sortedMsg := func(obs []E) string {
		for i := 0; i+1 < len(obs); i++ {
			if e.less(obs[i+1], obs[i]) {
				return fmt.Sprintf("contents not in non-decreasing order: position %d holds %v, position %d holds %v and less(%v,%v) is true; contents %s", i, obs[i], i+1, obs[i+1], obs[i+1], obs[i], show(obs, i))
			}
		}
		return ""
	}
	// multisetMsg: obs must hold exactly the elements of want (any order).
	multisetMsg := func(obs, want []E) string {
		if len(obs) != len(want) {
			return fmt.Sprintf("contents have %d element(s), want %d; contents %s, expected multiset %s", len(obs), len(want), show(obs, 0), show(want, 0))
		}
		cnt := make(map[E]int, len(want))
		for _, v := range want {
			cnt[v]++
		}
		for _, v := range obs {
			cnt[v]--
		}
		for _, v := range want { // in the order of want: deterministic
			if cnt[v] != 0 {
				return fmt.Sprintf("contents hold %v %d time(s), want %d; contents %s, expected multiset %s", v, count(obs, v), count(want, v), show(obs, firstIndex(obs, v)), show(want, firstIndex(want, v)))
			}
		}
		for _, v := range obs {
			if cnt[v] != 0 {
				return fmt.Sprintf("contents hold %v %d time(s), want %d; contents %s, expected multiset %s", v, count(obs, v), count(want, v), show(obs, firstIndex(obs, v)), show(want, 0))
			}
		}
		return ""
	}
	backMsg := func() string {
		if !eq(back, wantBack) {
			d := firstDiff(back, wantBack)
			return fmt.Sprintf("the caller's slice changed at position %d (len %d, cap %d): now %s, want %s", d, n, len(back), show(back, d), show(wantBack, d))
		}
		return ""
	}

	// after construction
	model := contents()
	if m := sortedMsg(model); m != "" {
		return pbt.Fail("%s: after construction: %s", hdr, m)
	}
	if !eq(model, wantBack[:n]) { // an input that was in order already must come back as it is
		if m := multisetMsg(model, wantBack[:n]); m != "" {
			return pbt.Fail("%s: after construction: %s", hdr, m)
		}
	}
	if m := backMsg(); m != "" {
		return pbt.Fail("%s: after construction: %s", hdr, m)
	}

	var (
		dupAdd, freshAdd, addLow, addHigh                 bool
		remAbsent, remPresent, remDupPresent, weakUnfound bool
		oobGet, oobRemoveAt, okGet                        bool
		ratMid, ratEdge, emptied                          bool
		idxAbsent, idxDup, idxPresent                     bool
		scribbled, swept, gced, slept                     bool
		pairs, sleeps                                     int
		removedBig, quartered, regrown                    bool
		staleIdx                                          bool
		gcs                                               int
		maxLen                                            = len(model)
		peak                                              = len(model) // largest length since the slice was last empty
		lastAdd                                           E
		haveLastAdd, removedBelowLastAdd                  bool
	)
	initDups := false
	for i := 0; i+1 < len(model); i++ {
		if model[i] == model[i+1] {
			initDups = true
		}
	}

	index := func(op Op) int { return indexArg(op.A, op.B, len(model)) }

	// noteRemoved: bookkeeping for a removal of position p of the current model.
	noteRemoved := func(p int) {
		if len(model) >= 32 {
			removedBig = true
		}
		if haveLastAdd && e.less(model[p], lastAdd) {
			removedBelowLastAdd = true
		}
	}

	rounds := mod(c.Rounds, maxRepeat)
	steps := 0
	step := func(ri, oi, ji int, repeated bool, op Op) pbt.Outcome {
		var what string
		at := 0
		removedAt := -1 // expected exact contents after the call: the model (default), or the model without this position
		fail := func(format string, a ...any) pbt.Outcome {
			tag := fmt.Sprintf("op %d", oi)
			if repeated {
				tag = fmt.Sprintf("round %d op %d repeat %d", ri, oi, ji)
			}
			return pbt.Fail("%s: %s %s on %s: %s", hdr, tag, what, show(model, at), fmt.Sprintf(format, a...))
		}
		isAdd := false
		var added E
		addedAt := -1
		switch mod(op.K, nOps) {
		case opAdd:
			v := e.elem(op.A)
			what = fmt.Sprintf("Add(%v)", v)
			if firstIndex(model, v) >= 0 {
				dupAdd = true
			} else {
				freshAdd = true
			}
			if len(model) > 0 {
				if e.less(v, model[0]) {
					addLow = true
				}
				if e.less(model[len(model)-1], v) {
					addHigh = true
				}
			}
			ret := s.Add(v)
			at = ret
			if e.strict {
				if ret < 0 || ret > len(model) {
					return fail("returned %d, outside [0,%d]", ret, len(model))
				}
				if got := s.Get(ret); got != v {
					return fail("returned %d but Get(%d) = %v: the new value does not sit there; contents now %s", ret, ret, got, show(contents(), ret))
				}
			}
			isAdd, added, addedAt = true, v, ret
			lastAdd, haveLastAdd, removedBelowLastAdd = v, true, false
		case opRemove:
			v := e.elem(op.A)
			what = fmt.Sprintf("Remove(%v)", v)
			first := firstIndex(model, v)
			at = first
			var ret int
			if p, pv := try(func() { ret = s.Remove(v) }); p {
				return fail("panicked: %v", pv)
			}
			if first < 0 {
				remAbsent = true
			} else {
				remPresent = true
				if count(model, v) > 1 {
					remDupPresent = true
				}
			}
			if e.strict {
				if first < 0 {
					if ret != -1 {
						return fail("returned %d for an absent value, want -1", ret)
					}
				} else {
					if ret < 0 || ret >= len(model) || model[ret] != v {
						return fail("returned %d, which is not a position that held %v", ret, v)
					}
					noteRemoved(ret)
					removedAt = ret
				}
			} else {
				switch {
				case ret == -1:
					if first >= 0 {
						weakUnfound = true
					}
				case ret < 0 || ret >= len(model):
					return fail("returned %d, outside [0,%d)", ret, len(model))
				default:
					noteRemoved(ret)
					removedAt = ret
				}
			}
			if removedAt >= 0 && len(model) == 1 {
				emptied = true
			}
		case opRemoveAt:
			idx := index(op)
			at = idx
			what = fmt.Sprintf("RemoveAt(%d)", idx)
			p, pv := try(func() { s.RemoveAt(idx) })
			if idx < 0 || idx >= len(model) {
				oobRemoveAt = true
				if !p {
					return fail("did not panic although the index is outside [0,%d); contents now %s", len(model), show(contents(), 0))
				}
			} else {
				if p {
					return fail("panicked for a valid index: %v", pv)
				}
				noteRemoved(idx)
				removedAt = idx
				if idx > 0 && idx < len(model)-1 {
					ratMid = true
				} else {
					ratEdge = true
				}
				if len(model) == 1 {
					emptied = true
				}
			}
		case opGet:
			idx := index(op)
			at = idx
			what = fmt.Sprintf("Get(%d)", idx)
			var got E
			p, pv := try(func() { got = s.Get(idx) })
			if idx < 0 || idx >= len(model) {
				oobGet = true
				if !p {
					return fail("returned %v and did not panic although the index is outside [0,%d)", got, len(model))
				}
			} else {
				okGet = true
				if p {
					return fail("panicked for a valid index: %v", pv)
				}
				if got != model[idx] {
					return fail("= %v, want %v", got, model[idx])
				}
			}
		case opIndex:
			v := e.elem(op.A)
			what = fmt.Sprintf("Index(%v)", v)
			got := s.Index(v)
			first := firstIndex(model, v)
			at = first
			switch {
			case first < 0:
				idxAbsent = true
			case count(model, v) > 1:
				idxDup = true
				if haveLastAdd && removedBelowLastAdd && v == lastAdd {
					staleIdx = true
				}
			default:
				idxPresent = true
			}
			if e.strict && got != first {
				return fail("= %d, want %d (first position holding the value, or -1)", got, first)
			}
		case opContains:
			v := e.elem(op.A)
			what = fmt.Sprintf("Contains(%v)", v)
			got := s.Contains(v)
			if e.strict {
				first := firstIndex(model, v)
				at = first
				if w := first >= 0; got != w {
					return fail("= %v, want %v", got, w)
				}
				if ix := s.Index(v); got != (ix != -1) {
					return fail("= %v but Index(%v) = %d: Contains disagrees with Index", got, v, ix)
				}
			}
		case opLen:
			what = "Len()"
			if got := s.Len(); got != len(model) {
				return fail("= %d, want %d", got, len(model))
			}
		case opString:
			what = "String()"
			if got, w := s.String(), fmt.Sprint(model); got != w {
				return fail("= %q, want %q", got, w)
			}
		case opScribble:
			if n == 0 {
				what = "Scribble(nothing: empty input)"
				break
			}
			pos, v := mod(op.A, n), e.elem(op.B)
			what = fmt.Sprintf("caller writes input[%d] = %v", pos, v)
			in[pos] = v
			wantBack[pos] = v
			scribbled = true
		case opGC:
			what = "runtime.GC()"
			if gcs >= maxGCs { // a collection costs as much as thousands of calls: at most maxGCs per case
				what = "(runtime.GC() skipped)"
				break
			}
			gcs++
			runtime.GC()
			if mod(op.A, 2) == 1 {
				what = "runtime.GC() twice"
				runtime.GC()
			}
			gced = true
		case opSleep:
			what = "time.Sleep"
			if sleeps >= maxSleeps {
				what = "(time.Sleep skipped)"
				break
			}
			sleeps++
			d := time.Duration(mod(op.A, 80)) * 100 * time.Millisecond
			what = fmt.Sprintf("time.Sleep(%v)", d)
			time.Sleep(d)
			slept = slept || d >= 2*time.Second
		case opPair:
			what = "Pair"
			if !e.strict {
				break
			}
			for i, cnt := 0, 1+mod(op.B, 1<<17); i < cnt; i++ {
				v := e.elem(op.A + 2*i)
				what = fmt.Sprintf("Add/remove pair %d of %d: Add(%v)", i, cnt, v)
				p := s.Add(v)
				at = p
				if p < 0 || p > len(model) {
					return fail("returned %d, outside [0,%d]", p, len(model))
				}
				if got := s.Get(p); got != v {
					return fail("returned %d but Get(%d) = %v: the new value does not sit there", p, p, got)
				}
				if (p > 0 && e.less(v, model[p-1])) || (p < len(model) && e.less(model[p], v)) {
					return fail("returned %d: the new value sits out of order there", p)
				}
				if l := s.Len(); l != len(model)+1 {
					return fail("Len() = %d afterwards, want %d", l, len(model)+1)
				}
				if i&1 == 0 {
					what = fmt.Sprintf("Add/remove pair %d of %d: RemoveAt(%d) after Add(%v) = %d", i, cnt, p, v, p)
					s.RemoveAt(p)
				} else {
					what = fmt.Sprintf("Add/remove pair %d of %d: Remove(%v) after Add(%v) = %d", i, cnt, v, v, p)
					if r := s.Remove(v); r < 0 || r > len(model) || !(r == p || (r < p && model[r] == v) || (r > p && model[r-1] == v)) {
						return fail("returned %d, which is not a position that held the value (added at %d)", r, p)
					}
				}
				if l := s.Len(); l != len(model) {
					return fail("Len() = %d afterwards, want %d", l, len(model))
				}
				pairs++
				steps += 2
				evals += 4
			}
		case opSweep:
			what = "Sweep"
			if !e.strict {
				break
			}
			swept = true
			// model is non-decreasing under a strict order consistent with == (checked after every call), so equal
			// values are adjacent and the first position of a value is the start of its run
			var starts []int
			for i := range model {
				if i == 0 || model[i] != model[i-1] {
					starts = append(starts, i)
				}
			}
			stride, off := 1, 0
			if len(starts) > 64 {
				stride = len(starts) / 64
				off = mod(op.A, stride)
			}
			for k := off; k < len(starts); k += stride {
				i := starts[k]
				at = i
				if got := s.Index(model[i]); got != i {
					return fail("Index(%v) = %d, want %d (first position holding the value)", model[i], got, i)
				}
				if !s.Contains(model[i]) {
					return fail("Contains(%v) = false although position %d holds it", model[i], i)
				}
				evals += 2
			}
			for k := 0; k < 8; k++ {
				v := e.elem(op.A + k)
				first := firstIndex(model, v)
				at = first
				if got := s.Index(v); got != first {
					return fail("Index(%v) = %d, want %d (first position holding the value, or -1)", v, got, first)
				}
				if got := s.Contains(v); got != (first >= 0) {
					return fail("Contains(%v) = %v, want %v", v, got, first >= 0)
				}
				evals += 2
			}
		}
		evals++
		obs := contentsInto(spareBuf)
		if isAdd {
			if m := sortedMsg(obs); m != "" {
				return fail("%s", m)
			}
			// fast path: the contents are the model with the value inserted at the returned position (then the
			// multiset is right by construction); otherwise compare the multisets
			fast := addedAt >= 0 && addedAt <= len(model) && len(obs) == len(model)+1 && obs[addedAt] == added &&
				eq(obs[:addedAt], model[:addedAt]) && eq(obs[addedAt+1:], model[addedAt:])
			if !fast {
				exp := append(append(make([]E, 0, len(model)+1), model...), added)
				if m := multisetMsg(obs, exp); m != "" {
					return fail("%s", m)
				}
			}
		} else if removedAt >= 0 {
			if len(obs) != len(model)-1 || !eq(obs[:removedAt], model[:removedAt]) || !eq(obs[removedAt:], model[removedAt+1:]) {
				want := without(model, removedAt)
				d := firstDiff(obs, want)
				return fail("contents afterwards differ from the expected ones (the former contents without position %d) at position %d: %s, want %s", removedAt, d, show(obs, d), show(want, d))
			}
		} else if !eq(obs, model) {
			d := firstDiff(obs, model)
			return fail("contents changed at position %d: %s, want them unchanged: %s", d, show(obs, d), show(model, d))
		}
		if len(obs) < len(model) && peak >= 64 && len(obs) <= peak/4 {
			quartered = true
		}
		if len(obs) > len(model) && quartered && len(obs) >= peak {
			regrown = true
		}
		spareBuf, model = model[:0], obs
		if len(model) > maxLen {
			maxLen = len(model)
		}
		if len(model) > peak {
			peak = len(model)
		}
		if m := backMsg(); m != "" {
			return fail("%s", m)
		}
		return pbt.Outcome{}
	}

	occ := make([]int, len(c.Ops))
	for r := 0; r <= rounds; r++ {
		for i, op0 := range c.Ops {
			reps := mod(op0.R, maxRepeat)
			for j := 0; j <= reps; j++ {
				op := op0
				op.A = op0.A + occ[i]*op0.S
				occ[i]++
				steps++
				if o := step(r, i, j, rounds > 0 || reps > 0, op); o.Violation != "" {
					return o
				}
			}
		}
	}

	out := pbt.Outcome{Evals: evals}
	out.NonTrivial = (dupAdd && remAbsent && (oobGet || oobRemoveAt) && ratMid) || removedBig
	lab := func(cond bool, l string) {
		if cond {
			out.Labels = append(out.Labels, l)
		}
	}
	out.Labels = append(out.Labels, "order="+c.Order)
	switch v := c.Vals; {
	case v == 1:
		out.Labels = append(out.Labels, "vals=1")
	case v == 0 || v == 7:
		out.Labels = append(out.Labels, "vals=7")
	case v < 7:
		out.Labels = append(out.Labels, "vals=2..6")
	case v < 100:
		out.Labels = append(out.Labels, "vals=8..99")
	default:
		out.Labels = append(out.Labels, "vals>=100")
	}
	lab(n == 0, "init-empty")
	lab(n == 0 && spare == 0, "init-nil")
	lab(initDups, "init-has-duplicates")
	lab(n > 0 && spare > 0, "init-spare-capacity")
	lab(n > 20, "init>20")
	lab(n >= 64, "init>=64")
	lab(dupAdd, "add-duplicate")
	lab(freshAdd, "add-new-value")
	lab(addLow, "add-below-min")
	lab(addHigh, "add-above-max")
	lab(remAbsent, "remove-absent")
	lab(remPresent, "remove-present")
	lab(remDupPresent, "remove-one-of-duplicates")
	lab(weakUnfound, "weak-remove-present-but-unfound(-1)")
	lab(oobGet, "get-out-of-range")
	lab(okGet, "get-valid")
	lab(oobRemoveAt, "removeat-out-of-range")
	lab(ratMid, "removeat-middle")
	lab(ratEdge, "removeat-first-or-last")
	lab(emptied, "emptied-by-removal")
	lab(idxAbsent, "index-absent")
	lab(idxPresent, "index-single")
	lab(idxDup, "index-among-duplicates")
	lab(staleIdx, "index-of-last-added-duplicate-after-removal-below-it")
	lab(scribbled, "caller-scribbles-input")
	lab(swept, "sweep")
	lab(gced, "gc-in-the-middle")
	lab(slept, "idle>=2s-in-the-middle")
	lab(pairs >= 1<<15, "unchecked-between-pairs>=2^15")
	if advUsed != 0 {
		out.Labels = append(out.Labels, "input-quicksort-killer-"+advNames[advUsed])
	}
	lab(removedBig, "removal-at-len>=32")
	lab(quartered, "drained-to-quarter-of-peak>=64")
	lab(regrown, "regrown-to-peak-after-draining-to-quarter")
	lab(maxLen >= 8, "maxlen>=8")
	for _, t := range []int{32, 64, 128, 256, 512, 1024, 2048, 4096, 8192, 1 << 14, 1 << 15, 1 << 16, 1 << 17, 1 << 18, 1 << 20, 1 << 21, 1 << 22, 1 << 23, 1<<24 - 1} {
		if maxLen > t {
			out.Labels = append(out.Labels, "maxlen>"+strconv.Itoa(t))
		}
	}
	switch {
	case steps > 1<<17:
		out.Labels = append(out.Labels, "calls>2^17")
	case steps > 1<<16:
		out.Labels = append(out.Labels, "calls>2^16")
	case steps >= 1000:
		out.Labels = append(out.Labels, "calls>=1000")
	case steps >= 100:
		out.Labels = append(out.Labels, "calls=100..999")
	case steps >= 20:
		out.Labels = append(out.Labels, "calls=20..99")
	case steps >= 8:
		out.Labels = append(out.Labels, "calls=8..19")
	default:
		out.Labels = append(out.Labels, "calls<8")
	}
	return out
}

var kindTable = []int{
	opAdd, opAdd, opAdd, opAdd, opAdd, opAdd, opAdd,
	opRemove, opRemove, opRemove, opRemove, opRemove,
	opRemoveAt, opRemoveAt, opRemoveAt, opRemoveAt,
	opGet, opGet, opIndex, opIndex, opContains,
	opLen, opString, opScribble, opSweep,
}

var modeTable = []int{0, 0, 0, 0, 0, 0, 0, 7, 1, 2, 3, 4, 5, 6}

// opGenWith: A in 0..maxA; repeats/strides drawn from the given tables.
func opGenWith(kinds []int, maxA int, repeats, strides []int) *rapid.Generator[Op] {
	return rapid.Custom(func(t *rapid.T) Op {
		op := Op{K: rapid.SampledFrom(kinds).Draw(t, "k"), A: rapid.IntRange(0, maxA).Draw(t, "a")}
		switch op.K {
		case opRemoveAt, opGet:
			op.B = rapid.SampledFrom(modeTable).Draw(t, "mode")
		case opScribble:
			op.B = rapid.IntRange(0, maxA).Draw(t, "b")
		}
		if op.K != opGC {
			op.R = rapid.SampledFrom(repeats).Draw(t, "r")
		}
		if op.R > 0 {
			op.S = rapid.SampledFrom(strides).Draw(t, "s")
		}
		return op
	})
}

// smallRepeats: one op in 16 is repeated; one in 64 is repeated 41 times (takes the slice past 32 elements).
var smallRepeats = func() []int {
	r := make([]int, 64)
	r[60], r[61], r[62], r[63] = 1, 2, 5, 40
	return r
}()

var smallOpGen = opGenWith(kindTable, 62, smallRepeats, []int{0, 1, -1, 3})

var smallVals = []int{0, 0, 0, 0, 1, 2, 3, 30}

func genCase(t *rapid.T, orders []string) Case {
	c := Case{Order: rapid.SampledFrom(orders).Draw(t, "order"), Vals: rapid.SampledFrom(smallVals).Draw(t, "vals")}
	// one case in eight: 21..44 initial values (past the insertion-sort blocks of sort.Stable)
	initLen := rapid.SampledFrom([][2]int{{0, 10}, {0, 10}, {0, 10}, {0, 10}, {0, 10}, {0, 10}, {0, 10}, {21, 44}}).Draw(t, "initlen")
	c.Init = rapid.SliceOfN(rapid.IntRange(0, 62), initLen[0], initLen[1]).Draw(t, "init")
	if c.Init == nil {
		c.Init = []int{}
	}
	c.Spare = rapid.IntRange(0, 3).Draw(t, "spare")
	// rapid's IntRange and SliceOfN lean heavily towards short lists; a drawn minimum length (max of two
	// draws) flattens the length distribution while SliceOfN keeps element-wise shrinking.
	lo := rapid.IntRange(0, 36).Draw(t, "minops")
	if l2 := rapid.IntRange(0, 36).Draw(t, "minops2"); l2 > lo {
		lo = l2
	}
	c.Ops = rapid.SliceOfN(smallOpGen, lo, 40).Draw(t, "ops")
	if c.Ops == nil {
		c.Ops = []Op{}
	}
	return c
}

var strictOrders = []string{"int", "named", "desc", "str", "edge", "float", "lex", "unit", "ifdesc", "ifstr", "iffloat", "ifweird", "ifptr"}
var weakOrders = []string{"weak", "ifweak"}

const ruleSmall = "one case in eight is run a second time as 4 parallel independent copies; SMALL histories: 0..10 (one case in eight: 21..44) explicit initial values, raw x in 0..62, Vals in {7,1,2,3,30}, 0..3 spare; <= 40 ops, one op in 16 repeated 2, 3, 6 or 41 times. "

var specStrict = pbt.Register(&pbt.Spec[Case]{
	Property: "C07", Name: "C07.strict",
	Rule: "rapid: strict total orders consistent with == — int, named slice type, descending, strings, ints at the ends of the int range, floats with -0.0/+0.0/Inf/denormal, lexicographic structs, zero-size struct{}, " +
		"and slice types that carry their OWN differing sort.Interface (sort.IntSlice/StringSlice/Float64Slice with a descending less, user types with value- and pointer-receiver methods); " + ruleSmall + rule + ruleNT,
	Gen: func(t *rapid.T) Case { return genCase(t, strictOrders) },
	Run: Run, Quick: 30000, Thorough: 200000, Replicas: 4, ReplicaEvery: 8,
})

var specWeak = pbt.Register(&pbt.Spec[Case]{
	Property: "C07", Name: "C07.weak",
	Rule: "rapid: weak order on {K,T} comparing K only, over []kt and over a named slice type whose own sort.Interface compares T (first and last sentence of the statement only: the position of an added element among equivalents, and which equivalent element Remove takes or whether it finds one, are free); " + ruleSmall + rule + ruleNT,
	Gen:  func(t *rapid.T) Case { return genCase(t, weakOrders) },
	Run:  Run, Quick: 15000, Thorough: 100000, Replicas: 4, ReplicaEvery: 8,
})

func TestC07Strict(t *testing.T) { pbt.Check(t, specStrict) }
func TestC07Weak(t *testing.T)   { pbt.Check(t, specWeak) }
func TestReplay(t *testing.T)    { pbt.Replay(t) }
