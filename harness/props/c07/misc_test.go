package c07

import (
	"fmt"
	"runtime"
	"sort"
	"strconv"
	"strings"
	"sync"

	"gopkg.in/typ.v4/slices"
	"verifharness/internal/pbt"
)

// Special situations around one or two Sorted values; every kind is a small fixed scenario with a few parameters.
//
//	"string"  Sorted values whose String() is exactly N bytes long (N around 2^12..2^17): the result is kept and read again
//	          after the String() of another Sorted, after an Add, and in a tight loop of Loops alternating calls
//	"twins"   three element types that are all called "job" (function-local types of different layout) used
//	          alternately, then concurrently, for Loops steps each
//	"stack"   the input is (a part of) a LOCAL fixed-size array of the calling function; the Sorted is used after the
//	          goroutine's stack has been moved by a deep recursion and the array has been overwritten
//	"fence"   the input ends exactly where readable memory ends (the next page is PROT_NONE), or begins where it begins;
//	          after NewSorted the input is unmapped altogether and the Sorted is used on
//	"zstabort" NewSorted over 2^K + N zero-size values with a less function that panics with a sentinel at its 300th call;
//	          then an independent NewSorted
type XCase struct {
	Kind  string `json:"kind"`
	Order string `json:"order,omitempty"`
	N     int    `json:"n"`
	K     int    `json:"k,omitempty"`
	Loops int    `json:"loops,omitempty"`
}

func RunX(c XCase) pbt.Outcome {
	var msg string
	var labels []string
	switch c.Kind {
	case "string":
		msg, labels = runStringCase(c)
	case "twins":
		msg, labels = runTwins(c)
	case "stack":
		msg, labels = runStack(c)
	case "fence":
		msg, labels = runFence(c)
	case "zstabort":
		msg, labels = runZstAbort(c)
	default:
		return pbt.Fail("malformed case: kind %q", c.Kind)
	}
	if msg != "" {
		return pbt.Fail("%s", msg)
	}
	return pbt.Outcome{NonTrivial: true, Evals: 1 + mod(c.Loops, 1<<20), Labels: append(labels, "kind="+c.Kind)}
}

// ---- string

// digitsFor returns counts a, b with 1 + 2a + 3b == total: a one-character and b two-character elements print as a
// fmt.Sprint of exactly total bytes ("[" + every element followed by " " or "]").
func digitsFor(total int) (a, b int) {
	if total < 6 {
		total = 6
	}
	if (total-1)%2 == 1 {
		b = 1
	}
	return (total - 1 - 3*b) / 2, b
}

func clip(s string) string {
	if len(s) <= 80 {
		return strconv.Quote(s)
	}
	return fmt.Sprintf("(len %d) %q ... %q", len(s), s[:30], s[len(s)-30:])
}

func strDiff(got, want string) string {
	i := 0
	for i < len(got) && i < len(want) && got[i] == want[i] {
		i++
	}
	lo := i - 10
	if lo < 0 {
		lo = 0
	}
	g, w := got[lo:], want[lo:]
	if len(g) > 40 {
		g = g[:40]
	}
	if len(w) > 40 {
		w = w[:40]
	}
	return fmt.Sprintf("first difference at byte %d: got ...%q, want ...%q (lengths %d and %d)", i, g, w, len(got), len(want))
}

func stringScenario[E comparable](total, loops, salt int, one, two func(i int) E, build func([]E) slices.Sorted[E], less func(a, b E) bool) string {
	mk := func(salt int) []E {
		a, b := digitsFor(total)
		v := make([]E, 0, a+b)
		for i := 0; i < a; i++ {
			v = append(v, one(i*7+salt))
		}
		for i := 0; i < b; i++ {
			v = append(v, two(i+salt))
		}
		return v
	}
	want := func(v []E) string {
		m := append([]E(nil), v...)
		sort.SliceStable(m, func(i, j int) bool { return less(m[i], m[j]) })
		return fmt.Sprint(m)
	}
	v1, v2 := mk(salt), mk(salt+3)
	w1, w2 := want(v1), want(v2)
	if len(w1) != total && total >= 6 {
		return fmt.Sprintf("harness error: built a String of %d bytes, wanted %d", len(w1), total)
	}
	s1 := build(v1)
	k1 := s1.String()
	if k1 != w1 {
		return fmt.Sprintf("String() of a Sorted over %d values (expected length %d bytes): %s", len(v1), len(w1), strDiff(k1, w1))
	}
	s2 := build(v2)
	k2 := s2.String()
	if k2 != w2 {
		return fmt.Sprintf("String() of a second Sorted over %d values (expected length %d bytes): %s", len(v2), len(w2), strDiff(k2, w2))
	}
	if k1 != w1 {
		return fmt.Sprintf("the string returned by String() of the first Sorted (%d bytes) changed after String() of another Sorted: %s", len(w1), strDiff(k1, w1))
	}
	s1.Add(two(salt + 50))
	w3 := want(append(append([]E(nil), v1...), two(salt+50)))
	k3 := s1.String()
	if k3 != w3 {
		return fmt.Sprintf("String() after an Add to a Sorted whose String() was %d bytes long: %s", len(w1), strDiff(k3, w3))
	}
	if k1 != w1 || k2 != w2 {
		return fmt.Sprintf("strings returned earlier by String() (%d bytes) changed after an Add and another String(): %s / %s", len(w1), strDiff(k1, w1), strDiff(k2, w2))
	}
	var prev string
	for i := 0; i < loops; i++ {
		var g, w string
		if i%2 == 0 {
			g, w = s2.String(), w2
		} else {
			g, w = s1.String(), w3
		}
		if g != w {
			return fmt.Sprintf("String() number %d of a tight loop over two Sorted values (expected length %d bytes): %s", i, len(w), strDiff(g, w))
		}
		if i > 0 {
			pw := w2
			if i%2 == 0 {
				pw = w3
			}
			if prev != pw {
				return fmt.Sprintf("the result of String() number %d of a tight loop changed after the next String() call: %s", i-1, strDiff(prev, pw))
			}
		}
		prev = g
	}
	if k1 != w1 || k2 != w2 || k3 != w3 {
		return "strings returned by String() before a loop of further String() calls changed"
	}
	return ""
}

func runStringCase(c XCase) (string, []string) {
	total, loops := mod(c.N, 1<<20), mod(c.Loops, 1<<16)
	labels := []string{"order=" + c.Order}
	for k := 10; k <= 17; k++ {
		if total == 1<<k {
			labels = append(labels, "string-length=2^"+strconv.Itoa(k))
		} else if total >= 1<<k-2 && total <= 1<<k+2 {
			labels = append(labels, "string-length~2^"+strconv.Itoa(k))
		}
	}
	oneI := func(i int) int { return mod(i, 10) }
	twoI := func(i int) int { return 10 + mod(i*13, 90) }
	switch c.Order {
	case "int":
		return stringScenario(total, loops, c.K, oneI, twoI, func(v []int) slices.Sorted[int] { return slices.NewSortedOrdered(v...) }, func(a, b int) bool { return a < b }), labels
	case "desc":
		d := func(a, b int) bool { return a > b }
		return stringScenario(total, loops, c.K, oneI, twoI, func(v []int) slices.Sorted[int] { return slices.NewSorted(v, d) }, d), labels
	case "u8":
		return stringScenario(total, loops, c.K, func(i int) uint8 { return uint8(mod(i, 10)) }, func(i int) uint8 { return uint8(10 + mod(i*13, 90)) },
			func(v []uint8) slices.Sorted[uint8] { return slices.NewSortedOrdered(v...) }, func(a, b uint8) bool { return a < b }), labels
	case "str":
		return stringScenario(total, loops, c.K, func(i int) string { return string(rune('a' + mod(i, 26))) }, func(i int) string { return "z" + string(rune('a'+mod(i, 26))) },
			func(v []string) slices.Sorted[string] { return slices.NewSortedOrdered(v...) }, func(a, b string) bool { return a < b }), labels
	}
	return fmt.Sprintf("malformed case: order %q", c.Order), nil
}

// ---- twins

// stepper: a history on one Sorted of a hidden element type, advanced one call at a time.
type stepper interface {
	step(i int) string
	typeName() string
}

type hist[E comparable] struct {
	s     slices.Sorted[E]
	model []E
	elem  func(x int) E
	less  func(a, b E) bool
	vals  int
}

func newHist[E comparable](n, vals int, elem func(x int) E, less func(a, b E) bool) *hist[E] {
	h := &hist[E]{elem: elem, less: less, vals: vals}
	in := make([]E, n)
	for i := range in {
		in[i] = elem(mod(i*7919+3, vals))
	}
	h.s = slices.NewSorted(in, less)
	h.model = append([]E(nil), in...)
	sort.SliceStable(h.model, func(i, j int) bool { return less(h.model[i], h.model[j]) })
	return h
}

func (h *hist[E]) typeName() string { var z E; return fmt.Sprintf("%T", z) }

func (h *hist[E]) step(i int) string {
	v := h.elem(mod(i*104729+1, h.vals))
	first := firstIndex(h.model, v)
	what := ""
	switch op := i % 7; {
	case op == 0 || op == 3 || (op == 5 && len(h.model) < 24):
		what = fmt.Sprintf("Add(%v)", v)
		p := h.s.Add(v)
		if p < 0 || p > len(h.model) || h.s.Get(p) != v {
			return fmt.Sprintf("step %d: %s on %v returned %d, where the value does not sit", i, what, h.model, p)
		}
		lb := sort.Search(len(h.model), func(k int) bool { return !h.less(h.model[k], v) })
		h.model = append(h.model[:lb], append([]E{v}, h.model[lb:]...)...)
	case op == 1:
		what = fmt.Sprintf("Index(%v)", v)
		if g := h.s.Index(v); g != first {
			return fmt.Sprintf("step %d: %s on %v = %d, want %d", i, what, h.model, g, first)
		}
		if g := h.s.Contains(v); g != (first >= 0) {
			return fmt.Sprintf("step %d: Contains(%v) on %v = %v", i, v, h.model, g)
		}
	case op == 2 || op == 5:
		what = fmt.Sprintf("Remove(%v)", v)
		g := h.s.Remove(v)
		if (first < 0) != (g == -1) || (g >= 0 && (g >= len(h.model) || h.model[g] != v)) {
			return fmt.Sprintf("step %d: %s on %v = %d, want %d", i, what, h.model, g, first)
		}
		if g >= 0 {
			h.model = without(h.model, g)
		}
	case op == 4 && len(h.model) > 0:
		p := mod(i, len(h.model))
		what = fmt.Sprintf("RemoveAt(%d)", p)
		h.s.RemoveAt(p)
		h.model = without(h.model, p)
	default:
		what = "String()"
		if g, w := h.s.String(), fmt.Sprint(h.model); g != w {
			return fmt.Sprintf("step %d: String() = %s, want %s", i, clip(g), clip(w))
		}
	}
	if l := h.s.Len(); l != len(h.model) {
		return fmt.Sprintf("step %d: after %s: Len() = %d, want %d", i, what, l, len(h.model))
	}
	for k, w := range h.model {
		if g := h.s.Get(k); g != w {
			return fmt.Sprintf("step %d: after %s: Get(%d) = %v, want %v (contents must be %v)", i, what, k, g, w, h.model)
		}
	}
	return ""
}

func twinA(n int) stepper {
	type job struct {
		id   int
		name string
	}
	return newHist(n, 40, func(x int) job { return job{x / 2, strNames[x%2]} }, func(a, b job) bool { return a.id < b.id || (a.id == b.id && a.name < b.name) })
}

func twinB(n int) stepper {
	type job struct{ w float64 }
	return newHist(n, 40, func(x int) job { return job{float64(x) * 0.5} }, func(a, b job) bool { return a.w < b.w })
}

func twinC(n int) stepper {
	type job struct {
		a, b, c uint8
	}
	return newHist(n, 40, func(x int) job { return job{uint8(x / 16), uint8(x % 16 / 4), uint8(x % 4)} }, func(a, b job) bool {
		return int(a.a)<<16|int(a.b)<<8|int(a.c) < int(b.a)<<16|int(b.b)<<8|int(b.c)
	})
}

func runTwins(c XCase) (string, []string) {
	n, loops := mod(c.N, 4096), mod(c.Loops, 1<<16)
	hs := []stepper{twinA(n), twinB(n + 1), twinC(n + 2)}
	name := hs[0].typeName()
	for _, h := range hs {
		if h.typeName() != name {
			return "harness error: the element types print as " + name + " and " + h.typeName(), nil
		}
	}
	pre := "three Sorted values over three different element types that are all called " + name + " (function-local types), "
	for i := 0; i < loops; i++ {
		for k, h := range hs {
			if m := h.step(i + k); m != "" {
				return pre + fmt.Sprintf("used alternately: object %d: %s", k, m), nil
			}
		}
		if i == loops/2 {
			runtime.GC()
		}
	}
	// fresh ones, each in a goroutine of its own
	hs = []stepper{twinA(n), twinB(n + 1), twinC(n + 2), twinB(n)}
	msgs := make([]string, len(hs))
	var wg sync.WaitGroup
	for k, h := range hs {
		wg.Add(1)
		go func(k int, h stepper) {
			defer wg.Done()
			defer func() {
				if p := recover(); p != nil {
					msgs[k] = fmt.Sprintf("panic: %v", p)
				}
			}()
			for i := 0; i < loops && msgs[k] == ""; i++ {
				msgs[k] = h.step(i)
			}
		}(k, h)
	}
	wg.Wait()
	for k, m := range msgs {
		if m != "" {
			return pre + fmt.Sprintf("each used by a goroutine of its own: object %d: %s", k, m), nil
		}
	}
	return "", []string{"types-of-equal-name=" + strings.TrimPrefix(name, "c07.")}
}
