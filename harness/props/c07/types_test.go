package c07

import (
	"fmt"
	"math"
	"sort"
	"strconv"
	"testing"
	"time"

	typ "gopkg.in/typ.v4"
	"gopkg.in/typ.v4/slices"
	"verifharness/internal/pbt"
)

// TCase: NewSortedOrdered (Ctor 0) or NewSorted with typ.Less (Ctor 1) over N values of the element type Type laid out
// as Pattern, then a fixed history of Salt-dependent calls, then the "clone, shrink one side only" continuation.
//
//	Pattern "hash"   pseudo-random values over the whole range of the type (both signs, hundreds of distinct values)
//	        "asc"    ascending around zero (wraps for one-byte types), "desc" descending
//	        "few"    three distinct values -1/0/1 (255/0/1 for unsigned)
//	        "nearly" already sorted over the whole range of the type except for a few exchanged neighbours (giant sizes)
type TCase struct {
	Type    string `json:"type"`
	N       int    `json:"n"`
	Pattern string `json:"pattern"`
	Ctor    int    `json:"ctor"`
	Salt    int    `json:"salt"`
}

type (
	nI8  int8
	nU8  uint8
	nI16 int16
	nF32 float32
	nStr string
)

func mix(x uint64) uint64 {
	x ^= x >> 33
	x *= 0xff51afd7ed558ccd
	x ^= x >> 33
	x *= 0xc4ceb9fe1a85ec53
	x ^= x >> 33
	return x
}

// f32Of / f64Of: values that are not exactly representable (thirds and tenths), both signs, both zeros, huge and tiny.
func f32Of(x int64) float32 {
	switch x & 15 {
	case 0:
		return float32(math.Copysign(0, float64(x>>4&1)-0.5))
	case 1:
		return float32(x>>4) / (1 << 62) * math.MaxFloat32
	case 2:
		return float32(x>>40) * math.SmallestNonzeroFloat32
	}
	return float32(x>>40) / 3 * 0.1
}

func f64Of(x int64) float64 {
	switch x & 15 {
	case 0:
		return math.Copysign(0, float64(x>>4&1)-0.5)
	case 1:
		return float64(x>>4) / (1 << 62) * math.MaxFloat64
	case 2:
		return float64(x>>40) * math.SmallestNonzeroFloat64
	}
	return float64(x>>30) / 3 * 0.1
}

func strOf(x int64) string {
	switch x & 7 {
	case 0:
		return ""
	case 1:
		return strconv.Itoa(int(x >> 50))
	case 2:
		return "\xff" + strconv.Itoa(int(x>>56))
	}
	return "k" + strconv.FormatInt(x>>48, 7)
}

// typesScenario is the whole case for one element type; conv maps an arbitrary 64-bit number to a value (for integer
// types the plain conversion, which wraps).
func typesScenario[E typ.Ordered](c TCase, conv func(x int64) E) (msg string, labels []string) {
	n := c.N
	input := make([]E, n)
	var model []E
	switch c.Pattern {
	case "hash":
		for i := range input {
			input[i] = conv(int64(mix(uint64(i)*2654435761 + uint64(c.Salt))))
		}
	case "asc":
		for i := range input {
			input[i] = conv(int64(i - n/2))
		}
	case "desc":
		for i := range input {
			input[i] = conv(int64(n/2 - i))
		}
	case "few":
		for i := range input {
			input[i] = conv(int64(mix(uint64(i+c.Salt))%3) - 1)
		}
	case "nearly":
		// 4096 distinct candidates, sorted, each repeated n/4096 times
		cand := make([]E, 4096)
		for i := range cand {
			cand[i] = conv(int64(mix(uint64(i)*40503 + uint64(c.Salt))))
		}
		sort.Slice(cand, func(i, j int) bool { return cand[i] < cand[j] })
		for i := range input {
			input[i] = cand[int(uint64(i)*4096/uint64(n))]
		}
		model = append([]E(nil), input...)
		for k := 0; k < 7; k++ { // exchange a few neighbours that differ
			p := int(mix(uint64(k+c.Salt)) % uint64(n-1))
			for p+1 < n && input[p] == input[p+1] {
				p++
			}
			if p+1 < n && input[p] < input[p+1] {
				input[p], input[p+1] = input[p+1], input[p]
			}
		}
	default:
		return "malformed case: pattern " + c.Pattern, nil
	}
	saved := append([]E(nil), input...)
	if model == nil {
		model = append([]E(nil), input...)
		sort.SliceStable(model, func(i, j int) bool { return model[i] < model[j] })
	}
	build := func(v []E) slices.Sorted[E] {
		if c.Ctor == 1 {
			return slices.NewSorted(v, typ.Less[E])
		}
		return slices.NewSortedOrdered(v...)
	}
	var zero E
	name := fmt.Sprintf("Sorted[%T]", zero)
	s := build(input)
	if d := firstDiff(input, saved); d < len(input) {
		return fmt.Sprintf("%s: the constructor changed the caller's input at position %d: %v, was %v", name, d, input[d], saved[d]), nil
	}
	full := func(s *slices.Sorted[E], model []E, when string) string {
		if l := s.Len(); l != len(model) {
			return fmt.Sprintf("%s %s: Len() = %d, want %d", name, when, l, len(model))
		}
		for i, w := range model {
			g := s.Get(i)
			if g != w {
				return fmt.Sprintf("%s %s: Get(%d) = %v, want %v (Len %d)", name, when, i, g, w, len(model))
			}
			if i > 0 && g < model[i-1] {
				return fmt.Sprintf("%s %s: not sorted at %d", name, when, i)
			}
		}
		return ""
	}
	if m := full(&s, model, "right after the constructor over "+strconv.Itoa(n)+" values ("+c.Pattern+")"); m != "" {
		return m, nil
	}
	for i := range input { // the input is the caller's again: overwrite it
		input[i] = conv(int64(i)*7 + 3)
	}
	if m := full(&s, model, "after the caller has overwritten its input slice"); m != "" {
		return m, nil
	}
	lower := func(model []E, v E) int { return sort.Search(len(model), func(i int) bool { return !(model[i] < v) }) }
	index := func(model []E, v E) int {
		p := lower(model, v)
		if p < len(model) && model[p] == v {
			return p
		}
		return -1
	}
	// one step of a history on (s, model); returns the new model
	step := func(s *slices.Sorted[E], model []E, k int, when string) ([]E, string) {
		h := mix(uint64(k)*977 + uint64(c.Salt)*31 + 7)
		var v E
		switch (h >> 8) % 4 {
		case 0:
			v = conv(int64(mix(h)))
		case 1:
			if len(model) > 0 {
				v = model[int((h>>16)%uint64(len(model)))]
			}
		case 2:
			if len(model) > 0 {
				v = model[[]int{0, len(model) - 1, len(model) / 2}[(h>>16)%3]]
			}
		case 3:
			v = conv(int64(h>>16%5) - 2)
		}
		switch h % 8 {
		case 0, 1, 2:
			p := s.Add(v)
			lo := lower(model, v)
			hi := lo
			for hi < len(model) && model[hi] == v {
				hi++
			}
			if p < lo || p > hi {
				return model, fmt.Sprintf("%s %s: Add(%v) = %d, but the value now sits at %d..%d", name, when, v, p, lo, hi)
			}
			model = append(model, v)
			copy(model[lo+1:], model[lo:])
			model[lo] = v
			if g := s.Get(p); g != v {
				return model, fmt.Sprintf("%s %s: Add(%v) = %d, but Get(%d) = %v", name, when, v, p, p, g)
			}
		case 3, 4:
			w := index(model, v)
			if g := s.Remove(v); g != w {
				return model, fmt.Sprintf("%s %s: Remove(%v) = %d, want %d (Len %d)", name, when, v, g, w, len(model))
			}
			if w >= 0 {
				model = append(model[:w:w], model[w+1:]...)
			}
		case 5:
			if len(model) > 0 {
				p := int((h >> 20) % uint64(len(model)))
				s.RemoveAt(p)
				model = append(model[:p:p], model[p+1:]...)
			}
		case 6:
			w := index(model, v)
			if g := s.Index(v); g != w {
				return model, fmt.Sprintf("%s %s: Index(%v) = %d, want %d (Len %d)", name, when, v, g, w, len(model))
			}
			if g := s.Contains(v); g != (w >= 0) {
				return model, fmt.Sprintf("%s %s: Contains(%v) = %v, but Index is %d", name, when, v, g, w)
			}
		case 7:
			for _, p := range []int{-1, len(model)} {
				if pan, _ := try(func() { s.Get(p) }); !pan {
					return model, fmt.Sprintf("%s %s: Get(%d) did not panic (Len %d)", name, when, p, len(model))
				}
				if pan, _ := try(func() { s.RemoveAt(p) }); !pan {
					return model, fmt.Sprintf("%s %s: RemoveAt(%d) did not panic (Len %d)", name, when, p, len(model))
				}
			}
		}
		if l := s.Len(); l != len(model) {
			return model, fmt.Sprintf("%s %s: Len() = %d, want %d", name, when, l, len(model))
		}
		return model, ""
	}
	giant := n > 1<<20
	steps := 48
	if giant {
		steps = 10
	}
	// Index/Contains of every value of a small range (all 256 values of a one-byte type among them) and of a sample
	probe := func(s *slices.Sorted[E], model []E, when string) string {
		for x := -130; x < 260; x++ {
			v := conv(int64(x))
			if g, w := s.Index(v), index(model, v); g != w {
				return fmt.Sprintf("%s %s: Index(%v) = %d, want %d (Len %d)", name, when, v, g, w, len(model))
			}
		}
		for k := 0; k < 40 && len(model) > 0; k++ {
			v := model[int(mix(uint64(k))%uint64(len(model)))]
			w := index(model, v)
			if g := s.Index(v); g != w {
				return fmt.Sprintf("%s %s: Index(%v) = %d, want %d (Len %d)", name, when, v, g, w, len(model))
			}
			if !s.Contains(v) {
				return fmt.Sprintf("%s %s: Contains(%v) = false for a value that is in (at %d)", name, when, v, w)
			}
		}
		return ""
	}
	if m := probe(&s, model, "after the constructor"); m != "" {
		return m, nil
	}
	var m string
	for k := 0; k < steps; k++ {
		when := "at step " + strconv.Itoa(k) + " after the constructor over " + strconv.Itoa(n) + " values"
		if model, m = step(&s, model, k, when); m != "" {
			return m, nil
		}
		if k%8 == 7 && !giant {
			if m = full(&s, model, when); m != "" {
				return m, nil
			}
		}
	}
	if m = full(&s, model, "after the history"); m != "" {
		return m, nil
	}
	// clone (a second constructor over the contents read out of the first), then shrink ONE side only, use both
	contents := make([]E, s.Len())
	for i := range contents {
		contents[i] = s.Get(i)
	}
	t := build(contents)
	modelT := append([]E(nil), model...)
	if m = full(&t, modelT, "clone (constructor over the contents of the first)"); m != "" {
		return m, nil
	}
	shrink, other, ms, mo := &t, &s, &modelT, &model
	if c.Salt&1 == 1 {
		shrink, other, ms, mo = &s, &t, &model, &modelT
	}
	target := []int{len(*ms) / 2, len(*ms) / 4, 1 << 14, 1<<14 - 1, 255, 31}[c.Salt%6]
	front := c.Salt&2 == 2 && !giant && n <= 1<<12
	for len(*ms) > target && len(*ms) > 0 {
		if front {
			shrink.RemoveAt(0)
			*ms = (*ms)[1:]
		} else {
			shrink.RemoveAt(len(*ms) - 1)
			*ms = (*ms)[:len(*ms)-1]
		}
	}
	if m = full(shrink, *ms, "after shrinking one of two clones"); m != "" {
		return m, nil
	}
	if m = full(other, *mo, "(the clone that was NOT shrunk) after shrinking the other"); m != "" {
		return m, nil
	}
	for k := 0; k < 12; k++ {
		if *ms, m = step(shrink, *ms, 1000+k, "(shrunk clone) at step "+strconv.Itoa(k)); m != "" {
			return m, nil
		}
		if *mo, m = step(other, *mo, 2000+k, "(other clone) at step "+strconv.Itoa(k)); m != "" {
			return m, nil
		}
	}
	if m = full(shrink, *ms, "shrunk clone at the end"); m != "" {
		return m, nil
	}
	if m = full(other, *mo, "other clone at the end"); m != "" {
		return m, nil
	}
	if m = probe(other, *mo, "other clone at the end"); m != "" {
		return m, nil
	}
	return "", []string{"type=" + c.Type, "pattern=" + c.Pattern, "size=2^" + strconv.Itoa(bitsLen(n))}
}

func bitsLen(n int) int {
	k := 0
	for n > 1 {
		n >>= 1
		k++
	}
	return k
}

// Two DISTINCT element types that print the same name (c07.num), declared locally in two functions.
func localNumA(c TCase) (string, []string) {
	type num int8
	return typesScenario(c, func(x int64) num { return num(x) })
}

func localNumB(c TCase) (string, []string) {
	type num uint8
	return typesScenario(c, func(x int64) num { return num(x) })
}

func localNumC(c TCase) (string, []string) {
	type num float32
	return typesScenario(c, func(x int64) num { return num(f32Of(x)) })
}

var typeRunners = map[string]func(TCase) (string, []string){
	"int8":    func(c TCase) (string, []string) { return typesScenario(c, func(x int64) int8 { return int8(x) }) },
	"uint8":   func(c TCase) (string, []string) { return typesScenario(c, func(x int64) uint8 { return uint8(x) }) },
	"int16":   func(c TCase) (string, []string) { return typesScenario(c, func(x int64) int16 { return int16(x) }) },
	"uint16":  func(c TCase) (string, []string) { return typesScenario(c, func(x int64) uint16 { return uint16(x) }) },
	"int32":   func(c TCase) (string, []string) { return typesScenario(c, func(x int64) int32 { return int32(x) }) },
	"uint32":  func(c TCase) (string, []string) { return typesScenario(c, func(x int64) uint32 { return uint32(x) }) },
	"int64":   func(c TCase) (string, []string) { return typesScenario(c, func(x int64) int64 { return x }) },
	"uint64":  func(c TCase) (string, []string) { return typesScenario(c, func(x int64) uint64 { return uint64(x) }) },
	"int":     func(c TCase) (string, []string) { return typesScenario(c, func(x int64) int { return int(x) }) },
	"uint":    func(c TCase) (string, []string) { return typesScenario(c, func(x int64) uint { return uint(x) }) },
	"uintptr": func(c TCase) (string, []string) { return typesScenario(c, func(x int64) uintptr { return uintptr(x) }) },
	"float32": func(c TCase) (string, []string) { return typesScenario(c, f32Of) },
	"float64": func(c TCase) (string, []string) { return typesScenario(c, f64Of) },
	"string":  func(c TCase) (string, []string) { return typesScenario(c, strOf) },
	"nI8":     func(c TCase) (string, []string) { return typesScenario(c, func(x int64) nI8 { return nI8(x) }) },
	"nU8":     func(c TCase) (string, []string) { return typesScenario(c, func(x int64) nU8 { return nU8(x) }) },
	"nI16":    func(c TCase) (string, []string) { return typesScenario(c, func(x int64) nI16 { return nI16(x) }) },
	"nF32":    func(c TCase) (string, []string) { return typesScenario(c, func(x int64) nF32 { return nF32(f32Of(x)) }) },
	"nStr":    func(c TCase) (string, []string) { return typesScenario(c, func(x int64) nStr { return nStr(strOf(x)) }) },
	"numA":    localNumA,
	"numB":    localNumB,
	"numC":    localNumC,
}

var typeOrder = []string{"int8", "uint8", "int16", "uint16", "int32", "uint32", "int64", "uint64", "int", "uint", "uintptr",
	"float32", "float64", "string", "nI8", "nU8", "nI16", "nF32", "nStr", "numA", "numB", "numC"}

func RunTypes(c TCase) pbt.Outcome {
	r := typeRunners[c.Type]
	if r == nil || c.N < 2 {
		return pbt.Fail("malformed case: type %q n %d", c.Type, c.N)
	}
	msg, labels := r(c)
	if msg != "" {
		return pbt.Fail("%s", msg)
	}
	return pbt.Outcome{NonTrivial: true, Evals: c.N, Labels: labels}
}

func typesCases(tier string, yield func(TCase) bool) {
	var sizes []int
	top := 13
	if tier == "thorough" {
		top = 16
	}
	for k := 3; k <= top; k++ {
		sizes = append(sizes, 1<<k-1, 1<<k, 1<<k+1)
	}
	sizes = append(sizes, 300, 1000, 1<<14+1, 1<<16+1)
	i := 0
	for _, n := range sizes {
		for ti, ty := range typeOrder {
			pats := []string{"hash", "asc", "desc", "few"}
			if n > 1100 && tier != "thorough" {
				pats = []string{"hash", pats[1+(i+ti)%3]}
			}
			if n > 1<<14 && tier != "thorough" {
				pats = pats[(i+ti)%2:][:1]
			}
			for _, p := range pats {
				i++
				if !yield(TCase{Type: ty, N: n, Pattern: p, Ctor: i % 2, Salt: i}) {
					return
				}
			}
		}
	}
	// giant: 2^22..2^23 values, nearly sorted; one-byte, two-byte and four-byte types
	giants := []TCase{
		{Type: "int8", N: 1<<22 + 5, Pattern: "nearly", Ctor: 0, Salt: 4},
		{Type: "float32", N: 1<<22 + 1, Pattern: "nearly", Ctor: 0, Salt: 9},
		{Type: "uint8", N: 1<<23 + 3, Pattern: "nearly", Ctor: 1, Salt: 2},
		{Type: "nI16", N: 1<<22 - 1, Pattern: "nearly", Ctor: 0, Salt: 3},
	}
	if tier == "thorough" {
		giants = append(giants,
			TCase{Type: "numA", N: 1 << 23, Pattern: "nearly", Ctor: 0, Salt: 5},
			TCase{Type: "int32", N: 1<<23 + 1, Pattern: "nearly", Ctor: 0, Salt: 6},
			TCase{Type: "nF32", N: 1<<22 + 77, Pattern: "nearly", Ctor: 1, Salt: 7},
			TCase{Type: "uint16", N: 1<<22 + 1<<16, Pattern: "nearly", Ctor: 0, Salt: 8})
	}
	for _, c := range giants {
		if !yield(c) {
			return
		}
	}
}

var specTypes = pbt.Register(&pbt.Spec[TCase]{
	Property: "C07", Name: "C07.types",
	Rule: "enumerated: every ordered ELEMENT TYPE - int8, uint8, int16, uint16, int32, uint32, int64, uint64, int, uint, uintptr, float32, float64, string, named types over int8/uint8/int16/float32/string, and three DISTINCT function-local types that are all called num (over int8, uint8, float32) - " +
		"with NewSortedOrdered and NewSorted(typ.Less) alternating, for every size n in {2^k-1, 2^k, 2^k+1 : k = 3..13} (thorough ..16), 300, 1000, 2^14+1, 2^16+1 and the layouts hash (pseudo-random over the WHOLE range of the type: all 256 values of a one-byte type, both signs; float32/float64 thirds-of-tenths that are not exactly representable, -0.0/+0.0, huge and denormal; strings with an empty one and a \\xff prefix), ascending and descending around zero, three distinct values " +
		"(all four up to 1025, two above, one above 2^14); plus GIANT nearly sorted inputs (4096 distinct values over the whole range in equal runs, seven exchanged neighbours) of 2^22+5 int8, 2^22+1 float32, 2^23+3 uint8, 2^22-1 named int16 (thorough four more). " +
		"Checked: the input is unchanged and not aliased (it is overwritten afterwards), complete read-back against a stable sort with <, Index of every value -130..259 converted to the type and Contains/Index of 40 present values, 48 (giant 10) steps of Add/Remove/RemoveAt/Index/Contains/out-of-range Get and RemoveAt with present, extreme, absent and near-zero arguments (returned positions checked, complete read-back every 8 steps), then CLONE - a second constructor over the contents read out with Get -, shrink ONE of the two (down to a half, a quarter, 2^14, 2^14-1, 255 or 31 values, from the back or for small ones from the front), complete read-back of both, 12 more steps on each alternately, read-back of both. non-trivial = every case",
	Enum: func(shard, shards int, tier string, yield func(TCase) bool) {
		i := 0
		typesCases(tier, func(c TCase) bool {
			i++
			if shards > 1 && i%shards != shard {
				return true
			}
			return yield(c)
		})
	},
	Exhaustive: true,
	Run:        RunTypes, CaseCPU: 60 * time.Second,
})

func TestC07Types(t *testing.T) { pbt.Check(t, specTypes) }
