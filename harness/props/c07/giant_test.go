package c07

import (
	"testing"
	"time"

	"verifharness/internal/pbt"
)

func sharded(cases func(tier string, yield func(Case) bool)) func(shard, shards int, tier string, yield func(Case) bool) {
	return func(shard, shards int, tier string, yield func(Case) bool) {
		i := 0
		cases(tier, func(c Case) bool {
			i++
			if shards > 1 && i%shards != shard {
				return true
			}
			return yield(c)
		})
	}
}

// ---- KILLER: inputs that are adversarial for the sort inside NewSorted

// killerCase: NewSorted over n distinct values laid out as the killer permutation of adversary adv (every second case:
// behind 7 plain values, so that the bad stretch does not start at position 0; every third: followed by 5 more), then
// a short history.
func killerCase(order string, n, adv, k int) Case {
	c := Case{Order: order, Vals: 4*n + 64, Init: []int{}, Spare: k % 3, Procs: enumProcs[k%len(enumProcs)]}
	if k%2 == 1 {
		c.Bulk = append(c.Bulk, Fill{N: 7, A: 2*n + 3, S: 3})
	}
	c.Bulk = append(c.Bulk, Fill{N: n, A: 1, S: 2, Adv: adv})
	if k%3 == 2 {
		c.Bulk = append(c.Bulk, Fill{N: 5, A: 2, S: 2})
	}
	c.Ops = []Op{{K: opSweep, A: 0}, {K: opAdd, A: 0, S: 7919, R: 5}, {K: opSweep, A: 1}, {K: opRemove, A: 1, S: 104729, R: 5},
		{K: opRemoveAt, A: 5, B: 0, S: 7919, R: 3}, {K: opRemoveAt, B: 7}, {K: opRemoveAt, B: 2}, {K: opGet, B: 1}, {K: opRemove, A: 4*n + 60},
		{K: opAdd, A: 3}, {K: opIndex, A: 3}, {K: opContains, A: 5}, {K: opLen}, {K: opSweep, A: 3}}
	return c
}

func killerCases(tier string, yield func(Case) bool) {
	sizes := []int{13, 20, 33, 41, 50, 64, 100, 200, 500, 1000, 5000}
	top, quad := 8192, 2100
	if tier == "thorough" {
		top, quad = 1<<15, 8200
		sizes = append(sizes, 14, 25, 40, 42, 75, 150, 300, 700, 3000, 10000, 20000, 30000)
	}
	sizes = append(sizes, thresholds(128, top)...)
	k := 0
	for _, n := range sizes {
		for adv := 1; adv < nAdv; adv++ {
			if adv >= 5 && n > quad {
				continue
			}
			k++
			orders := []string{allOrders[(k*7)%len(allOrders)]}
			if adv == 1 || adv == 4 {
				orders = append(orders, []string{"int", "desc", "str", "lex", "float"}[k%5])
			}
			if tier == "thorough" {
				orders = append(orders, allOrders[(k*7+3)%len(allOrders)], allOrders[(k*7+8)%len(allOrders)])
			}
			for i, o := range orders {
				if !yield(killerCase(o, n, adv, k+i)) {
					return
				}
			}
		}
	}
}

var specKiller = pbt.Register(&pbt.Spec[Case]{
	Property: "C07", Name: "C07.killer",
	Rule: "enumerated ADVERSARIAL inputs for the sort inside NewSorted: n distinct values laid out as the quicksort-killer permutation that M. D. McIlroy's adversary builds against (1) the library's own NewSorted - that run, over the items 0..n-1 with the adversary's less (a strict total order), is itself checked -, (2) sort.Slice (pdqsort), (3) sort.SliceStable, (4) a copy of the Go <= 1.18 sort.Sort quicksort (median of three / ninther, no depth limit), (5-7) a plain quicksort with first / middle / median-of-three pivot; " +
		"n in {13, 20, 33, 41, 50, 64, 100, 200, 500, 1000, 5000} and {p-1,p,p+1 : p = 128..8192} (thorough: more sizes, ..32768; the quadratic adversaries 5-7 up to 2100, thorough 8200), in every second case behind 7 plain values and in every third followed by 5 more; orders/element types in rotation (the library's own and the Go 1.18 killer additionally with one of int/desc/str/lex/float; thorough: four orders each), GOMAXPROCS in rotation; " +
		"then Sweep, scattered Adds/Removes/RemoveAts, out-of-range calls, Sweep. " + rule + ruleNT,
	Enum: sharded(killerCases),
	Run:  Run, CaseCPU: 120 * time.Second,
})

// ---- GIANT: millions of values behind an insertion point

// giantCase: NewSorted over n ascending (for the order) distinct values (u8: n/65536 runs of 65536 equal values), then
// calls that move long tails: Adds and removals near the front, Adds and RemoveAts whose tail (values above the position)
// is p-3..p+3 long, in the middle and at the end; out-of-range calls; Sweeps. Every call is followed by the full
// comparison with the model (see run).
func giantCase(order string, n, p, procs int, flip bool) Case {
	c := Case{Order: order, Vals: 1 << 26, Init: []int{}, Spare: n % 3, Procs: procs, Flip: flip}
	at := func(i int) int { return i } // the raw value that belongs at position i
	switch order {
	case "desc", "ifdesc", "iffloat":
		c.Bulk = []Fill{{N: n, A: n + 7, S: -1}}
		at = func(i int) int { return n + 7 - i }
	case "u8":
		c.Vals = 1 << 24
		c.Bulk = []Fill{{N: n, A: 0, S: 1}}
	default:
		if order == "weak" || order == "ifweak" {
			c.Vals = 1 << 25
		}
		c.Bulk = []Fill{{N: n, A: 8, S: 1}}
		at = func(i int) int { return 8 + i }
	}
	dir := at(1) - at(0)
	edge := n - p // a value at this position has p values above it
	if edge < 8 {
		edge = n / 2
	}
	c.Ops = []Op{{K: opSweep, A: 0},
		{K: opAdd, A: at(1), S: 2 * dir, R: 2}, {K: opAdd, A: at(0) - dir},
		{K: opAdd, A: at(edge - 3), S: dir, R: 6},
		{K: opAdd, A: at(n / 2)}, {K: opAdd, A: at(n-1) + dir},
		{K: opRemove, A: at(2), S: 7919 * dir, R: 2}, {K: opRemoveAt, A: 0, B: 0, R: 1}, {K: opRemoveAt, B: 7}, {K: opRemoveAt, A: -1, B: 0},
		{K: opRemoveAt, A: edge - 2, B: 0, S: 1, R: 4},
		{K: opRemoveAt, B: 2}, {K: opGet, B: 5}, {K: opGet, B: 1}, {K: opRemove, A: at(0) - 3*dir},
		{K: opGC, A: n}, {K: opAdd, A: at(3)}, {K: opIndex, A: at(3)}, {K: opContains, A: at(5)}, {K: opLen}, {K: opSweep, A: 3}}
	return c
}

func giantCases(tier string, yield func(Case) bool) {
	type g struct {
		order      string
		n, p, proc int
		flip       bool
	}
	list := []g{
		{"u32", 1<<22 + 12, 1 << 22, 0, false}, {"int", 1<<22 + 13, 1 << 22, 0, true}, {"u32", 1<<23 + 12, 1 << 23, 3, false},
		{"u8", 1 << 24, 1 << 22, 0, false}, {"desc", 1<<21 + 12, 1 << 21, 0, false}, {"lex", 1<<20 + 12, 1 << 20, 7, false},
		{"float", 1<<21 + 5, 1 << 21, 1, true}, {"u32", 1<<22 - 3, 1 << 21, 0, false}, {"weak", 1<<20 + 12, 1 << 20, 0, false},
		{"u8", 1<<22 + 1<<16, 1 << 22, 5, true},
	}
	if tier == "thorough" {
		k := 0
		orders := []string{"u32", "int", "desc", "float", "lex", "weak", "named", "ifdesc", "ifptr", "ifweak"}
		for _, p := range []int{1 << 20, 1 << 21, 1 << 22, 1 << 23} {
			for _, off := range []int{-1, 0, 1, 12, 4099} {
				k++
				o := orders[k%len(orders)]
				if p >= 1<<23 && k%2 == 0 {
					o = "u32"
				}
				list = append(list, g{o, p + off + 5, p, enumProcs[k%len(enumProcs)], k%3 == 0})
			}
			list = append(list, g{"u8", p + 1<<16, p, enumProcs[k%len(enumProcs)], k%2 == 0}, g{"u8", 1 << 24, p, 0, false})
		}
		list = append(list, g{"str", 1<<20 + 12, 1 << 20, 0, false}, g{"u32", 1 << 24, 1 << 23, 0, false}, g{"u32", 1<<24 + 9, 1 << 24, 6, true},
			g{"u8", 1<<24 + 1<<16, 1 << 24, 0, false}, g{"u8", 1<<25 - 1<<16, 1 << 24, 2, false})
	}
	for _, x := range list {
		if !yield(giantCase(x.order, x.n, x.p, x.proc, x.flip)) {
			return
		}
	}
}

var specGiant = pbt.Register(&pbt.Spec[Case]{
	Property: "C07", Name: "C07.giant",
	Rule: "enumerated GIANT inputs: NewSorted/NewSortedOrdered over n values already in the order's order, n a little above (and once below) 2^20, 2^21, 2^22, 2^23 for uint32 (four bytes), int, descending, floats, lexicographic and weak structs, and 2^22+2^16 and 2^24 values of ONE BYTE (256 or 65 runs of exactly 65536 equal values, so that every multiple of 2^16 above an insertion point is a boundary between different values) " +
		"(thorough: n = p-1+5, p+5, p+6, p+17, p+4104 for every p = 2^20..2^23 with ten orders in rotation, one-byte inputs of p+2^16, 2^24, 2^24+2^16 and 2^25-2^16 values, uint32 of 2^24 and 2^24+9, strings of 2^20), some under GOMAXPROCS 1/3/5/7, some while another goroutine keeps switching GOMAXPROCS between 2 and 7; " +
		"then: Sweep, Adds at the second, fourth, sixth and before the first position (everything above moves), seven Adds whose tail (the values above the insertion point) is p-3..p+3 long, Add in the middle and above the maximum, Removes near the front, RemoveAt(0) twice, RemoveAt middle/last, five RemoveAts with a tail of about p, out-of-range RemoveAt/Get, Remove of an absent value, runtime.GC(), Add/Index/Contains/Len/Sweep. The unit is Crashy: a stack overflow or fault of the process counts against the running case. " + rule + ruleNT,
	Enum: sharded(giantCases),
	Run:  Run, CaseCPU: 300 * time.Second, Crashy: true,
})

// ---- IDLE: wall-clock time passes in the middle of a history

func idleCases(tier string, yield func(Case) bool) {
	nap := 21 // 2.1 s
	sizes := []int{100, 4096, 16400, 1030}
	if tier == "thorough" {
		nap = 51
		sizes = append(sizes, 64, 300, 8192, 33000)
	}
	for i, n := range sizes {
		o := []string{"int", "str", "desc", "lex", "float", "weak", "u32", "named"}[i%8]
		a, s, vals := patterns[[]int{6, 0, 3, 1}[i%4]].f(n)
		c := Case{Order: o, Vals: vals, Init: []int{}, Bulk: []Fill{{N: n, A: a, S: s}}, Spare: i % 3}
		last := Op{K: opRemoveAt, A: -1, B: 0}
		if i%2 == 1 {
			last = Op{K: opRemoveAt, A: 0, B: 0}
		}
		c.Ops = []Op{{K: opSweep}, withR(last, n-n/8-1), {K: opSweep, A: 1},
			{K: opSleep, A: nap},
			{K: opAdd, A: a + 1}, {K: opSweep, A: 2}, {K: opRemove, A: a, S: s, R: 2}, {K: opRemoveAt, B: 7}, {K: opIndex, A: a + 1}, {K: opString}, {K: opLen},
			{K: opAdd, A: a + 2, S: 7919, R: n / 2}, {K: opSweep, A: 3}, withR(last, n/2+n/8-4), {K: opGC, A: i},
			{K: opSleep, A: nap},
			{K: opRemoveAt, A: 0, B: 0}, {K: opSweep, A: 4}, {K: opAdd, A: a + 3, S: 3, R: 40}, {K: opRemove, A: a + 3, S: 3, R: 41}, {K: opGet, B: 2}, {K: opRemoveAt, B: 1}, {K: opSweep, A: 5}}
		if !yield(c) {
			return
		}
	}
}

var specIdle = pbt.Register(&pbt.Spec[Case]{
	Property: "C07", Name: "C07.idle",
	Rule: "enumerated histories in which WALL-CLOCK TIME passes: NewSorted over n values (n = 100, 1030, 4096, 16400; thorough also 64, 300, 8192, 33000), drained to an eighth from the end or the front, then time.Sleep(2.1 s) (thorough 5.1 s), Add/Sweep/Removes/RemoveAt/Index/String/Len, n/2 Adds, drained again, runtime.GC(), a second sleep of the same length, RemoveAt/Sweep/41 Adds/42 Removes/out-of-range calls/Sweep; eight orders in rotation. " + rule + ruleNT,
	Enum: sharded(idleCases),
	Run:  Run, CaseCPU: 120 * time.Second,
})

func TestC07Killer(t *testing.T) { pbt.Check(t, specKiller) }
func TestC07Giant(t *testing.T)  { pbt.Check(t, specGiant) }
func TestC07Idle(t *testing.T)   { pbt.Check(t, specIdle) }
