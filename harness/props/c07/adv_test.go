package c07

import (
	"fmt"
	"sort"

	"gopkg.in/typ.v4/slices"
)

// Adversarial inputs for the sort inside NewSorted: M. D. McIlroy's "A Killer Adversary for Quicksort" (1999). The
// adversary answers the comparisons of a sort that runs on the items 0..n-1 and decides the values of the items as late
// as possible ("gas" = not decided yet); every answer is consistent with the values it ends up with, so the less function
// it hands to the sort IS a strict total order. The resulting values, laid out in item order, are an input on which
// the same (deterministic) sort does as badly as it can be made to: a quicksort degenerates to quadratic time and an
// introsort is driven into its heapsort fallback.

const (
	nAdv   = 8
	maxAdv = 1 << 15 // longer runs are laid out arithmetically (the plain quicksorts below are quadratic on their killers)
)

var advNames = [nAdv]string{"", "of-the-library-itself", "of-sort.Slice", "of-sort.SliceStable", "of-go1.18-sort.Sort", "of-quicksort-first-pivot", "of-quicksort-middle-pivot", "of-quicksort-median-of-3"}

// antiRanks runs the adversary against sort number kind and returns the rank (0..n-1) of every item. Kind 1 sorts
// with the library's NewSorted, which is a call inside the documented domain like any other: its result must be the
// items in the order of their final ranks (msg != "" otherwise).
func antiRanks(kind, n int) (ranks []int, msg string) {
	gas := n
	val := make([]int, n)
	items := make([]int, n)
	for i := range val {
		val[i] = gas
		items[i] = i
	}
	nsolid, candidate := 0, 0
	less := func(x, y int) bool {
		if val[x] == gas && val[y] == gas {
			if x == candidate {
				val[x] = nsolid
			} else {
				val[y] = nsolid
			}
			nsolid++
		}
		if val[x] == gas {
			candidate = x
		} else if val[y] == gas {
			candidate = y
		}
		return val[x] < val[y]
	}
	freeze := func() {
		for i := range val {
			if val[i] == gas {
				val[i] = nsolid
				nsolid++
			}
		}
	}
	switch kind {
	case 1:
		s := slices.NewSorted(items, less)
		freeze()
		if l := s.Len(); l != n {
			return nil, fmt.Sprintf("NewSorted over the %d items 0..%d with the less function of McIlroy's quicksort adversary (a strict total order: every answer is consistent with the final ranks): Len() = %d", n, n-1, l)
		}
		for k := 0; k < n; k++ {
			if it := s.Get(k); it < 0 || it >= n || val[it] != k {
				r := -1
				if it >= 0 && it < n {
					r = val[it]
				}
				return nil, fmt.Sprintf("NewSorted over the %d items 0..%d with the less function of McIlroy's quicksort adversary (a strict total order: every answer is consistent with the final ranks of the items; item i has rank %s): Get(%d) = item %d of rank %d, want the item of rank %d - the contents are not in order", n, n-1, show(val, 0), k, it, r, k)
			}
		}
		for i, it := range items {
			if it != i {
				return nil, fmt.Sprintf("NewSorted over the items 0..%d reordered the caller's slice: position %d now holds %d", n-1, i, it)
			}
		}
	case 2:
		sort.Slice(items, func(i, j int) bool { return less(items[i], items[j]) })
	case 3:
		sort.SliceStable(items, func(i, j int) bool { return less(items[i], items[j]) })
	case 4:
		go118QuickSort(items, less, 0, n)
	case 5, 6, 7:
		plainQuickSort(items, less, kind-5)
	default:
		for i := range val {
			val[i] = i
		}
		return val, ""
	}
	freeze()
	return val, ""
}

// plainQuickSort: textbook quicksort (Hoare partition around a pivot value, insertion sort below 8) with the pivot
// taken from the first position (rule 0), the middle (1) or as the median of first, middle and last (2). Iterates on the
// larger part so that the recursion stays shallow on killer inputs.
func plainQuickSort(d []int, less func(a, b int) bool, rule int) {
	for len(d) > 8 {
		m := len(d) / 2
		switch rule {
		case 0:
			m = 0
		case 2:
			lo, hi := 0, len(d)-1
			if less(d[m], d[lo]) {
				d[m], d[lo] = d[lo], d[m]
			}
			if less(d[hi], d[m]) {
				d[hi], d[m] = d[m], d[hi]
				if less(d[m], d[lo]) {
					d[m], d[lo] = d[lo], d[m]
				}
			}
		}
		d[0], d[m] = d[m], d[0]
		p := d[0]
		i, j := 1, len(d)-1
		for {
			for i <= j && less(d[i], p) {
				i++
			}
			for i <= j && less(p, d[j]) {
				j--
			}
			if i >= j {
				break
			}
			d[i], d[j] = d[j], d[i]
			i++
			j--
		}
		d[0], d[j] = d[j], d[0]
		if j < len(d)-j-1 {
			plainQuickSort(d[:j], less, rule)
			d = d[j+1:]
		} else {
			plainQuickSort(d[j+1:], less, rule)
			d = d[:j]
		}
	}
	for i := 1; i < len(d); i++ {
		for j := i; j > 0 && less(d[j], d[j-1]); j-- {
			d[j], d[j-1] = d[j-1], d[j]
		}
	}
}

// go118QuickSort: the quicksort of sort.Sort up to Go 1.18 (median of three, Tukey's ninther above 40 elements,
// three-way partition with duplicate protection, shell pass + insertion sort below 12) without its depth limit.
func go118QuickSort(d []int, less func(a, b int) bool, a, b int) {
	lt := func(i, j int) bool { return less(d[i], d[j]) }
	swap := func(i, j int) { d[i], d[j] = d[j], d[i] }
	med3 := func(m1, m0, m2 int) {
		if lt(m1, m0) {
			swap(m1, m0)
		}
		if lt(m2, m1) {
			swap(m2, m1)
			if lt(m1, m0) {
				swap(m1, m0)
			}
		}
	}
	for b-a > 12 {
		lo, hi := a, b
		m := int(uint(lo+hi) >> 1)
		if hi-lo > 40 {
			s := (hi - lo) / 8
			med3(lo, lo+s, lo+2*s)
			med3(m, m-s, m+s)
			med3(hi-1, hi-1-s, hi-1-2*s)
		}
		med3(lo, m, hi-1)
		pivot := lo
		x, c := lo+1, hi-1
		for ; x < c && lt(x, pivot); x++ {
		}
		y := x
		for {
			for ; y < c && !lt(pivot, y); y++ {
			}
			for ; y < c && lt(pivot, c-1); c-- {
			}
			if y >= c {
				break
			}
			swap(y, c-1)
			y++
			c--
		}
		protect := hi-c < 5
		if !protect && hi-c < (hi-lo)/4 {
			dups := 0
			if !lt(pivot, hi-1) {
				swap(c, hi-1)
				c++
				dups++
			}
			if !lt(y-1, pivot) {
				y--
				dups++
			}
			if !lt(m, pivot) {
				swap(m, y-1)
				y--
				dups++
			}
			protect = dups > 1
		}
		if protect {
			for {
				for ; x < y && !lt(y-1, pivot); y-- {
				}
				for ; x < y && lt(x, pivot); x++ {
				}
				if x >= y {
					break
				}
				swap(x, y-1)
				x++
				y--
			}
		}
		swap(pivot, y-1)
		mlo, mhi := y-1, c
		if mlo-a < b-mhi {
			go118QuickSort(d, less, a, mlo)
			a = mhi
		} else {
			go118QuickSort(d, less, mhi, b)
			b = mlo
		}
	}
	if b-a > 1 {
		for i := a + 6; i < b; i++ {
			if lt(i, i-6) {
				swap(i, i-6)
			}
		}
		for i := a + 1; i < b; i++ {
			for j := i; j > a && lt(j, j-1); j-- {
				swap(j, j-1)
			}
		}
	}
}
