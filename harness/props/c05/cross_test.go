package c05

import (
	"fmt"
	"runtime"
	"sync"
	"sync/atomic"
	"testing"
	"time"

	"gopkg.in/typ.v4/sync2"
	"pgregory.net/rapid"
	"verifharness/internal/gstate"
	"verifharness/internal/pbt"
)

// XCase: two (or three) concurrent sets used as each other's arguments at the same time:
// goroutine i runs Sets[From].AddSet(Sets[To]) (or RemoveSet) Rounds times. Late members are added after an
// observation, so the sets are in the "amended" layout when the calls start.
type XCase struct {
	Init  [][]int `json:"init"`  // members of set i added first, then Len() (promotes)
	Late  [][]int `json:"late"`  // members of set i added after that
	Calls []XCall `json:"calls"` // one goroutine each
	Procs int     `json:"procs"`
	Reps  int     `json:"reps"`
}

type XCall struct {
	Recv   int  `json:"recv"`
	Arg    int  `json:"arg"`
	Remove bool `json:"remove,omitempty"`
	Rounds int  `json:"rounds"`
	// Probe: this goroutine only reads: Rounds*40 Has calls on set Recv for values it does not hold (each takes the
	// slow path through the set's mutex while the layout is amended) and for values it holds
	Probe bool `json:"probe,omitempty"`
}

func RunCross(c XCase) pbt.Outcome {
	if c.Procs > 0 {
		defer runtime.GOMAXPROCS(runtime.GOMAXPROCS(c.Procs))
	}
	onlyAdds := true
	for _, k := range c.Calls {
		if k.Remove {
			onlyAdds = false
		}
	}
	for rep := 0; rep < c.Reps; rep++ {
		sets := make([]*sync2.Set[int], len(c.Init))
		before := make([]map[int]bool, len(c.Init))
		for i := range sets {
			sets[i] = &sync2.Set[int]{}
			before[i] = map[int]bool{}
			for _, v := range c.Init[i] {
				sets[i].Add(v)
				before[i][v] = true
			}
			sets[i].Len()
			for _, v := range c.Late[i] {
				sets[i].Add(v)
				before[i][v] = true
			}
		}
		gained := make([]atomic.Int64, len(sets))
		lost := make([]atomic.Int64, len(sets))
		var finished atomic.Int32
		var probeBad atomic.Bool
		var gate atomic.Int32
		var wg sync.WaitGroup
		for _, k := range c.Calls {
			k := k
			wg.Add(1)
			go func() {
				defer wg.Done()
				gate.Add(1)
				for int(gate.Load()) < len(c.Calls) {
					runtime.Gosched()
				}
				if k.Probe {
					for r := 0; r < k.Rounds*40; r++ {
						if sets[k.Recv].Has(900000 + r%5) {
							probeBad.Store(true)
						}
					}
					finished.Add(1)
					return
				}
				for r := 0; r < k.Rounds; r++ {
					if k.Remove {
						lost[k.Recv].Add(int64(sets[k.Recv].RemoveSet(sets[k.Arg])))
					} else {
						gained[k.Recv].Add(int64(sets[k.Recv].AddSet(sets[k.Arg])))
					}
				}
				finished.Add(1)
			}()
		}
		isDone := func() bool { return int(finished.Load()) == len(c.Calls) }
		// every goroutine of the case is inside sync2.(*Set).AddSet/RemoveSet: one of them seen blocked in a mutex
		// twice while the others are blocked too or finished can never be woken
		state, fin, timedOut := gstate.WaitBlocked("sync2.(*Set[", isDone, 20*time.Second, "sync.Mutex.Lock", "sync.RWMutex.Lock", "sync.RWMutex.RLock")
		if !fin {
			if timedOut {
				return pbt.Outcome{Inconclusive: "cross AddSet/RemoveSet calls neither returned nor were seen blocked within 20s"}
			}
			// confirm that NO goroutine of the case is runnable: a mutex wait is transient while its holder runs
			if !allBlocked("sync2.(*Set[", isDone) {
				wg.Wait()
			} else {
				return pbt.Fail("repetition %d: deadlock: every unfinished goroutine is blocked (%q) inside AddSet/RemoveSet while sets are used as each other's arguments (%s)", rep, state, describeCalls(c.Calls))
			}
		}
		wg.Wait()
		if probeBad.Load() {
			return pbt.Fail("repetition %d: Has reported a value that no set ever held (%s)", rep, describeCalls(c.Calls))
		}
		// a set that nobody modifies (only an argument, or only probed) is a constant: every AddSet(recv, arg) with such an
		// arg that has completed leaves recv holding all of arg, provided nothing is ever removed from recv
		modified := make([]bool, len(sets))
		removedFrom := make([]bool, len(sets))
		for _, k := range c.Calls {
			if !k.Probe {
				modified[k.Recv] = true
				if k.Remove {
					removedFrom[k.Recv] = true
				}
			}
		}
		for _, k := range c.Calls {
			if k.Probe || k.Remove || modified[k.Arg] || removedFrom[k.Recv] || k.Rounds == 0 {
				continue
			}
			for v := range before[k.Arg] {
				if !sets[k.Recv].Has(v) {
					return pbt.Fail("repetition %d: S%d.AddSet(S%d) returned, S%d was never modified and nothing is ever removed from S%d, but member %d of S%d is missing from S%d (%s)", rep, k.Recv, k.Arg, k.Arg, k.Recv, v, k.Arg, k.Recv, describeCalls(c.Calls))
				}
			}
		}
		// conservation per set
		for i, s := range sets {
			n := 0
			for range before[i] {
				n++
			}
			final := s.Len()
			if int64(final) != int64(n)+gained[i].Load()-lost[i].Load() {
				return pbt.Fail("repetition %d: set %d started with %d members, its AddSet calls reported %d gained and its RemoveSet calls %d lost, but it now holds %d (%s)", rep, i, n, gained[i].Load(), lost[i].Load(), final, describeCalls(c.Calls))
			}
			if onlyAdds {
				for v := range before[i] {
					if !s.Has(v) {
						return pbt.Fail("repetition %d: set %d lost member %d although nothing was ever removed (%s)", rep, i, v, describeCalls(c.Calls))
					}
				}
			}
			for _, v := range s.Slice() {
				known := false
				for j := range before {
					if before[j][v] {
						known = true
					}
				}
				if !known {
					return pbt.Fail("repetition %d: set %d holds %d, which was never a member of any set (%s)", rep, i, v, describeCalls(c.Calls))
				}
			}
		}
	}
	return pbt.Outcome{Evals: c.Reps, NonTrivial: len(c.Calls) >= 2, Labels: []string{fmt.Sprintf("goroutines=%d", len(c.Calls)), map[bool]string{true: "adds-only", false: "with-removeset"}[onlyAdds]}}
}

// allBlocked: three looks 3ms apart, each finding every goroutine inside frame in a mutex wait.
func allBlocked(frame string, done func() bool) bool {
	for look := 0; look < 3; look++ {
		if done() {
			return false
		}
		gs := gstate.With(frame)
		if len(gs) == 0 {
			return false
		}
		for _, g := range gs {
			switch g.State {
			case "sync.Mutex.Lock", "sync.RWMutex.Lock", "sync.RWMutex.RLock":
			default:
				return false
			}
		}
		time.Sleep(3 * time.Millisecond)
	}
	return !done()
}

func describeCalls(cs []XCall) string {
	s := ""
	for i, k := range cs {
		if i > 0 {
			s += " || "
		}
		op := "AddSet"
		if k.Remove {
			op = "RemoveSet"
		}
		if k.Probe {
			s += fmt.Sprintf("Has-prober on S%d x%d", k.Recv, k.Rounds*40)
			continue
		}
		s += fmt.Sprintf("S%d.%s(S%d) x%d", k.Recv, op, k.Arg, k.Rounds)
	}
	return s
}

var specCross = pbt.Register(&pbt.Spec[XCase]{
	Property: "C05", Name: "C05.cross",
	Rule: "E4 free-running: 2..3 concurrent sets (0..40 members each, some added after an observation so that the layout is amended) used as each other's arguments at the same time: 2..4 goroutines each run S_i.AddSet(S_j) or S_i.RemoveSet(S_j) 1..30 times " +
		"(i = j allowed), or one goroutine runs S0.AddSet(S1) while the others only probe S1 with Has (a set nobody modifies is a constant: S0 must hold all of it afterwards), 12 repetitions on fresh sets; oracle: nobody deadlocks (every unfinished goroutine seen in a mutex wait on three looks = violation), per set: final size = initial + reported gains - reported losses, " +
		"with adds only no member is lost, and no value appears that no set ever held; non-trivial = >=2 goroutines",
	Gen: func(t *rapid.T) XCase {
		n := rapid.IntRange(2, 3).Draw(t, "sets")
		c := XCase{Procs: rapid.SampledFrom([]int{2, 4, 16}).Draw(t, "procs"), Reps: 12}
		for i := 0; i < n; i++ {
			lo := rapid.IntRange(0, 30).Draw(t, "lo")
			a := rapid.SampledFrom([]int{0, 1, 5, 20}).Draw(t, "init")
			b := rapid.SampledFrom([]int{0, 1, 3, 20}).Draw(t, "late")
			var init, late []int
			for v := lo; v < lo+a; v++ {
				init = append(init, v)
			}
			for v := lo + a; v < lo+a+b; v++ {
				late = append(late, v)
			}
			c.Init, c.Late = append(c.Init, init), append(c.Late, late)
		}
		g := rapid.IntRange(2, 4).Draw(t, "goroutines")
		if rapid.IntRange(0, 2).Draw(t, "constant-argument") == 1 {
			// S0 takes in a set that is only read meanwhile (probed with Has by others)
			c.Calls = append(c.Calls, XCall{Recv: 0, Arg: 1, Rounds: rapid.SampledFrom([]int{1, 3, 30}).Draw(t, "rounds")})
			for i := 1; i < g; i++ {
				c.Calls = append(c.Calls, XCall{Recv: 1, Probe: true, Rounds: rapid.SampledFrom([]int{1, 3, 30}).Draw(t, "rounds")})
			}
			return c
		}
		for i := 0; i < g; i++ {
			c.Calls = append(c.Calls, XCall{Recv: rapid.IntRange(0, n-1).Draw(t, "recv"), Arg: rapid.IntRange(0, n-1).Draw(t, "arg"),
				Remove: rapid.IntRange(0, 3).Draw(t, "remove") == 2, Rounds: rapid.SampledFrom([]int{1, 3, 30}).Draw(t, "rounds")})
		}
		return c
	},
	Run: RunCross, Quick: 300, Thorough: 6000, Crashy: true, Retries: 100,
})

func TestC05Cross(t *testing.T) { pbt.Check(t, specCross) }
