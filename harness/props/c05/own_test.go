package c05

import (
	"fmt"
	"runtime"
	"sync"
	"sync/atomic"
	"testing"

	"gopkg.in/typ.v4/maps"
	"gopkg.in/typ.v4/sync2"
	"pgregory.net/rapid"
	"verifharness/internal/pbt"
)

// OCase: free-spinning goroutines on ONE set. Every value has exactly one OWNER, the only goroutine that ever adds or
// removes it, so the owner knows at every moment whether its value is a member and every answer it gets about its own
// values is determined; READERS call Has / Len / Slice on everybody's values all the time (their answers are only
// sanity-checked). Fresh: the set is brand new and the goroutines' first calls are its very first calls.
type OCase struct {
	Owners  int  `json:"owners"`
	Readers int  `json:"readers"`
	Iters   int  `json:"iters"`
	Vals    int  `json:"vals"` // values per owner
	Fresh   bool `json:"fresh"`
	Bulk    bool `json:"bulk"` // owners also use AddSet / RemoveSet on their own values
	Procs   int  `json:"procs"`
	Reps    int  `json:"reps"`
}

func RunOwn(c OCase) pbt.Outcome {
	if c.Procs > 0 {
		defer runtime.GOMAXPROCS(runtime.GOMAXPROCS(c.Procs))
	}
	for rep := 0; rep < c.Reps; rep++ {
		var set sync2.Set[int]
		if !c.Fresh {
			for i := 0; i < 12; i++ {
				set.Add(9000 + i)
			}
			set.Len() // promoted
			set.Add(9100)
		}
		var viol atomic.Pointer[string]
		fail := func(format string, a ...any) {
			s := fmt.Sprintf(format, a...)
			viol.CompareAndSwap(nil, &s)
		}
		var gate atomic.Int32
		parties := c.Owners + c.Readers
		var wg, ownersWG sync.WaitGroup
		var stop atomic.Bool
		for o := 0; o < c.Owners; o++ {
			o := o
			wg.Add(1)
			ownersWG.Add(1)
			go func() {
				defer wg.Done()
				defer ownersWG.Done()
				gate.Add(1)
				for int(gate.Load()) < parties {
					runtime.Gosched()
				}
				base := (o + 1) * 100
				for i := 0; i < c.Iters && viol.Load() == nil; i++ {
					v := base + i%c.Vals
					if !set.Add(v) {
						fail("owner %d, iteration %d: Add(%d) = false, but only this goroutine ever adds or removes that value and it had removed it", o, i, v)
						return
					}
					if !set.Has(v) {
						fail("owner %d, iteration %d: Has(%d) = false right after this goroutine's Add returned true (nobody else ever removes that value)", o, i, v)
						return
					}
					if set.Add(v) {
						fail("owner %d, iteration %d: a second Add(%d) = true although the value is a member", o, i, v)
						return
					}
					if c.Bulk && i%5 == 0 {
						arg := maps.Set[int]{v: {}, v + 50: {}}
						if n := set.AddSet(arg); n != 1 {
							fail("owner %d: AddSet({member, new}) = %d, want 1", o, n)
							return
						}
						if n := set.RemoveSet(maps.Set[int]{v + 50: {}, v + 51: {}}); n != 1 {
							fail("owner %d: RemoveSet({member, absent}) = %d, want 1", o, n)
							return
						}
					}
					if !set.Remove(v) {
						fail("owner %d, iteration %d: Remove(%d) = false although the value is a member (only this goroutine removes it)", o, i, v)
						return
					}
					if set.Has(v) {
						fail("owner %d, iteration %d: Has(%d) = true right after this goroutine's Remove returned true (nobody else ever adds that value)", o, i, v)
						return
					}
				}
			}()
		}
		for r := 0; r < c.Readers; r++ {
			r := r
			wg.Add(1)
			go func() {
				defer wg.Done()
				gate.Add(1)
				for int(gate.Load()) < parties {
					runtime.Gosched()
				}
				for i := 0; !stop.Load() && viol.Load() == nil; i++ {
					v := (1+i%max(c.Owners, 1))*100 + (i/7)%c.Vals
					set.Has(v)
					if set.Has(777000 + i%3) {
						fail("reader %d: Has of a value that nobody ever adds is true", r)
						return
					}
					if i%128 == 127 {
						runtime.Gosched() // more goroutines than processors: let the owners and the coordinator run
					}
					if i%64 == 0 {
						if n := set.Len(); n < 0 {
							fail("reader: Len = %d", n)
						}
					}
				}
			}()
		}
		ownersWG.Wait()
		stop.Store(true)
		wg.Wait()
		if v := viol.Load(); v != nil {
			return pbt.Fail("repetition %d (%d owners, %d readers, fresh=%v): %s", rep, c.Owners, c.Readers, c.Fresh, *v)
		}
	}
	return pbt.Outcome{Evals: c.Reps * c.Iters * max(c.Owners, 1), NonTrivial: c.Owners+c.Readers >= 2, Labels: []string{fmt.Sprintf("fresh=%v", c.Fresh), fmt.Sprintf("owners=%d,readers=%d", c.Owners, c.Readers)}}
}

var specOwn = pbt.Register(&pbt.Spec[OCase]{
	Property: "C05", Name: "C05.own",
	Rule: "E4 free-spinning, no race detector (speed): 1..4 owner goroutines, each the only one that ever adds or removes its 1..3 values (so every answer about its own values is determined: Add true, Has true, second Add false, Remove true, Has false; AddSet/RemoveSet counts exact), " +
		"0..4 reader goroutines calling Has / Len on everybody's values all the time; 2000..100000 iterations, on a brand-new set (the goroutines' first calls are its very first calls; 300 repetitions of 3..200 iterations) or on a used one; non-trivial = >= 2 goroutines",
	Gen: func(t *rapid.T) OCase {
		c := OCase{Owners: rapid.IntRange(1, 4).Draw(t, "owners"), Readers: rapid.IntRange(0, 4).Draw(t, "readers"), Vals: rapid.IntRange(1, 3).Draw(t, "vals"),
			Fresh: rapid.Bool().Draw(t, "fresh"), Bulk: rapid.IntRange(0, 2).Draw(t, "bulk") == 1, Procs: rapid.SampledFrom([]int{2, 4, 16}).Draw(t, "procs")}
		if c.Fresh {
			c.Iters, c.Reps = rapid.SampledFrom([]int{3, 20, 200}).Draw(t, "iters"), 300
		} else {
			c.Iters, c.Reps = rapid.SampledFrom([]int{20000, 100000}).Draw(t, "iters"), 1
		}
		return c
	},
	Run: RunOwn, Quick: 40, Thorough: 1200, Crashy: true, Retries: 20, CaseCPU: 120e9,
})

func TestC05Own(t *testing.T) { pbt.Check(t, specOwn) }
