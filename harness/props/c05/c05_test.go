// Package c05 decides C05: sync2.Set is an atomic set under concurrent use
// (controlled scheduler E3 + free-running -race stress E4; per-value
// linearizability against a boolean register, with existential handling of
// the counts returned by AddSet/RemoveSet/Len).
package c05

import (
	"fmt"
	"runtime"
	"sort"
	"strings"
	"sync"
	"sync/atomic"
	"testing"

	"gopkg.in/typ.v4/maps"
	"gopkg.in/typ.v4/sync2"
	"pgregory.net/rapid"
	"verifharness/internal/lin"
	"verifharness/internal/pbt"
	"verifharness/internal/sched"
)

// SOp is one Set call. K: add rem has addset remset len slice. Set lists the argument set's members.
type SOp struct {
	K   string `json:"k"`
	V   int    `json:"v,omitempty"`
	Set []int  `json:"set,omitempty"`
	// Self: addset/remset with the receiver itself as the argument (s.AddSet(s), s.RemoveSet(s))
	Self bool `json:"self,omitempty"`
}

type Rec struct {
	Th    int   `json:"th"`
	Op    SOp   `json:"op"`
	Inv   int   `json:"inv"`
	Resp  int   `json:"resp"`
	B     bool  `json:"b,omitempty"`
	N     int   `json:"n,omitempty"`
	Elems []int `json:"elems,omitempty"`
}

func (r Rec) String() string {
	switch r.Op.K {
	case "add", "rem", "has":
		return fmt.Sprintf("[%d,%d] T%d %s(%d)=%v", r.Inv, r.Resp, r.Th, r.Op.K, r.Op.V, r.B)
	case "addset", "remset":
		if r.Op.Self {
			return fmt.Sprintf("[%d,%d] T%d %s(the receiver itself)=%d", r.Inv, r.Resp, r.Th, r.Op.K, r.N)
		}
		return fmt.Sprintf("[%d,%d] T%d %s(%v)=%d", r.Inv, r.Resp, r.Th, r.Op.K, r.Op.Set, r.N)
	case "len":
		return fmt.Sprintf("[%d,%d] T%d Len()=%d", r.Inv, r.Resp, r.Th, r.N)
	default:
		return fmt.Sprintf("[%d,%d] T%d Slice()=%v", r.Inv, r.Resp, r.Th, r.Elems)
	}
}

func exec(s *sync2.Set[int], op SOp, r *Rec) {
	switch op.K {
	case "add":
		r.B = s.Add(op.V)
	case "rem":
		r.B = s.Remove(op.V)
	case "has":
		r.B = s.Has(op.V)
	case "addset", "remset":
		if op.Self {
			if op.K == "addset" {
				r.N = s.AddSet(s)
			} else {
				r.N = s.RemoveSet(s)
			}
			return
		}
		arg := make(maps.Set[int])
		for _, v := range op.Set {
			arg.Add(v)
		}
		if op.K == "addset" {
			r.N = s.AddSet(arg)
		} else {
			r.N = s.RemoveSet(arg)
		}
	case "len":
		r.N = s.Len()
	case "slice":
		r.Elems = s.Slice()
	}
}

func isMut(k string) bool { return k == "add" || k == "rem" || k == "addset" || k == "remset" }

func touches(r Rec, v int) bool {
	switch r.Op.K {
	case "add", "rem":
		return r.Op.V == v
	case "addset", "remset":
		if r.Op.Self {
			return true
		}
		for _, e := range r.Op.Set {
			if e == v {
				return true
			}
		}
	}
	return false
}

type bop = lin.Op[bool]

func addOp(inv, resp int, ret bool, name string) bop {
	return bop{Inv: inv, Resp: resp, Name: name, Apply: func(s bool) (bool, bool) { return true, ret == !s }}
}
func remOp(inv, resp int, ret bool, name string) bop {
	return bop{Inv: inv, Resp: resp, Name: name, Apply: func(s bool) (bool, bool) { return false, ret == s }}
}
func hasOp(inv, resp int, ret bool, name string) bop {
	return bop{Inv: inv, Resp: resp, Name: name, Apply: func(s bool) (bool, bool) { return s, ret == s }}
}

// CheckHistory: per value, the history must be linearizable to a boolean
// register (Add reports true iff it changed absent->present, Remove iff
// present->absent, Has reads). AddSet/RemoveSet are a set of per-element
// Add/Remove calls somewhere inside the call's interval whose number of
// successes must equal the returned count (for SOME assignment of the
// per-element outcomes). Len/Slice are a Range: each value counted/listed at
// most once and only if a Has=true can be linearised inside the interval;
// a value not counted must admit Has=false inside the interval unless a
// mutating call on it overlaps.
func CheckHistory(init map[int]bool, universe []int, hist []Rec) string {
	type choice struct {
		rec   int
		elems []int // values whose outcome bit is chosen
		want  int   // number of bits set required (addset/remset/len); -1: fixed by slice
	}
	fixed := map[int][]bop{}
	var choices []choice
	for i, r := range hist {
		switch r.Op.K {
		case "add":
			fixed[r.Op.V] = append(fixed[r.Op.V], addOp(r.Inv, r.Resp, r.B, r.String()))
		case "rem":
			fixed[r.Op.V] = append(fixed[r.Op.V], remOp(r.Inv, r.Resp, r.B, r.String()))
		case "has":
			fixed[r.Op.V] = append(fixed[r.Op.V], hasOp(r.Inv, r.Resp, r.B, r.String()))
		case "addset", "remset":
			elems := append([]int(nil), r.Op.Set...)
			if r.Op.Self {
				// the argument is whatever the Range over the receiver itself visits: any value of the universe, each at most once
				elems = append([]int(nil), universe...)
			}
			sort.Ints(elems)
			if r.N < 0 || r.N > len(elems) {
				return fmt.Sprintf("%s returned a count outside 0..%d", r, len(elems))
			}
			choices = append(choices, choice{rec: i, elems: elems, want: r.N})
		case "len":
			if r.N < 0 || r.N > len(universe) {
				return fmt.Sprintf("%s: count outside 0..%d (values ever used)", r, len(universe))
			}
			choices = append(choices, choice{rec: i, elems: universe, want: r.N})
		case "slice":
			seen := map[int]bool{}
			for _, v := range r.Elems {
				if seen[v] {
					return fmt.Sprintf("%s lists value %d twice", r, v)
				}
				seen[v] = true
				known := false
				for _, u := range universe {
					if u == v {
						known = true
					}
				}
				if !known {
					return fmt.Sprintf("%s lists value %d that was never added", r, v)
				}
			}
			for _, v := range universe {
				v := v
				if seen[v] {
					fixed[v] = append(fixed[v], hasOp(r.Inv, r.Resp, true, fmt.Sprintf("[%d,%d] T%d Slice saw %d", r.Inv, r.Resp, r.Th, v)))
				} else if !overlapsMut(hist, i, v) {
					fixed[v] = append(fixed[v], hasOp(r.Inv, r.Resp, false, fmt.Sprintf("[%d,%d] T%d Slice missed %d", r.Inv, r.Resp, r.Th, v)))
				}
			}
		}
	}
	// enumerate the outcome bits of every choice point
	bits := make([][]bool, len(choices))
	var try func(ci int) bool
	check := func() bool {
		per := map[int][]bop{}
		for v, ops := range fixed {
			per[v] = append([]bop(nil), ops...)
		}
		for ci, ch := range choices {
			r := hist[ch.rec]
			for ei, v := range ch.elems {
				b := bits[ci][ei]
				switch {
				case r.Op.Self && r.Op.K == "addset":
					// visited and gained (it was removed by somebody else after the visit), or: not visited / already there - no constraint
					if b {
						per[v] = append(per[v], addOp(r.Inv, r.Resp, true, ""))
					}
				case r.Op.Self && r.Op.K == "remset":
					// removed, or: not visited / already gone - then it was absent at some moment unless a mutator overlaps
					if b {
						per[v] = append(per[v], remOp(r.Inv, r.Resp, true, ""))
					} else if !overlapsMut(hist, ch.rec, v) {
						per[v] = append(per[v], hasOp(r.Inv, r.Resp, false, ""))
					}
				}
				switch r.Op.K {
				case "addset":
					if !r.Op.Self {
						per[v] = append(per[v], addOp(r.Inv, r.Resp, b, ""))
					}
				case "remset":
					if !r.Op.Self {
						per[v] = append(per[v], remOp(r.Inv, r.Resp, b, ""))
					}
				case "len":
					if b {
						per[v] = append(per[v], hasOp(r.Inv, r.Resp, true, ""))
					} else if !overlapsMut(hist, ch.rec, v) {
						per[v] = append(per[v], hasOp(r.Inv, r.Resp, false, ""))
					}
				}
			}
		}
		for v, ops := range per {
			if !lin.Check(init[v], ops) {
				return false
			}
		}
		return true
	}
	try = func(ci int) bool {
		if ci == len(choices) {
			return check()
		}
		ch := choices[ci]
		n := len(ch.elems)
		for mask := 0; mask < 1<<n; mask++ {
			cnt := 0
			bs := make([]bool, n)
			for e := 0; e < n; e++ {
				if mask&(1<<e) != 0 {
					bs[e] = true
					cnt++
				}
			}
			if cnt != ch.want {
				continue
			}
			bits[ci] = bs
			if try(ci + 1) {
				return true
			}
		}
		return false
	}
	if try(0) {
		return ""
	}
	// explain: which single value's fixed history is already broken?
	vs := make([]int, 0, len(fixed))
	for v := range fixed {
		vs = append(vs, v)
	}
	sort.Ints(vs)
	for _, v := range vs {
		if !lin.Check(init[v], fixed[v]) {
			msg := fmt.Sprintf("calls on value %d (initially present=%v) are not linearizable to an atomic set:", v, init[v])
			for _, o := range fixed[v] {
				msg += "\n   " + o.Name
			}
			return msg
		}
	}
	return "no assignment of per-element outcomes to the AddSet/RemoveSet/Len calls (summing to the returned counts) makes every per-value history linearizable"
}

func overlapsMut(hist []Rec, ri int, v int) bool {
	r := hist[ri]
	for j, o := range hist {
		if j != ri && isMut(o.Op.K) && touches(o, v) && o.Inv < r.Resp && o.Resp > r.Inv {
			return true
		}
	}
	return false
}

type Case struct {
	Setup   []SOp   `json:"setup"`
	Threads [][]SOp `json:"threads"`
	Vals    int     `json:"vals"`
	Sched   []int   `json:"sched,omitempty"`
	Procs   int     `json:"procs,omitempty"`
	Spin    []int   `json:"spin,omitempty"`
}

func runSetup(s *sync2.Set[int], setup []SOp) (map[int]bool, string) {
	model := map[int]bool{}
	for i, op := range setup {
		var r Rec
		exec(s, op, &r)
		switch op.K {
		case "add":
			if r.B != !model[op.V] {
				return nil, fmt.Sprintf("setup op %d Add(%d)=%v with model present=%v", i, op.V, r.B, model[op.V])
			}
			model[op.V] = true
		case "rem":
			if r.B != model[op.V] {
				return nil, fmt.Sprintf("setup op %d Remove(%d)=%v with model present=%v", i, op.V, r.B, model[op.V])
			}
			model[op.V] = false
		case "has":
			if r.B != model[op.V] {
				return nil, fmt.Sprintf("setup op %d Has(%d)=%v with model present=%v", i, op.V, r.B, model[op.V])
			}
		case "len":
			n := 0
			for _, b := range model {
				if b {
					n++
				}
			}
			if r.N != n {
				return nil, fmt.Sprintf("setup op %d Len()=%d, model %d", i, r.N, n)
			}
		}
	}
	return model, ""
}

func universe(n int) []int {
	u := make([]int, n)
	for i := range u {
		u[i] = i
	}
	return u
}

func contended(hist []Rec) (bool, string) {
	for i, a := range hist {
		if a.Th < 0 || (a.Op.K != "add" && a.Op.K != "rem") {
			continue
		}
		for _, b := range hist[i+1:] {
			if b.Th < 0 || b.Th == a.Th || (b.Op.K != "add" && b.Op.K != "rem") || b.Op.V != a.Op.V {
				continue
			}
			if a.Inv < b.Resp && b.Inv < a.Resp {
				return true, a.Op.K + "/" + b.Op.K
			}
		}
	}
	return false, ""
}

func postlude(s *sync2.Set[int], vals int, stamp func() int) []Rec {
	var out []Rec
	for _, v := range universe(vals) {
		r := Rec{Th: -2, Op: SOp{K: "has", V: v}, Inv: stamp()}
		exec(s, r.Op, &r)
		r.Resp = stamp()
		out = append(out, r)
	}
	for _, k := range []string{"slice", "len"} {
		r := Rec{Th: -2, Op: SOp{K: k}, Inv: stamp()}
		exec(s, r.Op, &r)
		r.Resp = stamp()
		out = append(out, r)
	}
	return out
}

func histString(h []Rec) string {
	var b strings.Builder
	for _, r := range h {
		b.WriteString("   " + r.String() + "\n")
	}
	return b.String()
}

var lastResult sched.Result

func RunSched(c Case) pbt.Outcome {
	var set sync2.Set[int]
	model, bad := runSetup(&set, c.Setup)
	if bad != "" {
		return pbt.Fail("%s", bad)
	}
	s := sched.New(c.Sched)
	recs := make([][]Rec, len(c.Threads))
	for ti, prog := range c.Threads {
		ti, prog := ti, prog
		s.Go(func(t *sched.T) {
			for _, op := range prog {
				recs[ti] = append(recs[ti], Rec{Th: ti, Op: op, Inv: t.Now(), Resp: 1 << 30})
				r := &recs[ti][len(recs[ti])-1]
				exec(&set, op, r)
				r.Resp = t.Now()
			}
		})
	}
	res := s.Run()
	lastResult = res
	var hist []Rec
	for _, rs := range recs {
		hist = append(hist, rs...)
	}
	if res.Stuck != "" {
		return pbt.Outcome{Inconclusive: "scheduler: " + res.Stuck}
	}
	if len(res.Panics) > 0 {
		return pbt.Fail("panic inside a Set call: %s", res.Panics[0])
	}
	if res.Deadlock {
		return pbt.Fail("deadlock: threads stuck at %v; history so far:\n%s", res.DeadlockAt, histString(hist))
	}
	hist = append(hist, postlude(&set, 4, s.Clock)...)
	if v := CheckHistory(model, universe(4), hist); v != "" {
		return pbt.Fail("%s\nfull history:\n%s", v, histString(hist))
	}
	out := pbt.Outcome{Evals: 1}
	if ok, kind := contended(hist); ok {
		out.NonTrivial = res.InsideSw >= 1
		out.Labels = append(out.Labels, "overlap:"+kind)
	}
	for _, r := range hist {
		if r.Th >= 0 && (r.Op.K == "addset" || r.Op.K == "remset" || r.Op.K == "len") {
			out.Labels = append(out.Labels, "has:"+r.Op.K)
			if r.Op.Self {
				out.Labels = append(out.Labels, "has:"+r.Op.K+"(the receiver itself)")
			}
		}
	}
	sort.Strings(out.Labels)
	out.Labels = dedup(out.Labels)
	if res.InsideSw >= 2 {
		out.Labels = append(out.Labels, "preempt-inside>=2")
	}
	return out
}

func dedup(s []string) []string {
	var o []string
	for i, x := range s {
		if i == 0 || x != s[i-1] {
			o = append(o, x)
		}
	}
	return o
}

const stressReps = 40

func RunStress(c Case) pbt.Outcome {
	if c.Procs > 0 {
		defer runtime.GOMAXPROCS(runtime.GOMAXPROCS(c.Procs))
	}
	any := false
	kindSeen := ""
	for rep := 0; rep < stressReps; rep++ {
		var set sync2.Set[int]
		model, bad := runSetup(&set, c.Setup)
		if bad != "" {
			return pbt.Fail("%s", bad)
		}
		var clock atomic.Int64
		stamp := func() int { return int(clock.Add(1)) }
		recs := make([][]Rec, len(c.Threads))
		panics := make([]string, len(c.Threads))
		var wg sync.WaitGroup
		var gate atomic.Int32
		for ti, prog := range c.Threads {
			ti, prog := ti, prog
			wg.Add(1)
			go func() {
				defer wg.Done()
				defer func() {
					if p := recover(); p != nil {
						panics[ti] = fmt.Sprint(p)
					}
				}()
				gate.Add(1)
				for int(gate.Load()) < len(c.Threads) {
					runtime.Gosched()
				}
				if ti < len(c.Spin) {
					for i := 0; i < c.Spin[ti]+rep%2; i++ {
						runtime.Gosched()
					}
				}
				for _, op := range prog {
					r := Rec{Th: ti, Op: op, Inv: stamp()}
					exec(&set, op, &r)
					r.Resp = stamp()
					recs[ti] = append(recs[ti], r)
				}
			}()
		}
		wg.Wait()
		for ti, p := range panics {
			if p != "" {
				return pbt.Fail("goroutine %d panicked inside a Set call: %s", ti, p)
			}
		}
		var hist []Rec
		for _, rs := range recs {
			hist = append(hist, rs...)
		}
		hist = append(hist, postlude(&set, 4, stamp)...)
		if v := CheckHistory(model, universe(4), hist); v != "" {
			return pbt.Fail("free-running repetition %d: %s\nfull history:\n%s", rep, v, histString(hist))
		}
		if ok, kind := contended(hist); ok {
			any = true
			kindSeen = kind
		}
	}
	out := pbt.Outcome{Evals: stressReps, NonTrivial: any}
	if any {
		out.Labels = append(out.Labels, "overlap:"+kindSeen)
	}
	return out
}

func genSOp(vals int, withBulk bool) *rapid.Generator[SOp] {
	kinds := []string{"add", "add", "add", "rem", "rem", "rem", "has"}
	if withBulk {
		kinds = append(kinds, "addset", "remset", "len")
	}
	return rapid.Custom(func(t *rapid.T) SOp {
		k := rapid.SampledFrom(kinds).Draw(t, "k")
		op := SOp{K: k}
		switch k {
		case "add", "rem", "has":
			op.V = rapid.IntRange(0, vals-1).Draw(t, "v")
		case "addset", "remset":
			if rapid.IntRange(0, 3).Draw(t, "self") == 2 {
				op.Self = true
				return op
			}
			mask := rapid.IntRange(1, 1<<vals-1).Draw(t, "members")
			for v := 0; v < vals; v++ {
				if mask&(1<<v) != 0 {
					op.Set = append(op.Set, v)
				}
			}
		}
		return op
	})
}

func gen(t *rapid.T, withSched bool) Case {
	vals := rapid.SampledFrom([]int{1, 1, 2, 2, 3}).Draw(t, "vals")
	c := Case{Vals: vals}
	// setup over 0..3 (value 3 is never used by threads: it only shapes the internal layout); "len" promotes
	setupKinds := rapid.Custom(func(t *rapid.T) SOp {
		k := rapid.SampledFrom([]string{"add", "add", "rem", "has", "len"}).Draw(t, "k")
		return SOp{K: k, V: rapid.IntRange(0, 3).Draw(t, "v")}
	})
	c.Setup = pbt.OpsOf(t, setupKinds, []int{0, 1, 3, 6}, "setup")
	nth := rapid.SampledFrom([]int{2, 2, 2, 3, 3, 4}).Draw(t, "threads")
	bulk := rapid.IntRange(0, 2).Draw(t, "bulk") == 0
	nbulk := 0
	for i := 0; i < nth; i++ {
		prog := rapid.SliceOfN(genSOp(vals, bulk && nbulk < 3), 1, 3).Draw(t, fmt.Sprintf("t%d", i))
		for j := range prog {
			if prog[j].K == "addset" || prog[j].K == "remset" || prog[j].K == "len" {
				nbulk++
				if nbulk > 3 { // keep the existential search small
					prog[j] = SOp{K: "has", V: 0}
				}
			}
		}
		c.Threads = append(c.Threads, prog)
	}
	if withSched {
		p := rapid.SampledFrom([]int{4, 12, 30, 60}).Draw(t, "preempt%")
		c.Sched = rapid.SliceOfN(rapid.Custom(func(t *rapid.T) int {
			if rapid.IntRange(0, 99).Draw(t, "p") < p {
				return rapid.IntRange(1, 3).Draw(t, "to")
			}
			return 0
		}), 0, 90).Draw(t, "sched")
	} else {
		c.Procs = rapid.SampledFrom([]int{2, 4, 8, 16}).Draw(t, "procs")
		c.Spin = rapid.SliceOfN(rapid.IntRange(0, 3), nth, nth).Draw(t, "spin")
	}
	return c
}

const ruleCommon = "oracle = per-value linearizability against a boolean register (Add true iff absent->present, Remove true iff present->absent, Has reads) incl. a quiescent postlude " +
	"(Has of every value, Slice, Len); AddSet/RemoveSet (one in four with the receiver itself as the argument) counts must equal the number of per-element successes for SOME outcome assignment keeping every value linearizable; " +
	"Len/Slice follow the Range rule (each value at most once, counted only if present at some moment of the call, missed only if absent at some moment unless a mutator overlaps); no deadlock, no panic"

var specSched = pbt.Register(&pbt.Spec[Case]{
	Property: "C05", Name: "C05.sched",
	Rule: "E3 controlled scheduler: setup (0..12 Add/Remove/Has/Len over values 0..3, shapes the underlying Map's layout) + 2..4 threads x 1..3 ops (Add/Remove/Has, in a third of the cases also " +
		"AddSet/RemoveSet with 1..3-element maps.Set arguments and Len) over 1..3 values + schedule (<=90 choices); " + ruleCommon +
		"; non-trivial = two Add/Remove calls on one value from different threads overlap and >=1 preemption at a library-internal hook",
	Gen: func(t *rapid.T) Case { return gen(t, true) }, Run: RunSched, Quick: 12000, Thorough: 120000, Crashy: true, Retries: 30,
	Assumes: []string{"explores sequentially-consistent interleavings at hook granularity of sync2/map.go (sync2.Set is a thin wrapper)"},
})

var specStress = pbt.Register(&pbt.Spec[Case]{
	Property: "C05", Name: "C05.stress",
	Rule: "E4 free-running under -race: same programs, goroutines released by a spin barrier, GOMAXPROCS in {2,4,8,16}, 40 repetitions each, atomic-counter stamps; " + ruleCommon +
		"; a DATA RACE report is a violation; non-trivial = some repetition had overlapping Add/Remove calls on one value from different goroutines",
	Gen: func(t *rapid.T) Case { return gen(t, false) }, Run: RunStress, Quick: 250, Thorough: 4000, Crashy: true, Retries: 200,
})

var setupRecipes = [][]SOp{
	{},
	{{K: "add", V: 0}},             // only in dirty
	{{K: "add", V: 0}, {K: "len"}}, // clean read map
	{{K: "add", V: 0}, {K: "len"}, {K: "rem", V: 0}},                   // nil entry
	{{K: "add", V: 0}, {K: "len"}, {K: "rem", V: 0}, {K: "add", V: 3}}, // expunged entry
	{{K: "add", V: 0}, {K: "len"}, {K: "add", V: 3}},                   // clean + amended
	{{K: "add", V: 3}, {K: "len"}, {K: "add", V: 0}},                   // dirty-only next to a clean bystander
}

func enumPrograms(yield func(c Case) bool) {
	point := []SOp{{K: "add", V: 0}, {K: "rem", V: 0}, {K: "has", V: 0}}
	var progsA [][]SOp
	for _, a := range point {
		progsA = append(progsA, []SOp{a})
		for _, b := range point {
			progsA = append(progsA, []SOp{a, b})
		}
	}
	progsB := [][]SOp{{{K: "add", V: 0}}, {{K: "rem", V: 0}}, {{K: "has", V: 0}}, {{K: "addset", Set: []int{0}}}, {{K: "remset", Set: []int{0}}},
		{{K: "addset", Set: []int{0, 1}}}, {{K: "len"}}, {{K: "add", V: 1}}, {{K: "remset", Self: true}}, {{K: "addset", Self: true}}}
	for _, setup := range setupRecipes {
		for _, a := range progsA {
			for _, b := range progsB {
				if !yield(Case{Setup: setup, Threads: [][]SOp{a, b}, Vals: 2}) {
					return
				}
			}
		}
	}
}

var specSchedEnum = pbt.Register(&pbt.Spec[Case]{
	Property: "C05", Name: "C05.schedenum",
	Rule: "E3 bounded-exhaustive: 7 setup recipes (layouts of the underlying Map) x thread A with 1..2 of {Add,Remove,Has}(0) x thread B with one of {Add,Remove,Has,AddSet,RemoveSet,Len,Add(other),RemoveSet(the receiver itself),AddSet(the receiver itself)}; for each program ALL schedules with " +
		"at most 2 (thorough: 3) non-default scheduling choices, by stateless re-execution; " + ruleCommon,
	Enum: func(shard, shards int, tier string, yield func(Case) bool) {
		bound := 2
		if tier == "thorough" {
			bound = 3
		}
		i := 0
		enumPrograms(func(c Case) bool {
			i++
			if i%shards != shard {
				return true
			}
			ok := true
			sched.EnumSchedules(bound, func(schedule []int) ([]int, bool) {
				cc := c
				cc.Sched = append([]int(nil), schedule...)
				lastResult = sched.Result{}
				if !yield(cc) {
					ok = false
					return nil, true
				}
				return lastResult.OptCounts, false
			})
			return ok
		})
	},
	Run: RunSched, Exhaustive: true, Crashy: true, Retries: 30,
})

func TestC05SchedEnum(t *testing.T) { pbt.Check(t, specSchedEnum) }
func TestC05Sched(t *testing.T)     { pbt.Check(t, specSched) }
func TestC05Stress(t *testing.T)    { pbt.Check(t, specStress) }
func TestReplay(t *testing.T)       { pbt.Replay(t) }
