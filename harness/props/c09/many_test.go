package c09

import (
	"fmt"
	"runtime"
	"sync"
	"sync/atomic"
	"testing"
	"time"

	"gopkg.in/typ.v4/sync2"
	"verifharness/internal/pbt"
)

// MCase: very many simultaneous holders / waiters of ONE key (counts around 2^8, 2^16, 2^17), or real time passing
// between a ClearKey and the next use of the key.
type MCase struct {
	Mode    string `json:"mode"` // readers | waiters | idle
	N       int    `json:"n"`
	SleepMS int    `json:"sleep_ms,omitempty"`
	RW      bool   `json:"rw,omitempty"`
}

func RunMany(c MCase) pbt.Outcome {
	switch c.Mode {
	case "readers":
		// N read locks on one key taken by this goroutine (no writer is waiting, so re-entering is fine), one released:
		// the key is still read-held, a writer must be refused; after all are released a writer gets in
		var m sync2.KeyedRWMutex[string]
		for i := 0; i < c.N; i++ {
			m.RLockKey("k")
		}
		m.RUnlockKey("k")
		if m.TryLockKey("k") {
			return pbt.Fail("%d RLockKey calls on one key, one RUnlockKey: TryLockKey succeeded while %d readers still hold the key", c.N, c.N-1)
		}
		if !m.TryRLockKey("k") {
			return pbt.Fail("%d readers hold one key: one more TryRLockKey was refused", c.N-1)
		}
		m.RUnlockKey("k")
		if !m.TryLockKey("other") {
			return pbt.Fail("%d readers hold one key: TryLockKey of another key was refused", c.N-1)
		}
		m.UnlockKey("other")
		for i := 0; i < c.N-1; i++ {
			m.RUnlockKey("k")
		}
		if !m.TryLockKey("k") {
			return pbt.Fail("after all %d readers released the key TryLockKey is refused", c.N)
		}
		m.UnlockKey("k")
	case "waiters":
		// one holder, N goroutines blocked in LockKey on the same key; every one of them enters alone, one after another
		var km sync2.KeyedMutex[int]
		var krw sync2.KeyedRWMutex[int]
		lock, unlock := km.LockKey, km.UnlockKey
		try := km.TryLockKey
		if c.RW {
			lock, unlock, try = krw.LockKey, krw.UnlockKey, krw.TryLockKey
		}
		lock(7)
		var inside, maxInside, entered, calling atomic.Int64
		var wg sync.WaitGroup
		for i := 0; i < c.N; i++ {
			wg.Add(1)
			go func() {
				defer wg.Done()
				calling.Add(1)
				lock(7)
				if n := inside.Add(1); n > maxInside.Load() {
					maxInside.Store(n)
				}
				entered.Add(1)
				inside.Add(-1)
				unlock(7)
			}()
		}
		deadline := time.Now().Add(60 * time.Second)
		for calling.Load() < int64(c.N) {
			if time.Now().After(deadline) {
				unlock(7)
				return pbt.Outcome{Inconclusive: "not every waiter reached LockKey within 60s"}
			}
			runtime.Gosched()
		}
		time.Sleep(20 * time.Millisecond)
		if e := entered.Load(); e != 0 {
			unlock(7)
			return pbt.Fail("one holder and %d goroutines waiting in LockKey on the same key: %d of them got in while the holder still holds it", c.N, e)
		}
		if try(7) {
			unlock(7)
			return pbt.Fail("one holder and %d waiters on one key: TryLockKey succeeded while the key is held", c.N)
		}
		unlock(7)
		done := make(chan struct{})
		go func() { wg.Wait(); close(done) }()
		select {
		case <-done:
		case <-time.After(120 * time.Second):
			return pbt.Fail("one holder and %d waiters on one key: 120 s after the holder released only %d waiters have got in", c.N, entered.Load())
		}
		if maxInside.Load() > 1 {
			return pbt.Fail("with %d waiters on one key, %d were inside at once", c.N, maxInside.Load())
		}
	case "idle":
		// ClearKey of a free key, the key is taken again and HELD while real time passes: it must stay held
		var km sync2.KeyedMutex[string]
		var krw sync2.KeyedRWMutex[string]
		lock, unlock, try, clear := km.LockKey, km.UnlockKey, km.TryLockKey, km.ClearKey
		if c.RW {
			lock, unlock, try, clear = krw.LockKey, krw.UnlockKey, krw.TryLockKey, krw.ClearKey
		}
		lock("k")
		unlock("k")
		clear("k")
		lock("k")
		time.Sleep(time.Duration(c.SleepMS) * time.Millisecond)
		if try("k") {
			return pbt.Fail("ClearKey of a free key, then LockKey: %d ms later TryLockKey of the key succeeds while it is still held", c.SleepMS)
		}
		unlock("k")
		if !try("k") {
			return pbt.Fail("after the holder released the key TryLockKey is refused")
		}
		unlock("k")
	}
	return pbt.Outcome{Evals: 1, NonTrivial: true, Labels: []string{fmt.Sprintf("%s:%d", c.Mode, max(c.N, c.SleepMS))}}
}

var specManyKeys = pbt.Register(&pbt.Spec[MCase]{
	Property: "C09", Name: "C09.many",
	Rule: "enumerated: 255..140000 read locks held on ONE key at once (counts around 2^8, 2^16, 2^17): a writer is refused until the last one is released; one holder and 300 / 66000 (thorough 140000) goroutines waiting in LockKey on one key: " +
		"nobody gets in while it is held, afterwards everybody does, one at a time; ClearKey of a free key, LockKey, then 2.1 s / 10.5 s (thorough also 31 s) of wall-clock time while the key is HELD: it must still be refused to others",
	Enum: func(shard, shards int, tier string, yield func(MCase) bool) {
		var cases []MCase
		for _, n := range []int{255, 256, 257, 65535, 65536, 65537, 66000, 131073, 140000} {
			cases = append(cases, MCase{Mode: "readers", N: n})
		}
		cases = append(cases, MCase{Mode: "waiters", N: 300}, MCase{Mode: "waiters", N: 66000}, MCase{Mode: "waiters", N: 66000, RW: true})
		if tier == "thorough" {
			cases = append(cases, MCase{Mode: "waiters", N: 140000})
		}
		sleeps := []int{2100, 10500}
		if tier == "thorough" {
			sleeps = append(sleeps, 31000)
		}
		for _, ms := range sleeps {
			cases = append(cases, MCase{Mode: "idle", SleepMS: ms}, MCase{Mode: "idle", SleepMS: ms, RW: true})
		}
		for i, c := range cases {
			if i%shards == shard && !yield(c) {
				return
			}
		}
	},
	Run: RunMany, Exhaustive: true, Crashy: true, CaseCPU: 600e9,
})

func TestC09Many(t *testing.T) { pbt.Check(t, specManyKeys) }
