package c09

import (
	"fmt"
	"runtime"
	"sync"
	"sync/atomic"
	"testing"
	"time"

	"gopkg.in/typ.v4/sync2"
	"pgregory.net/rapid"
	"verifharness/internal/gstate"
	"verifharness/internal/pbt"
)

// ---------------------------------------------------------------- C09.keys: what counts as "the same key"

// YStep is one call of a sequential history on one keyed mutex; Key indexes the pool of the case's key type.
type YStep struct {
	Op  string `json:"op"` // try tryr lock rlock unlock runlock clear mutate
	Key int    `json:"key"`
}

type YCase struct {
	RW    bool    `json:"rw"`
	Type  string  `json:"type"` // int string float ptr struct fstruct iface array
	Steps []YStep `json:"steps"`
}

type ptrKey struct {
	a int
	s string
}
type structKey struct {
	a int
	s string
}
type fstructKey struct {
	f float64
	n int32
}

var negZero = func() float64 { z := 0.0; return -z }()

// the pools: distinct keys that are likely to collide under some hash or truncation, and equal keys that look different
var (
	intPool = []int{0, 1, 2, 2971215074, 1 << 32, 1<<32 + 1, 1 << 16, 1<<16 + 1, -1, 1 << 62, 64, 65, 32, 33, 1 + 64, 1 << 31, -(1 << 63), 1<<63 - 1, 256, 257}
	strPool = []string{"", "a", "b", "costarring", "liquid", "declinate", "macallums", "altarage", "zinke", "a\x00", "a\x00b", "ab", "0", "1", "01", "key-1", "key-2", "Key-1", "\u00e9", "e\u0301"}
	fltPool = []float64{0, negZero, 1, -1, 0.5, 1e300, 5e-324, 1 << 53, 1<<53 + 2, 2, 3, 1.5, 2.5, -0.5, 1e-300, 100, 1000, 1e6, 16777216, 16777217}
)

type yModel struct {
	writer  bool
	readers int
}

// nonBlocking runs f (an acquisition of a key the model says is free) in a goroutine and reports whether it returned;
// "blocked" is established from the goroutine's wait state (sync.Mutex / RWMutex / channel, seen twice), not from a timer.
func nonBlocking(f func()) (ok bool, state string, inconclusive bool) {
	var gid atomic.Pointer[string]
	var returned atomic.Bool
	go func() {
		id := gstate.GoID()
		gid.Store(&id)
		f()
		returned.Store(true)
	}()
	for gid.Load() == nil {
		runtime.Gosched()
	}
	fin, st, timedOut := gstate.WaitDoneOrBlockedIn(*gid.Load(), gstate.SyncBlocked, returned.Load, 20*time.Second)
	if timedOut {
		return false, "", true
	}
	return fin, st, false
}

func runKeys[K comparable](c YCase, pool []K, show func(K) string, mutate func(i int)) pbt.Outcome {
	var km sync2.KeyedMutex[K]
	var krw sync2.KeyedRWMutex[K]
	model := map[K]*yModel{} // Go's own map: THE reference for which keys are equal
	get := func(k K) *yModel {
		m := model[k]
		if m == nil {
			m = &yModel{}
			model[k] = m
		}
		return m
	}
	heldOthers := func(k K) int {
		n := 0
		for o, m := range model {
			if o != k && (m.writer || m.readers > 0) {
				n++
			}
		}
		return n
	}
	evals, contested, freeWhileOthers, mutated, equalLooks := 0, 0, 0, 0, 0
	seenIdx := map[K]int{}
	for si, s := range c.Steps {
		i := s.Key % len(pool)
		k := pool[i]
		if prev, ok := seenIdx[k]; ok && prev != i {
			equalLooks++ // the same key through another pool entry (0.0 / -0.0, equal structs)
		} else if !ok {
			seenIdx[k] = i
		}
		m := get(k)
		what := func(call string) string {
			return fmt.Sprintf("step %d: %s(%s) on a Keyed%sMutex[%s] with %d other keys held", si, call, show(k), map[bool]string{true: "RW", false: ""}[c.RW], c.Type, heldOthers(k))
		}
		switch s.Op {
		case "try":
			var got bool
			if c.RW {
				got = krw.TryLockKey(k)
			} else {
				got = km.TryLockKey(k)
			}
			want := !m.writer && m.readers == 0
			if got != want {
				return pbt.Fail("%s returned %v; that key is %s, so %v is the answer", what("TryLockKey"), got, describe(m), want)
			}
			if got {
				m.writer = true
				if heldOthers(k) > 0 {
					freeWhileOthers++
				}
			} else {
				contested++
			}
			evals++
		case "tryr":
			if !c.RW {
				continue
			}
			got := krw.TryRLockKey(k)
			want := !m.writer
			if got != want {
				return pbt.Fail("%s returned %v; that key is %s, so %v is the answer", what("TryRLockKey"), got, describe(m), want)
			}
			if got {
				m.readers++
			} else {
				contested++
			}
			evals++
		case "lock", "rlock":
			read := s.Op == "rlock" && c.RW
			if (read && m.writer) || (!read && (m.writer || m.readers > 0)) {
				continue // would block by design
			}
			call := "LockKey"
			if read {
				call = "RLockKey"
			}
			ok, state, inc := nonBlocking(func() {
				switch {
				case read:
					krw.RLockKey(k)
				case c.RW:
					krw.LockKey(k)
				default:
					km.LockKey(k)
				}
			})
			if inc {
				return pbt.Outcome{Inconclusive: "an acquisition of a free key neither returned nor was seen blocked"}
			}
			if !ok {
				return pbt.Fail("%s is BLOCKED (goroutine state %q) although that key is %s", what(call), state, describe(m))
			}
			if read {
				m.readers++
			} else {
				m.writer = true
			}
			if heldOthers(k) > 0 {
				freeWhileOthers++
			}
			evals++
		case "unlock":
			if !m.writer {
				continue
			}
			if c.RW {
				krw.UnlockKey(k)
			} else {
				km.UnlockKey(k)
			}
			m.writer = false
		case "runlock":
			if !c.RW || m.readers == 0 {
				continue
			}
			krw.RUnlockKey(k)
			m.readers--
		case "clear":
			if m.writer || m.readers > 0 {
				continue // only idle keys
			}
			if c.RW {
				krw.ClearKey(k)
			} else {
				km.ClearKey(k)
			}
		case "mutate":
			if mutate != nil {
				mutate(i)
				mutated++
			}
		}
	}
	// release everything: every release must find the mutex it locked
	for k, m := range model {
		if m.writer {
			if c.RW {
				krw.UnlockKey(k)
			} else {
				km.UnlockKey(k)
			}
		}
		for ; m.readers > 0; m.readers-- {
			krw.RUnlockKey(k)
		}
	}
	for k := range model {
		var got bool
		if c.RW {
			got = krw.TryLockKey(k)
		} else {
			got = km.TryLockKey(k)
		}
		if !got {
			return pbt.Fail("after every holder released, TryLockKey(%s) on the Keyed%sMutex[%s] returns false", show(k), map[bool]string{true: "RW", false: ""}[c.RW], c.Type)
		}
	}
	out := pbt.Outcome{Evals: evals, NonTrivial: contested > 0 && freeWhileOthers > 0, Labels: []string{"keytype=" + c.Type}}
	if mutated > 0 {
		out.Labels = append(out.Labels, "pointee-changed-between-calls")
	}
	if equalLooks > 0 {
		out.Labels = append(out.Labels, "one-key-through-two-different-looking-values")
	}
	return out
}

func describe(m *yModel) string {
	switch {
	case m.writer:
		return "held by a writer"
	case m.readers > 0:
		return fmt.Sprintf("held by %d reader(s)", m.readers)
	}
	return "free"
}

func RunKeys(c YCase) (out pbt.Outcome) {
	defer func() {
		if p := recover(); p != nil {
			out = pbt.Fail("a sequential history on a keyed mutex with %s keys panicked: %v", c.Type, p)
		}
	}()
	switch c.Type {
	case "int":
		return runKeys(c, intPool, func(k int) string { return fmt.Sprint(k) }, nil)
	case "string":
		return runKeys(c, strPool, func(k string) string { return fmt.Sprintf("%q", k) }, nil)
	case "longstr":
		// five long strings (70..300 bytes), each present four times at DIFFERENT addresses (built at run time): equal keys
		var pool []string
		for d := 0; d < 5; d++ {
			for cp := 0; cp < 4; cp++ {
				b := make([]byte, 0, 400)
				for len(b) < 70+d*57 {
					b = append(b, byte('a'+d), byte('0'+len(b)%10))
				}
				pool = append(pool, string(b)) // a fresh allocation per copy
			}
		}
		return runKeys(c, pool, func(k string) string { return fmt.Sprintf("%q...(%d bytes)", k[:6], len(k)) }, nil)
	case "float":
		return runKeys(c, fltPool, func(k float64) string {
			if k == 0 && 1/k < 0 {
				return "-0.0"
			}
			return fmt.Sprint(k)
		}, nil)
	case "ptr":
		objs := make([]*ptrKey, 12)
		for i := range objs {
			objs[i] = &ptrKey{a: i % 3, s: "o"} // several objects look alike: identity is the key
		}
		return runKeys(c, objs, func(k *ptrKey) string { return fmt.Sprintf("&%+v", *k) }, func(i int) { objs[i].a += 7; objs[i].s += "x" })
	case "struct":
		var pool []structKey
		for a := 0; a < 4; a++ {
			for _, s := range []string{"", "a", "costarring", "liquid"} {
				pool = append(pool, structKey{a, s})
			}
		}
		return runKeys(c, pool, func(k structKey) string { return fmt.Sprintf("%+v", k) }, nil)
	case "fstruct":
		var pool []fstructKey
		for _, f := range []float64{0, negZero, 1, 2971215074} {
			for n := int32(0); n < 3; n++ {
				pool = append(pool, fstructKey{f, n})
			}
		}
		return runKeys(c, pool, func(k fstructKey) string {
			return fmt.Sprintf("{f:%v(signbit %v) n:%d}", k.f, k.f == 0 && 1/k.f < 0, k.n)
		}, nil)
	case "iface":
		pool := []any{1, int64(1), int32(1), uint(1), "1", 1.0, float32(1), true, nil, structKey{1, "1"}, [1]int{1}, '1', byte(1), 0, "", false, int8(1), 2, "2", 2.0}
		return runKeys(c, pool, func(k any) string { return fmt.Sprintf("%T(%v)", k, k) }, nil)
	default:
		var pool [][2]int
		for a := 0; a < 4; a++ {
			for b := 0; b < 4; b++ {
				pool = append(pool, [2]int{a << 32, b})
			}
		}
		return runKeys(c, pool, func(k [2]int) string { return fmt.Sprint(k) }, nil)
	}
}

var specKeys = pbt.Register(&pbt.Spec[YCase]{
	Property: "C09", Name: "C09.keys",
	Rule: "sequential histories of 4..60 calls {TryLockKey, TryRLockKey, LockKey/RLockKey of a free key (in a goroutine: must not block), UnlockKey, RUnlockKey, ClearKey of an idle key} on one KeyedMutex / KeyedRWMutex over key types " +
		"int, string, long strings (70..300 bytes, every key present as four equal copies at different addresses), float64, *struct (the pointee is changed between calls), struct, struct with a float field, any (mixed dynamic types) and [2]int; the pools hold distinct keys that collide under common hashes or truncations " +
		"(1 / 2971215074, k / k+2^32 / k+2^16, FNV-1a pairs like costarring / liquid, 2^53 / 2^53+2, \"e\\u0301\" / \"é\") and equal keys that look different (0.0 / -0.0); " +
		"oracle: a per-key state kept in Go's own map[K] (the reference for key equality): Try* answers exactly 'free / compatible', a free key never blocks whatever else is held, and at the end everything unlocks and is free again; " +
		"non-trivial = at least one refused Try and one acquisition of a free key while other keys are held",
	Gen: func(t *rapid.T) YCase {
		c := YCase{RW: rapid.Bool().Draw(t, "rw"), Type: rapid.SampledFrom([]string{"int", "string", "longstr", "float", "ptr", "struct", "fstruct", "iface", "array"}).Draw(t, "type")}
		ops := []string{"try", "try", "try", "tryr", "tryr", "lock", "rlock", "unlock", "unlock", "runlock", "clear", "mutate"}
		narrow := rapid.Bool().Draw(t, "narrow") // few keys: more contention on equal keys
		c.Steps = pbt.OpsOf(t, rapid.Custom(func(t *rapid.T) YStep {
			hi := 19
			if narrow {
				hi = 5
			}
			return YStep{Op: rapid.SampledFrom(ops).Draw(t, "op"), Key: rapid.IntRange(0, hi).Draw(t, "key")}
		}), []int{2, 8, 16, 27}, "steps")
		return c
	},
	Run: RunKeys, Quick: 3000, Thorough: 100000, Crashy: true,
	Assumes: []string{"NaN keys are excluded: a NaN never equals itself, so 'the same key' is undefined for it"},
})

func TestC09Keys(t *testing.T) { pbt.Check(t, specKeys) }

// ---------------------------------------------------------------- C09.churn: many keys come and go while others are in use

// UCase: Workers goroutines each walk through their own never-seen keys; a clearer goroutine locks, unlocks and
// clears its own idle keys all the time. Every key is private to one goroutine, so every answer is determined.
type UCase struct {
	RW       bool `json:"rw"`
	Workers  int  `json:"workers"`
	Iters    int  `json:"iters"`    // keys per worker
	Clearers int  `json:"clearers"` // goroutines cycling Lock/Unlock/ClearKey on idle private keys
	Clears   int  `json:"clears"`   // cycles per clearer
	KeepLive int  `json:"keep"`     // a worker clears its own key after use except every KeepLive-th (live keys accumulate); 0 = never clears
	Procs    int  `json:"procs"`
}

func RunChurn(c UCase) pbt.Outcome {
	if c.Procs > 0 {
		defer runtime.GOMAXPROCS(runtime.GOMAXPROCS(c.Procs))
	}
	l := locker{}
	if c.RW {
		l.krw = &sync2.KeyedRWMutex[int]{}
	} else {
		l.km = &sync2.KeyedMutex[int]{}
	}
	var viol atomic.Pointer[string]
	fail := func(s string) { viol.CompareAndSwap(nil, &s) }
	var wg sync.WaitGroup
	var stop atomic.Bool
	var cleared atomic.Int64
	for ci := 0; ci < c.Clearers; ci++ {
		ci := ci
		wg.Add(1)
		go func() {
			defer wg.Done()
			base := 1_000_000_000 + ci*100_000_000
			for i := 0; i < c.Clears && !stop.Load(); i++ {
				k := base + i
				if !l.acquire("try", k) {
					fail(fmt.Sprintf("clearer %d: TryLockKey(%d) on a key nobody ever used returned false", ci, k))
					return
				}
				l.release("try", k)
				l.clear(k)
				cleared.Add(1)
			}
		}()
	}
	var ww sync.WaitGroup
	for w := 0; w < c.Workers; w++ {
		w := w
		ww.Add(1)
		go func() {
			defer ww.Done()
			base := (w + 1) * 10_000_000
			for i := 0; i < c.Iters && viol.Load() == nil; i++ {
				k := base + i
				kind := "try"
				if c.RW && i%3 == 1 {
					kind = "tryr"
				}
				if !l.acquire(kind, k) {
					fail(fmt.Sprintf("worker %d: %s(%d) on a key nobody ever used returned false (after %d ClearKey calls of other idle keys)", w, kindName(kind), k, cleared.Load()))
					return
				}
				if i%2 == 0 {
					runtime.Gosched()
				}
				// the key is held by this goroutine and by nobody else: a second TryLockKey must be refused
				if l.acquire("try", k) {
					fail(fmt.Sprintf("worker %d: TryLockKey(%d) succeeded while this goroutine holds that key (%s) - two mutexes for one key (after %d ClearKey calls of other idle keys)", w, k, kindName(kind), cleared.Load()))
					return
				}
				l.release(kind, k)
				if !l.acquire("try", k) {
					fail(fmt.Sprintf("worker %d: TryLockKey(%d) refused right after this goroutine released that key", w, k))
					return
				}
				l.release("try", k)
				if c.KeepLive > 0 && i%c.KeepLive != 0 {
					l.clear(k)
				}
			}
		}()
	}
	ww.Wait()
	stop.Store(true)
	wg.Wait()
	if v := viol.Load(); v != nil {
		return pbt.Fail("%s", *v)
	}
	lab := "clears<1024"
	if n := cleared.Load(); n >= 4096 {
		lab = "clears>=4096"
	} else if n >= 1024 {
		lab = "clears>=1024"
	}
	return pbt.Outcome{Evals: c.Workers * c.Iters, NonTrivial: cleared.Load() >= 1024 && c.Workers >= 2, Labels: []string{lab, fmt.Sprintf("workers=%d", c.Workers)}}
}

var specChurn = pbt.Register(&pbt.Spec[UCase]{
	Property: "C09", Name: "C09.churn",
	Rule: "E4 free-running under -race: 1..2 clearer goroutines cycle TryLockKey/UnlockKey/ClearKey over up to 20000 idle keys of their own while 2..12 workers each walk through 500..6000 never-seen keys of their own " +
		"(TryLockKey or TryRLockKey must succeed, a second TryLockKey while holding must be refused, after the release it must succeed again; some keys are cleared afterwards, some stay live); every key is private to one goroutine, " +
		"so each answer is determined whatever the interleaving; non-trivial = >=1024 ClearKey calls happened alongside >=2 workers",
	Gen: func(t *rapid.T) UCase {
		return UCase{RW: rapid.Bool().Draw(t, "rw"), Workers: rapid.SampledFrom([]int{2, 3, 4, 6, 12}).Draw(t, "workers"), Iters: rapid.SampledFrom([]int{500, 2000, 6000}).Draw(t, "iters"),
			Clearers: rapid.IntRange(1, 2).Draw(t, "clearers"), Clears: rapid.SampledFrom([]int{1500, 5000, 20000}).Draw(t, "clears"),
			KeepLive: rapid.SampledFrom([]int{0, 2, 10}).Draw(t, "keep"), Procs: rapid.SampledFrom([]int{2, 3, 4, 4, 8, 16}).Draw(t, "procs")}
	},
	Run: RunChurn, Quick: 40, Thorough: 300, Crashy: true, Retries: 50,
})

func TestC09Churn(t *testing.T) { pbt.Check(t, specChurn) }

// The churn unit once more WITHOUT the race detector (whose instrumentation slows every atomic step down and so narrows
// the windows between them): many more goroutines than processors, ten times the iterations.
var specChurnFast = pbt.Register(&pbt.Spec[UCase]{
	Property: "C09", Name: "C09.churnfast",
	Rule: "C09.churn without the race detector: 24..64 workers on 4..8 processors, 3000..30000 never-seen private keys each, every worker clearing most of its own idle keys again (the keyed mutex's per-key storage is handed back and taken again all the time)",
	Gen: func(t *rapid.T) UCase {
		return UCase{RW: rapid.Bool().Draw(t, "rw"), Workers: rapid.SampledFrom([]int{24, 48, 64}).Draw(t, "workers"), Iters: rapid.SampledFrom([]int{3000, 10000, 30000}).Draw(t, "iters"),
			Clearers: rapid.IntRange(0, 2).Draw(t, "clearers"), Clears: rapid.SampledFrom([]int{5000, 50000}).Draw(t, "clears"),
			KeepLive: rapid.SampledFrom([]int{2, 10, 50}).Draw(t, "keep"), Procs: rapid.SampledFrom([]int{4, 8}).Draw(t, "procs")}
	},
	Run: RunChurn, Quick: 4, Thorough: 30, Crashy: true, Retries: 30, CaseCPU: 300e9,
})

func TestC09ChurnFast(t *testing.T) { pbt.Check(t, specChurnFast) }
