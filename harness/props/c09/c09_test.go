// Package c09 decides C09: keyed mutexes give per-key mutual exclusion and
// cross-key independence (controlled scheduler E3 with a phase book per key,
// and free-running -race stress E4 with plain per-key counters).
package c09

import (
	"fmt"
	"runtime"
	"sort"
	"strings"
	"sync"
	"sync/atomic"
	"testing"

	"gopkg.in/typ.v4/sync2"
	"pgregory.net/rapid"
	"verifharness/internal/pbt"
	"verifharness/internal/sched"
)

// Sect is one section: acquire (Kind: lock try rlock tryr) key, optional
// critical-section yields and nested sections (only if acquired), release.
type Sect struct {
	Kind   string `json:"kind"`
	Key    int    `json:"key"`
	Yields int    `json:"yields,omitempty"`
	Inner  []Sect `json:"inner,omitempty"`
}

type Case struct {
	RW      bool     `json:"rw"`
	Keys    int      `json:"keys"`
	Threads [][]Sect `json:"threads"`
	// quiescent ClearKey calls: before the threads start (after a lock/unlock warm-up of that key) and after they finished
	ClearBefore []int `json:"clear_before,omitempty"`
	ClearAfter  []int `json:"clear_after,omitempty"`
	Sched       []int `json:"sched,omitempty"`
	Procs       int   `json:"procs,omitempty"`
	Reps        int   `json:"reps,omitempty"`
	// Prelude: number of other keys (1000, 1001, ...) locked and unlocked sequentially before anything else, so that
	// the threads' first uses of their keys happen at different fill levels of whatever the implementation keeps per key
	Prelude int `json:"prelude,omitempty"`
	// HoldPrelude (stress only): the harness keeps every prelude key LOCKED while the goroutines run, and the
	// goroutines' sections become Try-only (nothing can block). A fresh key that wrongly shares state with an
	// older key then shows as a failing TryLockKey on a private key.
	HoldPrelude bool `json:"hold_prelude,omitempty"`
}

type locker struct {
	km  *sync2.KeyedMutex[int]
	krw *sync2.KeyedRWMutex[int]
}

func (l locker) acquire(kind string, key int) bool {
	switch kind {
	case "lock":
		if l.krw != nil {
			l.krw.LockKey(key)
		} else {
			l.km.LockKey(key)
		}
		return true
	case "try":
		if l.krw != nil {
			return l.krw.TryLockKey(key)
		}
		return l.km.TryLockKey(key)
	case "rlock":
		l.krw.RLockKey(key)
		return true
	default:
		return l.krw.TryRLockKey(key)
	}
}

func (l locker) release(kind string, key int) {
	switch kind {
	case "lock", "try":
		if l.krw != nil {
			l.krw.UnlockKey(key)
		} else {
			l.km.UnlockKey(key)
		}
	default:
		l.krw.RUnlockKey(key)
	}
}

func (l locker) clear(key int) {
	if l.krw != nil {
		l.krw.ClearKey(key)
	} else {
		l.km.ClearKey(key)
	}
}

func isWrite(kind string) bool { return kind == "lock" || kind == "try" }
func isTry(kind string) bool   { return kind == "try" || kind == "tryr" }

// ---- the phase book (E3: exactly one thread runs at a time, so plain data is fine)

type phase int

const (
	phAcquiring phase = iota // call started, not yet returned
	phHolding                // acquire returned true; release not yet called
	phReleasing              // release called, not yet returned
)

type entry struct {
	th        int
	write     bool
	try       bool
	ph        phase
	sawIncomp bool // (try only) an incompatible entry of another section existed at some moment of the call
}

type book struct {
	byKey map[int][]*entry
	viol  string
}

func incompatible(a, b *entry) bool { return a.write || b.write }

func (b *book) begin(th int, kind string, key int) *entry {
	e := &entry{th: th, write: isWrite(kind), try: isTry(kind), ph: phAcquiring}
	for _, o := range b.byKey[key] {
		if incompatible(e, o) {
			e.sawIncomp = true
			if o.ph == phAcquiring && o.try {
				o.sawIncomp = true
			}
		}
	}
	b.byKey[key] = append(b.byKey[key], e)
	return e
}

func (b *book) remove(key int, e *entry) {
	l := b.byKey[key]
	for i, o := range l {
		if o == e {
			b.byKey[key] = append(l[:i:i], l[i+1:]...)
			return
		}
	}
}

func (b *book) acquired(key int, e *entry) {
	e.ph = phHolding
	for _, o := range b.byKey[key] {
		if o != e && o.ph == phHolding && incompatible(e, o) && b.viol == "" {
			b.viol = fmt.Sprintf("mutual exclusion broken on key %d: thread %d (%s) and thread %d (%s) are both inside", key, e.th, rw(e), o.th, rw(o))
		}
	}
}

func rw(e *entry) string {
	if e.write {
		return "writer"
	}
	return "reader"
}

// holderIncompatibleWith reports whether some other section holds (or is still releasing) key incompatibly with a request.
func (b *book) holderIncompatibleWith(key int, self *entry) bool {
	for _, o := range b.byKey[key] {
		if o != self && (o.ph == phHolding || o.ph == phReleasing) && incompatible(self, o) {
			return true
		}
	}
	return false
}

var lastResult sched.Result

func RunSched(c Case) pbt.Outcome {
	var l locker
	if c.RW {
		l.krw = &sync2.KeyedRWMutex[int]{}
	} else {
		l.km = &sync2.KeyedMutex[int]{}
	}
	for i := 0; i < c.Prelude; i++ {
		l.acquire("lock", 1000+i)
		l.release("lock", 1000+i)
	}
	// quiescent prefix: warm the key up, then ClearKey
	for _, k := range c.ClearBefore {
		l.acquire("lock", k)
		l.release("lock", k)
		l.clear(k)
	}
	bk := &book{byKey: map[int][]*entry{}}
	s := sched.New(c.Sched)
	// what each thread is doing right now (for the blocked-thread oracle)
	type cur struct {
		e   *entry
		key int
	}
	current := make([]cur, len(c.Threads))
	heldOther, contendedFresh := false, false
	firstUse := map[int]int{} // key -> number of threads that started an acquisition before any returned
	returned := map[int]bool{}
	var exec func(t *sched.T, sec Sect)
	exec = func(t *sched.T, sec Sect) {
		th := t.ID()
		e := bk.begin(th, sec.Kind, sec.Key)
		current[th] = cur{e, sec.Key}
		if !returned[sec.Key] {
			firstUse[sec.Key]++
			if firstUse[sec.Key] >= 2 {
				contendedFresh = true
			}
		}
		// does this thread hold a different key while acquiring this one?
		for k, es := range bk.byKey {
			for _, o := range es {
				if k != sec.Key && o.ph == phHolding {
					heldOther = true
				}
			}
		}
		t.EnterLib()
		ok := l.acquire(sec.Kind, sec.Key)
		t.LeaveLib()
		returned[sec.Key] = true
		current[th] = cur{}
		if !ok {
			bk.remove(sec.Key, e)
			if !e.sawIncomp && bk.viol == "" {
				bk.viol = fmt.Sprintf("thread %d: %s(%d) returned false although the key was free and uncontended for the whole call", th, sec.Kind, sec.Key)
			}
			return
		}
		bk.acquired(sec.Key, e)
		for i := 0; i < sec.Yields; i++ {
			t.Yield("h:cs")
		}
		for _, in := range sec.Inner {
			exec(t, in)
		}
		e.ph = phReleasing
		t.EnterLib()
		l.release(sec.Kind, sec.Key)
		t.LeaveLib()
		bk.remove(sec.Key, e)
	}
	for _, prog := range c.Threads {
		prog := prog
		s.Go(func(t *sched.T) {
			for _, sec := range prog {
				exec(t, sec)
				t.Yield("h:between")
			}
		})
	}
	s.OnBlocked = func(b sched.Blocked) {
		if bk.viol != "" {
			return
		}
		cu := current[b.Thread]
		keyLockSite := strings.HasSuffix(b.Site, ".LockKey") || strings.HasSuffix(b.Site, ".RLockKey")
		if cu.e == nil {
			return
		}
		if keyLockSite {
			if !bk.holderIncompatibleWith(cu.key, cu.e) {
				bk.viol = fmt.Sprintf("thread %d is blocked in %s on key %d at %s although no other section holds that key incompatibly (held keys: %s)", b.Thread, kindOf(cu.e), cu.key, b.Site, bk.held())
			}
			return
		}
		// blocked on a lock internal to the library: transient unless nobody else is inside the library
		if b.OthersOutsideLib {
			bk.viol = fmt.Sprintf("thread %d is blocked at internal lock %s while every other thread is outside the library (held keys: %s)", b.Thread, b.Site, bk.held())
		}
	}
	res := s.Run()
	lastResult = res
	obs := map[string]any{"trace": traceString(res.Trace)}
	if bk.viol != "" {
		return pbt.Outcome{Violation: bk.viol + "\ntrace: " + traceString(res.Trace), Observed: obs}
	}
	if res.Stuck != "" {
		cu := current[res.StuckThread]
		if cu.e != nil && cu.e.try && strings.HasPrefix(res.StuckState, "sync.") {
			return pbt.Outcome{Violation: fmt.Sprintf("thread %d is blocked (%s) inside a Try*LockKey call on key %d: Try* must never block\n%s", res.StuckThread, res.StuckState, cu.key, res.StuckStack), Observed: obs}
		}
		return pbt.Outcome{Inconclusive: "scheduler: " + res.Stuck}
	}
	if len(res.Panics) > 0 {
		return pbt.Outcome{Violation: "panic inside a keyed-mutex call of a well-formed program: " + res.Panics[0], Observed: obs}
	}
	if res.Deadlock {
		return pbt.Outcome{Violation: fmt.Sprintf("deadlock of a program that cannot deadlock on correct keyed mutexes: threads stuck at %v (held keys: %s)\ntrace: %s", res.DeadlockAt, bk.held(), traceString(res.Trace)), Observed: obs}
	}
	// quiescent suffix: ClearKey, then the key must be usable and free
	for _, k := range c.ClearAfter {
		l.clear(k)
		if !l.acquire("try", k) {
			return pbt.Fail("after all threads finished and ClearKey(%d), TryLockKey(%d) failed", k, k)
		}
		l.release("try", k)
	}
	for k := 0; k < c.Keys; k++ {
		if !l.acquire("try", k) {
			return pbt.Fail("after all threads released everything, TryLockKey(%d) failed: key %d is still held", k, k)
		}
		l.release("try", k)
	}
	out := pbt.Outcome{Evals: 1}
	insideLOS := false
	for i, st := range res.Trace {
		if i > 0 && res.Trace[i-1].Thread != st.Thread && (strings.HasPrefix(st.Site, "LoadOrStore") || strings.HasPrefix(st.Site, "tryLoadOrStore") || strings.HasPrefix(res.Trace[i-1].Site, "LoadOrStore")) {
			insideLOS = true
		}
	}
	out.NonTrivial = contendedFresh && insideLOS && heldOther
	lab := func(b bool, s string) {
		if b {
			out.Labels = append(out.Labels, s)
		}
	}
	lab(contendedFresh, "fresh-key-contended")
	lab(insideLOS, "switch-inside-LoadOrStore")
	lab(heldOther, "acquire-while-holding-other-key")
	lab(c.RW, "rw")
	lab(!c.RW, "mutex")
	lab(len(c.ClearBefore)+len(c.ClearAfter) > 0, "clearkey")
	return out
}

func kindOf(e *entry) string {
	switch {
	case e.write && e.try:
		return "TryLockKey"
	case e.write:
		return "LockKey"
	case e.try:
		return "TryRLockKey"
	}
	return "RLockKey"
}

func (b *book) held() string {
	var parts []string
	for k, es := range b.byKey {
		for _, o := range es {
			if o.ph != phAcquiring {
				parts = append(parts, fmt.Sprintf("key %d by thread %d as %s", k, o.th, rw(o)))
			}
		}
	}
	sort.Strings(parts)
	if len(parts) == 0 {
		return "none"
	}
	return strings.Join(parts, ", ")
}

func traceString(tr []sched.Step) string {
	var b strings.Builder
	for i, s := range tr {
		if i > 0 {
			b.WriteByte(' ')
		}
		fmt.Fprintf(&b, "%d:%s", s.Thread, s.Site)
	}
	return b.String()
}

// ---------------------------------------------------------------- generation

// genSect draws a section; minBlockKey is the smallest key a *blocking* acquisition may use
// (strictly larger than every key the thread holds through a blocking acquisition), so that
// generated programs cannot deadlock on a correct implementation.
func genSect(t *rapid.T, rwm bool, keys int, minBlockKey int, depth int) Sect {
	kinds := []string{"lock", "lock", "try"}
	if rwm {
		kinds = []string{"lock", "lock", "try", "rlock", "rlock", "tryr"}
	}
	kind := rapid.SampledFrom(kinds).Draw(t, "kind")
	var key int
	if isTry(kind) {
		key = rapid.IntRange(0, keys-1).Draw(t, "key")
	} else {
		if minBlockKey >= keys {
			kind = map[bool]string{true: "try", false: "tryr"}[isWrite(kind)]
			key = rapid.IntRange(0, keys-1).Draw(t, "key")
		} else {
			key = rapid.IntRange(minBlockKey, keys-1).Draw(t, "key")
		}
	}
	s := Sect{Kind: kind, Key: key, Yields: rapid.IntRange(0, 2).Draw(t, "yields")}
	if depth < 2 && rapid.IntRange(0, 2).Draw(t, "nest") == 0 {
		mb := minBlockKey
		if !isTry(kind) {
			mb = key + 1
		} else {
			// holding through a Try: a blocking acquisition of the same key below would self-deadlock
			if key+1 > mb {
				mb = key + 1
			}
		}
		n := rapid.IntRange(1, 2).Draw(t, "ninner")
		for i := 0; i < n; i++ {
			s.Inner = append(s.Inner, genSect(t, rwm, keys, mb, depth+1))
		}
	}
	return s
}

func gen(t *rapid.T, withSched bool) Case {
	c := Case{RW: rapid.Bool().Draw(t, "rw"), Keys: rapid.SampledFrom([]int{1, 2, 2, 3}).Draw(t, "keys")}
	nth := rapid.SampledFrom([]int{2, 2, 3, 3, 4}).Draw(t, "threads")
	for i := 0; i < nth; i++ {
		n := rapid.IntRange(1, 2).Draw(t, "nsect")
		var prog []Sect
		for j := 0; j < n; j++ {
			prog = append(prog, genSect(t, c.RW, c.Keys, 0, 0))
		}
		c.Threads = append(c.Threads, prog)
	}
	c.Prelude = rapid.SampledFrom([]int{0, 0, 0, 1, 5, 13, 14, 15, 16, 17, 30, 31, 33, 63, 64}).Draw(t, "prelude")
	if rapid.IntRange(0, 4).Draw(t, "clear") == 0 {
		c.ClearBefore = rapid.SliceOfN(rapid.IntRange(0, c.Keys-1), 0, 2).Draw(t, "clearbefore")
		c.ClearAfter = rapid.SliceOfN(rapid.IntRange(0, c.Keys-1), 0, 2).Draw(t, "clearafter")
	}
	if withSched {
		p := rapid.SampledFrom([]int{5, 15, 35, 60}).Draw(t, "preempt%")
		c.Sched = rapid.SliceOfN(rapid.Custom(func(t *rapid.T) int {
			if rapid.IntRange(0, 99).Draw(t, "p") < p {
				return rapid.IntRange(1, 3).Draw(t, "to")
			}
			return 0
		}), 0, 120).Draw(t, "sched")
	} else {
		c.Procs = rapid.SampledFrom([]int{2, 4, 8, 16}).Draw(t, "procs")
		c.Reps = 30
		c.HoldPrelude = c.Prelude > 0 && rapid.Bool().Draw(t, "holdprelude")
	}
	return c
}

var specSched = pbt.Register(&pbt.Spec[Case]{
	Property: "C09", Name: "C09.sched",
	Rule: "E3 controlled scheduler: KeyedMutex or KeyedRWMutex, 1..3 never-seen keys, 2..4 threads x 1..2 sections {Lock|TryLock|RLock|TryRLock key; 0..2 yields; nested sections; release}; " +
		"blocking acquisitions nest only on strictly larger keys (programs cannot deadlock on a correct implementation), Try* nest freely incl. on a key the thread holds; optional quiescent ClearKey prefix/suffix; " +
		"schedule <=120 choices. Oracle: phase book per key (acquiring/holding/releasing, marked after acquire returns and before release is called): never two incompatible holders; " +
		"Try* false only if an incompatible section existed on that key at some moment of the call; a thread found blocked at a key-lock hook must have an incompatible holder on THAT key " +
		"(else another key delays it), blocked at a library-internal lock only while another thread is inside the library; no deadlock, no panic, no Try* blocked in sync.*; all keys free at the end. " +
		"non-trivial = >=2 threads start on the same never-seen key before any acquisition of it returned, with a thread switch inside LoadOrStore, and some acquisition happens while another key is held",
	Gen: func(t *rapid.T) Case { return gen(t, true) }, Run: RunSched, Quick: 10000, Thorough: 100000, Crashy: true, Retries: 30,
	Assumes: []string{"sequentially-consistent interleavings at hook granularity; a waiting RWMutex writer is parked before calling Lock, so writer preference inside sync.RWMutex is not exercised by E3 (E4 does)"},
})

func TestC09Sched(t *testing.T) { pbt.Check(t, specSched) }

func enumPrograms(three bool, yield func(c Case) bool) {
	mutexProgs := [][]Sect{
		{{Kind: "lock", Key: 0}},
		{{Kind: "try", Key: 0}},
		{{Kind: "lock", Key: 0, Yields: 1}},
		{{Kind: "lock", Key: 1}},
		{{Kind: "lock", Key: 0, Inner: []Sect{{Kind: "lock", Key: 1}}}},
		{{Kind: "lock", Key: 0, Inner: []Sect{{Kind: "try", Key: 0}}}},
		{{Kind: "try", Key: 0, Inner: []Sect{{Kind: "try", Key: 1}}}},
		{{Kind: "lock", Key: 0}, {Kind: "lock", Key: 0}},
		{{Kind: "lock", Key: 1, Yields: 1}, {Kind: "try", Key: 0}},
	}
	rwProgs := append([][]Sect{
		{{Kind: "rlock", Key: 0}},
		{{Kind: "tryr", Key: 0}},
		{{Kind: "rlock", Key: 0, Yields: 1}},
		{{Kind: "rlock", Key: 0, Inner: []Sect{{Kind: "tryr", Key: 0}}}},
		{{Kind: "rlock", Key: 0, Inner: []Sect{{Kind: "lock", Key: 1}}}},
		{{Kind: "tryr", Key: 0, Inner: []Sect{{Kind: "try", Key: 0}}}},
	}, mutexProgs...)
	for _, rwm := range []bool{false, true} {
		progs := mutexProgs
		if rwm {
			progs = rwProgs
		}
		for _, a := range progs {
			for _, b := range progs {
				if !yield(Case{RW: rwm, Keys: 2, Threads: [][]Sect{a, b}}) {
					return
				}
				// a third thread on the other key / same key (thorough only)
				if three && !yield(Case{RW: rwm, Keys: 2, Threads: [][]Sect{a, b, {{Kind: "lock", Key: 1}}}}) {
					return
				}
			}
		}
	}
}

var specSchedEnum = pbt.Register(&pbt.Spec[Case]{
	Property: "C09", Name: "C09.schedenum",
	Rule: "E3 bounded-exhaustive: catalogue of section programs (Lock/TryLock/RLock/TryRLock on key 0 and 1, nested and sequential, with and without a critical-section yield) for 2 (thorough: also 3) threads on never-seen keys, " +
		"for KeyedMutex and KeyedRWMutex; for each program ALL schedules with at most 2 (thorough: 3) non-default scheduling choices, by stateless re-execution; same phase-book oracle as C09.sched",
	Enum: func(shard, shards int, tier string, yield func(Case) bool) {
		bound := 2
		if tier == "thorough" {
			bound = 3
		}
		i := 0
		enumPrograms(tier == "thorough", func(c Case) bool {
			i++
			if i%shards != shard {
				return true
			}
			ok := true
			sched.EnumSchedules(bound, func(schedule []int) ([]int, bool) {
				cc := c
				cc.Sched = append([]int(nil), schedule...)
				lastResult = sched.Result{}
				if !yield(cc) {
					ok = false
					return nil, true
				}
				return lastResult.OptCounts, false
			})
			return ok
		})
	},
	Run: RunSched, Exhaustive: true, Crashy: true, Retries: 30,
})

func TestC09SchedEnum(t *testing.T) { pbt.Check(t, specSchedEnum) }

// ---------------------------------------------------------------- E4 free-running

// RunStress: goroutines run their sections freely on fresh keys; inside a
// write section a PLAIN per-key counter is incremented (two different mutexes
// for one key => no happens-before => race report; lost update => count
// mismatch), inside a read section it is read; atomic occupancy counters assert
// exclusion directly.
func RunStress(c Case) pbt.Outcome {
	if c.Procs > 0 {
		defer runtime.GOMAXPROCS(runtime.GOMAXPROCS(c.Procs))
	}
	reps := c.Reps
	if reps <= 0 {
		reps = 30
	}
	type keyState struct {
		plain   int // deliberately not atomic
		writers atomic.Int32
		readers atomic.Int32
		wrote   atomic.Int32
	}
	for rep := 0; rep < reps; rep++ {
		var l locker
		if c.RW {
			l.krw = &sync2.KeyedRWMutex[int]{}
		} else {
			l.km = &sync2.KeyedMutex[int]{}
		}
		for i := 0; i < c.Prelude; i++ {
			l.acquire("lock", 1000+i)
			if !c.HoldPrelude {
				l.release("lock", 1000+i)
			}
		}
		ks := make([]*keyState, c.Keys)
		for i := range ks {
			ks[i] = &keyState{}
		}
		var viol atomic.Pointer[string]
		fail := func(s string) { viol.CompareAndSwap(nil, &s) }
		var wg sync.WaitGroup
		var gate atomic.Int32
		var exec func(th int, sec Sect, holding map[int]bool)
		exec = func(th int, sec Sect, holding map[int]bool) {
			if c.HoldPrelude { // nothing may block in this mode
				if isWrite(sec.Kind) {
					sec.Kind = "try"
				} else {
					sec.Kind = "tryr"
				}
			}
			ok := l.acquire(sec.Kind, sec.Key)
			if !ok {
				return
			}
			st := ks[sec.Key]
			if isWrite(sec.Kind) {
				if w := st.writers.Add(1); w != 1 {
					fail(fmt.Sprintf("key %d: %d writers inside at once", sec.Key, w))
				}
				if r := st.readers.Load(); r != 0 {
					fail(fmt.Sprintf("key %d: writer inside together with %d readers", sec.Key, r))
				}
				st.plain++
				st.wrote.Add(1)
			} else {
				st.readers.Add(1)
				if w := st.writers.Load(); w != 0 {
					fail(fmt.Sprintf("key %d: reader inside together with %d writers", sec.Key, w))
				}
				_ = st.plain
			}
			for i := 0; i < sec.Yields; i++ {
				runtime.Gosched()
			}
			for _, in := range sec.Inner {
				exec(th, in, holding)
			}
			if isWrite(sec.Kind) {
				st.writers.Add(-1)
			} else {
				st.readers.Add(-1)
			}
			l.release(sec.Kind, sec.Key)
		}
		done := make(chan struct{})
		for ti, prog := range c.Threads {
			ti, prog := ti, prog
			wg.Add(1)
			go func() {
				defer wg.Done()
				gate.Add(1)
				for int(gate.Load()) < len(c.Threads) {
					runtime.Gosched()
				}
				// every goroutine also has a PRIVATE key nobody else ever touches: TryLockKey on it must succeed
				// (it is free and uncontended by construction), whatever the other goroutines hold meanwhile
				private := 500 + ti
				for _, sec := range prog {
					if !l.acquire("try", private) {
						fail(fmt.Sprintf("goroutine %d: TryLockKey(%d) returned false although no other goroutine ever uses that key", ti, private))
						return
					}
					exec(ti, sec, map[int]bool{})
					l.release("try", private)
				}
			}()
		}
		go func() { wg.Wait(); close(done) }()
		<-done
		if c.HoldPrelude {
			for i := 0; i < c.Prelude; i++ {
				l.release("lock", 1000+i)
			}
		}
		if v := viol.Load(); v != nil {
			return pbt.Fail("free-running repetition %d: %s", rep, *v)
		}
		for k, st := range ks {
			if st.plain != int(st.wrote.Load()) {
				return pbt.Fail("free-running repetition %d: key %d: %d write sections ran but the plain counter is %d (lost update: two writers were inside together)", rep, k, st.wrote.Load(), st.plain)
			}
			if !l.acquire("try", k) {
				return pbt.Fail("free-running repetition %d: key %d still held after every goroutine released", rep, k)
			}
			l.release("try", k)
		}
	}
	return pbt.Outcome{Evals: reps, NonTrivial: len(c.Threads) >= 2, Labels: []string{fmt.Sprintf("procs=%d", c.Procs)}}
}

var specStress = pbt.Register(&pbt.Spec[Case]{
	Property: "C09", Name: "C09.stress",
	Rule: "E4 free-running under -race: the same section programs on fresh keyed mutexes, goroutines released together, 30 repetitions, GOMAXPROCS in {2,4,8,16}; " +
		"write sections increment a PLAIN per-key counter (race report or lost update if two writers are inside), read sections read it; atomic occupancy counters assert exclusion; " +
		"non-trivial = >=2 goroutines (all start on never-seen keys)",
	Gen: func(t *rapid.T) Case { return gen(t, false) }, Run: RunStress, Quick: 400, Thorough: 6000, Crashy: true, Retries: 300,
	Assumes: []string{"a hang (deadlock) in the free-running unit ends as an inconclusive deadline, never as a violation"},
})

func TestC09Stress(t *testing.T) { pbt.Check(t, specStress) }
func TestReplay(t *testing.T)    { pbt.Replay(t) }
