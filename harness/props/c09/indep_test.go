package c09

import (
	"fmt"
	"sync/atomic"
	"testing"
	"time"

	"gopkg.in/typ.v4/sync2"
	"pgregory.net/rapid"
	"verifharness/internal/gstate"
	"verifharness/internal/pbt"
)

// ICase is a gated independence scenario (free-running goroutines, the harness holds the gates):
//
//	H holds key 0 (Holder: lock | rlock) and releases it only AFTER the verdict on B;
//	Waiters goroutines block on key 0 meanwhile (each: lock | rlock);
//	optionally ClearKey is called on an idle, warmed-up key 2 while all that is going on;
//	then B acquires key 1 (BKind: lock try rlock tryr) — or, with SameKeyReader, a second reader joins key 0.
//
// B must succeed while H still holds key 0. Because H's release is gated on B's outcome, a B that is
// blocked can never be released by correct progress: seeing B blocked (goroutine state, confirmed twice)
// IS the violation "holding or waiting for one key delays the acquisition of a different key".
type ICase struct {
	RW            bool     `json:"rw"`
	Holder        string   `json:"holder"`
	Waiters       []string `json:"waiters"`
	Clear         bool     `json:"clear"`
	ClearFirst    bool     `json:"clear_first"` // ClearKey before the waiters arrive
	BKind         string   `json:"b_kind"`
	SameKeyReader bool     `json:"same_key_reader"` // B = reader on key 0 next to reader H (no writer waiting)
	Warm          []int    `json:"warm"`            // lock/unlock cycles per key 0,1,2 before the scenario (promotes entries in the underlying map)
	Fresh         int      `json:"fresh"`           // number of additional never-seen keys touched first (shapes the map: 0..20)
	// OtherObject: B acquires key 0 - the very key H holds - but on a SECOND keyed-mutex value of the same type:
	// two values must never share anything
	OtherObject bool `json:"other_object,omitempty"`
}

func RunIndep(c ICase) pbt.Outcome {
	var l locker
	if c.RW {
		l.krw = &sync2.KeyedRWMutex[int]{}
	} else {
		l.km = &sync2.KeyedMutex[int]{}
	}
	for i := 0; i < c.Fresh; i++ {
		l.acquire("lock", 100+i)
		l.release("lock", 100+i)
	}
	for k, n := range c.Warm {
		for i := 0; i < n; i++ {
			l.acquire("lock", k)
			l.release("lock", k)
		}
	}
	type actor struct {
		gid      atomic.Pointer[string]
		done     chan struct{}
		got      bool
		returned atomic.Bool
	}
	start := func(a *actor, f func() bool) {
		a.done = make(chan struct{})
		go func() {
			id := gstate.GoID()
			a.gid.Store(&id)
			a.got = f()
			a.returned.Store(true)
			close(a.done)
		}()
		for a.gid.Load() == nil {
			time.Sleep(5 * time.Microsecond)
		}
	}
	gate := make(chan struct{})
	held := make(chan struct{})
	h := &actor{}
	start(h, func() bool {
		l.acquire(c.Holder, 0)
		close(held)
		<-gate
		l.release(c.Holder, 0)
		return true
	})
	select {
	case <-held:
	case <-time.After(30 * time.Second):
		close(gate)
		return pbt.Outcome{Inconclusive: "holder did not acquire a fresh key within 30s"}
	}
	var actors []*actor
	release := func() {
		close(gate)
		<-h.done
	}
	var clearA *actor
	startClear := func() {
		clearA = &actor{}
		start(clearA, func() bool { l.clear(2); return true })
		// let it finish or block; nothing is asserted about ClearKey itself
		gstate.WaitDoneOrBlockedIn(*clearA.gid.Load(), gstate.SyncBlocked, clearA.returned.Load, 20*time.Second)
	}
	if c.Clear && c.ClearFirst {
		startClear()
	}
	for i, wk := range c.Waiters {
		wk := wk
		w := &actor{}
		start(w, func() bool {
			l.acquire(wk, 0)
			l.release(wk, 0)
			return true
		})
		actors = append(actors, w)
		fin, _, timedOut := gstate.WaitDoneOrBlockedIn(*w.gid.Load(), gstate.SyncBlocked, w.returned.Load, 20*time.Second)
		incompatible := isWrite(wk) || isWrite(c.Holder)
		if fin && incompatible {
			release()
			return pbt.Fail("waiter %d (%s on key 0) got through while the holder (%s) was still inside: mutual exclusion broken", i, wk, c.Holder)
		}
		if timedOut {
			release()
			return pbt.Outcome{Inconclusive: "a waiter neither returned nor was seen blocked"}
		}
	}
	if c.Clear && !c.ClearFirst {
		startClear()
	}
	// ---- B
	lb := l
	if c.OtherObject {
		if c.RW {
			lb = locker{krw: &sync2.KeyedRWMutex[int]{}}
		} else {
			lb = locker{km: &sync2.KeyedMutex[int]{}}
		}
	}
	bKey, bKind := 1, c.BKind
	if c.OtherObject {
		bKey = 0
	}
	if c.SameKeyReader && !c.OtherObject {
		bKey = 0
		if isWrite(bKind) {
			bKind = "rlock"
		}
	}
	b := &actor{}
	start(b, func() bool {
		ok := lb.acquire(bKind, bKey)
		if ok {
			lb.release(bKind, bKey)
		}
		return ok
	})
	fin, state, timedOut := gstate.WaitDoneOrBlockedIn(*b.gid.Load(), gstate.SyncBlocked, b.returned.Load, 20*time.Second)
	if c.OtherObject {
		defer func() {}()
	}
	desc := map[bool]string{true: "on a SECOND keyed-mutex value: ", false: ""}[c.OtherObject] + fmt.Sprintf("%s(key %d) while key 0 is held (%s) with %d goroutine(s) waiting for it%s", kindName(bKind), bKey, c.Holder, len(c.Waiters), map[bool]string{true: " and a ClearKey of an idle key in progress", false: ""}[c.Clear])
	verdict := ""
	switch {
	case timedOut:
		release()
		return pbt.Outcome{Inconclusive: "B neither returned nor was seen blocked"}
	case !fin:
		verdict = fmt.Sprintf("%s is BLOCKED (goroutine state %q) although key %d is free: holding or waiting for one key delays the acquisition of another", desc, state, bKey)
	case !b.got:
		verdict = fmt.Sprintf("%s returned false although key %d is free and uncontended", desc, bKey)
	}
	release()
	for _, a := range append(actors, b) {
		select {
		case <-a.done:
		case <-time.After(30 * time.Second):
			if verdict == "" {
				return pbt.Outcome{Inconclusive: "an actor did not finish within 30s after the holder released"}
			}
		}
	}
	if clearA != nil {
		select {
		case <-clearA.done:
		case <-time.After(30 * time.Second):
			if verdict == "" {
				return pbt.Outcome{Inconclusive: "ClearKey did not finish within 30s after the holder released"}
			}
		}
	}
	if verdict != "" {
		return pbt.Fail("%s", verdict)
	}
	out := pbt.Outcome{Evals: 1, NonTrivial: len(c.Waiters) > 0 || c.Clear}
	out.Labels = append(out.Labels, "B="+bKind, fmt.Sprintf("waiters=%d", len(c.Waiters)))
	if c.Clear {
		out.Labels = append(out.Labels, "clearkey-in-progress")
	}
	if c.SameKeyReader {
		out.Labels = append(out.Labels, "second-reader-same-key")
	}
	return out
}

func kindName(k string) string {
	return map[string]string{"lock": "LockKey", "try": "TryLockKey", "rlock": "RLockKey", "tryr": "TryRLockKey"}[k]
}

var specIndep = pbt.Register(&pbt.Spec[ICase]{
	Property: "C09", Name: "C09.indep",
	Rule: "gated independence scenarios (free-running goroutines): H holds key 0 (Lock or RLock) and releases it only after the verdict; 0..2 goroutines wait for key 0; optionally ClearKey of an idle warmed-up key runs meanwhile; " +
		"then B does Lock/TryLock/RLock/TryRLock on the free key 1 (or joins key 0 as a second reader when only readers are around, or - one case in six - takes key 0 itself on a SECOND keyed-mutex value). B must return (true) while H still holds key 0; B seen blocked in a sync primitive " +
		"(goroutine state, confirmed on two dumps) or a Try* returning false is a violation - sound because H's release is gated on B. Keys are warmed by 0..3 lock/unlock cycles and 0..20 other keys are touched first " +
		"(shapes the underlying map: promoted / dirty-only entries). non-trivial = at least one waiter or a ClearKey in progress",
	Gen: func(t *rapid.T) ICase {
		c := ICase{RW: rapid.Bool().Draw(t, "rw")}
		c.Holder = "lock"
		kinds := []string{"lock", "try"}
		wk := []string{"lock"}
		if c.RW {
			c.Holder = rapid.SampledFrom([]string{"lock", "rlock"}).Draw(t, "holder")
			kinds = []string{"lock", "try", "rlock", "tryr"}
			wk = []string{"lock", "rlock"}
		}
		c.BKind = rapid.SampledFrom(kinds).Draw(t, "b")
		n := rapid.IntRange(0, 2).Draw(t, "nwaiters")
		for i := 0; i < n; i++ {
			w := rapid.SampledFrom(wk).Draw(t, "w")
			if w == "rlock" && c.Holder == "rlock" {
				w = "lock" // a reader would not wait behind a reader
			}
			c.Waiters = append(c.Waiters, w)
		}
		c.Clear = rapid.Bool().Draw(t, "clear")
		c.ClearFirst = rapid.Bool().Draw(t, "clearfirst")
		if c.RW && c.Holder == "rlock" && n == 0 && rapid.Bool().Draw(t, "samekey") {
			c.SameKeyReader = true
		}
		c.Warm = []int{rapid.IntRange(0, 3).Draw(t, "w0"), rapid.IntRange(0, 3).Draw(t, "w1"), rapid.IntRange(1, 3).Draw(t, "w2")}
		c.Fresh = rapid.SampledFrom([]int{0, 0, 1, 3, 15, 20}).Draw(t, "fresh")
		c.OtherObject = rapid.IntRange(0, 5).Draw(t, "otherobject") == 0
		return c
	},
	Run: RunIndep, Quick: 400, Thorough: 4000, Crashy: true, Retries: 5,
	Assumes: []string{"goroutine wait states are read from runtime.Stack; only sync.Mutex/RWMutex/chan states count as blocked and must be seen twice 2ms apart"},
})

func TestC09Indep(t *testing.T) { pbt.Check(t, specIndep) }
