package c15

import (
	"fmt"
	"math"
	"math/bits"
	"math/rand"
	"reflect"
	"runtime"
	"runtime/debug"
	"sort"
	"syscall"
	"testing"
	"time"
	"unsafe"

	"gopkg.in/typ.v4/slices"
	"verifharness/internal/pbt"
)

// ECase: unusual circumstances around ordinary calls.
//
//	"guardpage"  the slice lies in memory obtained with mmap and ends exactly where an inaccessible page begins
//	             (Pos "end"), or begins exactly where an inaccessible page ends (Pos "start"); Pages readable pages.
//	             Every helper is called on it: touching one element beyond either end of the slice faults.
//	"stackarr"   the slice is a view of a LOCAL fixed-size array of the calling function, on a fresh goroutine;
//	             after each helper returned the goroutine's stack is forced to grow (deep recursion) and only then
//	             the result is looked at.
//	"gap"        call A of helper Fn on N elements, then exactly Gap calls of Fn on tiny slices with other
//	             contents, then call B on N other elements: B's (and, once more, A's) result is checked.
//	"sleep"      every helper is called, then nothing happens for SleepMs milliseconds of wall-clock time, then every
//	             helper is called on other data (Rounds times sleep+calls); all results are checked at the end.
//	"abortzero"  Fn on a slice of N zero-size elements (N up to MaxInt) whose callback / random source gives up by a
//	             sentinel panic after Draws calls: the call must end by that panic (or return), not by any other.
//	"samename"   two function-local element types with the same name (`job`) and different layouts, and two local
//	             ordered types called `key`, are sorted alternately.
type ECase struct {
	Kind    string `json:"kind"`
	Fn      string `json:"fn,omitempty"`
	Type    string `json:"type,omitempty"`
	N       int    `json:"n"`
	Seed    uint64 `json:"seed,omitempty"`
	Pos     string `json:"pos,omitempty"`
	Pages   int    `json:"pages,omitempty"`
	Gap     int    `json:"gap,omitempty"`
	SleepMs int    `json:"sleep_ms,omitempty"`
	Rounds  int    `json:"rounds,omitempty"`
	Draws   int    `json:"draws,omitempty"`
	Src64   bool   `json:"src64,omitempty"`
}

func hasPointers(t reflect.Type) bool {
	switch t.Kind() {
	case reflect.Bool, reflect.Int, reflect.Int8, reflect.Int16, reflect.Int32, reflect.Int64, reflect.Uint, reflect.Uint8, reflect.Uint16,
		reflect.Uint32, reflect.Uint64, reflect.Uintptr, reflect.Float32, reflect.Float64, reflect.Complex64, reflect.Complex128:
		return false
	case reflect.Array:
		return t.Len() > 0 && hasPointers(t.Elem())
	case reflect.Struct:
		for i := 0; i < t.NumField(); i++ {
			if hasPointers(t.Field(i).Type) {
				return true
			}
		}
		return false
	}
	return true
}

// edgeKeys: n keys below mod from a formula.
func edgeKeys(n, mod int, seed uint64) []int {
	if mod < 1 {
		mod = 1
	}
	ks := make([]int, n)
	for i := range ks {
		ks[i] = int(splitmix(seed*1000003+uint64(i)) % uint64(mod))
	}
	return ks
}

func fill[E any](k *kit[E], s []E, keys []int) {
	for i, x := range keys {
		s[i] = k.mk(x, i)
	}
}

// allHelpers calls every helper of the element type on the slice s (refilled from keys before each) and verifies
// each result; `after` runs between a call and the look at its result.
func allHelpers[E any](k *kit[E], s []E, keys []int, seed uint64, after func()) string {
	if after == nil {
		after = func() {}
	}
	for _, f := range funcsOf(k) {
		fill(k, s, keys)
		f.call(s, k.less, false)
		after()
		if m := k.verify(s, keys, f.dir, f.stable); m != "" {
			return f.name + ": " + m
		}
	}
	// shuffles
	fill(k, s, keys)
	slices.ShuffleRand(s, rand.New(rand.NewSource(int64(seed))))
	after()
	if m := k.verify(s, keys, 0, false); m != "" {
		return "ShuffleRand: " + m
	}
	first := make([]int, 0, 2*len(s))
	for _, e := range s {
		key, idx, _ := k.dec(e)
		first = append(first, key, idx)
	}
	fill(k, s, keys)
	slices.ShuffleRand(s, rand.New(rand.NewSource(int64(seed))))
	after()
	for i, e := range s {
		if key, idx, _ := k.dec(e); key != first[2*i] || idx != first[2*i+1] {
			return fmt.Sprintf("ShuffleRand: not a function of the supplied generator: two generators with the same seed gave different results (first difference at position %d)", i)
		}
	}
	fill(k, s, keys)
	slices.Shuffle(s)
	after()
	if m := k.verify(s, keys, 0, false); m != "" {
		return "Shuffle: " + m
	}
	// searches on the ascending slice
	sorted := append([]int(nil), keys...)
	sort.Ints(sorted)
	fill(k, s, sorted)
	ts := []int{0, k.nkeys - 1}
	for j := 0; j < 6 && len(sorted) > 0; j++ {
		x := sorted[int(splitmix(seed+uint64(j))%uint64(len(sorted)))]
		ts = append(ts, x, (x+1)%k.nkeys, (x+k.nkeys-1)%k.nkeys)
	}
	for _, t := range ts {
		want := sort.SearchInts(sorted, t)
		target := k.mk(t, guardIdx)
		got := slices.BinarySearchFunc(s, func(e E) bool { return k.less(e, target) })
		after()
		if got != want {
			return fmt.Sprintf("BinarySearchFunc, target key %d: got %d, want %d (smallest index whose element is not less than the target, len if none)", t, got, want)
		}
		if k.ord != nil {
			if got := k.ord.search(s, target, false); got != want {
				return fmt.Sprintf("BinarySearch, target key %d: got %d, want %d (smallest index whose element is not less than the target, len if none)", t, got, want)
			}
		}
	}
	if m := k.verify(s, sorted, +1, true); m != "" {
		return "the searches modified the slice: " + m
	}
	return ""
}

// ---------------------------------------------------------------- guard pages

const pageSize = 4096

// guarded maps [inaccessible page][pages readable+writable pages][inaccessible page] and returns the middle part.
func guardedPages(pages int) (mem []byte, release func(), err error) {
	all, err := syscall.Mmap(-1, 0, (pages+2)*pageSize, syscall.PROT_READ|syscall.PROT_WRITE, syscall.MAP_ANON|syscall.MAP_PRIVATE)
	if err != nil {
		return nil, nil, err
	}
	if err = syscall.Mprotect(all[:pageSize], syscall.PROT_NONE); err == nil {
		err = syscall.Mprotect(all[(pages+1)*pageSize:], syscall.PROT_NONE)
	}
	if err != nil {
		syscall.Munmap(all)
		return nil, nil, err
	}
	return all[pageSize : (pages+1)*pageSize : (pages+1)*pageSize], func() { syscall.Munmap(all) }, nil
}

func edgeGuardPage[E any](k *kit[E], c ECase) (out pbt.Outcome) {
	var z E
	sz := int(unsafe.Sizeof(z))
	if sz == 0 || hasPointers(reflect.TypeOf(z)) {
		return pbt.Outcome{Skipped: true}
	}
	pages := c.Pages
	if pages < 1 {
		pages = 1
	}
	n := c.N
	if n*sz > pages*pageSize {
		n = pages * pageSize / sz
	}
	mem, release, err := guardedPages(pages)
	if err != nil {
		return pbt.Outcome{Inconclusive: "mmap/mprotect failed: " + err.Error()}
	}
	defer release()
	off := 0
	if c.Pos == "end" {
		off = len(mem) - n*sz
	}
	var s []E
	if n > 0 {
		s = unsafe.Slice((*E)(unsafe.Pointer(&mem[off])), n)
	} else {
		s = unsafe.Slice((*E)(unsafe.Pointer(&mem[0])), 1)[:0:0]
		if c.Pos == "end" {
			s = unsafe.Slice((*E)(unsafe.Pointer(&mem[len(mem)-sz])), 1)[1:1:1]
		}
	}
	where := "begins exactly where an inaccessible page ends"
	if c.Pos == "end" {
		where = "ends exactly where an inaccessible page begins"
	}
	what := fmt.Sprintf("[]%s of %d elements in mmap'ed memory that %s (cap = len)", k.name, n, where)
	old := debug.SetPanicOnFault(true)
	defer debug.SetPanicOnFault(old)
	defer func() {
		if p := recover(); p != nil {
			if e, ok := p.(runtime.Error); ok {
				if a, ok := e.(interface{ Addr() uintptr }); ok {
					base := uintptr(unsafe.Pointer(&mem[0]))
					out = pbt.Fail("%s: a helper touched memory outside the slice (fault at %d bytes from the slice's first byte; the slice has %d bytes): %v", what, int(a.Addr())-int(base)-off, n*sz, p)
					return
				}
			}
			panic(p)
		}
	}()
	mod := []int{n + 1, 3, wideKeys}[c.Seed%3]
	if mod > k.nkeys {
		mod = k.nkeys
	}
	keys := edgeKeys(n, mod, c.Seed)
	if m := allHelpers(k, s, keys, c.Seed, nil); m != "" {
		return pbt.Fail("%s, keys %s: %s", what, showKeys(keys), m)
	}
	lab := []string{"guard-page-at-" + c.Pos, sizeLabel(k.size), lenLabel(n)}
	if n*sz == pages*pageSize {
		lab = append(lab, "slice-fills-the-mapping")
	}
	return pbt.Outcome{Evals: 12, NonTrivial: n >= 3, Labels: lab}
}

// ---------------------------------------------------------------- local arrays and stack growth

const stackArrLen = 48

//go:noinline
func deepen(d int, pad *[96]byte) int {
	var local [96]byte
	local[d%96] = pad[(d+1)%96] + 1
	if d == 0 {
		return int(local[0])
	}
	return deepen(d-1, &local) + int(local[d%96])
}

//go:noinline
func stackArrBody[E any](k *kit[E], c ECase) string {
	var a [stackArrLen]E // a local array: the slice handed to the library is a view of it
	n := c.N
	if n > stackArrLen {
		n = stackArrLen
	}
	keys := edgeKeys(n, []int{n + 1, 3, wideKeys}[c.Seed%3]%(k.nkeys+1), c.Seed)
	depth := 2000 + int(c.Seed%2000)
	grow := func() {
		var pad [96]byte
		deepen(depth, &pad)
		depth += 300 // deeper every time, so that the stack grows again
	}
	return allHelpers(k, a[:n], keys, c.Seed, grow)
}

func edgeStackArr[E any](k *kit[E], c ECase) pbt.Outcome {
	ch := make(chan string, 1)
	go func() { // a fresh goroutine starts on a small stack
		defer func() {
			if p := recover(); p != nil {
				ch <- fmt.Sprintf("unexpected panic: %v", p)
			}
		}()
		ch <- stackArrBody(k, c)
	}()
	if m := <-ch; m != "" {
		return pbt.Fail("slice = view of %d elements of a local [%d]%s array of the calling function, result looked at after the goroutine's stack was forced to grow: %s", c.N, stackArrLen, k.name, m)
	}
	return pbt.Outcome{Evals: 12, NonTrivial: c.N >= 3, Labels: []string{"local-array+stack-growth", sizeLabel(k.size)}}
}

// ---------------------------------------------------------------- exact gaps between two calls

// callOne calls helper fn on s (= mk(keys[i], i)) and verifies; BinarySearch: s must be built from sorted keys.
func callOne[E any](k *kit[E], fn string, s []E, keys []int, seed uint64, gens ...*rand.Rand) string {
	switch fn {
	case "BinarySearch":
		for j := 0; j < 3; j++ {
			t := int(splitmix(seed+uint64(j)) % uint64(k.nkeys))
			if j == 0 && len(keys) > 0 {
				t = keys[int(seed%uint64(len(keys)))]
			}
			want := sort.SearchInts(keys, t)
			target := k.mk(t, guardIdx)
			if got := slices.BinarySearchFunc(s, func(e E) bool { return k.less(e, target) }); got != want {
				return fmt.Sprintf("BinarySearchFunc, target key %d: got %d, want %d", t, got, want)
			}
			if k.ord != nil {
				if got := k.ord.search(s, target, false); got != want {
					return fmt.Sprintf("BinarySearch, target key %d: got %d, want %d", t, got, want)
				}
			}
		}
		return ""
	case "ShuffleRand":
		s2 := append([]E(nil), s...)
		if len(gens) == 2 { // two generators in lockstep, made by the caller
			slices.ShuffleRand(s, gens[0])
			slices.ShuffleRand(s2, gens[1])
		} else {
			slices.ShuffleRand(s, rand.New(rand.NewSource(int64(seed))))
			slices.ShuffleRand(s2, rand.New(rand.NewSource(int64(seed))))
		}
		if m := k.verify(s, keys, 0, false); m != "" {
			return m
		}
		for i := range s {
			k1, i1, _ := k.dec(s[i])
			k2, i2, _ := k.dec(s2[i])
			if k1 != k2 || i1 != i2 {
				return fmt.Sprintf("not a function of the supplied generator: two generators with the same seed gave different results (first difference at position %d)", i)
			}
		}
		return ""
	case "Shuffle":
		slices.Shuffle(s)
		return k.verify(s, keys, 0, false)
	}
	for _, f := range funcsOf(k) {
		if f.name == fn {
			f.call(s, k.less, false)
			return k.verify(s, keys, f.dir, f.stable)
		}
	}
	return "unknown helper"
}

func dirOf(fn string) (dir int, stable bool) {
	switch fn {
	case "Sort", "SortFunc":
		return +1, false
	case "SortDesc", "SortDescFunc":
		return -1, false
	case "SortStableFunc":
		return +1, true
	case "SortStableDescFunc":
		return -1, true
	}
	return 0, false
}

func edgeGap[E any](k *kit[E], c ECase) pbt.Outcome {
	if isOrderedFn(c.Fn) && k.ord == nil {
		return pbt.Outcome{Skipped: true}
	}
	mk := func(n int, seed uint64) ([]E, []int) {
		keys := edgeKeys(n, []int{n/2 + 2, wideKeys}[seed%2]%(k.nkeys+1), seed)
		if c.Fn == "BinarySearch" {
			sort.Ints(keys)
		}
		s := make([]E, n)
		fill(k, s, keys)
		return s, keys
	}
	what := fmt.Sprintf("%s on []%s: call A on %d elements, then exactly %d calls on slices of 1..3 elements with other contents, then call B on %d other elements", c.Fn, k.name, c.N, c.Gap, c.N)
	a, aKeys := mk(c.N, c.Seed)
	if m := callOne(k, c.Fn, a, aKeys, c.Seed); m != "" {
		return pbt.Fail("%s: call A (keys %s): %s", what, showKeys(aKeys), m)
	}
	// the tiny slices in between: prebuilt, 7 of them in rotation, refilled each time
	var tiny [7][]E
	var tinyKeys [7][]int
	var tinyIn [7][]E
	for j := range tiny {
		tinyIn[j], tinyKeys[j] = mk(1+j%3, c.Seed+uint64(j)+1)
		tiny[j] = make([]E, len(tinyIn[j]))
	}
	g1, g2 := rand.New(rand.NewSource(int64(c.Seed))), rand.New(rand.NewSource(int64(c.Seed)))
	for g := 0; g < c.Gap; g++ {
		j := g % 7
		copy(tiny[j], tinyIn[j])
		if m := callOne(k, c.Fn, tiny[j], tinyKeys[j], c.Seed+uint64(g), g1, g2); m != "" {
			return pbt.Fail("%s: call number %d in between (keys %v): %s", what, g+1, tinyKeys[j], m)
		}
	}
	b, bKeys := mk(c.N, c.Seed+99)
	if m := callOne(k, c.Fn, b, bKeys, c.Seed+99); m != "" {
		return pbt.Fail("%s: call B (keys %s): %s", what, showKeys(bKeys), m)
	}
	// A's result once more
	dir, stable := dirOf(c.Fn)
	if m := k.verify(a, aKeys, dir, stable); m != "" {
		return pbt.Fail("%s: the result of call A was correct when A returned but is different now: %s", what, m)
	}
	return pbt.Outcome{Evals: c.Gap + 2, NonTrivial: c.Gap >= 200, Labels: []string{"fn:" + c.Fn, fmt.Sprintf("gap~2^%d", bits.Len(uint(c.Gap+1))-1), sizeLabel(k.size)}}
}

// ---------------------------------------------------------------- wall-clock time between calls

func edgeSleep[E any](k *kit[E], c ECase) pbt.Outcome {
	rounds := c.Rounds
	if rounds < 1 {
		rounds = 1
	}
	type kept struct {
		s    []E
		keys []int
		fn   string
	}
	var keep []kept
	fns := append([]string{}, bigFns...)
	fns = append(fns, "Shuffle")
	phase := func(p int) string {
		for fi, fn := range fns {
			if isOrderedFn(fn) && k.ord == nil {
				continue
			}
			for _, n := range []int{c.N, 37, 1} {
				if n > 100 && int(k.size)*n > 8<<20 {
					n = (8 << 20) / int(k.size)
				}
				seed := c.Seed + uint64(p*1000+fi*10+n%7)
				keys := edgeKeys(n, []int{n/2 + 2, wideKeys}[seed%2]%(k.nkeys+1), seed)
				if fn == "BinarySearch" {
					sort.Ints(keys)
				}
				s := make([]E, n)
				fill(k, s, keys)
				if m := callOne(k, fn, s, keys, seed); m != "" {
					return fmt.Sprintf("%s on %d elements: %s", fn, n, m)
				}
				keep = append(keep, kept{s, keys, fn})
			}
		}
		return ""
	}
	what := fmt.Sprintf("every helper on []%s (%d, 37 and 1 elements), then %d times: %d ms without any call, then every helper again on other data", k.name, c.N, rounds, c.SleepMs)
	if m := phase(0); m != "" {
		return pbt.Fail("%s: before the pause: %s", what, m)
	}
	for r := 1; r <= rounds; r++ {
		time.Sleep(time.Duration(c.SleepMs) * time.Millisecond)
		if m := phase(r); m != "" {
			return pbt.Fail("%s: after pause number %d: %s", what, r, m)
		}
	}
	for _, kp := range keep {
		dir, stable := dirOf(kp.fn)
		if m := k.verify(kp.s, kp.keys, dir, stable); m != "" {
			return pbt.Fail("%s: a result of %s (%d elements) was correct when the call returned but is different at the end: %s", what, kp.fn, len(kp.keys), m)
		}
	}
	return pbt.Outcome{Evals: len(keep), NonTrivial: c.SleepMs >= 2000, Labels: []string{fmt.Sprintf("pause-%dms", c.SleepMs), sizeLabel(k.size)}}
}

// ---------------------------------------------------------------- huge zero-size slices, calls given up by the callback

type enough struct{}

// givingUp is a rand.Source (and with s64 a rand.Source64) that panics with enough{} after `left` draws.
type givingUp struct {
	src  rand.Source64
	left int
}

func (g *givingUp) tick() {
	if g.left <= 0 {
		panic(enough{})
	}
	g.left--
}
func (g *givingUp) Int63() int64    { g.tick(); return g.src.Int63() }
func (g *givingUp) Seed(seed int64) { g.src.Seed(seed) }

type givingUp64 struct{ givingUp }

func (g *givingUp64) Uint64() uint64 { g.tick(); return g.src.Uint64() }

func edgeAbortZero(c ECase) pbt.Outcome {
	s := make([]struct{}, c.N)
	calls := 0
	less := func(a, b struct{}) bool { // zero-size elements are all equal: never less
		if calls >= c.Draws {
			panic(enough{})
		}
		calls++
		return false
	}
	how := func() (outcome string) {
		defer func() {
			switch p := recover().(type) {
			case nil:
			case enough:
				outcome = "gave-up"
			default:
				outcome = fmt.Sprintf("panic: %v", p)
			}
		}()
		switch c.Fn {
		case "SortFunc":
			slices.SortFunc(s, less)
		case "SortDescFunc":
			slices.SortDescFunc(s, less)
		case "SortStableFunc":
			slices.SortStableFunc(s, less)
		case "SortStableDescFunc":
			slices.SortStableDescFunc(s, less)
		case "BinarySearchFunc":
			// the answer is len: each probe says "less"; gives up like the others
			slices.BinarySearchFunc(s, func(struct{}) bool {
				if calls >= c.Draws {
					panic(enough{})
				}
				calls++
				return true
			})
		case "ShuffleRand":
			base := rand.NewSource(int64(c.Seed)).(rand.Source64)
			var src rand.Source = &givingUp{src: base, left: c.Draws}
			if c.Src64 {
				src = &givingUp64{givingUp{src: base, left: c.Draws}}
			}
			slices.ShuffleRand(s, rand.New(src))
		}
		return "returned"
	}()
	what := fmt.Sprintf("%s on a slice of %d zero-size elements, the callback / random source giving up by a panic of its own after %d calls", c.Fn, c.N, c.Draws)
	if how != "gave-up" && how != "returned" {
		return pbt.Fail("%s: the call ended by another panic instead: %s", what, how)
	}
	if len(s) != c.N {
		return pbt.Fail("%s: length changed", what)
	}
	// an independent ordinary call after the one that was given up
	t := []tagged{{3, 0}, {1, 1}, {3, 2}, {0, 3}, {1, 4}, {2, 5}}
	keys := []int{3, 1, 3, 0, 1, 2}
	var m string
	switch c.Fn {
	case "ShuffleRand":
		slices.ShuffleRand(t, rand.New(rand.NewSource(int64(c.Seed))))
		m = checkPerm(t, keys)
	case "BinarySearchFunc":
		if got := slices.BinarySearchFunc([]int{1, 3, 3, 5}, func(e int) bool { return e < 3 }); got != 1 {
			m = fmt.Sprintf("BinarySearchFunc([1 3 3 5], <3) = %d, want 1", got)
		}
	default:
		lt := func(a, b tagged) bool { return a.key < b.key }
		switch c.Fn {
		case "SortFunc":
			slices.SortFunc(t, lt)
		case "SortDescFunc":
			slices.SortDescFunc(t, lt)
		case "SortStableFunc":
			slices.SortStableFunc(t, lt)
		case "SortStableDescFunc":
			slices.SortStableDescFunc(t, lt)
		}
		dir, stable := dirOf(c.Fn)
		if m = checkPerm(t, keys); m == "" {
			if m = checkOrder(t, dir); m == "" && stable {
				m = checkStable(t)
			}
		}
	}
	if m != "" {
		return pbt.Fail("%s (ended as expected: %s); the next, independent call of %s on 6 elements: %s", what, how, c.Fn, m)
	}
	lab := []string{"fn:" + c.Fn, "ended:" + how, fmt.Sprintf("n~2^%d", bits.Len64(uint64(c.N)+1)-1)}
	return pbt.Outcome{Evals: 2, NonTrivial: c.N > math.MaxInt32/2, Labels: lab}
}

// ---------------------------------------------------------------- distinct types with the same name

func sameNameA(n int, seed uint64) string {
	type job struct {
		key  int32
		idx  int32
		name string
	}
	type key int32
	keys := edgeKeys(n, n/2+2, seed)
	mk := func() []job {
		s := make([]job, n)
		for i, x := range keys {
			s[i] = job{int32(x), int32(i), fmt.Sprintf("a%d/%d", x, i)}
		}
		return s
	}
	tag := func(s []job) (string, []tagged) {
		t := make([]tagged, len(s))
		for i, e := range s {
			if e.name != fmt.Sprintf("a%d/%d", e.key, e.idx) {
				return fmt.Sprintf("position %d holds garbled contents %+v", i, e), nil
			}
			t[i] = tagged{int(e.key), int(e.idx)}
		}
		return "", t
	}
	lt := func(a, b job) bool { return a.key < b.key }
	for fi, f := range []func([]job, func(a, b job) bool){slices.SortFunc[[]job], slices.SortDescFunc[[]job], slices.SortStableFunc[[]job], slices.SortStableDescFunc[[]job]} {
		s := mk()
		f(s, lt)
		m, t := tag(s)
		if m == "" {
			if m = checkPerm(t, keys); m == "" {
				if m = checkOrder(t, 1-2*(fi%2)); m == "" && fi >= 2 {
					m = checkStable(t)
				}
			}
		}
		if m != "" {
			return fmt.Sprintf("%s on []job (job = struct{key, idx int32; name string}, local to one function): %s", []string{"SortFunc", "SortDescFunc", "SortStableFunc", "SortStableDescFunc"}[fi], m)
		}
	}
	s := mk()
	slices.ShuffleRand(s, rand.New(rand.NewSource(int64(seed))))
	if m, t := tag(s); m != "" || checkPerm(t, keys) != "" {
		return "ShuffleRand on []job (struct{key, idx int32; name string}): not a permutation " + m
	}
	ks := make([]key, n)
	for i, x := range keys {
		ks[i] = key(x - 1)
	}
	slices.Sort(ks)
	want := append([]int(nil), keys...)
	sort.Ints(want)
	for i := range ks {
		if int(ks[i]) != want[i]-1 {
			return fmt.Sprintf("Sort on []key (key = int32, local to one function): position %d holds %d, want %d", i, ks[i], want[i]-1)
		}
	}
	if n > 0 {
		if got := slices.BinarySearch(ks, key(want[n/2]-1)); got != sort.SearchInts(want, want[n/2]) {
			return fmt.Sprintf("BinarySearch on []key (key = int32): got %d, want %d", got, sort.SearchInts(want, want[n/2]))
		}
	}
	slices.SortDesc(ks)
	for i := range ks {
		if int(ks[i]) != want[n-1-i]-1 {
			return fmt.Sprintf("SortDesc on []key (key = int32, local to one function): position %d holds %d, want %d", i, ks[i], want[n-1-i]-1)
		}
	}
	return ""
}

func sameNameB(n int, seed uint64) string {
	type job struct {
		name string
		pad  [3]uint64
		idx  int
		key  float64
	}
	type key string
	keys := edgeKeys(n, n/2+2, seed+1)
	mk := func() []job {
		s := make([]job, n)
		for i, x := range keys {
			s[i] = job{fmt.Sprintf("b%d/%d", x, i), [3]uint64{uint64(x), uint64(i), mix(x, i, 0)}, i, float64(x) / 4}
		}
		return s
	}
	tag := func(s []job) (string, []tagged) {
		t := make([]tagged, len(s))
		for i, e := range s {
			x := int(e.key * 4)
			if e.name != fmt.Sprintf("b%d/%d", x, e.idx) || e.pad != [3]uint64{uint64(x), uint64(e.idx), mix(x, e.idx, 0)} {
				return fmt.Sprintf("position %d holds garbled contents %+v", i, e), nil
			}
			t[i] = tagged{x, e.idx}
		}
		return "", t
	}
	lt := func(a, b job) bool { return a.key < b.key }
	for fi, f := range []func([]job, func(a, b job) bool){slices.SortFunc[[]job], slices.SortDescFunc[[]job], slices.SortStableFunc[[]job], slices.SortStableDescFunc[[]job]} {
		s := mk()
		f(s, lt)
		m, t := tag(s)
		if m == "" {
			if m = checkPerm(t, keys); m == "" {
				if m = checkOrder(t, 1-2*(fi%2)); m == "" && fi >= 2 {
					m = checkStable(t)
				}
			}
		}
		if m != "" {
			return fmt.Sprintf("%s on []job (job = struct{name string; pad [3]uint64; idx int; key float64}, local to another function): %s", []string{"SortFunc", "SortDescFunc", "SortStableFunc", "SortStableDescFunc"}[fi], m)
		}
	}
	s := mk()
	slices.ShuffleRand(s, rand.New(rand.NewSource(int64(seed))))
	if m, t := tag(s); m != "" || checkPerm(t, keys) != "" {
		return "ShuffleRand on []job (struct{name string; pad [3]uint64; idx int; key float64}): not a permutation " + m
	}
	ks := make([]key, n)
	for i, x := range keys {
		ks[i] = key(fmt.Sprintf("k%06d", x))
	}
	slices.Sort(ks)
	want := append([]int(nil), keys...)
	sort.Ints(want)
	for i := range ks {
		if string(ks[i]) != fmt.Sprintf("k%06d", want[i]) {
			return fmt.Sprintf("Sort on []key (key = string, local to another function): position %d holds %q, want k%06d", i, ks[i], want[i])
		}
	}
	if n > 0 {
		if got := slices.BinarySearch(ks, key(fmt.Sprintf("k%06d", want[n/2]))); got != sort.SearchInts(want, want[n/2]) {
			return fmt.Sprintf("BinarySearch on []key (key = string): got %d, want %d", got, sort.SearchInts(want, want[n/2]))
		}
	}
	slices.SortDesc(ks)
	for i := range ks {
		if string(ks[i]) != fmt.Sprintf("k%06d", want[n-1-i]) {
			return fmt.Sprintf("SortDesc on []key (key = string, local to another function): position %d holds %q", i, ks[i])
		}
	}
	return ""
}

func edgeSameName(c ECase) pbt.Outcome {
	for r := 0; r < 3; r++ {
		if m := sameNameA(c.N, c.Seed+uint64(r)); m != "" {
			return pbt.Fail("two local types called job (and two called key) used alternately, %d elements, round %d: %s", c.N, r, m)
		}
		if m := sameNameB(c.N, c.Seed+uint64(r)); m != "" {
			return pbt.Fail("two local types called job (and two called key) used alternately, %d elements, round %d: %s", c.N, r, m)
		}
	}
	return pbt.Outcome{Evals: 6, NonTrivial: c.N >= 3, Labels: []string{"same-type-name-different-types", lenLabel(c.N)}}
}

// ---------------------------------------------------------------- the unit

func runEdge[E any](k *kit[E], c ECase) pbt.Outcome {
	switch c.Kind {
	case "guardpage":
		return edgeGuardPage(k, c)
	case "stackarr":
		return edgeStackArr(k, c)
	case "gap":
		return edgeGap(k, c)
	case "sleep":
		return edgeSleep(k, c)
	}
	return pbt.Outcome{Skipped: true}
}

func RunEdge(c ECase) pbt.Outcome {
	switch c.Kind {
	case "abortzero":
		return edgeAbortZero(c)
	case "samename":
		return edgeSameName(c)
	}
	r := runners[c.Type]
	if r == nil {
		return pbt.Outcome{Skipped: true}
	}
	return r.edge(c)
}

var (
	// pointer-free element types (they can live in mmap'ed memory)
	edgePlain = []string{"uint8", "int16", "int32", "int", "uint64", "float32", "float64", "struct-16-bytes", "struct-24-bytes", "struct-32-bytes", "struct-with-NaN-field",
		"struct-64-bytes", "struct-96-bytes", "struct-120-bytes", "struct-128-bytes", "struct-136-bytes", "struct-256-bytes", "struct-1024-bytes", "int8", "uint16", "uint32"}
	edgeAnyTypes = []string{"int", "struct-16-bytes", "string-24-bytes", "uint8", "struct-of-string-and-scalars", "pointer", "float64", "struct-128-bytes", "slice", "interface(one-unhashable)",
		"array-of-2-strings", "struct-152-bytes-with-string", "int32", "named-string-40-bytes"}
	edgeOrdTypes = []string{"int", "string-24-bytes", "uint8", "float64", "int32", "uint16"}
	edgeHuge     = []int{100, 1<<31 - 2, 1<<31 - 1, 1 << 31, 1<<31 + 1, 1<<31 + 8, 1<<32 - 1, 1 << 32, 1<<32 + 5, 1 << 33, 1<<40 + 3, 1<<53 + 1, 1 << 62, math.MaxInt - 1, math.MaxInt}
)

func enumEdge(shard, shards int, tier string, yield func(ECase) bool) {
	idx := 0
	rot := pbt.GetEnv().Seed
	emit := func(c ECase) bool {
		idx++
		if (idx-1)%shards != shard {
			return true
		}
		c.Seed = splitmix(uint64(idx)*31 + rot*7919)
		return yield(c)
	}
	// wall-clock pauses first, so that they land on different shards
	sleepTypes := []string{"int", "struct-16-bytes", "string-24-bytes", "pointer"}
	for i := 0; i < shards && i < len(sleepTypes); i++ {
		ms, rounds := 2100, 1
		if tier == "thorough" {
			ms, rounds = []int{2100, 5100, 2100, 5100}[i], []int{2, 1, 1, 2}[i]
		}
		if !emit(ECase{Kind: "sleep", Type: sleepTypes[(i+int(rot))%len(sleepTypes)], N: []int{70000, 5000, 20000, 300}[i], SleepMs: ms, Rounds: rounds}) {
			return
		}
	}
	// guard pages
	for ti, tp := range edgePlain {
		sz := int(runners[tp].size)
		full := pageSize / sz
		ns := []int{0, 1, 2, 3, 5, 8, 12, 13, 20, 33, 50, full - 1, full}
		for ni, n := range ns {
			if n < 0 || n > full {
				continue
			}
			for _, pos := range []string{"end", "start"} {
				if !emit(ECase{Kind: "guardpage", Type: tp, N: n, Pos: pos, Pages: 1}) {
					return
				}
			}
			_ = ni
		}
		// several pages, filled completely / all but one element
		for _, pages := range []int{2, 5 + ti%4} {
			for _, d := range []int{0, 1} {
				n := pages*pageSize/sz - d
				if !emit(ECase{Kind: "guardpage", Type: tp, N: n, Pos: []string{"end", "start"}[(d+pages)%2], Pages: pages}) {
					return
				}
			}
		}
	}
	// local arrays
	for _, tp := range edgeAnyTypes {
		for _, n := range []int{0, 1, 2, 5, 12, 13, 31, 48} {
			if !emit(ECase{Kind: "stackarr", Type: tp, N: n}) {
				return
			}
		}
	}
	// exact gaps
	fns := append(append([]string{}, bigFns...), "Shuffle")
	gaps := []int{254, 255, 256, 257, 1<<16 - 2, 1<<16 - 1, 1 << 16, 1<<16 + 1}
	for fi, fn := range fns {
		for gi, gap := range gaps {
			pool := edgeAnyTypes
			if isOrderedFn(fn) {
				pool = edgeOrdTypes
			}
			tp := pool[(fi*3+gi+int(rot))%len(pool)]
			if !emit(ECase{Kind: "gap", Fn: fn, Type: tp, N: []int{40, 700, 5000}[(fi+gi)%3], Gap: gap}) {
				return
			}
		}
	}
	// zero-size elements
	for fi, fn := range []string{"ShuffleRand", "SortFunc", "SortDescFunc", "SortStableFunc", "SortStableDescFunc", "BinarySearchFunc"} {
		for ni, n := range edgeHuge {
			draws := []int{512, 300, 40, 1000}[(fi+ni)%4]
			if !emit(ECase{Kind: "abortzero", Fn: fn, N: n, Draws: draws, Src64: fn == "ShuffleRand" && ni%2 == 1}) {
				return
			}
			if fn == "ShuffleRand" && n > 1<<30 && !emit(ECase{Kind: "abortzero", Fn: fn, N: n, Draws: draws + 1, Src64: ni%2 == 0}) {
				return
			}
		}
	}
	for _, n := range []int{0, 1, 2, 3, 7, 12, 13, 40, 100, 1000} {
		if !emit(ECase{Kind: "samename", N: n}) {
			return
		}
	}
}

var specEdge = pbt.Register(&pbt.Spec[ECase]{
	Property: "C15", Name: "C15.edge",
	Rule: "enumerated unusual circumstances around ordinary calls (keys from a formula seeded by VERIF_SEED): (a) guardpage: for 21 pointer-free element types of 1..1024 bytes the slice lies in mmap'ed memory and ends exactly " +
		"where a PROT_NONE page begins, or begins exactly where one ends (0..50 elements, a full page, several full pages, cap = len): all helpers, a fault is reported as touching memory outside the slice; (b) stackarr: the slice is a " +
		"view (0..48 elements) of a local array of the caller on a fresh goroutine, every result is looked at only after a deep recursion forced the stack to grow (14 element types); (c) gap: call A on 40/700/5000 elements, exactly " +
		"254..257 or 2^16-2..2^16+1 calls of the same helper on 1..3-element slices with other contents, call B on other elements, A's result once more (each of the 9 helpers x 8 gaps); (d) sleep: every helper, a pause of 2.1 s " +
		"(thorough: up to 5.1 s, twice) without calls, every helper again, all earlier results re-checked; (e) abortzero: ShuffleRand (rand.Source and Source64), the four Func sorts and BinarySearchFunc on 100, 2^31-2 .. 2^31+8, " +
		"2^32-1 .. 2^32+5, 2^33, 2^40, 2^53, 2^62, MaxInt zero-size elements, the callback / source giving up by a sentinel panic after 40..1000 calls: no other panic, and the next independent call is correct; (f) samename: two " +
		"function-local struct types called job (different layouts) and two local ordered types called key (int32, string) sorted alternately. Oracles as in C15.types; non-trivial = at least 3 elements (guardpage, stackarr, samename), " +
		"gap >= 200, pause >= 2 s, more than 2^30 elements (abortzero); one case in eight is run once more as 4 independent copies in parallel goroutines",
	Enum: enumEdge,
	Run:  RunEdge, CaseCPU: 2 * time.Minute, Crashy: true, Retries: 2,
	Replicas: 4, ReplicaEvery: 8,
})

func TestC15Edge(t *testing.T) { pbt.Check(t, specEdge) }
