package c15

import (
	"fmt"
	"math"
	"math/bits"
	"testing"
	"time"

	"gopkg.in/typ.v4/slices"
	"verifharness/internal/pbt"
)

// C15.huge: the big cases (BCase, see big_test.go) at lengths of 2^22 .. 2^24 (+-1) elements, mostly of ONE BYTE each
// (an implementation that recurses once per element or per chunk overflows the goroutine stack there: the process
// dies with `fatal error: stack overflow`, which the driver reports for the running case), plus Shuffle with the
// global generator on slices of 2^31 and more zero-size elements (Fn "ShuffleZeroSize", N = length): the call is
// started on a goroutine of its own and must not panic within 150 ms (a complete shuffle would take minutes; the
// goroutine is left behind and dies with the process).

func runShuffleZeroSize(c BCase) pbt.Outcome {
	ch := make(chan string, 1)
	go func() {
		defer func() {
			if p := recover(); p != nil {
				ch <- fmt.Sprint(p)
			} else {
				ch <- ""
			}
		}()
		slices.Shuffle(make([]struct{}, c.N))
	}()
	out := pbt.Outcome{Evals: 1, NonTrivial: c.N > math.MaxInt32, Labels: []string{"fn:Shuffle", "zero-size-elements", fmt.Sprintf("n~2^%d", bits.Len64(uint64(c.N))-1)}}
	select {
	case m := <-ch:
		if m != "" {
			return pbt.Fail("Shuffle (global generator) on a slice of %d zero-size elements panicked instead of leaving a permutation: %s", c.N, m)
		}
	case <-time.After(150 * time.Millisecond):
	}
	return out
}

func enumHuge(shard, shards int, tier string, yield func(BCase) bool) {
	idx := 0
	emit := func(c BCase) bool {
		idx++
		if (idx-1)%shards != shard {
			return true
		}
		c.Seed = splitmix(uint64(idx) + pbt.GetEnv().Seed*104729)
		return yield(c)
	}
	all := bigFns
	stableFn := func(fn string) bool { return fn == "SortStableFunc" || fn == "SortStableDescFunc" }
	// 2^24 one-byte elements, inputs that are cheap to sort (few distinct keys / presorted)
	cheap := []string{"asc", "desc", "saw", "organ", "rand", "blocks"}
	for fi, fn := range all {
		tp := []string{"uint8", "int8"}[fi%2]
		n := 1<<24 + []int{-1, 0, 1}[fi%3]
		mod := []int{256, 2, 7, 256}[fi%4]
		shape := cheap[fi%len(cheap)]
		if stableFn(fn) { // sort.Stable on 2^24 unordered elements takes a minute
			shape = []string{"asc", "desc"}[fi%2]
		}
		if !emit(BCase{Fn: fn, Type: tp, N: n, Mod: mod, Shape: shape}) {
			return
		}
	}
	// 2^22 (thorough: and 2^23) elements, random keys
	ps := []int{22}
	if tier == "thorough" {
		ps = []int{22, 23}
	}
	for fi, fn := range all {
		for j, p := range ps {
			n := 1<<p + []int{1, -1, 0}[(fi+j)%3]
			tp := []string{"uint8", "int8"}[(fi+j)%2]
			shape := "rand"
			mod := 256
			if !isOrderedFn(fn) && j == 0 {
				tp = []string{"uint8", "struct-16-bytes", "uint16", "int32"}[fi%4]
				mod = wideKeys
			}
			if stableFn(fn) {
				tp = "struct-16-bytes"
				if tier != "thorough" {
					shape = []string{"rot", "swaps"}[fi%2]
				}
			}
			if fn == "BinarySearch" {
				tp, mod, shape = []string{"int32", "uint8"}[j], wideKeys, "asc"
			}
			if !emit(BCase{Fn: fn, Type: tp, N: n, Mod: mod, Shape: shape}) {
				return
			}
		}
	}
	if tier == "thorough" {
		for fi, fn := range all {
			if stableFn(fn) {
				continue
			}
			if !emit(BCase{Fn: fn, Type: []string{"uint8", "int8"}[fi%2], N: 1<<24 + 1 - fi%3, Mod: 256, Shape: "rand"}) {
				return
			}
		}
	}
	// Shuffle with the global generator on 2^31 and more zero-size elements (last: the goroutines stay behind)
	for _, n := range []int{1<<31 + 1, 1<<32 + 5, 1 << 62} {
		if !emit(BCase{Fn: "ShuffleZeroSize", Type: "zero-size", N: n}) {
			return
		}
	}
}

var specHuge = pbt.Register(&pbt.Spec[BCase]{
	Property: "C15", Name: "C15.huge",
	Rule: "enumerated: (a) each of the eight helpers once on 2^24-1, 2^24 or 2^24+1 one-byte elements (uint8/int8; keys below 2, 7 or 256; ascending, descending, sawtooth, random, organ pipe, sorted blocks - the two " +
		"stable sorts on presorted input only, sort.Stable needs a minute on 2^24 unordered elements; thorough: also random keys for the six others); (b) each helper on 2^22+-1 (thorough: and 2^23+-1) elements with random keys (one-byte " +
		"elements, and uint16/int32/16-byte structs with keys below 2^20 so that stability and the searches' insertion points deep inside the slice are observable; the stable sorts in quick on a rotated sorted / " +
		"nearly sorted input); (c) Shuffle with the global generator started on " +
		"2^31+1, 2^32+5 and 2^62 zero-size elements: no panic within 150 ms. Oracles as in C15.big; a process death by stack overflow counts as a violation of the running case; non-trivial = at least 100 elements",
	Enum: enumHuge,
	Run:  RunBig, Retries: 2, CaseCPU: 10 * time.Minute, Crashy: true,
})

func TestC15Huge(t *testing.T) { pbt.Check(t, specHuge) }
