package c15

import (
	"fmt"
	"math/rand"
	"runtime"
	"sort"
	"testing"
	"time"

	"gopkg.in/typ.v4/slices"
	"verifharness/internal/pbt"
)

// BCase: ONE helper on ONE big slice whose keys come from a formula (so the case stays small), under a given
// GOMAXPROCS, optionally with a goroutine that keeps collecting garbage and allocating while the helper runs,
// optionally with a huge unused capacity behind the slice.
type BCase struct {
	Fn    string `json:"fn"` // Sort SortDesc SortFunc SortDescFunc SortStableFunc SortStableDescFunc BinarySearch ShuffleRand
	Type  string `json:"type"`
	N     int    `json:"n"`
	Mod   int    `json:"mod"`   // keys are below Mod
	Shape string `json:"shape"` // rand asc desc swaps rot organ saw blocks
	Seed  uint64 `json:"seed"`
	Procs int    `json:"procs,omitempty"` // GOMAXPROCS during the call (0 = unchanged)
	BgGC  bool   `json:"bg_gc,omitempty"` // another goroutine runs runtime.GC() and allocates during the call
	Cap   int    `json:"cap,omitempty"`   // unused capacity behind the slice, in elements
	Named bool   `json:"named,omitempty"`
	// Flip: another goroutine keeps changing runtime.GOMAXPROCS (cycling through 2, 7, 3, 16, 5, 1, 6, 4 with pauses of
	// 20..300 microseconds) while the helper runs; the helper is then called Rounds times (default 3) on fresh copies.
	Flip   bool `json:"flip,omitempty"`
	Rounds int  `json:"rounds,omitempty"`
}

var flipProcs = []int{2, 7, 3, 16, 5, 1, 6, 4}

func splitmix(x uint64) uint64 {
	x += 0x9E3779B97F4A7C15
	x = (x ^ (x >> 30)) * 0xBF58476D1CE4E5B9
	x = (x ^ (x >> 27)) * 0x94D049BB133111EB
	return x ^ (x >> 31)
}

var bigShapes = []string{"rand", "rand", "swaps", "rot", "organ", "saw", "blocks", "asc", "desc"}

// bigKeys computes the key list of a big case.
func bigKeys(n, mod int, shape string, seed uint64) []int {
	if mod < 1 {
		mod = 1
	}
	keys := make([]int, n)
	for i := range keys {
		keys[i] = int(splitmix(seed+uint64(i)) % uint64(mod))
	}
	switch shape {
	case "asc":
		sort.Ints(keys)
	case "desc":
		sort.Sort(sort.Reverse(sort.IntSlice(keys)))
	case "swaps":
		sort.Ints(keys)
		for s := 0; s < 3 && n >= 2; s++ {
			i, j := int(splitmix(seed^uint64(s*2+1))%uint64(n)), int(splitmix(seed^uint64(s*2+2))%uint64(n))
			keys[i], keys[j] = keys[j], keys[i]
		}
	case "rot":
		sort.Ints(keys)
		if n >= 3 {
			r := n / 3
			keys = append(keys[r:], keys[:r]...)
		}
	case "organ":
		for i := range keys {
			v := i
			if i >= n/2 {
				v = n - 1 - i
			}
			keys[i] = v % mod
		}
	case "saw":
		p := 17
		for i := range keys {
			keys[i] = (i % p) % mod
		}
	case "blocks":
		for lo := 0; lo < n; lo += 1000 {
			hi := lo + 1000
			if hi > n {
				hi = n
			}
			sort.Ints(keys[lo:hi])
		}
	}
	return keys
}

func runBig[E any](k *kit[E], c BCase) pbt.Outcome {
	n := c.N
	mod := c.Mod
	if mod > k.nkeys {
		mod = k.nkeys
	}
	keys := bigKeys(n, mod, c.Shape, c.Seed)
	what := fmt.Sprintf("%s on []%s of %d elements (keys below %d, shape %s, seed %d)", c.Fn, k.name, n, mod, c.Shape, c.Seed)
	if c.Procs > 0 {
		what += fmt.Sprintf(" with GOMAXPROCS=%d", c.Procs)
	}
	if c.BgGC {
		what += " while another goroutine runs garbage collections and allocates"
	}
	if c.Flip {
		what += " while another goroutine keeps changing runtime.GOMAXPROCS (2, 7, 3, 16, 5, 1, 6, 4, ...)"
	}
	if c.Cap > 0 {
		what += fmt.Sprintf(", slice has %d elements of unused capacity", c.Cap)
	}
	lab := []string{"fn:" + c.Fn, sizeLabel(k.size), fmt.Sprintf("n~2^%d", log2(n))}
	if c.Procs > 0 {
		lab = append(lab, fmt.Sprintf("GOMAXPROCS=%d", c.Procs))
	}
	if c.BgGC {
		lab = append(lab, "background-gc")
	}
	if c.Cap > 0 {
		lab = append(lab, "huge-unused-capacity")
	}
	if c.Flip {
		lab = append(lab, "GOMAXPROCS-changing-during-the-call")
	}
	out := pbt.Outcome{Evals: 1, NonTrivial: n >= 100, Labels: lab}

	// build: elements are made here and referenced by the slice only
	capGuards := []int{}
	build := func(ks []int) []E {
		s := make([]E, len(ks), len(ks)+c.Cap)
		for i, x := range ks {
			s[i] = k.mk(x, i)
		}
		if c.Cap > 0 {
			full := s[:cap(s)]
			capGuards = []int{len(ks), len(ks) + c.Cap/2, len(ks) + c.Cap - 1}
			for _, p := range capGuards {
				full[p] = k.mk(p%k.nkeys, guardIdx+p)
			}
		}
		return s
	}
	guardsOK := func(s []E) string {
		full := s[:cap(s)]
		for _, p := range capGuards {
			key, idx, ok := k.dec(full[p])
			want := guardIdx + p
			if !k.hasIdx {
				want = -1
			}
			if !ok || key != p%k.nkeys || idx != want {
				return fmt.Sprintf("the element at position %d of the backing array, OUTSIDE the slice (len %d), was modified", p, len(s))
			}
		}
		return ""
	}
	// environment around the library call
	around := func(call func()) {
		if c.Procs > 0 {
			defer runtime.GOMAXPROCS(runtime.GOMAXPROCS(c.Procs))
		}
		if c.BgGC {
			stop, done := make(chan struct{}), make(chan struct{})
			go func() {
				defer close(done)
				var keep [3]any // the last three rounds of junk stay alive, so that new junk goes to other free slots
				m := n
				if m < 8192 {
					m = 8192
				}
				for i := 0; ; i++ {
					select {
					case <-stop:
						_ = keep
						return
					default:
					}
					runtime.GC()
					if k.junk != nil {
						keep[i%3] = k.junk(m)
					}
				}
			}()
			defer func() { close(stop); <-done }()
			time.Sleep(200 * time.Microsecond)
		}
		if c.Flip {
			stop, done := make(chan struct{}), make(chan struct{})
			old := runtime.GOMAXPROCS(0)
			go func() {
				defer close(done)
				for i := 0; ; i++ {
					select {
					case <-stop:
						return
					default:
					}
					runtime.GOMAXPROCS(flipProcs[i%len(flipProcs)])
					time.Sleep(time.Duration(20+splitmix(c.Seed+uint64(i))%280) * time.Microsecond)
				}
			}()
			defer func() { close(stop); <-done; runtime.GOMAXPROCS(old) }()
			time.Sleep(100 * time.Microsecond)
		}
		call()
	}
	rounds := 1
	if c.Flip {
		rounds = 3
		if c.Rounds > 0 {
			rounds = c.Rounds
		}
	}

	switch c.Fn {
	case "BinarySearch":
		sorted := append([]int(nil), keys...)
		sort.Ints(sorted)
		asc := build(sorted)
		for j := 0; j <= 64; j++ {
			var t int
			switch {
			case j == 0:
				t = 0
			case j == 1:
				t = k.nkeys - 1
			case j%2 == 0 && n > 0:
				t = sorted[int(splitmix(c.Seed^uint64(j))%uint64(n))]
			default:
				t = int(splitmix(c.Seed^uint64(j)) % uint64(mod+1) % uint64(k.nkeys))
			}
			want := sort.SearchInts(sorted, t)
			target := k.mk(t, guardIdx)
			var got, gotO int
			gotO = -1
			around(func() {
				if c.Named {
					got = slices.BinarySearchFunc(named[E](asc), func(e E) bool { return k.less(e, target) })
				} else {
					got = slices.BinarySearchFunc(asc, func(e E) bool { return k.less(e, target) })
				}
				if k.ord != nil {
					gotO = k.ord.search(asc, target, c.Named)
				}
			})
			out.Evals += 2
			if got != want {
				return pbt.Fail("BinarySearchFunc, target key %d: %s: got %d, want %d (smallest index whose element is not less than the target, len if none)", t, what, got, want)
			}
			if k.ord != nil && gotO != want {
				return pbt.Fail("BinarySearch, target key %d: %s: got %d, want %d (smallest index whose element is not less than the target, len if none)", t, what, gotO, want)
			}
		}
		if m := k.verify(asc, sorted, +1, true); m != "" {
			return pbt.Fail("%s: the searches modified the slice: %s", what, m)
		}
		return out
	case "ShuffleRand":
		var first []E
		for round := 0; round < 2; round++ {
			s := build(keys)
			g := rand.New(rand.NewSource(int64(c.Seed)))
			around(func() {
				if c.Named {
					slices.ShuffleRand(named[E](s), g)
				} else {
					slices.ShuffleRand(s, g)
				}
			})
			if m := k.verify(s, keys, 0, false); m != "" {
				return pbt.Fail("%s: %s", what, m)
			}
			if m := guardsOK(s); m != "" {
				return pbt.Fail("%s: %s", what, m)
			}
			if round == 0 {
				first = s
				continue
			}
			for i := range s {
				k1, i1, _ := k.dec(first[i])
				k2, i2, _ := k.dec(s[i])
				if k1 != k2 || i1 != i2 {
					return pbt.Fail("%s: not a function of the supplied generator: two generators with the same seed gave different results (first difference at position %d: keys %d and %d)", what, i, k1, k2)
				}
			}
		}
		s := build(keys)
		around(func() { slices.Shuffle(s) })
		if m := k.verify(s, keys, 0, false); m != "" {
			return pbt.Fail("Shuffle (global generator), %s: %s", what, m)
		}
		return out
	}
	for _, f := range funcsOf(k) {
		if f.name != c.Fn {
			continue
		}
		var s []E
		for round := 0; round < rounds; round++ {
			s = build(keys)
			around(func() { f.call(s, k.less, c.Named) })
			if m := k.verify(s, keys, f.dir, f.stable); m != "" {
				return pbt.Fail("%s: %s", what, m)
			}
		}
		if m := guardsOK(s); m != "" {
			return pbt.Fail("%s: %s", what, m)
		}
		// the result must stay what it is (nothing may still be working on the slice after the call returned)
		runtime.Gosched()
		if m := k.verify(s, keys, f.dir, f.stable); m != "" {
			return pbt.Fail("%s: correct when the call returned, but changed afterwards: %s", what, m)
		}
		return out
	}
	return pbt.Outcome{Skipped: true}
}

func log2(n int) int {
	p := 0
	for (1 << (p + 1)) <= n+1 {
		p++
	}
	return p
}

func RunBig(c BCase) pbt.Outcome {
	if c.Fn == "ShuffleZeroSize" {
		return runShuffleZeroSize(c)
	}
	r := runners[c.Type]
	if r == nil {
		return pbt.Outcome{Skipped: true}
	}
	return r.big(c)
}

var (
	bigFns     = []string{"Sort", "SortDesc", "SortFunc", "SortDescFunc", "SortStableFunc", "SortStableDescFunc", "BinarySearch", "ShuffleRand"}
	bigOrdered = []string{"int", "string-24-bytes", "uint16", "float64", "uint8", "int32", "string-7-bytes", "uint64", "int8", "float32", "named-string-40-bytes",
		"int16", "uint32", "int64", "uint", "uintptr", "string-200-bytes"}
	bigAny = []string{"struct-16-bytes", "int", "struct-128-bytes", "string-24-bytes", "struct-of-string-and-scalars", "pointer", "struct-136-bytes", "uint16",
		"array-of-2-strings", "struct-24-bytes", "float64", "struct-256-bytes", "struct-152-bytes-with-string", "uint8", "struct-64-bytes", "slice",
		"interface(one-unhashable)", "struct-120-bytes", "struct-with-NaN-field", "struct-32-bytes", "struct-96-bytes", "named-string-40-bytes", "struct-1024-bytes"}
	bigRefs  = []string{"string-24-bytes", "struct-of-string-and-scalars", "pointer", "array-of-2-strings", "struct-152-bytes-with-string", "slice", "interface(one-unhashable)", "string-200-bytes"}
	bigProcs = []int{1, 2, 3, 5, 6, 7}
)

func isOrderedFn(fn string) bool { return fn == "Sort" || fn == "SortDesc" }

// enumBig yields the big cases. `rot` rotates the assignment of types/shapes/moduli to sizes (the run's seed).
func enumBig(shard, shards int, tier string, rot uint64, yield func(BCase) bool) {
	idx := 0
	ctr := rot
	emit := func(c BCase) bool {
		idx++
		if (idx-1)%shards != shard {
			return true
		}
		return yield(c)
	}
	pick := func(fn string, n int, refs bool) (string, int, string) {
		ctr++
		pool := bigAny
		if isOrderedFn(fn) {
			pool = bigOrdered
		}
		if refs {
			pool = bigRefs
		}
		var tp string
		for try := 0; ; try++ {
			tp = pool[int((ctr+uint64(try))%uint64(len(pool)))]
			r := runners[tp]
			if refs && isOrderedFn(fn) && !r.ord {
				continue
			}
			if int(r.size)*n <= 48<<20 || try > 2*len(pool) {
				break
			}
		}
		mods := []int{n + 1, wideKeys, 7, n/4 + 1, 2, wideKeys, 300}
		return tp, mods[int(splitmix(ctr)%uint64(len(mods)))], bigShapes[int(splitmix(ctr^0x55)%uint64(len(bigShapes)))]
	}
	passes := 1
	maxP := 17
	if tier == "thorough" {
		passes, maxP = 6, 20
	}
	for pass := 0; pass < passes; pass++ {
		// every helper at sizes around every power of two
		for p := 7; p <= maxP; p++ {
			if p >= 18 && pass >= 2 {
				continue
			}
			for d := -1; d <= 1; d++ {
				n := 1<<p + d
				for _, fn := range bigFns {
					tp, mod, shape := pick(fn, n, false)
					if !emit(BCase{Fn: fn, Type: tp, N: n, Mod: mod, Shape: shape, Seed: splitmix(ctr), Named: ctr%3 == 0}) {
						return
					}
				}
			}
		}
		// every helper under every GOMAXPROCS at a size above the thresholds
		for pi, procs := range bigProcs {
			for fi, fn := range bigFns {
				p := 16 + (pi+fi+pass)%2
				if tier == "thorough" && pass%3 == 2 {
					p = 18
				}
				n := 1<<p + []int{1, 0, 17, 4097}[(pi+fi/2+pass)%4]
				tp, mod, shape := pick(fn, n, false)
				if fi < 2 && pi == 0 {
					tp = "int" // the plain case: ordered sort of ints on one CPU
				}
				if !emit(BCase{Fn: fn, Type: tp, N: n, Mod: mod, Shape: shape, Seed: splitmix(ctr), Procs: procs}) {
					return
				}
			}
		}
		// helpers moving elements that hold references while the collector runs
		for fi, fn := range bigFns {
			if fn == "BinarySearch" {
				continue
			}
			for _, n := range []int{20000 + fi, 1<<16 + 1 + fi} {
				tp, _, shape := pick(fn, n, true)
				if !emit(BCase{Fn: fn, Type: tp, N: n, Mod: wideKeys, Shape: shape, Seed: splitmix(ctr), BgGC: true}) {
					return
				}
			}
		}
		// more than 1 MiB of unused capacity
		for fi, fn := range bigFns {
			if fn == "BinarySearch" {
				continue
			}
			for j, n := range []int{0, 100 + fi, 5000 + fi} {
				tp, mod, shape := pick(fn, n, false)
				cp := (2<<20)/int(runners[tp].size+1) + 1000*j + 1
				if !emit(BCase{Fn: fn, Type: tp, N: n, Mod: mod, Shape: shape, Seed: splitmix(ctr), Cap: cp}) {
					return
				}
			}
		}
		// GOMAXPROCS changed by another goroutine while the helper runs
		for fi, fn := range bigFns {
			flipSizes := []int{1<<13 + fi, 1<<15 + 1, 1 << 16, 1<<17 + 17 + fi}
			if tier == "thorough" && pass < 2 {
				flipSizes = append(flipSizes, 1<<19+fi, 1<<20+5)
			}
			for j, n := range flipSizes {
				tp, mod, shape := pick(fn, n, false)
				if isOrderedFn(fn) && j == 2 {
					tp, mod, shape = "int", wideKeys, "rand"
				}
				if !emit(BCase{Fn: fn, Type: tp, N: n, Mod: mod, Shape: shape, Seed: splitmix(ctr), Flip: true, Rounds: 3 + 3*(j%2)}) {
					return
				}
			}
		}
	}
}

var specBig = pbt.Register(&pbt.Spec[BCase]{
	Property: "C15", Name: "C15.big",
	Rule: "enumerated big cases, one helper per case, keys from a formula (random below 2, 7, 300, n/4, n or 2^20; as drawn, ascending, descending, few swaps, rotated, organ pipe, sawtooth, sorted blocks of 1000), " +
		"element types rotating over 17 ordered and 23 arbitrary types (up to 1024-byte elements; which type meets which size rotates with VERIF_SEED): (a) each of Sort, SortDesc, SortFunc, SortDescFunc, " +
		"SortStableFunc, SortStableDescFunc, BinarySearch(+Func, 65 targets) and ShuffleRand(+Shuffle) at n = 2^p-1, 2^p, 2^p+1 for every p in 7..17 (thorough: ..20, six passes); (b) each helper under " +
		"GOMAXPROCS = 1, 2, 3, 5, 6, 7 at n slightly above 2^16 or 2^17 (thorough also 2^18); (c) each moving helper on 20000 and 65537 elements that hold references (strings, pointers, slices, interfaces) " +
		"built inside the case, while another goroutine keeps running runtime.GC() and allocating same-size objects; (d) each moving helper on slices of 0, ~100, ~5000 elements with more than 2 MiB of " +
		"unused capacity (three guard elements inside it); (e) each helper at n ~ 2^13, 2^15, 2^16, 2^17 (thorough also 2^19, 2^20), called 3 or 6 times while another goroutine keeps changing runtime.GOMAXPROCS (cycling through " +
		"2, 7, 3, 16, 5, 1, 6, 4 with pauses of 20..300 microseconds). Checked: permutation (every original index once with intact contents / same multiset), ordered in the promised direction, stability for the " +
		"stable variants, result unchanged after yielding the CPU once more, lower bound for the searches (against sort.SearchInts on the keys), ShuffleRand equal for two generators of the same seed; " +
		"non-trivial = at least 100 elements",
	Enum: func(shard, shards int, tier string, yield func(BCase) bool) {
		enumBig(shard, shards, tier, pbt.GetEnv().Seed*7919, yield)
	},
	Run: RunBig, Retries: 5, CaseCPU: 120 * time.Second,
})

func TestC15Big(t *testing.T) { pbt.Check(t, specBig) }
