package c15

import (
	"fmt"
	"math"
	"math/rand"
	"runtime"
	"sort"
	"testing"

	"gopkg.in/typ.v4/slices"
	"pgregory.net/rapid"
	"verifharness/internal/pbt"
)

// TCase: one list of keys, one element type, and a set of circumstances under which every helper is called.
type TCase struct {
	Type  string `json:"type"`
	Keys  []int  `json:"keys"`            // element i = mk(Keys[i] mod nkeys, i), built inside the call
	Named bool   `json:"named,omitempty"` // hand the library a named slice type
	// The slice under test is a window of a larger buffer: Off guard elements in front of it, Spare guard elements
	// behind it (inside its capacity unless CapExact), then - with Twin - a second live slice of the same type.
	Off      int  `json:"off,omitempty"`
	Spare    int  `json:"spare,omitempty"`
	CapExact bool `json:"cap_exact,omitempty"`
	// Twin: a second slice in the same buffer is sorted first by the same helper; it is looked at again after the
	// slice under test has been sorted.
	Twin bool `json:"twin,omitempty"`
	// GC: ordinals of calls of less (1-based) at which less runs a garbage collection and then allocates objects of
	// the size of the elements' heap data.
	// GCFn selects the helper (0..3 = SortFunc, SortDescFunc, SortStableFunc, SortStableDescFunc) whose less does that.
	GC   []int `json:"gc,omitempty"`
	GCFn int   `json:"gc_fn,omitempty"`
	// Nested: ordinal of the call of less at which less itself sorts another, independent slice with the same helper.
	Nested int `json:"nested,omitempty"`
	// Abort: 1 = an earlier call of the same helper on another slice is aborted by a panic of less (recovered),
	// 2 = by runtime.Goexit of less (on a goroutine of its own); AbortAt = ordinal of the aborting call of less.
	Abort   int   `json:"abort,omitempty"`
	AbortAt int   `json:"abort_at,omitempty"`
	Seed    int64 `json:"seed,omitempty"` // generator seed for ShuffleRand
}

const guardIdx = 1 << 24 // original indices of guard elements start here

type typeRunner struct {
	name   string
	size   uintptr
	nkeys  int
	ord    bool
	refs   bool // elements hold references to heap data
	types  func(TCase) pbt.Outcome
	big    func(BCase) pbt.Outcome
	repeat func(RCase) pbt.Outcome
	edge   func(ECase) pbt.Outcome
}

var (
	runners   = map[string]*typeRunner{}
	typeNames []string
)

func addKit[E any](k *kit[E]) {
	if _, dup := runners[k.name]; dup {
		panic("duplicate kit " + k.name)
	}
	// self-check: mk and dec are inverse, mk is monotone (not strictly for the tables)
	for _, key := range []int{0, 1, 2, k.nkeys / 2, k.nkeys - 2, k.nkeys - 1} {
		if key < 0 || key >= k.nkeys {
			continue
		}
		idx := 5
		if !k.hasIdx {
			idx = -1
		}
		e := k.mk(key, 5)
		if gk, gi, ok := k.dec(e); !ok || gk != key || gi != idx {
			panic(fmt.Sprintf("kit %s: dec(mk(%d,5)) = %d,%d,%v", k.name, key, gk, gi, ok))
		}
		if key > 0 && k.less(e, k.mk(key-1, 6)) {
			panic(fmt.Sprintf("kit %s: mk not monotone at %d", k.name, key))
		}
	}
	runners[k.name] = &typeRunner{name: k.name, size: k.size, nkeys: k.nkeys, ord: k.ord != nil, refs: k.junk != nil,
		types:  func(c TCase) pbt.Outcome { return runElems(k, c) },
		big:    func(c BCase) pbt.Outcome { return runBig(k, c) },
		repeat: func(c RCase) pbt.Outcome { return runRepeat(k, c) },
		edge:   func(c ECase) pbt.Outcome { return runEdge(k, c) },
	}
	typeNames = append(typeNames, k.name)
}

func init() {
	addKit(intKit[int]("int", 64, true))
	addKit(intKit[int8]("int8", 8, true))
	addKit(intKit[int16]("int16", 16, true))
	addKit(intKit[int32]("int32", 32, true))
	addKit(intKit[int64]("int64", 64, true))
	addKit(intKit[uint]("uint", 64, false))
	addKit(intKit[uint8]("uint8", 8, false))
	addKit(intKit[uint16]("uint16", 16, false))
	addKit(intKit[uint32]("uint32", 32, false))
	addKit(intKit[uint64]("uint64", 64, false))
	addKit(intKit[uintptr]("uintptr", 64, false))
	addKit(floatKit[float32]("float32", math.MaxFloat32))
	addKit(floatKit[float64]("float64", math.MaxFloat64))
	addKit(weirdFloats())
	addKit(stringKit[string]("string-7-bytes", 7))
	addKit(stringKit[string]("string-24-bytes", 24))
	addKit(stringKit[myString]("named-string-40-bytes", 40))
	addKit(stringKit[string]("string-200-bytes", 200))
	addKit(stringKit[string]("string-1000-bytes", 1000))
	addKit(weirdStrings())
	addKit(taggedKit())
	addKit(nanKit())
	addKit(paddedKit[[1]uint64]())
	addKit(paddedKit[[2]uint64]())
	addKit(paddedKit[[6]uint64]())
	addKit(paddedKit[[10]uint64]())
	addKit(paddedKit[[13]uint64]())
	addKit(paddedKit[[14]uint64]())
	addKit(paddedKit[[15]uint64]())
	addKit(paddedKit[[30]uint64]())
	addKit(paddedKit[[126]uint64]())
	addKit(paddedKit[[510]uint64]())
	addKit(withStringKit())
	addKit(stringPairKit())
	addKit(bigWithStringKit())
	addKit(pointerKit())
	addKit(sliceKit())
	addKit(ifaceKit())
	addKit(zeroSizeKit())
}

func sizeLabel(sz uintptr) string {
	switch {
	case sz == 0:
		return "elem-size:0"
	case sz <= 8:
		return "elem-size:1..8"
	case sz < 64:
		return "elem-size:9..63"
	case sz < 128:
		return "elem-size:64..127"
	case sz < 1024:
		return "elem-size:128..1023"
	}
	return "elem-size:>=1024"
}

func lenLabel(n int) string {
	switch {
	case n <= 2:
		return "n=0..2"
	case n <= 12:
		return "n=3..12"
	case n <= 64:
		return "n=13..64"
	case n <= 256:
		return "n=65..256"
	}
	return "n>256"
}

func reduceKeys(keys []int, nkeys int) []int {
	out := make([]int, len(keys))
	for i, x := range keys {
		if x < 0 {
			x = -x
		}
		if x < 0 {
			x = 0
		}
		out[i] = x % nkeys
	}
	return out
}

// layout is the buffer that holds the slice under test.
type layout[E any] struct {
	buf        []E
	a, b       []E
	aLo, aHi   int
	bLo        int
	guardKeys  []int // key of the guard at buffer position p (or -1)
	guardCount int
}

func buildLayout[E any](k *kit[E], c *TCase, keys, twinKeys []int) *layout[E] {
	n := len(keys)
	off, spare := c.Off, c.Spare
	total := off + n + spare + 2
	if c.Twin {
		total += len(twinKeys)
	}
	L := &layout[E]{buf: make([]E, total), guardKeys: make([]int, total), aLo: off, aHi: off + n}
	for p := range L.guardKeys {
		L.guardKeys[p] = -1
	}
	guard := func(p int) {
		gk := (p*5 + 1) % k.nkeys
		L.guardKeys[p] = gk
		L.buf[p] = k.mk(gk, guardIdx+p)
		L.guardCount++
	}
	for p := 0; p < off; p++ {
		guard(p)
	}
	for i, x := range keys {
		L.buf[off+i] = k.mk(x, i)
	}
	p := off + n
	for j := 0; j < spare; j++ {
		guard(p)
		p++
	}
	if c.Twin {
		L.bLo = p
		for i, x := range twinKeys {
			L.buf[p] = k.mk(x, i)
			p++
		}
		L.b = L.buf[L.bLo:p:p]
	}
	for ; p < total; p++ {
		guard(p)
	}
	if c.CapExact {
		L.a = L.buf[L.aLo:L.aHi:L.aHi]
	} else {
		L.a = L.buf[L.aLo:L.aHi]
	}
	return L
}

func (L *layout[E]) guardsIntact(k *kit[E]) string {
	for p, gk := range L.guardKeys {
		if gk < 0 {
			continue
		}
		key, idx, ok := k.dec(L.buf[p])
		want := guardIdx + p
		if !k.hasIdx {
			want = -1
		}
		if !ok || key != gk || idx != want {
			where := "behind the end of the slice (inside its capacity)"
			if p < L.aLo {
				where = "in front of the slice"
			}
			return fmt.Sprintf("an element of the same backing array that lies OUTSIDE the slice was modified: buffer position %d, %s (slice = buffer[%d:%d])", p, where, L.aLo, L.aHi)
		}
	}
	return ""
}

// runElems runs every helper that exists for E on the case.
func runElems[E any](k *kit[E], c TCase) pbt.Outcome {
	keys := reduceKeys(c.Keys, k.nkeys)
	n := len(keys)
	twinKeys := make([]int, 0, n)
	for i := n - 1; i >= 0; i-- {
		twinKeys = append(twinKeys, (keys[i]+1)%k.nkeys)
	}
	twinKeys = append(twinKeys, 0)
	out := pbt.Outcome{}
	fired := map[string]bool{}
	where := func(fn string) string {
		s := fmt.Sprintf("%s on []%s", fn, k.name)
		if c.Named {
			s += " (named slice type)"
		}
		return s + ", keys " + showKeys(keys)
	}
	var sink []any

	for fi, f := range funcsOf(k) {
		f := f
		gcHere := len(c.GC) > 0 && f.cb && fi == c.GCFn%4
		// (f) an earlier, independent call aborted by the callback
		if c.Abort != 0 && f.cb {
			pk := append(append([]int{}, keys...), keys...)
			p := make([]E, len(pk))
			for i, x := range pk {
				p[i] = k.mk(x, i)
			}
			cnt := 0
			aborted := func() {
				defer func() {
					if r := recover(); r != nil {
						if r != "c15: abort" {
							panic(r)
						}
						fired["earlier-call-aborted-by-panic"] = true
					}
				}()
				f.call(p, func(a, b E) bool {
					cnt++
					if cnt == c.AbortAt {
						if c.Abort == 2 {
							fired["earlier-call-aborted-by-Goexit"] = true
							runtime.Goexit()
						}
						panic("c15: abort")
					}
					return k.less(a, b)
				}, c.Named)
			}
			if c.Abort == 2 {
				done := make(chan struct{})
				go func() { defer close(done); aborted() }()
				<-done
			} else {
				aborted()
			}
		}

		L := buildLayout(k, &c, keys, twinKeys)
		if c.Twin {
			f.call(L.b, k.less, c.Named)
			if m := k.verify(L.b, twinKeys, f.dir, f.stable); m != "" {
				return pbt.Fail("%s on []%s, keys %s (the second slice of the case, sorted first): %s\nresult (key#original index): %s", f.name, k.name, showKeys(twinKeys), m, k.show(L.b))
			}
		}
		cnt := 0
		nestedMsg := ""
		less := k.less
		if f.cb && (gcHere || c.Nested > 0) {
			less = func(a, b E) bool {
				cnt++
				for _, g := range c.GC {
					if gcHere && g == cnt {
						fired["gc-inside-less"] = true
						runtime.GC()
						if k.junk != nil {
							m := 16384 + 8*n
							if k.junkMax > 0 && m > k.junkMax {
								m = k.junkMax
							}
							sink = append(sink, k.junk(m))
						}
					}
				}
				if c.Nested == cnt && nestedMsg == "" {
					fired["nested-call-inside-less"] = true
					nk := twinKeys
					if len(nk) > 40 {
						nk = nk[:40]
					}
					ns := make([]E, len(nk))
					for i, x := range nk {
						ns[i] = k.mk(x, i)
					}
					f.call(ns, k.less, c.Named)
					if m := k.verify(ns, nk, f.dir, f.stable); m != "" {
						nestedMsg = fmt.Sprintf("an independent slice (keys %s) sorted by the same helper from inside less (call %d of less) came out wrong: %s; result %s", showKeys(nk), cnt, m, k.show(ns))
					}
				}
				return k.less(a, b)
			}
		}
		f.call(L.a, less, c.Named)
		sink = nil
		out.Evals++
		if nestedMsg != "" {
			return pbt.Fail("%s: %s", where(f.name), nestedMsg)
		}
		if m := k.verify(L.a, keys, f.dir, f.stable); m != "" {
			extra := ""
			if gcHere {
				extra = fmt.Sprintf(" (less ran a garbage collection at its calls %v; the elements are referenced by the slice only)", c.GC)
			}
			return pbt.Fail("%s: %s%s\nresult (key#original index): %s", where(f.name), m, extra, k.show(L.a))
		}
		if m := L.guardsIntact(k); m != "" {
			return pbt.Fail("%s: %s", where(f.name), m)
		}
		if c.Twin {
			if m := k.verify(L.b, twinKeys, f.dir, f.stable); m != "" {
				return pbt.Fail("%s: another slice, sorted by the same helper BEFORE this call and correct then, is wrong after it: %s\nnow %s", where(f.name), m, k.show(L.b))
			}
		}
	}

	// ---- ShuffleRand / Shuffle: permutation, outside untouched, deterministic in the generator
	{
		var first []E
		for round := 0; round < 2; round++ {
			L := buildLayout(k, &c, keys, twinKeys)
			g := rand.New(rand.NewSource(c.Seed))
			if c.Named {
				slices.ShuffleRand(named[E](L.a), g)
			} else {
				slices.ShuffleRand(L.a, g)
			}
			out.Evals++
			if m := k.verify(L.a, keys, 0, false); m != "" {
				return pbt.Fail("%s: %s", where(fmt.Sprintf("ShuffleRand(seed %d)", c.Seed)), m)
			}
			if m := L.guardsIntact(k); m != "" {
				return pbt.Fail("%s: %s", where(fmt.Sprintf("ShuffleRand(seed %d)", c.Seed)), m)
			}
			if round == 0 {
				first = L.a
				continue
			}
			for i := range first {
				k1, i1, _ := k.dec(first[i])
				k2, i2, _ := k.dec(L.a[i])
				if k1 != k2 || i1 != i2 {
					return pbt.Fail("%s is not a function of the supplied generator: two generators with the same seed gave %s and %s",
						where(fmt.Sprintf("ShuffleRand(seed %d)", c.Seed)), k.show(first), k.show(L.a))
				}
			}
		}
		L := buildLayout(k, &c, keys, twinKeys)
		slices.Shuffle(L.a)
		out.Evals++
		if m := k.verify(L.a, keys, 0, false); m != "" {
			return pbt.Fail("%s: %s", where("Shuffle"), m)
		}
		if m := L.guardsIntact(k); m != "" {
			return pbt.Fail("%s: %s", where("Shuffle"), m)
		}
	}

	// ---- BinarySearchFunc (every type) and BinarySearch (ordered types) on the ascending slice
	{
		asc := k.ascending(keys)
		targets := map[int]bool{0: true, k.nkeys - 1: true}
		for i := 0; i < n && len(targets) < 14; i += 1 + n/5 {
			for d := -1; d <= 1; d++ {
				targets[((keys[i]+d)%k.nkeys+k.nkeys)%k.nkeys] = true
			}
		}
		ts := make([]int, 0, len(targets))
		for t := range targets {
			ts = append(ts, t)
		}
		sort.Ints(ts)
		for _, t := range ts {
			target := k.mk(t, guardIdx)
			want := k.lowerBound(asc, target)
			var got int
			if c.Named {
				got = slices.BinarySearchFunc(named[E](asc), func(e E) bool { return k.less(e, target) })
			} else {
				got = slices.BinarySearchFunc(asc, func(e E) bool { return k.less(e, target) })
			}
			out.Evals++
			if got != want {
				return pbt.Fail("BinarySearchFunc on ascending []%s %s, target key %d = %d, want %d (smallest index whose element is not less than the target, len if none)", k.name, k.show(asc), t, got, want)
			}
			if k.ord != nil {
				out.Evals++
				if got := k.ord.search(asc, target, c.Named); got != want {
					return pbt.Fail("BinarySearch on ascending []%s %s, target key %d = %d, want %d (smallest index whose element is not less than the target, len if none)", k.name, k.show(asc), t, got, want)
				}
			}
		}
		if m := k.verify(asc, keys, +1, true); m != "" {
			return pbt.Fail("BinarySearch/BinarySearchFunc modified the ascending []%s: %s", k.name, m)
		}
	}

	// ---- classes
	inversions, ties := false, false
	seen := map[int]bool{}
	for i, x := range keys {
		if i > 0 && keys[i-1] > x {
			inversions = true
		}
		if seen[x] {
			ties = true
		}
		seen[x] = true
	}
	out.NonTrivial = n >= 3 && inversions
	out.Labels = append(out.Labels, "type:"+k.name, sizeLabel(k.size), lenLabel(n))
	if ties {
		out.Labels = append(out.Labels, "has-ties")
	}
	if n > 12 && ties && inversions && k.hasIdx {
		out.Labels = append(out.Labels, "stable:ties-not-presorted-n>12")
	}
	if c.Twin {
		out.Labels = append(out.Labels, "second-live-slice-in-same-buffer")
	}
	if c.Off > 0 || c.Spare > 0 {
		out.Labels = append(out.Labels, "window-of-larger-buffer")
	}
	if c.Named {
		out.Labels = append(out.Labels, "named-slice-type")
	}
	for l := range fired {
		out.Labels = append(out.Labels, l)
	}
	sort.Strings(out.Labels)
	return out
}

func RunTypes(c TCase) pbt.Outcome {
	r := runners[c.Type]
	if r == nil {
		return pbt.Outcome{Skipped: true}
	}
	return r.types(c)
}

// genKeys draws n keys below `below` in one of several shapes.
func genKeys(t *rapid.T, n, below int) []int {
	keys := make([]int, n)
	for i := range keys {
		keys[i] = rapid.IntRange(0, below-1).Draw(t, "key")
	}
	switch rapid.IntRange(0, 7).Draw(t, "shape") {
	case 3:
		sort.Ints(keys)
	case 4:
		sort.Sort(sort.Reverse(sort.IntSlice(keys)))
	case 5: // presorted, a few swaps
		sort.Ints(keys)
		for s := rapid.IntRange(1, 3).Draw(t, "swaps"); s > 0 && n >= 2; s-- {
			i, j := rapid.IntRange(0, n-1).Draw(t, "i"), rapid.IntRange(0, n-1).Draw(t, "j")
			keys[i], keys[j] = keys[j], keys[i]
		}
	case 6: // presorted and rotated: one long cycle
		sort.Ints(keys)
		if n >= 2 {
			r := rapid.IntRange(1, n-1).Draw(t, "rot")
			keys = append(keys[r:], keys[:r]...)
		}
	}
	return keys
}

// genTypeOrder: rapid favours the first entries of a list; the types that are special in some way (references, big
// elements) come first, the plain numbers - which C15.rand and C15.enum cover as well - last.
var genTypeOrder []string

func init() {
	first := []string{"string-24-bytes", "struct-128-bytes", "struct-of-string-and-scalars", "pointer", "array-of-2-strings", "struct-136-bytes",
		"interface(one-unhashable)", "struct-152-bytes-with-string", "string-200-bytes", "struct-256-bytes", "slice", "string-special-values", "float64-special-values"}
	seen := map[string]bool{}
	for _, n := range first {
		if runners[n] == nil {
			panic("unknown type " + n)
		}
		seen[n] = true
		genTypeOrder = append(genTypeOrder, n)
	}
	for i := len(typeNames) - 1; i >= 0; i-- {
		if !seen[typeNames[i]] {
			genTypeOrder = append(genTypeOrder, typeNames[i])
		}
	}
}

var lenClasses = [][2]int{{0, 2}, {3, 12}, {3, 12}, {13, 30}, {13, 30}, {13, 30}, {31, 80}, {31, 80}, {81, 200}}
var lenPowers = []int{15, 16, 17, 31, 32, 33, 63, 64, 65, 127, 128, 129, 255, 256, 257, 511, 512, 513}

var specTypes = pbt.Register(&pbt.Spec[TCase]{
	Property: "C15", Name: "C15.types",
	Rule: "rapid: element type drawn from 39 types (all integer widths signed/unsigned/uintptr with keys spread from the minimum to the maximum value, float32/float64 incl. +-Inf and +-MaxFloat, " +
		"a float64 table with -0, +0 and denormals, strings of 7/24/40(named)/200/1000 bytes with long common prefixes, a string table with \"\", NUL bytes and bytes >= 0x80, structs {key, original index, checksummed payload} of " +
		"16, 24, 32, 64, 96, 120, 128, 136, 256, 1024 and 4096 bytes, a struct with a NaN field, a struct of string+scalars, an array of 2 strings, a 152-byte struct with a string, pointers, slices, " +
		"interface values holding structs, pointers and exactly one unhashable slice, zero-size elements); length 0..200 by classes or one of 2^k-1, 2^k, 2^k+1 (k=4..9); keys below 1, 2, 3, 7, n, or 2^20 " +
		"(as drawn / ascending / descending / few swaps / rotated); every element is BUILT inside the case from (key, index) formulas so that its heap data (string bytes, pointees) is referenced by the " +
		"slice under test only, and decoded afterwards (payload checksum, string bytes). Circumstances, each drawn independently: named slice type; the slice is a window buffer[off:off+n] of a larger " +
		"buffer with guard elements in front, behind (inside the capacity or cut off by a 3-index slice); a second live slice in the same buffer that is sorted by the same helper before and checked " +
		"again after; for element types holding references (one case in four of those), the less of one of the four Func sorts runs runtime.GC() plus same-size allocations at up to 3 of its calls; less itself sorts another slice with the same helper at one of its calls; an earlier call of the same " +
		"helper on another slice aborted by a panic (recovered) or runtime.Goexit of less. Checked after SortFunc, SortDescFunc, SortStableFunc, SortStableDescFunc (and Sort, SortDesc for ordered types): " +
		"permutation of the input (every original index once with intact contents; same multiset for numbers/strings), ordered under less in the promised direction, stable variants keep indistinguishable " +
		"elements in original order, guard elements outside the slice untouched; ShuffleRand: permutation, same result for two generators of the same seed; Shuffle: permutation; BinarySearchFunc (and " +
		"BinarySearch) on the ascending slice for up to 14 targets (present, absent inside, below, above): lower bound by linear scan; non-trivial = at least 3 elements, not presorted",
	Gen: func(t *rapid.T) TCase {
		c := TCase{Type: genTypeOrder[rapid.IntRange(0, len(genTypeOrder)-1).Draw(t, "type")]}
		var n int
		if rapid.IntRange(0, 9).Draw(t, "pow") == 0 {
			n = rapid.SampledFrom(lenPowers).Draw(t, "npow")
		} else {
			cl := rapid.SampledFrom(lenClasses).Draw(t, "lenClass")
			n = rapid.IntRange(cl[0], cl[1]).Draw(t, "n")
		}
		below := rapid.SampledFrom([]int{1, 2, 3, 7, n + 1, n + 1, wideKeys, wideKeys}).Draw(t, "below")
		c.Keys = genKeys(t, n, below)
		c.Named = rapid.IntRange(0, 3).Draw(t, "named") == 0
		if rapid.IntRange(0, 2).Draw(t, "window") == 0 {
			c.Off = rapid.IntRange(0, 3).Draw(t, "off")
			c.Spare = rapid.IntRange(0, 4).Draw(t, "spare")
			c.CapExact = rapid.Bool().Draw(t, "capExact")
		}
		c.Twin = rapid.IntRange(0, 3).Draw(t, "twin") == 0
		if runners[c.Type].refs && rapid.IntRange(0, 3).Draw(t, "gc") == 0 {
			c.GCFn = rapid.IntRange(0, 3).Draw(t, "gcFn")
			for g := rapid.IntRange(1, 3).Draw(t, "gcs"); g > 0; g-- {
				c.GC = append(c.GC, rapid.IntRange(1, 5*n+5).Draw(t, "gcAt"))
			}
		}
		if rapid.IntRange(0, 5).Draw(t, "nest") == 0 {
			c.Nested = rapid.IntRange(1, 4*n+4).Draw(t, "nestedAt")
		}
		if rapid.IntRange(0, 5).Draw(t, "abort") == 0 {
			c.Abort = rapid.IntRange(1, 2).Draw(t, "abortKind")
			c.AbortAt = rapid.IntRange(1, 6*n+4).Draw(t, "abortAt")
		}
		c.Seed = rapid.Int64().Draw(t, "seed")
		return c
	},
	Run: RunTypes, Quick: 2500, Thorough: 20000,
	Replicas: 4, ReplicaEvery: 8, Retries: 5,
})

func TestC15Types(t *testing.T) { pbt.Check(t, specTypes) }
