// Package c15 decides C15: the sorting, searching and shuffling helpers of
// slices/sort.go order correctly, stably where promised, search for the lower
// bound, and shuffle as a deterministic function of the supplied generator.
package c15

import (
	"fmt"
	"sort"
	"testing"

	"gopkg.in/typ.v4/slices"
	"pgregory.net/rapid"
	"verifharness/internal/pbt"
)

// Case is a list of keys; every sort and search helper is run on slices derived from it.
type Case struct {
	Keys []int `json:"keys"` // small keys (generators use 0..6, so ties are frequent)
}

// tagged is an element whose order is decided by key alone; idx is its position in the input.
type tagged struct{ key, idx int }

type (
	myInts    []int
	myStrings []string
	myFloats  []float64
	myTagged  []tagged
)

const (
	loTarget = -1
	hiTarget = 7
	rule     = "case = list of keys; on each case Sort and SortDesc run on int, string and float64 images of the keys " +
		"(strictly monotone images, no NaN), SortFunc, SortDescFunc, SortStableFunc and SortStableDescFunc on elements tagged " +
		"(key, original index) with less comparing keys only; after each: permutation of the input and ordered ascending/descending " +
		"(no element less than its predecessor, resp. successor); Stable variants additionally: equal keys in increasing original " +
		"index, and identical to sort.SliceStable; BinarySearch (int, string, float64) and BinarySearchFunc on the ascending " +
		"slice for every target -1..7: result = smallest index whose element is not less than the target, len if none (linear scan); " +
		"non-trivial = at least 3 elements and at least one tie; one case in eight is run once more as 4 independent copies in parallel goroutines"
)

var strTable = []string{"", "A", "a", "aa", "ab", "b", "ba", "c", "~"}

// strOf and floatOf are strictly increasing in k over -1..7 (and total over all ints).
func strOf(k int) string {
	if k >= -1 && k <= 7 {
		return strTable[k+1]
	}
	if k < -1 {
		return "" // never generated
	}
	return "~~"
}
func floatOf(k int) float64 { return float64(k)*0.5 - 1.25 }

func keyLess(a, b tagged) bool { return a.key < b.key }

// checkPerm: got is a permutation of the tagged input (every original index exactly once, carrying its key).
func checkPerm(got []tagged, keys []int) string {
	if len(got) != len(keys) {
		return fmt.Sprintf("length changed from %d to %d", len(keys), len(got))
	}
	seen := make([]bool, len(keys))
	for i, e := range got {
		if e.idx < 0 || e.idx >= len(keys) || seen[e.idx] || keys[e.idx] != e.key {
			return fmt.Sprintf("not a permutation of the input: position %d holds {key %d, original index %d}", i, e.key, e.idx)
		}
		seen[e.idx] = true
	}
	return ""
}

// checkOrder: ascending (dir=+1): no element is less than its predecessor; descending (dir=-1): no element
// is less than its successor. For a strict weak order the adjacent test is equivalent to the all-pairs test;
// both are run (all pairs only up to 16 elements).
func checkOrder(got []tagged, dir int) string {
	bad := func(i, j int) bool { // i<j out of order?
		if dir > 0 {
			return keyLess(got[j], got[i])
		}
		return keyLess(got[i], got[j])
	}
	for i := 0; i+1 < len(got); i++ {
		if bad(i, i+1) {
			return fmt.Sprintf("not ordered: positions %d and %d hold keys %d and %d", i, i+1, got[i].key, got[i+1].key)
		}
	}
	if len(got) <= 16 {
		for i := range got {
			for j := i + 1; j < len(got); j++ {
				if bad(i, j) {
					return fmt.Sprintf("not ordered: positions %d and %d hold keys %d and %d", i, j, got[i].key, got[j].key)
				}
			}
		}
	}
	return ""
}

func checkStable(got []tagged) string {
	for i := 0; i+1 < len(got); i++ {
		if got[i].key == got[i+1].key && got[i].idx > got[i+1].idx {
			return fmt.Sprintf("not stable: equal keys %d at positions %d,%d came from original indices %d,%d", got[i].key, i, i+1, got[i].idx, got[i+1].idx)
		}
	}
	return ""
}

func keysOf(ts []tagged) []int {
	ks := make([]int, len(ts))
	for i, t := range ts {
		ks[i] = t.key
	}
	return ks
}

func idxOf(ts []tagged) []int {
	ks := make([]int, len(ts))
	for i, t := range ts {
		ks[i] = t.idx
	}
	return ks
}

// Run executes all sort and search helpers on the case.
func Run(c Case) pbt.Outcome {
	keys := c.Keys
	n := len(keys)
	out := pbt.Outcome{}
	// ascending keys by a stable insertion sort written here (the reference order)
	asc := make([]int, 0, n)
	for _, k := range keys {
		at := len(asc)
		for at > 0 && asc[at-1] > k {
			at--
		}
		asc = append(asc, 0)
		copy(asc[at+1:], asc[at:])
		asc[at] = k
	}
	fresh := func() myTagged {
		ts := make(myTagged, n)
		for i, k := range keys {
			ts[i] = tagged{k, i}
		}
		return ts
	}
	desc := fmt.Sprintf("keys=%v", keys)

	// ---- Sort / SortDesc on ordered element types. For ints, strings and floats equal elements are
	// indistinguishable, so "permutation and ordered" is the same as "equals the reference sequence".
	{
		ints, strs, flts := make(myInts, n), make(myStrings, n), make(myFloats, n)
		for i, k := range keys {
			ints[i], strs[i], flts[i] = k, strOf(k), floatOf(k)
		}
		slices.Sort(ints)
		slices.Sort(strs)
		slices.Sort(flts)
		out.Evals += 3
		for i := 0; i < n; i++ {
			if ints[i] != asc[i] {
				return pbt.Fail("Sort([]int) (%s) = %v, want %v", desc, []int(ints), asc)
			}
			if strs[i] != strOf(asc[i]) {
				return pbt.Fail("Sort([]string) (%s, as strings) = %q, want position %d = %q", desc, []string(strs), i, strOf(asc[i]))
			}
			if flts[i] != floatOf(asc[i]) {
				return pbt.Fail("Sort([]float64) (%s, as k/2-1.25) = %v, want position %d = %v", desc, []float64(flts), i, floatOf(asc[i]))
			}
		}
		for i, k := range keys {
			ints[i], strs[i], flts[i] = k, strOf(k), floatOf(k)
		}
		slices.SortDesc(ints)
		slices.SortDesc(strs)
		slices.SortDesc(flts)
		out.Evals += 3
		for i := 0; i < n; i++ {
			w := asc[n-1-i]
			if ints[i] != w {
				return pbt.Fail("SortDesc([]int) (%s) = %v, want position %d = %d (descending)", desc, []int(ints), i, w)
			}
			if strs[i] != strOf(w) {
				return pbt.Fail("SortDesc([]string) (%s, as strings) = %q, want position %d = %q", desc, []string(strs), i, strOf(w))
			}
			if flts[i] != floatOf(w) {
				return pbt.Fail("SortDesc([]float64) (%s, as k/2-1.25) = %v, want position %d = %v", desc, []float64(flts), i, floatOf(w))
			}
		}
	}

	// ---- Func variants on tagged elements
	type variant struct {
		name   string
		sort   func(myTagged)
		dir    int
		stable bool
	}
	variants := []variant{
		{"SortFunc", func(s myTagged) { slices.SortFunc(s, keyLess) }, +1, false},
		{"SortDescFunc", func(s myTagged) { slices.SortDescFunc(s, keyLess) }, -1, false},
		{"SortStableFunc", func(s myTagged) { slices.SortStableFunc(s, keyLess) }, +1, true},
		{"SortStableDescFunc", func(s myTagged) { slices.SortStableDescFunc(s, keyLess) }, -1, true},
	}
	for _, v := range variants {
		ts := fresh()
		v.sort(ts)
		out.Evals++
		show := func() string {
			return fmt.Sprintf("%s(less on key) (%s): result keys %v from original indices %v", v.name, desc, keysOf(ts), idxOf(ts))
		}
		if m := checkPerm(ts, keys); m != "" {
			return pbt.Fail("%s: %s", show(), m)
		}
		if m := checkOrder(ts, v.dir); m != "" {
			return pbt.Fail("%s: %s", show(), m)
		}
		if v.stable {
			if m := checkStable(ts); m != "" {
				return pbt.Fail("%s: %s", show(), m)
			}
			ref := fresh()
			if v.dir > 0 {
				sort.SliceStable(ref, func(i, j int) bool { return ref[i].key < ref[j].key })
			} else {
				sort.SliceStable(ref, func(i, j int) bool { return ref[i].key > ref[j].key })
			}
			for i := range ref {
				if ref[i] != ts[i] {
					return pbt.Fail("%s: differs from sort.SliceStable at position %d: want original index %d", show(), i, ref[i].idx)
				}
			}
		}
	}

	// ---- BinarySearch / BinarySearchFunc on the ascending slice, every target
	ascInts, ascStrs, ascFlts, ascTag := make(myInts, n), make(myStrings, n), make(myFloats, n), make(myTagged, n)
	for i, k := range asc {
		ascInts[i], ascStrs[i], ascFlts[i], ascTag[i] = k, strOf(k), floatOf(k), tagged{k, i}
	}
	var present, absentInside, below, above, firstOfSeveral bool
	for t := loTarget; t <= hiTarget; t++ {
		want := n
		for i, k := range asc {
			if k >= t {
				want = i
				break
			}
		}
		switch {
		case want < n && asc[want] == t:
			present = true
			if want+1 < n && asc[want+1] == t {
				firstOfSeveral = true
			}
		case n > 0 && want == 0:
			below = true
		case n > 0 && want == n:
			above = true
		case n > 0:
			absentInside = true
		}
		out.Evals += 4
		if got := slices.BinarySearch(ascInts, t); got != want {
			return pbt.Fail("BinarySearch(%v, %d) = %d, want %d (smallest index with element >= target, len if none)", asc, t, got, want)
		}
		if got := slices.BinarySearch(ascStrs, strOf(t)); got != want {
			return pbt.Fail("BinarySearch(%q, %q) = %d, want %d (smallest index with element >= target, len if none)", []string(ascStrs), strOf(t), got, want)
		}
		if got := slices.BinarySearch(ascFlts, floatOf(t)); got != want {
			return pbt.Fail("BinarySearch(%v, %v) = %d, want %d (smallest index with element >= target, len if none)", []float64(ascFlts), floatOf(t), got, want)
		}
		if got := slices.BinarySearchFunc(ascTag, func(a tagged) bool { return a.key < t }); got != want {
			return pbt.Fail("BinarySearchFunc(keys %v, key<%d) = %d, want %d (smallest index whose element is not less than the target, len if none)", asc, t, got, want)
		}
	}
	for i, k := range asc { // searching must not modify
		if ascInts[i] != k || ascStrs[i] != strOf(k) || ascFlts[i] != floatOf(k) || ascTag[i] != (tagged{k, i}) {
			return pbt.Fail("BinarySearch/BinarySearchFunc modified the slice at index %d (keys %v)", i, asc)
		}
	}

	// ---- classes
	tie, sortedAsc, sortedDesc := false, true, true
	for i := 0; i+1 < n; i++ {
		if asc[i] == asc[i+1] {
			tie = true
		}
		if keys[i] > keys[i+1] {
			sortedAsc = false
		}
		if keys[i] < keys[i+1] {
			sortedDesc = false
		}
	}
	out.NonTrivial = n >= 3 && tie
	lab := func(l string) { out.Labels = append(out.Labels, l) }
	switch {
	case n == 0:
		lab("n=0")
	case n == 1:
		lab("n=1")
	case n == 2:
		lab("n=2")
	case n <= 12:
		lab("n=3..12")
	case n <= 30:
		lab("n=13..30(beyond-insertion-sort)")
	default:
		lab("n=31..60(beyond-insertion-sort)")
	}
	if tie {
		lab("has-ties")
	}
	if tie && !sortedAsc {
		lab("stable:ties-and-not-presorted")
	}
	if tie && !sortedAsc && n > 12 {
		lab("stable:ties-not-presorted-n>12")
	}
	if n >= 2 && sortedAsc {
		lab("input-ascending")
	}
	if n >= 2 && sortedDesc {
		lab("input-descending")
	}
	if present {
		lab("search:target-present")
	}
	if firstOfSeveral {
		lab("search:target-present-several-times")
	}
	if absentInside {
		lab("search:target-absent-inside")
	}
	if below {
		lab("search:target-below-all")
	}
	if above {
		lab("search:target-above-all")
	}
	return out
}

var specRand = pbt.Register(&pbt.Spec[Case]{
	Property: "C15", Name: "C15.rand",
	Rule: "rapid: length class 0..2 (1/8), 3..12 (2/8), 13..30 (3/8), 31..60 (2/8), keys = stride x 0..k/stride (k drawn 1..6, 0..6 for the short class; stride 1..3); the drawn keys are used as they are, " +
		"or presorted ascending / descending, or presorted with up to 3 random swaps; " + rule,
	Gen: func(t *rapid.T) Case {
		// length classes (rapid favours the low end of a range, so the long classes are drawn explicitly)
		k := rapid.IntRange(1, 6).Draw(t, "maxKey")
		var n int
		switch rapid.IntRange(0, 7).Draw(t, "lenClass") {
		case 0:
			k = rapid.IntRange(0, 6).Draw(t, "maxKeyShort")
			n = rapid.IntRange(0, 2).Draw(t, "n")
		case 1, 2:
			n = rapid.IntRange(3, 12).Draw(t, "n")
		case 3, 4, 5:
			n = rapid.IntRange(13, 30).Draw(t, "n")
		default:
			n = rapid.IntRange(31, 60).Draw(t, "n")
		}
		// stride 2 or 3 leaves gaps between the keys, so that absent targets fall inside the slice's range
		stride := rapid.IntRange(1, 3).Draw(t, "stride")
		keys := make([]int, n)
		for i := range keys {
			keys[i] = stride * rapid.IntRange(0, k/stride).Draw(t, "key")
		}
		shape := rapid.IntRange(0, 5).Draw(t, "shape")
		if shape >= 3 {
			sort.Ints(keys)
		}
		if shape == 4 {
			for i, j := 0, n-1; i < j; i, j = i+1, j-1 {
				keys[i], keys[j] = keys[j], keys[i]
			}
		}
		if shape == 5 && n >= 2 {
			for s := rapid.IntRange(1, 3).Draw(t, "swaps"); s > 0; s-- {
				i, j := rapid.IntRange(0, n-1).Draw(t, "i"), rapid.IntRange(0, n-1).Draw(t, "j")
				keys[i], keys[j] = keys[j], keys[i]
			}
		}
		return Case{Keys: keys}
	},
	Run: Run, Quick: 20000, Thorough: 150000,
	Replicas: 4, ReplicaEvery: 8,
})

// enumSeqs yields every sequence over 0..k-1 of length 0..maxLen.
func enumSeqs(k, maxLen int, yield func(Case) bool) bool {
	cur := make([]int, 0, maxLen)
	var rec func() bool
	rec = func() bool {
		if !yield(Case{Keys: append([]int{}, cur...)}) {
			return false
		}
		if len(cur) == maxLen {
			return true
		}
		for v := 0; v < k; v++ {
			cur = append(cur, v)
			if !rec() {
				return false
			}
			cur = cur[:len(cur)-1]
		}
		return true
	}
	return rec()
}

var specEnum = pbt.Register(&pbt.Spec[Case]{
	Property: "C15", Name: "C15.enum",
	Rule: "exhaustive small scope: every key sequence over 0..1 up to length 13, over 0..2 up to length 7, over 0..3 up to length 5 " +
		"(thorough: 0..1 up to 16, 0..2 up to 10, 0..3 up to 8, 0..4 up to 6); " + rule,
	Enum: func(shard, shards int, tier string, yield func(Case) bool) {
		grids := [][2]int{{2, 13}, {3, 7}, {4, 5}}
		if tier == "thorough" {
			grids = [][2]int{{2, 16}, {3, 10}, {4, 8}, {5, 6}}
		}
		for _, g := range grids {
			if !enumSeqs(g[0], g[1], yield) {
				return
			}
		}
	},
	Run: Run, Exhaustive: true,
	Replicas: 4, ReplicaEvery: 8,
})

func TestC15Enum(t *testing.T) { pbt.Check(t, specEnum) }
func TestC15Rand(t *testing.T) { pbt.Check(t, specRand) }
func TestReplay(t *testing.T)  { pbt.Replay(t) }
