package c15

import (
	"fmt"
	"math"
	"sort"
	"unsafe"

	"gopkg.in/typ.v4"
	"gopkg.in/typ.v4/slices"
)

// ---------------------------------------------------------------- element types ("kits")
//
// The units C15.types, C15.big and C15.repeat run the helpers of slices/sort.go over many element types. A kit
// describes one element type E:
//
//	mk(key, idx)  builds a NEW element from formulas (all heap data of the element - string bytes, pointees, boxed
//	              values - is freshly allocated and referenced from nowhere but the element), so inputs are built
//	              inside the call and the oracle never has to keep a copy of the input alive;
//	dec(e)        decodes an element back into (key, idx) and reports whether it is intact (payload, string bytes,
//	              checksum); idx = -1 for types whose equal elements are indistinguishable (numbers, strings);
//	less(a, b)    the order handed to the library; for the ordered types it is the < operator;
//	junk(m)       allocates m objects of the same allocation size class as the element's heap data, filled with
//	              other content (run after a garbage collection inside less: if the library parked elements where
//	              the collector does not see them, their data is reused and dec reports garbage).
//
// Keys are reduced modulo nkeys. For every kit mk is strictly increasing in key under less, except for the
// "weird" table kits (f64w, strw), where some different keys are equivalent under < (-0 and +0).
type kit[E any] struct {
	name    string
	size    uintptr
	nkeys   int
	hasIdx  bool
	mk      func(key, idx int) E
	dec     func(e E) (key, idx int, ok bool)
	less    func(a, b E) bool
	junk    func(m int) any
	junkMax int        // upper bound for m (big objects); 0 = none
	ord     *ordOps[E] // non-nil for ordered element types
}

// ordOps are the helpers that exist for ordered element types only.
type ordOps[E any] struct {
	sort, sortDesc func(s []E, named bool)
	search         func(s []E, v E, named bool) int
}

// named is a named slice type over any element type (the helpers take ~[]E).
type named[E any] []E

// funcs are the helpers that exist for every element type, instantiated for E.
type funcOps[E any] struct {
	name   string
	call   func(s []E, less func(a, b E) bool, named bool)
	dir    int // +1 ascending, -1 descending
	stable bool
	cb     bool // uses the less callback
}

func funcsOf[E any](k *kit[E]) []funcOps[E] {
	fs := []funcOps[E]{
		{"SortFunc", func(s []E, less func(a, b E) bool, nm bool) {
			if nm {
				slices.SortFunc(named[E](s), less)
			} else {
				slices.SortFunc(s, less)
			}
		}, +1, false, true},
		{"SortDescFunc", func(s []E, less func(a, b E) bool, nm bool) {
			if nm {
				slices.SortDescFunc(named[E](s), less)
			} else {
				slices.SortDescFunc(s, less)
			}
		}, -1, false, true},
		{"SortStableFunc", func(s []E, less func(a, b E) bool, nm bool) {
			if nm {
				slices.SortStableFunc(named[E](s), less)
			} else {
				slices.SortStableFunc(s, less)
			}
		}, +1, true, true},
		{"SortStableDescFunc", func(s []E, less func(a, b E) bool, nm bool) {
			if nm {
				slices.SortStableDescFunc(named[E](s), less)
			} else {
				slices.SortStableDescFunc(s, less)
			}
		}, -1, true, true},
	}
	if k.ord != nil {
		o := k.ord
		fs = append(fs,
			funcOps[E]{"Sort", func(s []E, _ func(a, b E) bool, nm bool) { o.sort(s, nm) }, +1, false, false},
			funcOps[E]{"SortDesc", func(s []E, _ func(a, b E) bool, nm bool) { o.sortDesc(s, nm) }, -1, false, false})
	}
	return fs
}

func ordOf[E typ.Ordered]() *ordOps[E] {
	return &ordOps[E]{
		sort: func(s []E, nm bool) {
			if nm {
				slices.Sort(named[E](s))
			} else {
				slices.Sort(s)
			}
		},
		sortDesc: func(s []E, nm bool) {
			if nm {
				slices.SortDesc(named[E](s))
			} else {
				slices.SortDesc(s)
			}
		},
		search: func(s []E, v E, nm bool) int {
			if nm {
				return slices.BinarySearch(named[E](s), v)
			}
			return slices.BinarySearch(s, v)
		},
	}
}

func ltOf[E typ.Ordered]() func(a, b E) bool { return func(a, b E) bool { return a < b } }

// ---------------------------------------------------------------- verification (reference-free)

func (k *kit[E]) show(s []E) string {
	const max = 48
	out := "["
	for i, e := range s {
		if i == max {
			out += fmt.Sprintf(" ... %d more", len(s)-max)
			break
		}
		if i > 0 {
			out += " "
		}
		key, idx, ok := k.dec(e)
		switch {
		case !ok:
			out += "<garbage>"
		case k.hasIdx:
			out += fmt.Sprintf("%d#%d", key, idx)
		default:
			out += fmt.Sprintf("%d", key)
		}
	}
	return out + "]"
}

func showKeys(keys []int) string {
	if len(keys) <= 64 {
		return fmt.Sprint(keys)
	}
	return fmt.Sprintf("%v ... (%d keys)", keys[:64], len(keys))
}

// verify checks what the statement says about `got`, the slice after the call, where the input was
// mk(keys[i], i): a permutation of the input (every original index once, carrying its key and an intact payload;
// for elements without identity: the same multiset of keys), ordered in direction dir under less (dir 0: any
// order), and for stable sorts elements that less cannot distinguish in increasing original index.
func (k *kit[E]) verify(got []E, keys []int, dir int, stable bool) string {
	n := len(keys)
	if len(got) != n {
		return fmt.Sprintf("length changed from %d to %d", n, len(got))
	}
	var seen []bool
	var count map[int]int
	var countBig []int32 // long inputs: a table instead of a map
	switch {
	case k.hasIdx:
		seen = make([]bool, n)
	case n > 512:
		countBig = make([]int32, k.nkeys)
		for _, x := range keys {
			countBig[x]++
		}
	default:
		count = make(map[int]int, 16)
		for _, x := range keys {
			count[x]++
		}
	}
	prevIdx := -1
	for i, e := range got {
		key, idx, ok := k.dec(e)
		if !ok {
			return fmt.Sprintf("not a permutation of the input: position %d holds a value that was never put into the slice (garbled contents)", i)
		}
		if k.hasIdx {
			if idx < 0 || idx >= n || seen[idx] || keys[idx] != key {
				return fmt.Sprintf("not a permutation of the input: position %d holds {key %d, original index %d}", i, key, idx)
			}
			seen[idx] = true
		} else if countBig != nil {
			if key < 0 || key >= len(countBig) || countBig[key] == 0 {
				return fmt.Sprintf("not a permutation of the input: position %d holds key %d more often than the input did", i, key)
			}
			countBig[key]--
		} else {
			if count[key] == 0 {
				return fmt.Sprintf("not a permutation of the input: position %d holds key %d more often than the input did", i, key)
			}
			count[key]--
		}
		if i > 0 && dir != 0 {
			a, b := got[i-1], e
			if dir < 0 {
				a, b = b, a
			}
			// ascending: the later element must not be less than the earlier one
			if k.less(b, a) {
				pk, _, _ := k.dec(got[i-1])
				return fmt.Sprintf("not ordered: positions %d and %d hold keys %d and %d", i-1, i, pk, key)
			}
			if stable && k.hasIdx && !k.less(a, b) && prevIdx > idx {
				return fmt.Sprintf("not stable: positions %d and %d hold elements the order cannot distinguish (key %d) that came from original indices %d and %d", i-1, i, key, prevIdx, idx)
			}
		}
		prevIdx = idx
	}
	return ""
}

// lowerBound is the oracle for the searches: smallest index whose element is not less than the target.
func (k *kit[E]) lowerBound(s []E, target E) int {
	for i, e := range s {
		if !k.less(e, target) {
			return i
		}
	}
	return len(s)
}

// ascending builds mk(keys[i], i) and sorts it with the standard library (stable), for the searches.
func (k *kit[E]) ascending(keys []int) []E {
	s := make([]E, len(keys))
	for i, x := range keys {
		s[i] = k.mk(x, i)
	}
	sort.SliceStable(s, func(i, j int) bool { return k.less(s[i], s[j]) })
	return s
}

func mix(a, b, c int) uint64 {
	x := uint64(a)*0x9E3779B97F4A7C15 ^ uint64(b)*0xC2B2AE3D27D4EB4F ^ uint64(c)*0x165667B19E3779F9
	x ^= x >> 29
	x *= 0xBF58476D1CE4E5B9
	x ^= x >> 32
	return x | 1
}

// ---------------------------------------------------------------- integer kits

type integer interface {
	~int | ~int8 | ~int16 | ~int32 | ~int64 | ~uint | ~uint8 | ~uint16 | ~uint32 | ~uint64 | ~uintptr
}

const wideKeys = 1 << 20

// intKit: keys 0..nkeys-1 are spread evenly over the whole range of the type: key 0 is the minimum and key
// nkeys-1 the maximum value of the type.
func intKit[E interface {
	integer
	typ.Ordered
}](name string, bits int, signed bool) *kit[E] {
	nkeys := wideKeys
	if bits < 20 {
		nkeys = 1 << bits
	}
	mask := ^uint64(0)
	if bits < 64 {
		mask = 1<<bits - 1
	}
	step := mask / uint64(nkeys-1)
	sign := uint64(0)
	if signed {
		sign = 1 << (bits - 1)
	}
	var z E
	return &kit[E]{name: name, size: unsafe.Sizeof(z), nkeys: nkeys,
		mk: func(key, _ int) E {
			u := uint64(key) * step
			if key == nkeys-1 {
				u = mask
			}
			return E(u ^ sign)
		},
		dec: func(e E) (int, int, bool) {
			u := (uint64(e) & mask) ^ sign
			if u == mask {
				return nkeys - 1, -1, true
			}
			if u%step != 0 || u/step >= uint64(nkeys-1) {
				return 0, -1, false
			}
			return int(u / step), -1, true
		},
		less: ltOf[E](), ord: ordOf[E]()}
}

// ---------------------------------------------------------------- float kits

func floatKit[E interface {
	~float32 | ~float64
	typ.Ordered
}](name string, max float64) *kit[E] {
	const nkeys, mid = wideKeys, wideKeys / 2
	var z E
	val := func(key int) E {
		switch key {
		case 0:
			return E(math.Inf(-1))
		case 1:
			return E(-max)
		case nkeys - 2:
			return E(max)
		case nkeys - 1:
			return E(math.Inf(1))
		}
		return E(float64(key-mid) * 0.375)
	}
	return &kit[E]{name: name, size: unsafe.Sizeof(z), nkeys: nkeys,
		mk: func(key, _ int) E { return val(key) },
		dec: func(e E) (int, int, bool) {
			f := float64(e)
			switch {
			case f != f:
				return 0, -1, false
			case math.IsInf(f, -1):
				return 0, -1, true
			case math.IsInf(f, 1):
				return nkeys - 1, -1, true
			case f == -max:
				return 1, -1, true
			case f == max:
				return nkeys - 2, -1, true
			}
			x := math.Round(f / 0.375)
			if x <= -mid+1 || x >= mid-2 || float64(val(int(x)+mid)) != f || (f == 0 && math.Signbit(f)) {
				return 0, -1, false
			}
			return int(x) + mid, -1, true
		},
		less: ltOf[E](), ord: ordOf[E]()}
}

// weirdFloats: a table with both zeros (equivalent under <, different values), denormals and infinities.
func weirdFloats() *kit[float64] {
	tab := []float64{math.Inf(-1), -math.MaxFloat64, -1, -math.SmallestNonzeroFloat64, math.Copysign(0, -1), 0,
		math.SmallestNonzeroFloat64, 1, math.MaxFloat64, math.Inf(1)}
	return &kit[float64]{name: "float64-special-values", size: 8, nkeys: len(tab),
		mk: func(key, _ int) float64 { return tab[key] },
		dec: func(e float64) (int, int, bool) {
			for i, v := range tab {
				if math.Float64bits(v) == math.Float64bits(e) {
					return i, -1, true
				}
			}
			return 0, -1, false
		},
		less: ltOf[float64](), ord: ordOf[float64]()}
}

// ---------------------------------------------------------------- string kits

func putDigits(b []byte, v int) {
	for i := len(b) - 1; i >= 0; i-- {
		b[i] = byte('0' + v%10)
		v /= 10
	}
}

func getDigits(s string) (int, bool) {
	v := 0
	for i := 0; i < len(s); i++ {
		c := s[i]
		if c < '0' || c > '9' {
			return 0, false
		}
		v = v*10 + int(c-'0')
	}
	return v, true
}

func digitsOf(width int) int {
	if width < 9 {
		return width
	}
	return 9
}

// fixedString: `width` bytes: a prefix of 'p' bytes and the key in 9 decimal digits (lexicographic = numeric order).
func fixedString(width, key int, fill byte) string {
	b := make([]byte, width)
	d := digitsOf(width)
	for i := 0; i < width-d; i++ {
		b[i] = fill
	}
	putDigits(b[width-d:], key)
	return string(b)
}

func fixedStringKey(s string, width int) (int, bool) {
	if len(s) != width {
		return 0, false
	}
	d := digitsOf(width)
	for i := 0; i < width-d; i++ {
		if s[i] != 'p' {
			return 0, false
		}
	}
	return getDigits(s[width-d:])
}

func junkBytes(width int) func(m int) any {
	return func(m int) any {
		out := make([][]byte, m)
		for i := range out {
			b := make([]byte, width)
			for j := range b {
				b[j] = '#'
			}
			out[i] = b
		}
		return out
	}
}

type myString string

func stringKit[E interface {
	~string
	typ.Ordered
}](name string, width int) *kit[E] {
	return &kit[E]{name: name, size: unsafe.Sizeof(""), nkeys: wideKeys,
		mk: func(key, _ int) E { return E(fixedString(width, key, 'p')) },
		dec: func(e E) (int, int, bool) {
			key, ok := fixedStringKey(string(e), width)
			return key, -1, ok && key < wideKeys
		},
		less: ltOf[E](), junk: junkBytes(width), junkMax: (4 << 20) / width, ord: ordOf[E]()}
}

// weirdStrings: different lengths, the empty string, NUL bytes and bytes >= 0x80 (byte-wise unsigned order).
func weirdStrings() *kit[string] {
	long := ""
	for i := 0; i < 40; i++ {
		long += "a"
	}
	tab := []string{"", "\x00", "\x00\x00", " ", "A", "AA", "a", "a\x00", "aa", long, long + "b", "ab", "b", "\x7f", "\x80", "\xc3\xa9", "\xff", "\xff\xff"}
	return &kit[string]{name: "string-special-values", size: unsafe.Sizeof(""), nkeys: len(tab),
		mk: func(key, _ int) string { return string(append([]byte(nil), tab[key]...)) },
		dec: func(e string) (int, int, bool) {
			for i, v := range tab {
				if v == e {
					return i, -1, true
				}
			}
			return 0, -1, false
		},
		less: ltOf[string](), junk: junkBytes(41), ord: ordOf[string]()}
}

// ---------------------------------------------------------------- struct kits with an identity

// padded is {key, idx, payload}: element sizes 16 + 8*len(pad) bytes.
type pads interface {
	[1]uint64 | [2]uint64 | [6]uint64 | [10]uint64 | [13]uint64 | [14]uint64 | [15]uint64 | [30]uint64 | [126]uint64 | [510]uint64
}

type padded[A pads] struct {
	key, idx int
	pad      A
}

func paddedKit[A pads]() *kit[padded[A]] {
	var z padded[A]
	return &kit[padded[A]]{name: fmt.Sprintf("struct-%d-bytes", unsafe.Sizeof(z)), size: unsafe.Sizeof(z), nkeys: wideKeys, hasIdx: true,
		mk: func(key, idx int) padded[A] {
			p := padded[A]{key: key, idx: idx}
			for i := 0; i < len(p.pad); i++ {
				p.pad[i] = mix(key, idx, i)
			}
			return p
		},
		dec: func(e padded[A]) (int, int, bool) {
			for i := 0; i < len(e.pad); i++ {
				if e.pad[i] != mix(e.key, e.idx, i) {
					return 0, 0, false
				}
			}
			return e.key, e.idx, true
		},
		less: func(a, b padded[A]) bool { return a.key < b.key }}
}

func taggedKit() *kit[tagged] {
	return &kit[tagged]{name: "struct-16-bytes", size: 16, nkeys: wideKeys, hasIdx: true,
		mk:   func(key, idx int) tagged { return tagged{key, idx} },
		dec:  func(e tagged) (int, int, bool) { return e.key, e.idx, true },
		less: keyLess}
}

// nanPayload carries a NaN: the element is never == itself.
type nanPayload struct {
	key, idx int
	f        float64
}

func nanKit() *kit[nanPayload] {
	return &kit[nanPayload]{name: "struct-with-NaN-field", size: 24, nkeys: wideKeys, hasIdx: true,
		mk:   func(key, idx int) nanPayload { return nanPayload{key, idx, math.NaN()} },
		dec:  func(e nanPayload) (int, int, bool) { return e.key, e.idx, e.f != e.f },
		less: func(a, b nanPayload) bool { return a.key < b.key }}
}

// withString is a struct of a string and scalars only.
type withString struct {
	name     string
	key, idx int32
}

func nameOf(key, idx int) string {
	b := make([]byte, 24)
	copy(b, "name:")
	putDigits(b[5:14], key)
	b[14] = '/'
	putDigits(b[15:], idx)
	return string(b)
}

func nameIs(s string, key, idx int) bool {
	if len(s) != 24 || s[:5] != "name:" || s[14] != '/' {
		return false
	}
	k, ok1 := getDigits(s[5:14])
	i, ok2 := getDigits(s[15:])
	return ok1 && ok2 && k == key && i == idx
}

func withStringKit() *kit[withString] {
	var z withString
	return &kit[withString]{name: "struct-of-string-and-scalars", size: unsafe.Sizeof(z), nkeys: wideKeys, hasIdx: true,
		mk: func(key, idx int) withString { return withString{nameOf(key, idx), int32(key), int32(idx)} },
		dec: func(e withString) (int, int, bool) {
			return int(e.key), int(e.idx), nameIs(e.name, int(e.key), int(e.idx))
		},
		less: func(a, b withString) bool { return a.key < b.key }, junk: junkBytes(24)}
}

// stringPair is an array of strings: [0] orders, [1] identifies.
type stringPair [2]string

func stringPairKit() *kit[stringPair] {
	var z stringPair
	return &kit[stringPair]{name: "array-of-2-strings", size: unsafe.Sizeof(z), nkeys: wideKeys, hasIdx: true,
		mk: func(key, idx int) stringPair { return stringPair{fixedString(20, key, 'p'), fixedString(20, idx, 'p')} },
		dec: func(e stringPair) (int, int, bool) {
			key, ok1 := fixedStringKey(e[0], 20)
			idx, ok2 := fixedStringKey(e[1], 20)
			return key, idx, ok1 && ok2
		},
		less: func(a, b stringPair) bool { return a[0] < b[0] }, junk: junkBytes(20)}
}

// bigWithString: more than 128 bytes and a reference.
type bigWithString struct {
	pad      [15]uint64
	name     string
	key, idx int
}

func bigWithStringKit() *kit[bigWithString] {
	var z bigWithString
	return &kit[bigWithString]{name: fmt.Sprintf("struct-%d-bytes-with-string", unsafe.Sizeof(z)), size: unsafe.Sizeof(z), nkeys: wideKeys, hasIdx: true,
		mk: func(key, idx int) bigWithString {
			e := bigWithString{name: nameOf(key, idx), key: key, idx: idx}
			for i := range e.pad {
				e.pad[i] = mix(key, idx, i)
			}
			return e
		},
		dec: func(e bigWithString) (int, int, bool) {
			for i := range e.pad {
				if e.pad[i] != mix(e.key, e.idx, i) {
					return 0, 0, false
				}
			}
			return e.key, e.idx, nameIs(e.name, e.key, e.idx)
		},
		less: func(a, b bigWithString) bool { return a.key < b.key }, junk: junkBytes(24)}
}

// ---------------------------------------------------------------- reference kits

type node struct {
	key, idx int
	chk      uint64
	_        uint64
}

func junkNodes(m int) any {
	out := make([]*node, m)
	for i := range out {
		out[i] = &node{key: -7, idx: -7, chk: 7}
	}
	return out
}

func pointerKit() *kit[*node] {
	return &kit[*node]{name: "pointer", size: 8, nkeys: wideKeys, hasIdx: true,
		mk: func(key, idx int) *node { return &node{key: key, idx: idx, chk: mix(key, idx, 0)} },
		dec: func(e *node) (int, int, bool) {
			if e == nil {
				return 0, 0, false
			}
			return e.key, e.idx, e.chk == mix(e.key, e.idx, 0)
		},
		less: func(a, b *node) bool { return a.key < b.key }, junk: junkNodes}
}

func sliceKit() *kit[[]int] {
	return &kit[[]int]{name: "slice", size: 24, nkeys: wideKeys, hasIdx: true,
		mk: func(key, idx int) []int { return []int{key, idx, int(mix(key, idx, 1))} },
		dec: func(e []int) (int, int, bool) {
			if len(e) != 3 {
				return 0, 0, false
			}
			return e[0], e[1], e[2] == int(mix(e[0], e[1], 1))
		},
		less: func(a, b []int) bool { return a[0] < b[0] },
		junk: func(m int) any {
			out := make([][]int, m)
			for i := range out {
				out[i] = []int{-7, -7, -7}
			}
			return out
		}}
}

// ifaceKit: interface-typed elements: boxed structs, pointers, and exactly one unhashable dynamic value (a slice)
// at original index 1.
func ifaceKit() *kit[any] {
	decAny := func(e any) (int, int, bool) {
		switch v := e.(type) {
		case tagged:
			return v.key, v.idx, v.idx != 1 && v.idx%5 != 4
		case *node:
			if v == nil {
				return 0, 0, false
			}
			return v.key, v.idx, v.chk == mix(v.key, v.idx, 0) && v.idx != 1 && v.idx%5 == 4
		case []int:
			if len(v) != 3 {
				return 0, 0, false
			}
			return v[0], v[1], v[2] == int(mix(v[0], v[1], 1)) && v[1] == 1
		}
		return 0, 0, false
	}
	return &kit[any]{name: "interface(one-unhashable)", size: 16, nkeys: wideKeys, hasIdx: true,
		mk: func(key, idx int) any {
			switch {
			case idx == 1:
				return []int{key, idx, int(mix(key, idx, 1))}
			case idx%5 == 4:
				return &node{key: key, idx: idx, chk: mix(key, idx, 0)}
			}
			return tagged{key, idx}
		},
		dec: decAny,
		less: func(a, b any) bool {
			ka, _, _ := decAny(a)
			kb, _, _ := decAny(b)
			return ka < kb
		},
		junk: func(m int) any {
			out := make([]any, m)
			for i := range out {
				out[i] = tagged{-7, -7}
			}
			return []any{out, junkNodes(m / 4)}
		}}
}

func zeroSizeKit() *kit[struct{}] {
	return &kit[struct{}]{name: "zero-size", size: 0, nkeys: 1,
		mk:   func(int, int) struct{} { return struct{}{} },
		dec:  func(struct{}) (int, int, bool) { return 0, -1, true },
		less: func(a, b struct{}) bool { return false }}
}
