package c15

import (
	"fmt"
	"math"
	"sort"
	"testing"

	"gopkg.in/typ.v4/slices"
	"verifharness/internal/pbt"
)

// SCase: special inputs that small random slices do not reach.
//
//	"adversary"  N elements arranged by McIlroy's antiquicksort adversary run against the sort under test itself
//	             (Fn), then sorted again with an ordinary comparison: forces the sort's worst case / fallback paths
//	"iface"      a named slice type that implements sort.Interface with its OWN (different) Less is handed to Sort/SortDesc:
//	             the result must still be ascending/descending under <
//	"hugezero"   BinarySearchFunc on a slice of N zero-size elements (N near MaxInt: index arithmetic must not overflow)
type SCase struct {
	Kind string `json:"kind"`
	Fn   string `json:"fn,omitempty"`
	N    int    `json:"n"`
}

// byWeird implements sort.Interface with a Less that is NOT the natural order.
type byWeird []int

func (b byWeird) Len() int           { return len(b) }
func (b byWeird) Swap(i, j int)      { b[i], b[j] = b[j], b[i] }
func (b byWeird) Less(i, j int) bool { return b[i]%7 > b[j]%7 }

type strByLen []string

func (b strByLen) Len() int           { return len(b) }
func (b strByLen) Swap(i, j int)      { b[i], b[j] = b[j], b[i] }
func (b strByLen) Less(i, j int) bool { return len(b[i]) < len(b[j]) }

func sortWith(fn string, s []int, less func(a, b int) bool) {
	switch fn {
	case "SortFunc":
		slices.SortFunc(s, less)
	case "SortDescFunc":
		slices.SortDescFunc(s, less)
	case "SortStableFunc":
		slices.SortStableFunc(s, less)
	case "SortStableDescFunc":
		slices.SortStableDescFunc(s, less)
	}
}

// killer builds a permutation of 0..n-1 that is a worst case for the sort fn itself (M. D. McIlroy, "A Killer
// Adversary for Quicksort"): the items start as undetermined "gas" and get their values fixed only when the sort
// compares two gas items.
func killer(fn string, n int) []int {
	const gas = 1 << 40
	val := make([]int, n)
	for i := range val {
		val[i] = gas
	}
	nsolid, candidate := 0, 0
	ptr := make([]int, n)
	for i := range ptr {
		ptr[i] = i
	}
	cmp := func(x, y int) bool {
		if val[x] == gas && val[y] == gas {
			if x == candidate {
				val[x] = nsolid
			} else {
				val[y] = nsolid
			}
			nsolid++
		}
		if val[x] == gas {
			candidate = x
		} else if val[y] == gas {
			candidate = y
		}
		return val[x] < val[y]
	}
	sortWith(fn, ptr, cmp)
	out := make([]int, n)
	next := nsolid
	for i, v := range val {
		if v == gas {
			v = next
			next++
		}
		out[i] = v
	}
	return out
}

func RunSpecial(c SCase) pbt.Outcome {
	switch c.Kind {
	case "adversary":
		in := killer(c.Fn, c.N)
		for _, fn := range []string{"SortFunc", "SortDescFunc", "SortStableFunc", "SortStableDescFunc"} {
			s := append([]int(nil), in...)
			sortWith(fn, s, func(a, b int) bool { return a < b })
			desc := fn == "SortDescFunc" || fn == "SortStableDescFunc"
			seen := make([]bool, c.N)
			for i, v := range s {
				if v < 0 || v >= c.N || seen[v] {
					return pbt.Fail("%s on the %d-element adversarial input built against %s: result is not a permutation of the input (value %d at %d)", fn, c.N, c.Fn, v, i)
				}
				seen[v] = true
				if i > 0 && ((!desc && s[i-1] > v) || (desc && s[i-1] < v)) {
					return pbt.Fail("%s on the %d-element adversarial input built against %s: result is not ordered at positions %d,%d: %d, %d", fn, c.N, c.Fn, i-1, i, s[i-1], v)
				}
			}
		}
		// the Ordered variants on the same input
		s := append([]int(nil), in...)
		slices.Sort(s)
		if !sort.IntsAreSorted(s) {
			return pbt.Fail("Sort on the %d-element adversarial input built against %s is not ascending", c.N, c.Fn)
		}
		slices.SortDesc(s)
		for i, v := range s {
			if v != c.N-1-i {
				return pbt.Fail("SortDesc on the %d-element adversarial input built against %s: position %d holds %d, want %d", c.N, c.Fn, i, v, c.N-1-i)
			}
		}
		s = append(s[:0], in...)
		slices.SortDesc(s)
		for i, v := range s {
			if v != c.N-1-i {
				return pbt.Fail("SortDesc on the %d-element adversarial input built against %s: position %d holds %d, want %d", c.N, c.Fn, i, v, c.N-1-i)
			}
		}
		return pbt.Outcome{Evals: 5, NonTrivial: c.N >= 50, Labels: []string{"adversarial-input"}}
	case "iface":
		s := make(byWeird, c.N)
		for i := range s {
			s[i] = (i*37 + 11) % (c.N + 3)
		}
		want := append([]int(nil), s...)
		sort.Ints(want)
		slices.Sort(s)
		for i := range s {
			if s[i] != want[i] {
				return pbt.Fail("Sort on a named slice type that has its own sort.Interface methods (a different Less) did not sort ascending under <: got %v, want %v", []int(s), want)
			}
		}
		slices.SortDesc(s)
		for i := range s {
			if s[i] != want[len(want)-1-i] {
				return pbt.Fail("SortDesc on a named slice type with its own sort.Interface methods did not sort descending under <: got %v", []int(s))
			}
		}
		ss := make(strByLen, c.N)
		for i := range ss {
			ss[i] = fmt.Sprintf("%c%0*d", 'z'-byte(i%26), i%4, i)
		}
		wantS := append([]string(nil), ss...)
		sort.Strings(wantS)
		slices.Sort(ss)
		for i := range ss {
			if ss[i] != wantS[i] {
				return pbt.Fail("Sort on a named []string type with its own Less (by length) did not sort ascending under <: got %v, want %v", []string(ss), wantS)
			}
		}
		if c.N > 0 {
			if got := slices.BinarySearch(ss, wantS[c.N/2]); got != sort.SearchStrings(wantS, wantS[c.N/2]) {
				return pbt.Fail("BinarySearch on the named []string type returned %d, want %d", got, sort.SearchStrings(wantS, wantS[c.N/2]))
			}
		}
		return pbt.Outcome{Evals: 4, NonTrivial: c.N >= 3, Labels: []string{"named-type-with-own-sort.Interface"}}
	case "hugezero":
		s := make([]struct{}, c.N)
		if got := slices.BinarySearchFunc(s, func(struct{}) bool { return true }); got != c.N {
			return pbt.Fail("BinarySearchFunc over %d zero-size elements that are all less than the target returned %d, want len", c.N, got)
		}
		if got := slices.BinarySearchFunc(s, func(struct{}) bool { return false }); got != 0 {
			return pbt.Fail("BinarySearchFunc over %d zero-size elements none of which is less than the target returned %d, want 0", c.N, got)
		}
		return pbt.Outcome{Evals: 2, NonTrivial: c.N > math.MaxInt/2, Labels: []string{"huge-zero-size-slice"}}
	}
	return pbt.Outcome{}
}

var specSpecial = pbt.Register(&pbt.Spec[SCase]{
	Property: "C15", Name: "C15.special",
	Rule: "enumerated special inputs: (a) for each of the four Func sorts and n in {20,60,100,300,1000,4097,2^14+1} (thorough also 5000, 2^16+1, 2^18-1) the antiquicksort adversary is run against that sort itself and the resulting fixed input is sorted by all " +
		"sorts incl. Sort and SortDesc (permutation + order); (b) named slice types that carry their own sort.Interface methods with a different Less, n in 0..40; (c) BinarySearchFunc over huge slices of zero-size elements (len MaxInt, MaxInt/2+1, ...); " +
		"non-trivial = adversarial input of >=50 elements, named type with >=3 elements, zero-size slice longer than MaxInt/2; one case in eight is run once more as 4 independent copies in parallel goroutines",
	Enum: func(shard, shards int, tier string, yield func(SCase) bool) {
		sizes := []int{20, 60, 100, 300, 1000, 4097, 1<<14 + 1}
		if tier == "thorough" {
			sizes = append(sizes, 5000, 1<<16+1, 1<<18-1)
		}
		for _, fn := range []string{"SortFunc", "SortDescFunc", "SortStableFunc", "SortStableDescFunc"} {
			for _, n := range sizes {
				if !yield(SCase{Kind: "adversary", Fn: fn, N: n}) {
					return
				}
			}
		}
		for n := 0; n <= 40; n++ {
			if !yield(SCase{Kind: "iface", N: n}) {
				return
			}
		}
		for _, n := range []int{0, 1, 1000, math.MaxInt/2 - 1, math.MaxInt / 2, math.MaxInt/2 + 1, math.MaxInt/2 + 2, math.MaxInt - 1, math.MaxInt} {
			if !yield(SCase{Kind: "hugezero", N: n}) {
				return
			}
		}
	},
	Run: RunSpecial, Exhaustive: true,
	Replicas: 4, ReplicaEvery: 8,
})

func TestC15Special(t *testing.T) { pbt.Check(t, specSpecial) }
