package c15

import (
	"fmt"
	"math/rand"
	"sync"
	"testing"
	"time"

	"gopkg.in/typ.v4/slices"
	"verifharness/internal/pbt"
)

// RCase: ONE helper called Reps times in a row on tiny slices (anything inside the library that counts calls -
// generations, sampling counters, pooled scratch that is recycled - can only wrap or cross a threshold after 2^16 or
// 2^32 calls). With Par > 1 the repetitions are spread over Par goroutines, each on slices of its own.
// Every single result is checked.
type RCase struct {
	Fn   string `json:"fn"`
	Type string `json:"type"`
	N    int    `json:"n"`
	Reps int64  `json:"reps"`
	Par  int    `json:"par,omitempty"`
}

// repeatWorker runs reps calls; returns a message for the first wrong result.
func repeatWorker[E any](k *kit[E], c RCase, worker int, reps int64) string {
	n := c.N
	// the inputs: a window sliding over 2n prebuilt elements whose keys have ties and inversions
	keys2 := make([]int, 2*n)
	for i := range keys2 {
		keys2[i] = int(splitmix(uint64(i%n)*31+uint64(worker)) % uint64(n/2+2) % uint64(k.nkeys))
	}
	mkWindow := func(r int) ([]E, []int) { // fresh elements; original index = position in the window
		ks := keys2[r : r+n]
		s := make([]E, n)
		for i, x := range ks {
			s[i] = k.mk(x, i)
		}
		return s, ks
	}
	// all n windows prebuilt (elements are values; heap data is shared between repetitions, which is fine here)
	wins := make([][]E, n+1)
	winKeys := make([][]int, n+1)
	for r := 0; r <= n && (r == 0 || r < n); r++ {
		wins[r], winKeys[r] = mkWindow(r)
	}
	nwin := n
	if nwin == 0 {
		nwin = 1
	}
	s := make([]E, n)
	fail := func(rep int64, fn string, m string, r int) string {
		return fmt.Sprintf("call number %d of %s in a row on []%s of %d elements (goroutine %d of %d; every earlier call was correct), input keys %v: %s\nresult %s",
			rep+1, fn, k.name, n, worker+1, max1(c.Par), winKeys[r], m, k.show(s))
	}
	switch c.Fn {
	case "BinarySearch":
		// ascending keys 1,3,5,...: lower bound of target t is t/2, capped
		asc := make([]E, n)
		for i := range asc {
			asc[i] = k.mk((2*i+1)%k.nkeys, i)
		}
		if 2*n+1 >= k.nkeys {
			return ""
		}
		targets := make([]E, 2*n+2)
		for t := range targets {
			targets[t] = k.mk(t, guardIdx)
		}
		for rep := int64(0); rep < reps; rep++ {
			t := int(rep % int64(len(targets)))
			want := t / 2
			if want > n {
				want = n
			}
			target := targets[t]
			if got := slices.BinarySearchFunc(asc, func(e E) bool { return k.less(e, target) }); got != want {
				return fmt.Sprintf("call number %d of BinarySearchFunc in a row on ascending []%s with keys 1,3,..,%d, target key %d: got %d, want %d (every earlier call was correct)", rep+1, k.name, 2*n-1, t, got, want)
			}
			if k.ord != nil {
				if got := k.ord.search(asc, target, false); got != want {
					return fmt.Sprintf("call number %d of BinarySearch in a row on ascending []%s with keys 1,3,..,%d, target key %d: got %d, want %d (every earlier call was correct)", rep+1, k.name, 2*n-1, t, got, want)
				}
			}
		}
		return ""
	case "ShuffleRand":
		g1, g2 := rand.New(rand.NewSource(int64(worker)+1)), rand.New(rand.NewSource(int64(worker)+1))
		s2 := make([]E, n)
		for rep := int64(0); rep < reps; rep++ {
			r := int(rep % int64(nwin))
			copy(s, wins[r])
			copy(s2, wins[r])
			slices.ShuffleRand(s, g1)
			slices.ShuffleRand(s2, g2)
			for i := range s {
				k1, i1, ok1 := k.dec(s[i])
				k2, i2, ok2 := k.dec(s2[i])
				if !ok1 || !ok2 || k1 != k2 || i1 != i2 {
					return fail(rep, "ShuffleRand", "two generators with the same seed, used in lockstep, gave different results: the other is "+k.show(s2), r)
				}
			}
			var sum, wantSum uint64
			for i := range s {
				key, idx, _ := k.dec(s[i])
				sum += uint64(key)*1000003 + uint64(idx+7)*(uint64(idx)+13)
				idx = i
				if !k.hasIdx {
					idx = -1
				}
				wantSum += uint64(winKeys[r][i])*1000003 + uint64(idx+7)*(uint64(idx)+13)
			}
			if sum != wantSum || rep%1024 == 0 {
				if m := k.verify(s, winKeys[r], 0, false); m != "" {
					return fail(rep, "ShuffleRand", m, r)
				}
			}
		}
		return ""
	}
	for _, f := range funcsOf(k) {
		if f.name != c.Fn {
			continue
		}
		for rep := int64(0); rep < reps; rep++ {
			r := int(rep % int64(nwin))
			copy(s, wins[r])
			f.call(s, k.less, false)
			// inline check: ordered, stable, and a checksum over (key, idx); the full oracle only on suspicion
			bad := false
			var sum, wantSum uint64
			pi := -1
			for i := range s {
				key, idx, ok := k.dec(s[i])
				if !ok {
					bad = true
					break
				}
				sum += uint64(key)*1000003 + uint64(idx+7)*(uint64(idx)+13)
				if i > 0 {
					a, b := s[i-1], s[i]
					if f.dir < 0 {
						a, b = b, a
					}
					if k.less(b, a) || (f.stable && k.hasIdx && !k.less(a, b) && pi > idx) {
						bad = true
						break
					}
				}
				pi = idx
			}
			if !bad {
				for i, x := range winKeys[r] {
					idx := i
					if !k.hasIdx {
						idx = -1
					}
					wantSum += uint64(x)*1000003 + uint64(idx+7)*(uint64(idx)+13)
				}
				bad = sum != wantSum
			}
			if bad {
				m := k.verify(s, winKeys[r], f.dir, f.stable)
				if m == "" {
					m = "checksum over the elements differs from the input's"
				}
				return fail(rep, f.name, m, r)
			}
		}
		return ""
	}
	return "unknown helper " + c.Fn
}

func max1(x int) int {
	if x < 1 {
		return 1
	}
	return x
}

func runRepeat[E any](k *kit[E], c RCase) pbt.Outcome {
	par := max1(c.Par)
	msgs := make([]string, par)
	if par == 1 {
		msgs[0] = repeatWorker(k, c, 0, c.Reps)
	} else {
		var wg sync.WaitGroup
		for w := 0; w < par; w++ {
			w := w
			wg.Add(1)
			go func() {
				defer wg.Done()
				msgs[w] = repeatWorker(k, c, w, (c.Reps+int64(par)-1)/int64(par))
			}()
		}
		wg.Wait()
	}
	for _, m := range msgs {
		if m != "" {
			return pbt.Fail("%s", m)
		}
	}
	lab := []string{"fn:" + c.Fn, "type:" + k.name, fmt.Sprintf("reps>=2^%d", log2(int(c.Reps)))}
	if par > 1 {
		lab = append(lab, "spread-over-goroutines")
	}
	return pbt.Outcome{Evals: int(c.Reps), NonTrivial: c.Reps > 1<<16, Labels: lab}
}

func RunRepeat(c RCase) pbt.Outcome {
	r := runners[c.Type]
	if r == nil {
		return pbt.Outcome{Skipped: true}
	}
	return r.repeat(c)
}

var repeatFns = []string{"Sort", "SortDesc", "SortFunc", "SortDescFunc", "SortStableFunc", "SortStableDescFunc", "BinarySearch", "ShuffleRand"}

func repeatType(fn string, j int) string {
	if isOrderedFn(fn) {
		return []string{"int", "string-24-bytes", "uint8", "float64"}[j%4]
	}
	return []string{"struct-16-bytes", "int", "struct-128-bytes", "string-24-bytes", "pointer"}[j%5]
}

var specRepeat = pbt.Register(&pbt.Spec[RCase]{
	Property: "C15", Name: "C15.repeat",
	Rule: "enumerated: each of the eight helpers called 2^16+1000 times in a row (thorough: also 2^20+1000 and 2^24+1000 for lengths 2 and 13) on slices of 1, 2, 3, 8, 13 and 33 elements (keys with ties and inversions, " +
		"the input rotating from call to call), element types rotating over int, uint8, float64, 24-byte strings, 16- and 128-byte structs and pointers; once on one goroutine and once spread over 4 goroutines with " +
		"slices of their own; EVERY result is checked (ordered, stable, checksum over keys and original indices, full permutation oracle on any suspicion; searches: lower bound; ShuffleRand: two equal generators " +
		"in lockstep give equal results, permutation); non-trivial = more than 2^16 calls",
	Enum: func(shard, shards int, tier string, yield func(RCase) bool) {
		i := 0
		emit := func(c RCase) bool {
			i++
			if (i-1)%shards != shard {
				return true
			}
			return yield(c)
		}
		for fi, fn := range repeatFns {
			for ni, n := range []int{1, 2, 3, 8, 13, 33} {
				par := 1
				if (fi+ni)%2 == 1 {
					par = 4
				}
				if !emit(RCase{Fn: fn, Type: repeatType(fn, fi+ni), N: n, Reps: 1<<16 + 1000, Par: par}) {
					return
				}
			}
		}
		if tier == "thorough" {
			for fi, fn := range repeatFns {
				for ni, n := range []int{2, 13} {
					for ri, reps := range []int64{1<<20 + 1000, 1<<24 + 1000} {
						if !emit(RCase{Fn: fn, Type: repeatType(fn, fi+ni+ri), N: n, Reps: reps, Par: 1 + 3*((fi+ni+ri)%2)}) {
							return
						}
					}
				}
			}
		}
	},
	Run: RunRepeat, CaseCPU: 30 * time.Minute,
})

func TestC15Repeat(t *testing.T) { pbt.Check(t, specRepeat) }

// wrap32Fns: the helpers cheap enough for 2^32 calls (a few minutes each on 16 cores); the five other sorts cost 4 to
// 10 times as much per call (sort.Reverse / sort.Stable wrappers allocate) and are repeated 2^24 times by C15.repeat.
var wrap32Fns = []string{"BinarySearch", "Sort", "ShuffleRand"}

var specWrap32 = pbt.Register(&pbt.Spec[RCase]{
	Property: "C15", Name: "C15.wrap32",
	Rule: "thorough only: BinarySearch+BinarySearchFunc (3 int elements), Sort (2 int elements) and ShuffleRand (2 16-byte structs) called 2^32+2^20 times, the calls spread over 16 goroutines with slices of " +
		"their own; every result checked as in C15.repeat; non-trivial = always",
	Enum: func(shard, shards int, tier string, yield func(RCase) bool) {
		for fi, fn := range wrap32Fns {
			if fi%shards != shard {
				continue
			}
			tp, n := "struct-16-bytes", 2
			if isOrderedFn(fn) || fn == "BinarySearch" {
				tp = "int"
			}
			if fn == "BinarySearch" {
				n = 3
			}
			if !yield(RCase{Fn: fn, Type: tp, N: n, Reps: 1<<32 + 1<<20, Par: 16}) {
				return
			}
		}
	},
	Run: RunRepeat, CaseCPU: 12 * time.Hour,
})

func TestC15Wrap32(t *testing.T) { pbt.Check(t, specWrap32) }
