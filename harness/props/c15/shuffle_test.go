package c15

import (
	"math/rand"
	"testing"

	"gopkg.in/typ.v4/slices"
	"pgregory.net/rapid"
	"verifharness/internal/pbt"
)

// ShuffleCase: the slice is 0..N-1 (distinct elements, so every permutation is visible).
type ShuffleCase struct {
	N    int   `json:"n"`
	Seed int64 `json:"seed"`
}

const shuffleRule = "case = (n, seed); the slice is 0..n-1; ShuffleRand is run on two copies with two generators " +
	"rand.New(rand.NewSource(seed)): each result is a permutation, both results are identical, both generators are left in " +
	"the same state, and for n>=2 that state is not the initial one (the supplied generator was consumed); Shuffle (global " +
	"generator): permutation only; non-trivial = n >= 8 (an implementation that ignores its generator coincides with probability <= 1/40320); one case in eight is run once more as 4 independent copies in parallel goroutines"

func isPerm(s []int) bool {
	seen := make([]bool, len(s))
	for _, v := range s {
		if v < 0 || v >= len(s) || seen[v] {
			return false
		}
		seen[v] = true
	}
	return true
}

func RunShuffle(c ShuffleCase) pbt.Outcome {
	n := c.N
	ident := func() myInts {
		s := make(myInts, n)
		for i := range s {
			s[i] = i
		}
		return s
	}
	out := pbt.Outcome{Evals: 3}
	// The first line of each message depends on the case only; results that may differ between runs
	// (a broken implementation may draw from the global generator) follow on the second line.
	a, b := ident(), ident()
	ra, rb := rand.New(rand.NewSource(c.Seed)), rand.New(rand.NewSource(c.Seed))
	slices.ShuffleRand(a, ra)
	slices.ShuffleRand(b, rb)
	if len(a) != n || !isPerm(a) {
		return pbt.Fail("ShuffleRand(0..%d, seed %d): result is not a permutation of the input\ngot %v", n-1, c.Seed, []int(a))
	}
	if len(b) != n || !isPerm(b) {
		return pbt.Fail("ShuffleRand(0..%d, seed %d): result is not a permutation of the input\ngot %v", n-1, c.Seed, []int(b))
	}
	for i := range a {
		if a[i] != b[i] {
			return pbt.Fail("ShuffleRand(0..%d, seed %d) is not a function of the supplied generator: two generators with the same seed gave different results\ngot %v and %v", n-1, c.Seed, []int(a), []int(b))
		}
	}
	nextA, nextB := ra.Int63(), rb.Int63()
	if nextA != nextB {
		return pbt.Fail("ShuffleRand(0..%d, seed %d) left two generators with the same seed in different states\nnext values %d and %d", n-1, c.Seed, nextA, nextB)
	}
	if n >= 2 {
		if first := rand.New(rand.NewSource(c.Seed)).Int63(); nextA == first {
			return pbt.Fail("ShuffleRand(0..%d, seed %d) did not consume the supplied generator (its next value is still the first value of the stream, %d)", n-1, c.Seed, first)
		}
	}
	g := ident()
	slices.Shuffle(g)
	if len(g) != n || !isPerm(g) {
		return pbt.Fail("Shuffle(0..%d): result is not a permutation of the input\ngot %v", n-1, []int(g))
	}

	out.NonTrivial = n >= 8
	moved := false
	for i := range a {
		if a[i] != i {
			moved = true
		}
	}
	switch {
	case n <= 1:
		out.Labels = append(out.Labels, "n<=1")
	case n < 8:
		out.Labels = append(out.Labels, "n=2..7")
	default:
		out.Labels = append(out.Labels, "n>=8")
	}
	if moved {
		out.Labels = append(out.Labels, "shufflerand:order-changed")
	}
	return out
}

var specShuffle = pbt.Register(&pbt.Spec[ShuffleCase]{
	Property: "C15", Name: "C15.shuffle",
	Rule: "rapid: n in 0..60 (one case in eight below 8), any int64 seed; " + shuffleRule,
	Gen: func(t *rapid.T) ShuffleCase {
		n := 0
		if rapid.IntRange(0, 7).Draw(t, "short") == 0 {
			n = rapid.IntRange(0, 7).Draw(t, "n")
		} else {
			n = rapid.IntRange(8, 60).Draw(t, "n")
		}
		return ShuffleCase{N: n, Seed: rapid.Int64().Draw(t, "seed")}
	},
	Run: RunShuffle, Quick: 5000, Thorough: 30000,
	Replicas: 4, ReplicaEvery: 8,
})

func TestC15Shuffle(t *testing.T) { pbt.Check(t, specShuffle) }
