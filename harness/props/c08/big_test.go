package c08

import (
	"sort"
	"testing"

	"verifharness/internal/pbt"
)

// bigCounts returns the cell counts / row widths of the big unit: around every power of two from 2^5 to
// 2^maxK (p-1, p, p+1, 1.5p-1, 1.5p, 1.5p+1), round decimal numbers, and a few k*4096+r and k*65536+r.
func bigCounts(maxK int, all bool) []int {
	seen := map[int]bool{}
	var out []int
	add := func(n int) {
		if n >= 32 && n <= 1<<maxK+1 && !seen[n] {
			seen[n] = true
			out = append(out, n)
		}
	}
	for k := 5; k <= maxK; k++ {
		p := 1 << k
		for _, n := range []int{p - 1, p, p + 1, p + p/2 - 1, p + p/2, p + p/2 + 1} {
			if all || k <= 10 || (k <= 13 && n&1 == 1) || n == p+1 || n == p+p/2-1 {
				add(n)
			}
		}
	}
	for _, n := range []int{100, 1000, 10000, 65 * 64, 3*4096 + 1, 5*4096 - 1, 7*4096 + 2048, 65536 + 4097} {
		add(n)
	}
	if all {
		for _, n := range []int{100000, 1000000, 2*65536 - 3, 8192 + 4095, 33 * 1024, 1<<16 + 1<<12 + 1, 1<<20 + 1<<16 + 1<<12 + 1<<8 + 1} {
			add(n)
		}
	}
	sort.Ints(out)
	return out
}

// bigShapes returns shapes with n cells or a few more: one row, one column, three rows/columns, two exact
// factorisations near the square root when there is one, and the nearly square s x (s+1).
func bigShapes(n int) [][2]int {
	s := 1
	for (s+1)*(s+1) <= n {
		s++
	}
	shapes := [][2]int{{n, 1}, {1, n}, {(n + 2) / 3, 3}, {3, (n + 2) / 3}, {s, s + 1}}
	for d := s; d > s/2 && d > 1; d-- {
		if n%d == 0 {
			shapes = append(shapes, [2]int{d, n / d}, [2]int{n / d, d})
			break
		}
	}
	return shapes
}

// bigScript is the script run on every big shape: the fills reach the longest runs the shape allows.
func bigScript(w, h int, withString bool) []Op {
	ops := []Op{
		{K: OpFill, X1: 0, Y1: 0, X2: w - 1, Y2: h - 1},         // whole grid
		{K: OpFill, X1: w - 1, Y1: h - 1, X2: w / 3, Y2: h / 3}, // lower right part, corners swapped
	}
	if w >= 3 {
		ops = append(ops, Op{K: OpFill, X1: 1, Y1: 0, X2: w - 2, Y2: h - 1}) // all but the border columns
	}
	ops = append(ops,
		Op{K: OpFill, X1: w - 1, Y1: 0, X2: 0, Y2: h - 1, V: -1}, // the zero value over everything
		Op{K: OpRow, Y1: h - 1},
		Op{K: OpClone, B: w + h},
	)
	if h >= 3 {
		ops = append(ops, Op{K: OpFill, X1: 0, Y1: 1, X2: w - 1, Y2: h - 2}, Op{K: OpFill, X1: w / 2, Y1: h - 1, X2: w / 2, Y2: 1}) // all but the border rows, one column
	} else {
		ops = append(ops, Op{K: OpFill, X1: 0, Y1: h - 1, X2: w - 1, Y2: h - 1}) // last row alone
	}
	ops = append(ops,
		Op{K: OpRowSpan, X1: w / 2, X2: w - 1, Y1: 0},
		Op{K: OpSet, X1: w - 1, Y1: h - 1},
		Op{K: OpSet, X1: w, Y1: 0}, Op{K: OpGet, X1: w - 1, Y1: h}, Op{K: OpRow, Y1: h}, Op{K: OpFill, X1: 0, Y1: 0, X2: w, Y2: h - 1},
	)
	if withString {
		ops = append(ops, Op{K: OpString})
	}
	return ops
}

func bigCases(shard, shards int, tier string, yield func(Case) bool) {
	maxK := 17
	if tier == "thorough" {
		maxK = 20
	}
	counts := bigCounts(maxK, tier == "thorough")
	for i, n := range counts {
		if i%shards != shard {
			continue
		}
		for j, s := range bigShapes(n) {
			w, h := s[0], s[1]
			// constructors alone (New2DFilled with an ordinary value and with the zero value) ...
			if !yield(Case{W: w, H: h, Ctor: 1}) || !yield(Case{W: w, H: h, Ctor: 1, FillV: -1 - j%4}) {
				return
			}
			// ... jagged input with one row too many and every row one too long / alternately short
			jag := make([]int, h+1)
			for r := range jag {
				jag[r] = w + 1 - (r%3)*(j%2)
			}
			if !yield(Case{W: w, H: h, Ctor: 2, Jag: jag}) {
				return
			}
			// ... the rows of a flat matrix / of another Array2D as views: in order, two rows between the first and the last exchanged,
			// one of them a value short, one of them replaced by the first (a one-copy path may exist from some size on)
			if h >= 3 {
				v := &View{Stride: w, Rows: h, Via: (i+j)%2 == 1, Clip: (i+j)%4 >= 2}
				vc := Case{W: w, H: h, Ctor: 2, Jag: []int{w}, JagN: h, View: v}
				a, b := 1, h-2
				switch (i + j) % 4 {
				case 1:
					if b == a {
						b = h - 1
					}
					v.Set = [][2]int{{a, b * w}, {b, a * w}}
				case 2:
					vc.JagSet = [][2]int{{h / 2, w - 1}}
				case 3:
					v.Set = [][2]int{{h / 2, 0}}
				}
				if !yield(vc) {
					return
				}
			}
			// ... and the script on each constructor in turn (String on the one-row shape of every fourth count up to 2^17 cells),
			// with GOMAXPROCS left alone or set to 1, 2, 3, 5, 6, 7 in turn
			c := Case{W: w, H: h, Ctor: (i + j) % 3, Ops: bigScript(w, h, j == 0 && i%4 == 0 && n <= 1<<17), Procs: []int{0, 2, 1, 3, 5, 0, 7, 6}[(i*3+j)%8]}
			if c.Ctor == 2 {
				c.Jag = jag
			}
			if !yield(c) {
				return
			}
		}
	}
	// other element sizes: 1 byte, 16 bytes, 24 bytes with pointers, 96 bytes, zero-size
	for i, T := range []string{"u8", "f64x2", "slice", "padded", "unit", "any"} {
		if i%shards != shard {
			continue
		}
		for _, k := range []int{6, 9, 12, 13, 16} {
			if k == 16 && T != "u8" && T != "unit" && tier != "thorough" {
				continue
			}
			for _, n := range []int{1<<k - 1, 1<<k + 1, 1<<k + 1<<(k-1) + 1} {
				for j, s := range bigShapes(n)[:4] {
					w, h := s[0], s[1]
					if !yield(Case{T: T, W: w, H: h, Ctor: 1, FillV: -(j % 2)}) || !yield(Case{T: T, W: w, H: h, Ctor: j % 3, Ops: bigScript(w, h, false), Procs: []int{0, 2, 3, 7, 1, 5, 6}[(j+k)%7]}) {
						return
					}
				}
			}
		}
	}
}

var specBig = pbt.Register(&pbt.Spec[Case]{
	Property: "C08", Name: "C08.big",
	Rule: "enumerated: for every n in {2^k-1, 2^k, 2^k+1, 1.5*2^k-1, 1.5*2^k, 1.5*2^k+1 : k = 5..17 (thorough 20)} + {100, 1000, 10^4, 10^5, 65x64, 100x100, 3*4096+1, 5*4096-1, " +
		"7*4096+2048, 8192+4095, 65536+4097, 2*65536-3, ...} the shapes n x 1, 1 x n, ceil(n/3) x 3, 3 x ceil(n/3), s x (s+1), (s+1) x s (s = floor sqrt n) and an exact factorisation " +
		"near the square root: New2DFilled alone (ordinary value; a special value incl. the zero value), New2DFromJagged with h+1 rows of w+1 / shorter values, New2DFromJagged with the h >= 3 rows of a flat " +
		"matrix or of another Array2D given as views (in order; two middle rows exchanged; a middle row one value short; a middle row replaced by the first), and on one constructor " +
		"in turn the script Fill whole grid / lower right part with swapped corners / all but the border columns / zero value over everything / all but the border rows / one column " +
		"(or the last row), Clone with later writes on one side, Row and RowSpan windows written through and kept, Set at the last cell, calls just outside; so filled runs and copied " +
		"rows of every length around every power of two up to 2^17 (2^20) occur as a whole store, as one row of a rectangle and as a column; the scripts run with GOMAXPROCS as it is (16 here) and set to " +
		"1, 2, 3, 5, 6, 7 in turn; the same on the powers 6, 9, 12, 13 (16 for u8 and unit) " +
		"for the element types u8 (1 byte), f64x2 (16), slice (24, pointers), padded (96), any, unit (zero-size); " + rule,
	Enum: func(shard, shards int, tier string, yield func(Case) bool) { bigCases(shard, shards, tier, yield) },
	Run:  Run, Replicas: 4, ReplicaEvery: 16,
})

func TestC08Big(t *testing.T) { pbt.Check(t, specBig) }
