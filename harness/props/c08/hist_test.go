package c08

import (
	"fmt"
	"runtime"
	"runtime/debug"
	"strings"
	"syscall"
	"testing"
	"time"
	"unsafe"

	"gopkg.in/typ.v4/arrays"
	"verifharness/internal/pbt"
)

// Hist describes a special history on small arrays (Case.T = histT). Kinds:
//
//	gap    one call (Op) on array A, then Gap calls of the SAME function on other arrays with other data, then the
//	       call on A again; everything obtained before the gap (windows, strings, clones) is re-checked after it
//	sleep  every call on two arrays, time.Sleep(SleepMs), every call again
//	names  two function-local element types that are both called "job" (different layouts), used alternately
//	stack  jagged input and fill values that live in LOCAL fixed-size arrays of the caller; the results are
//	       compared after a deep recursion has moved the goroutine's stack and the locals were overwritten
//	guard  jagged input that ends exactly at the end of readable memory (the next page is PROT_NONE), or starts
//	       at the beginning of a mapping
//	cap    a returned window is written up to its CAPACITY: other arrays (clone, original, a second array) and
//	       the cells in front of the window must not change
type Hist struct {
	Kind    string `json:"kind"`
	Op      int    `json:"op,omitempty"`
	Gap     int    `json:"gap,omitempty"`
	SleepMs int    `json:"sleep_ms,omitempty"`
	Variant int    `json:"variant,omitempty"`
}

const histT = "hist"

// hOps are the calls of the small-array engine.
var hOps = []string{"Set", "Get", "Row", "RowSpan", "Fill", "Clone", "String", "New2DFilled", "New2DFromJagged"}

// harr is an array with its model and with what the caller still holds from earlier calls.
type harr[T any] struct {
	name string
	w, h int
	a    arrays.Array2D[T]
	m    []T
	mk   func(code int) T
	eq   func(a, b T) bool
	next *int // source of fresh value codes (shared by the arrays of a case)
	// kept results
	win    []T // window returned by the last Row/RowSpan
	winOff int
	winWho string
	str    string // result of the last String
	strW   string
	clone  *harr[T] // the last clone (frozen)
	last   string   // the last call, for messages
}

func newHarr[T any](name string, w, h int, mk func(int) T, eq func(a, b T) bool, next *int) *harr[T] {
	x := &harr[T]{name: name, w: w, h: h, mk: mk, eq: eq, next: next, m: make([]T, w*h)}
	x.a = arrays.New2D[T](w, h)
	return x
}

func (x *harr[T]) fresh() T {
	*x.next++
	return x.mk(*x.next)
}

func (x *harr[T]) render() string {
	var sb strings.Builder
	sb.WriteByte('[')
	for y := 0; y < x.h; y++ {
		if y > 0 {
			sb.WriteByte(' ')
		}
		sb.WriteByte('[')
		for i := 0; i < x.w; i++ {
			if i > 0 {
				sb.WriteByte(' ')
			}
			fmt.Fprint(&sb, x.m[y*x.w+i])
		}
		sb.WriteByte(']')
	}
	sb.WriteByte(']')
	return sb.String()
}

// check compares the whole array (Get and Row), its dimensions and everything kept with the model.
func (x *harr[T]) check() string {
	if x.a.Width() != x.w || x.a.Height() != x.h {
		return fmt.Sprintf("%s: Width,Height = %d,%d, want %d,%d", x.name, x.a.Width(), x.a.Height(), x.w, x.h)
	}
	for y := 0; y < x.h; y++ {
		row := x.a.Row(y)
		if len(row) != x.w {
			return fmt.Sprintf("%s: Row(%d) has length %d, want %d", x.name, y, len(row), x.w)
		}
		for i := 0; i < x.w; i++ {
			if got := x.a.Get(i, y); !x.eq(got, x.m[y*x.w+i]) {
				return fmt.Sprintf("%s: Get(%d,%d) = %v, want %v", x.name, i, y, got, x.m[y*x.w+i])
			}
			if !x.eq(row[i], x.m[y*x.w+i]) {
				return fmt.Sprintf("%s: Row(%d)[%d] = %v, want %v", x.name, y, i, row[i], x.m[y*x.w+i])
			}
		}
	}
	for i := range x.win {
		if !x.eq(x.win[i], x.m[x.winOff+i]) {
			return fmt.Sprintf("%s: the slice returned earlier by %s is no longer a live window: slice[%d] = %v, the cell = %v", x.name, x.winWho, i, x.win[i], x.m[x.winOff+i])
		}
	}
	if x.str != x.strW {
		return fmt.Sprintf("%s: the string returned earlier by String() changed: %s", x.name, firstDiff(x.str, x.strW))
	}
	if x.clone != nil {
		if v := x.clone.check(); v != "" {
			return "the clone made earlier of " + v
		}
	}
	return ""
}

// op performs call number k with arguments derived from i, checks its result and updates the model.
func (x *harr[T]) op(k, i int) (viol string) {
	w, h := x.w, x.h
	px, py := mod(i*7+3, w), mod(i*5+1, h)
	defer func() {
		if p := recover(); p != nil {
			viol = fmt.Sprintf("%s: %s (inside the bounds) panicked: %v", x.name, x.last, p)
		}
	}()
	switch hOps[mod(k, len(hOps))] {
	case "Set":
		v := x.fresh()
		x.last = fmt.Sprintf("Set(%d,%d,%v)", px, py, v)
		x.a.Set(px, py, v)
		x.m[py*w+px] = v
	case "Get":
		x.last = fmt.Sprintf("Get(%d,%d)", px, py)
		if got := x.a.Get(px, py); !x.eq(got, x.m[py*w+px]) {
			return fmt.Sprintf("%s: %s = %v, want %v", x.name, x.last, got, x.m[py*w+px])
		}
	case "Row", "RowSpan":
		x1, x2 := 0, w-1
		var win []T
		if hOps[mod(k, len(hOps))] == "Row" {
			x.last = fmt.Sprintf("Row(%d)", py)
			win = x.a.Row(py)
		} else {
			x1, x2 = px, mod(i*3+2, w)
			if x1 > x2 {
				x1, x2 = x2, x1
			}
			x.last = fmt.Sprintf("RowSpan(%d,%d,%d)", x1, x2, py)
			win = x.a.RowSpan(x1, x2, py)
		}
		off := py*w + x1
		if len(win) != x2-x1+1 {
			return fmt.Sprintf("%s: %s has length %d, want %d", x.name, x.last, len(win), x2-x1+1)
		}
		for j := range win {
			if !x.eq(win[j], x.m[off+j]) {
				return fmt.Sprintf("%s: %s[%d] = %v, want %v", x.name, x.last, j, win[j], x.m[off+j])
			}
		}
		j := mod(i, len(win))
		v := x.fresh()
		win[j] = v // written through
		x.m[off+j] = v
		x.last += fmt.Sprintf(" and slice[%d] = %v", j, v)
		x.win, x.winOff, x.winWho = win, off, x.last
	case "Fill":
		x1, y1, x2, y2 := px, py, mod(i*3+2, w), mod(i*11+2, h)
		v := x.fresh()
		x.last = fmt.Sprintf("Fill(%d,%d,%d,%d,%v)", x1, y1, x2, y2, v)
		x.a.Fill(x1, y1, x2, y2, v)
		if x1 > x2 {
			x1, x2 = x2, x1
		}
		if y1 > y2 {
			y1, y2 = y2, y1
		}
		for y := y1; y <= y2; y++ {
			for c := x1; c <= x2; c++ {
				x.m[y*w+c] = v
			}
		}
	case "Clone":
		x.last = "Clone()"
		cl := &harr[T]{name: "clone of " + x.name, w: w, h: h, mk: x.mk, eq: x.eq, next: x.next, m: append([]T(nil), x.m...)}
		cl.a = x.a.Clone()
		if v := cl.check(); v != "" {
			return v
		}
		x.clone = cl
	case "String":
		x.last = "String()"
		s, want := x.a.String(), x.render()
		if s != want {
			return fmt.Sprintf("%s: String() is wrong: %s", x.name, firstDiff(s, want))
		}
		x.str, x.strW = s, want
	case "New2DFilled": // a new array takes the place of the old one (whose windows and strings are forgotten, its clone is kept)
		v := x.fresh()
		x.last = fmt.Sprintf("New2DFilled(%d,%d,%v)", w, h, v)
		x.a = arrays.New2DFilled(w, h, v)
		for j := range x.m {
			x.m[j] = v
		}
		x.win = nil
	case "New2DFromJagged": // rows one value too long, one row too many
		rows := make([][]T, h+1)
		for y := range rows {
			rows[y] = make([]T, w+1)
			for c := range rows[y] {
				rows[y][c] = x.fresh()
			}
		}
		x.last = fmt.Sprintf("New2DFromJagged(%d,%d, %d rows of %d fresh values)", w, h, h+1, w+1)
		x.a = arrays.New2DFromJagged(w, h, rows)
		for y := 0; y < h; y++ {
			copy(x.m[y*w:(y+1)*w], rows[y])
		}
		for y := range rows { // the caller reuses its input
			for c := range rows[y] {
				rows[y][c] = x.mk(0)
			}
		}
		x.win = nil
	}
	return ""
}

func intHarr(name string, w, h int, next *int) *harr[int] {
	return newHarr(name, w, h, func(c int) int { return c }, func(a, b int) bool { return a == b }, next)
}

// runGap: see Hist.
func runGap(c Case, out *pbt.Outcome) string {
	hh := c.Hist
	if hh.Gap < 0 || hh.Gap > 1<<22 {
		out.Skipped = true
		return ""
	}
	next := 1000
	a := intHarr("the 5x3 array a", 5, 3, &next)
	others := []*harr[int]{intHarr("the 2x7 array b", 2, 7, &next), intHarr("the 1x1 array c", 1, 1, &next), intHarr("the 4x4 array d", 4, 4, &next)}
	k := mod(hh.Op, len(hOps))
	name := hOps[k]
	out.Labels = append(out.Labels, "gap:op:"+name, fmt.Sprintf("gap:%d-calls-on-other-arrays-in-between", hh.Gap))
	// every array gets contents, and a holds a window, a string and a clone from before the gap
	for _, x := range append([]*harr[int]{a}, others...) {
		for _, pre := range []int{4, 0, 2, 6, 5} {
			if v := x.op(pre, 1); v != "" {
				return "preparing: " + v
			}
		}
	}
	if v := a.op(k, 0); v != "" {
		return v
	}
	first := a.last
	if v := a.check(); v != "" {
		return "after " + first + ": " + v
	}
	// a changes through OTHER functions before the gap (what the first call computed is stale by the time of the second)
	for _, m := range []int{0, 4} {
		if m != k {
			if v := a.op(m, 2); v != "" {
				return v
			}
			first += ", a." + a.last
		}
	}
	for i := 0; i < hh.Gap; i++ {
		x := others[i%len(others)]
		if v := x.op(k, i); v != "" {
			return fmt.Sprintf("after a.%s and %d calls of %s on the arrays b, c, d: %s", first, i, name, v)
		}
		if i%8192 == 8191 {
			if v := x.check(); v != "" {
				return fmt.Sprintf("after a.%s and %d calls of %s on the arrays b, c, d (last: %s): %s", first, i+1, name, x.last, v)
			}
		}
		out.Evals++
	}
	where := fmt.Sprintf("after a.%s and then %d calls of %s on the arrays b, c, d", first, hh.Gap, name)
	if v := a.check(); v != "" {
		return where + ": " + v
	}
	if v := a.op(k, 1); v != "" {
		return where + ": " + v
	}
	for _, x := range append([]*harr[int]{a}, others...) {
		if v := x.check(); v != "" {
			return fmt.Sprintf("%s and a.%s: %s", where, a.last, v)
		}
	}
	out.NonTrivial = hh.Gap >= 1<<16-1
	return ""
}

// everyCall runs every call once on each of the arrays in turn, with a full check of all arrays after every call.
func everyCall[T any](xs []*harr[T], round int, out *pbt.Outcome) string {
	for k := range hOps {
		for j, x := range xs {
			if v := x.op(k, round*3+j); v != "" {
				return v
			}
			out.Evals++
			for _, y := range xs {
				if v := y.check(); v != "" {
					return fmt.Sprintf("after %s on %s: %s", x.last, x.name, v)
				}
			}
		}
	}
	return ""
}

// runSleep: see Hist.
func runSleep(c Case, out *pbt.Outcome) string {
	hh := c.Hist
	if hh.SleepMs < 0 || hh.SleepMs > 20000 {
		out.Skipped = true
		return ""
	}
	next := 1000
	xs := []*harr[int]{intHarr("the 5x3 array a", 5, 3, &next), intHarr("the 64x40 array b", 64, 40, &next)}
	out.Labels = append(out.Labels, fmt.Sprintf("sleep:%dms", hh.SleepMs))
	for r := 0; r < 2; r++ {
		if v := everyCall(xs, r, out); v != "" {
			return v
		}
	}
	time.Sleep(time.Duration(hh.SleepMs) * time.Millisecond)
	where := fmt.Sprintf("every call twice on two arrays, then time.Sleep(%d ms)", hh.SleepMs)
	if hh.Variant%2 == 1 {
		runtime.GC()
		where += " and runtime.GC()"
	}
	for _, x := range xs {
		if v := x.check(); v != "" {
			return where + ": " + v
		}
	}
	for r := 2; r < 4; r++ {
		if v := everyCall(xs, r, out); v != "" {
			return where + ", then " + v
		}
	}
	out.NonTrivial = hh.SleepMs >= 2000
	return ""
}

// Two element types that are both called "job" (function-local types of two functions), of different layouts.

func namesSteps(next *int, variant int) (a, b func(k, i int) string, ca, cb func() string, ta, tb string) {
	mkA := func() (func(k, i int) string, func() string, string) {
		type job struct {
			id   int32
			cost float64
		}
		x := newHarr("the 3x2 array of the first type job (struct{int32; float64})", 3, 2,
			func(c int) job { return job{int32(c), float64(c) / 2} }, func(p, q job) bool { return p == q }, next)
		return x.op, x.check, fmt.Sprintf("%T", job{})
	}
	mkB := func() (func(k, i int) string, func() string, string) {
		type job struct {
			name string
			deps *int
			tags []string
		}
		shared := new(int)
		w, h := 3, 2
		if variant%2 == 1 {
			w, h = 2, 5
		}
		x := newHarr(fmt.Sprintf("the %dx%d array of the second type job (struct{string; *int; []string})", w, h), w, h,
			func(c int) job { return job{name: fmt.Sprint("j", c), deps: shared, tags: []string{"t"}[:c%2]} },
			func(p, q job) bool { return p.name == q.name && p.deps == q.deps && len(p.tags) == len(q.tags) }, next)
		return x.op, x.check, fmt.Sprintf("%T", job{})
	}
	a, ca, ta = mkA()
	b, cb, tb = mkB()
	return
}

// runNames: see Hist.
func runNames(c Case, out *pbt.Outcome) string {
	next := 1000
	a, b, ca, cb, ta, tb := namesSteps(&next, c.Hist.Variant)
	if ta != tb {
		out.Skipped = true // the two types must print the same name, else the case shows nothing
		return ""
	}
	out.Labels = append(out.Labels, "names:two-types-printed-as-"+ta)
	for round := 0; round < 6; round++ {
		for k := range hOps {
			for j, op := range []func(k, i int) string{a, b} {
				if v := op(k, round*5+j); v != "" {
					return v
				}
				out.Evals++
				if v := ca(); v != "" {
					return fmt.Sprintf("two element types named %s used alternately, after %s on the %s one: %s", ta, hOps[k], []string{"first", "second"}[j], v)
				}
				if v := cb(); v != "" {
					return fmt.Sprintf("two element types named %s used alternately, after %s on the %s one: %s", ta, hOps[k], []string{"first", "second"}[j], v)
				}
			}
		}
		if round == 2 && c.Hist.Variant&2 == 2 {
			runtime.GC()
		}
	}
	out.NonTrivial = true
	return ""
}

//go:noinline
func growStack(n int) int {
	var pad [128]int
	pad[n%128] = n
	if n <= 0 {
		return pad[0]
	}
	return growStack(n-1) + pad[(n+1)%128]
}

// stackBody runs on a goroutine of its own (whose stack starts small): the inputs live in local arrays.
func stackBody(w, h, depth, variant int, evals *int) string {
	var buf [256]int
	var rowsBuf [16][]int
	if w < 1 || h < 1 || w*h > len(buf) || h > len(rowsBuf) {
		return ""
	}
	for i := range buf {
		buf[i] = 5000 + i
	}
	rows := rowsBuf[:h]
	for y := range rows {
		rows[y] = buf[y*w : (y+1)*w]
	}
	fillv := [4]int{71, 72, 73, 74}
	a := arrays.New2DFromJagged(w, h, rows)
	f := arrays.New2DFilled(w, h, fillv[variant%4])
	cl := a.Clone()
	win := a.Row(h - 1)
	str := a.String()
	growStack(depth) // the goroutine's stack is reallocated and copied
	if variant&4 == 4 {
		runtime.GC()
	}
	for i := range buf { // the caller reuses its locals
		buf[i] = -1
	}
	fillv = [4]int{}
	want := func(x, y int) int { return 5000 + y*w + x }
	for y := 0; y < h; y++ {
		for x := 0; x < w; x++ {
			*evals++
			if got := a.Get(x, y); got != want(x, y) {
				return fmt.Sprintf("New2DFromJagged(%d,%d, rows that are slices of a local [256]int array): after a recursion %d deep and after the local array was overwritten Get(%d,%d) = %d, want %d", w, h, depth, x, y, got, want(x, y))
			}
			if got := cl.Get(x, y); got != want(x, y) {
				return fmt.Sprintf("Clone of New2DFromJagged(%d,%d, rows of a local array): after a recursion %d deep Get(%d,%d) = %d, want %d", w, h, depth, x, y, got, want(x, y))
			}
			if got := f.Get(x, y); got != 71+variant%4 {
				return fmt.Sprintf("New2DFilled(%d,%d, element of a local array): after a recursion %d deep Get(%d,%d) = %d, want %d", w, h, depth, x, y, got, 71+variant%4)
			}
		}
	}
	for x := range win {
		if win[x] != want(x, h-1) {
			return fmt.Sprintf("Row(%d) kept over a recursion %d deep: slice[%d] = %d, want %d", h-1, depth, x, win[x], want(x, h-1))
		}
	}
	if s := a.String(); s != str {
		return fmt.Sprintf("String() before and after a recursion %d deep differ: %s", depth, firstDiff(s, str))
	}
	return ""
}

// runStack: see Hist.
func runStack(c Case, out *pbt.Outcome) string {
	depth := c.Hist.Gap
	if depth < 0 || depth > 200000 {
		out.Skipped = true
		return ""
	}
	res := make(chan string, 1)
	evals := 0
	go func() {
		defer func() {
			if p := recover(); p != nil {
				res <- fmt.Sprintf("inputs in local arrays, %dx%d, recursion %d deep: panic: %v", c.W, c.H, depth, p)
			}
		}()
		res <- stackBody(c.W, c.H, depth, c.Hist.Variant, &evals)
	}()
	v := <-res
	out.Evals = evals
	out.Labels = append(out.Labels, fmt.Sprintf("stack:recursion-depth=%d", depth))
	out.NonTrivial = depth >= 100 && c.W != c.H
	return v
}

// guardRows maps pages+1 pages, makes the last one inaccessible and returns the readable bytes.
func guardMap(pages int) (mem []byte, free func(), err error) {
	ps := syscall.Getpagesize()
	all, err := syscall.Mmap(-1, 0, (pages+1)*ps, syscall.PROT_READ|syscall.PROT_WRITE, syscall.MAP_ANON|syscall.MAP_PRIVATE)
	if err != nil {
		return nil, nil, err
	}
	if err := syscall.Mprotect(all[pages*ps:], syscall.PROT_NONE); err != nil {
		syscall.Munmap(all)
		return nil, nil, err
	}
	return all[: pages*ps : pages*ps], func() { syscall.Munmap(all) }, nil
}

// guardCase builds a jagged input of element type T (pointer-free) inside the mapping and calls New2DFromJagged.
func guardCase[T comparable](c Case, out *pbt.Outcome, tn string, mk func(int) T) string {
	w, h, variant := c.W, c.H, c.Hist.Variant
	size := int(unsafe.Sizeof(*new(T)))
	if w < 1 || h < 1 || w*h*size > 1<<20 {
		out.Skipped = true
		return ""
	}
	rowLen := w + []int{0, 0, 1, -1}[variant%4] // rows exactly as wide as the array, longer, shorter
	if rowLen < 1 {
		rowLen = 1
	}
	nrows := h + []int{0, 1, 0, 0, -1}[variant%5]
	if nrows < 1 {
		nrows = 1
	}
	ps := syscall.Getpagesize()
	need := rowLen * nrows * size
	pages := (need+ps-1)/ps + 1
	mem, free, err := guardMap(pages)
	if err != nil {
		out.Inconclusive = "mmap/mprotect: " + err.Error()
		return ""
	}
	defer free()
	atStart := variant&8 == 8
	off := len(mem) - need // the flat matrix ends exactly at the inaccessible page
	place := "ending exactly at an inaccessible page"
	if atStart {
		off, place = 0, "starting at the beginning of a mapping"
	}
	flat := unsafe.Slice((*T)(unsafe.Pointer(&mem[off])), rowLen*nrows)
	for i := range flat {
		flat[i] = mk(i)
	}
	rows := make([][]T, nrows)
	for y := range rows {
		r := y
		if variant&16 == 16 { // every row is the LAST row of the matrix (the one that touches the page end)
			r = nrows - 1
		}
		if atStart && variant&16 == 16 {
			r = 0
		}
		rows[y] = flat[r*rowLen : (r+1)*rowLen : (r+1)*rowLen]
	}
	out.Labels = append(out.Labels, "guard:"+place, "guard:type:"+tn)
	what := fmt.Sprintf("New2DFromJagged(%d,%d, %d rows of %d %s values, views of one flat buffer %s)", w, h, nrows, rowLen, tn, place)
	old := debug.SetPanicOnFault(true)
	defer debug.SetPanicOnFault(old)
	var a arrays.Array2D[T]
	if p := try(func() { a = arrays.New2DFromJagged(w, h, rows) }); p != nil {
		return fmt.Sprintf("%s panicked: %v", what, p)
	}
	var zero T
	for y := 0; y < h; y++ {
		for x := 0; x < w; x++ {
			want := zero
			if y < nrows && x < rowLen {
				want = rows[y][x]
			}
			out.Evals++
			if got := a.Get(x, y); got != want {
				return fmt.Sprintf("%s: Get(%d,%d) = %v, want %v", what, x, y, got, want)
			}
		}
	}
	out.NonTrivial = w != h
	return ""
}

type rgb struct{ r, g, b uint8 }

// runGuard: see Hist.
func runGuard(c Case, out *pbt.Outcome) string {
	switch mod(c.Hist.Op, 4) {
	case 0:
		return guardCase(c, out, "uint8", func(i int) uint8 { return uint8(i*7 + 1) })
	case 1:
		return guardCase(c, out, "int", func(i int) int { return 9000 + i })
	case 2:
		return guardCase(c, out, "struct{r,g,b uint8}", func(i int) rgb { return rgb{uint8(i), uint8(i >> 8), 3} })
	}
	return guardCase(c, out, "[2]float64", func(i int) [2]float64 { return [2]float64{float64(i), 0.5} })
}

// runCap: see Hist. Nothing is asserted about the cells of the SAME array that follow the window (today the
// capacity of a window reaches to the end of the array's store): the model is re-read there.
func runCap(c Case, out *pbt.Outcome) string {
	w, h, variant := c.W, c.H, c.Hist.Variant
	if w < 1 || h < 1 || w*h > 1<<12 {
		out.Skipped = true
		return ""
	}
	next := 1000
	a := intHarr(fmt.Sprintf("the %dx%d array a", w, h), w, h, &next)
	b := intHarr(fmt.Sprintf("the %dx%d array b", h+1, w), h+1, w, &next)
	xs := []*harr[int]{a, b}
	for _, k := range []int{7 + variant%2, 4, 0, 6, 5} { // constructor, Fill, Set, String, Clone
		for _, x := range xs {
			if v := x.op(k, variant); v != "" {
				return "preparing: " + v
			}
		}
	}
	// the array whose window is stretched: a, or the clone of a (then a itself is one of the bystanders)
	t := a
	if variant&2 == 2 {
		t = a.clone
		a.clone = nil
		xs = append(xs, t)
	}
	y := mod(c.Hist.Op, h)
	x1 := mod(variant/4, w)
	var win []int
	what := ""
	if variant&1 == 1 {
		win, what = t.a.Row(y), fmt.Sprintf("Row(%d)", y)
		x1 = 0
	} else {
		win, what = t.a.RowSpan(x1, w-1, y), fmt.Sprintf("RowSpan(%d,%d,%d)", x1, w-1, y)
	}
	off := y*w + x1
	ext := win[:cap(win)]
	out.Labels = append(out.Labels, fmt.Sprintf("cap:window-capacity-beyond-length:%v", cap(win) > len(win)))
	for i := range ext {
		next++
		ext[i] = next
		if i < len(win) {
			t.m[off+i] = next
		}
	}
	where := fmt.Sprintf("after writing the slice returned by %s of %s up to its capacity (%d elements, length %d)", what, t.name, cap(win), len(win))
	for i := 0; i < off; i++ {
		if got := t.a.Get(i%w, i/w); got != t.m[i] {
			return fmt.Sprintf("%s: cell (%d,%d) IN FRONT of the window changed: %d, want %d", where, i%w, i/w, got, t.m[i])
		}
	}
	for i := off + len(win); i < w*h; i++ { // not asserted
		t.m[i] = t.a.Get(i%w, i/w)
	}
	t.win, t.str, t.strW = nil, "", ""
	for _, x := range xs {
		if v := x.check(); v != "" {
			return where + ": " + v
		}
	}
	if v := everyCall(xs, 1, out); v != "" {
		return where + ", then " + v
	}
	out.NonTrivial = w != h
	return ""
}

func runHist(c Case) pbt.Outcome {
	out := pbt.Outcome{}
	if c.Hist == nil {
		out.Skipped = true
		return out
	}
	var v string
	switch c.Hist.Kind {
	case "gap":
		v = runGap(c, &out)
	case "sleep":
		v = runSleep(c, &out)
	case "names":
		v = runNames(c, &out)
	case "stack":
		v = runStack(c, &out)
	case "guard":
		v = runGuard(c, &out)
	case "cap":
		v = runCap(c, &out)
	default:
		out.Skipped = true
	}
	out.Labels = append(out.Labels, "hist:"+c.Hist.Kind)
	if v != "" {
		return pbt.Fail("%s", v)
	}
	return out
}

func init() { runners[histT] = runHist }

func histCases(shard, shards int, tier string, yield func(Case) bool) {
	thorough := tier == "thorough"
	i := 0
	emit := func(c Case) bool {
		i++
		if i%shards != shard {
			return true
		}
		c.T = histT
		return yield(c)
	}
	// sleep first: these cases take seconds of wall time but no CPU
	sleeps := []int{2100}
	if thorough {
		sleeps = []int{2100, 5100, 2100, 10100}
	}
	for j, ms := range sleeps {
		if !emit(Case{Hist: &Hist{Kind: "sleep", SleepMs: ms, Variant: j}}) {
			return
		}
	}
	gaps := []int{1<<16 - 1, 1 << 16, 1<<16 + 1}
	if thorough {
		gaps = []int{1<<16 - 2, 1<<16 - 1, 1 << 16, 1<<16 + 1, 1<<17 - 1, 1 << 17, 1<<15 - 1, 1 << 15, 1<<18 - 1, 1 << 18}
	}
	for _, g := range gaps {
		for k := range hOps {
			if !emit(Case{Hist: &Hist{Kind: "gap", Op: k, Gap: g}}) {
				return
			}
		}
	}
	for v := 0; v < 4; v++ {
		if !emit(Case{Hist: &Hist{Kind: "names", Variant: v}}) {
			return
		}
	}
	shapes := [][2]int{{3, 2}, {2, 3}, {1, 1}, {8, 8}, {16, 16}, {64, 4}, {5, 16}, {256, 1}, {1, 16}, {7, 5}}
	for si, s := range shapes {
		for di, depth := range []int{0, 10, 100, 1000, 10000, 60000} {
			if !thorough && (si+di)%2 == 1 {
				continue
			}
			if !emit(Case{W: s[0], H: s[1], Hist: &Hist{Kind: "stack", Gap: depth, Variant: si + di}}) {
				return
			}
		}
	}
	gshapes := [][2]int{{3, 2}, {2, 3}, {1, 1}, {8, 8}, {64, 64}, {4096, 1}, {1, 4096}, {4095, 3}, {17, 241}, {1024, 4}, {5, 1}}
	for si, s := range gshapes {
		for op := 0; op < 4; op++ {
			for v := 0; v < 32; v++ {
				if !thorough && (v+si+op)%4 != 0 {
					continue
				}
				if !emit(Case{W: s[0], H: s[1], Hist: &Hist{Kind: "guard", Op: op, Variant: v}}) {
					return
				}
			}
		}
	}
	for _, s := range [][2]int{{3, 2}, {2, 3}, {1, 1}, {4, 4}, {7, 1}, {1, 7}, {16, 5}} {
		for y := 0; y < s[1]; y++ {
			for v := 0; v < 4*s[0] && v < 16; v++ {
				if !emit(Case{W: s[0], H: s[1], Hist: &Hist{Kind: "cap", Op: y, Variant: v}}) {
					return
				}
			}
		}
	}
}

var specHist = pbt.Register(&pbt.Spec[Case]{
	Property: "C08", Name: "C08.hist",
	Rule: "enumerated special histories on small arrays, all calls checked against a flat cell model with fresh unique values, the whole array (Get and Row) and everything the caller still holds (last window, " +
		"last String result, last clone) compared after the calls: " +
		"sleep = every call (Set, Get, Row, RowSpan, Fill, Clone, String, New2DFilled, New2DFromJagged) twice on a 5x3 and a 64x40 array, time.Sleep(2.1 s) (thorough also 5.1 s, 10.1 s; odd variants + runtime.GC()), full check, every call twice again; " +
		"gap = one call on a 5x3 array a (then a Set and a Fill on a), then exactly 2^16 - 1, 2^16, 2^16 + 1 (thorough also 2^16 - 2, 2^15 - 1, 2^15, 2^17 - 1, 2^17, 2^18 - 1, 2^18) calls of the SAME function with other arguments on three other arrays (2x7, 1x1, 4x4) in turn, " +
		"then the windows/strings/clones of a from before the gap are re-checked and the call is made on a again - for each of the nine calls; " +
		"names = two function-local element types both printed as c08.job (struct{int32; float64} and struct{string; *int; []string}), arrays of both used alternately through all nine calls for six rounds (optionally a runtime.GC() in the middle); " +
		"stack = on a fresh goroutine: New2DFromJagged from rows that are slices of a LOCAL [256]int array (the row list a local [16][]int), New2DFilled with an element of a local array, Clone, Row, String; then a recursion " +
		"0, 10, 100, 1000, 10000, 60000 frames deep (the stack is moved), optionally runtime.GC(), the locals overwritten, and everything compared - shapes 3x2, 2x3, 1x1, 8x8, 16x16, 64x4, 5x16, 256x1, 1x16, 7x5 (quick: every other pair); " +
		"guard = New2DFromJagged whose rows are views of one flat buffer of pointer-free elements (uint8, int, struct{r,g,b uint8}, [2]float64) that ENDS EXACTLY at an inaccessible page (mmap + mprotect PROT_NONE; debug.SetPanicOnFault) or starts at the beginning " +
		"of a mapping; rows as long as the width / one longer / one shorter, as many as the height / one more / one fewer, in order or every row the same last (first) row; shapes 3x2, 2x3, 1x1, 8x8, 64x64, 4096x1, 1x4096, 4095x3, 17x241, 1024x4, 5x1 " +
		"(quick: a quarter of the 32 variants per shape and type); " +
		"cap = the slice returned by Row(y) / RowSpan(x1,w-1,y) of an array (or of its clone) is written up to its CAPACITY: the cells in front of the window, the other arrays (original or clone, a second array), their " +
		"kept strings and clones must not change (the cells of the same array behind the window are NOT asserted), then every call on all arrays - shapes 3x2, 2x3, 1x1, 4x4, 7x1, 1x7, 16x5, every row. " +
		"non-trivial = gap >= 2^16 - 1 / sleep >= 2 s / recursion >= 100 on a non-square shape / a non-square shape",
	Enum:   histCases,
	Run:    Run,
	Crashy: true, // a read beyond an input, a stale pointer into a moved stack kill the process
})

func TestC08Hist(t *testing.T) { pbt.Check(t, specHist) }
