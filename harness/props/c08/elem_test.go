package c08

import (
	"fmt"
	"math"
	"strconv"
	"strings"
	"testing"
	"time"

	"verifharness/internal/pbt"
)

// ---------------------------------------------------------------- more element types (C08.elem)
//
// The element types of C08.types are mostly "structural" (non-comparable, zero-size, padded ...). This unit adds
// the plain numeric kinds in every width with values over their whole range (both signs, top of the range),
// floats whose shortest decimal text depends on the width of the type (0.1 as a float32 is not 0.1 as a
// float64), named types with and without formatting methods of every flavour, interface cells holding those
// values, and pairs of DISTINCT types with the same printed type name (declared locally in two functions).
// The oracle is the one of every other unit: the cell model, with String rendered by fmt.Fprint of each cell.

// elemOrder lists the element types of this unit (they are registered as runners but not in typeOrder).
var elemOrder []string

func regElem[T any](name string, mk func() *desc[T]) {
	regType(name, mk)
	typeOrder = typeOrder[:len(typeOrder)-1] // not part of C08.types / C08.rand
	elemOrder = append(elemOrder, name)
}

// spread maps a code to a number in [0, 2^20) such that codes that differ a little map to different numbers.
func spread(c int) int {
	u := uint64(c) * 0x9E3779B97F4A7C15
	return int(u >> 44)
}

// temp32 is a named float32 without methods; temp64 a named float64 without methods.
type temp32 float32
type temp64 float64

// ptrStringer has a String method on the POINTER receiver only: fmt.Fprint of a value does not use it.
type ptrStringer struct{ V int8 }

func (p *ptrStringer) String() string { return "P" + strconv.Itoa(int(p.V)) }

// formatter has a Format method (fmt.Formatter), which wins over String.
type formatter uint16

func (f formatter) Format(s fmt.State, verb rune) { fmt.Fprintf(s, "<%c:%d>", verb, uint16(f)) }
func (f formatter) String() string                { return "never" }

// errStringer has both Error and String: Error wins.
type errStringer int32

func (e errStringer) Error() string  { return "err" + strconv.Itoa(int(e)) }
func (e errStringer) String() string { return "str" + strconv.Itoa(int(e)) }

// goStringer has only a GoString method: %v does not use it.
type goStringer uint32

func (g goStringer) GoString() string { return "never" }

// f32Stringer is a float32 with a String method that prints the shortest float32 text with a unit.
type f32Stringer float32

func (f f32Stringer) String() string { return strconv.FormatFloat(float64(f), 'g', -1, 32) + "m" }

// panicky has a String method that panics for odd values: fmt prints %!v(PANIC=String method: ...).
type panicky int

func (p panicky) String() string {
	if p%2 != 0 {
		panic("odd")
	}
	return "even" + strconv.Itoa(int(p))
}

// named string with a String method, and a plain named string
type label string

func (l label) String() string { return "«" + string(l) + "»" }

type plainLabel string

// f32pair is a struct of floats of both widths, mixed is a struct of small ints and a float32.
type f32pair struct {
	A float32
	B float64
}
type mixed struct {
	I int8
	U uint8
	F float32
	S string
}

func f32eq(a, b float32) bool {
	return math.Float32bits(a) == math.Float32bits(b) || (a != a && b != b)
}

// f32of gives a float32 with up to three decimals in [-524.288, 524.288): almost never exactly representable.
func f32of(c int) float32 { return float32(spread(c)-1<<19) / 1000 }

// f64of gives a float64 whose shortest text has many digits (the float32 nearest to it prints shorter).
func f64of(c int) float64 { return float64(spread(c)-1<<19)/1000 + float64(c%977)*1e-9 }

var f32specials = []float32{0, float32(math.Copysign(0, -1)), float32(math.NaN()), float32(math.Inf(1)), float32(math.Inf(-1)),
	math.SmallestNonzeroFloat32, math.MaxFloat32, -math.MaxFloat32, 0.1, 3.3, 1e-7, 16777216, 16777217, 1e6, 999999.94, 1e20, 1e21, 1e-4, 1e-5, 0.3, 1.0 / 3, 123456789}

var f64specials = []float64{0, math.Copysign(0, -1), math.NaN(), math.Inf(1), math.Inf(-1), math.SmallestNonzeroFloat64, math.MaxFloat64, -math.MaxFloat64,
	0.1, 3.3, 1e-7, 1 << 53, 1<<53 + 2, 1e6, 999999.9999999999, 1e20, 1e21, 1e-4, 1e-5, 0.1 + 0.2, 1.0 / 3, 123456789, float64(float32(0.1)), 5e-324, 1e23}

func regCmp[T comparable](name string, ord func(c int) T, specials []T) {
	regElem(name, func() *desc[T] {
		return &desc[T]{name: name, nspecial: len(specials), eq: func(a, b T) bool { return a == b }, val: mkval(ord, specials)}
	})
}

// localA and localB each declare a type called "cell" (and "num"): two distinct types, both printed "c08.cell".
func localA() {
	type cell struct{ V int }
	type num int8
	regCmp("cellA", func(c int) cell { return cell{V: c} }, []cell{{}, {V: -1}})
	regCmp("numA", func(c int) num { return num(spread(c)) }, []num{0, -128, 127})
}

func localB() {
	type cell struct {
		V float32
		W string
	}
	type num float32
	regElem("cellB", func() *desc[cell] {
		return &desc[cell]{name: "cellB", nspecial: 2, eq: func(a, b cell) bool { return f32eq(a.V, b.V) && a.W == b.W },
			val: mkval(func(c int) cell { return cell{V: f32of(c), W: "w" + strconv.Itoa(c%7)} }, []cell{{}, {V: 0.1, W: " "}})}
	})
	regElem("numB", func() *desc[num] {
		return &desc[num]{name: "numB", nspecial: 3, eq: func(a, b num) bool { return f32eq(float32(a), float32(b)) },
			val: mkval(func(c int) num { return num(f32of(c)) }, []num{0, 0.1, -3.3})}
	})
}

func init() {
	// every integer kind, values over the whole range and both signs; specials[0] is the zero value
	regCmp("i8", func(c int) int8 { return int8(spread(c)) }, []int8{0, -1, math.MinInt8, math.MaxInt8, -100, 100})
	regCmp("u8w", func(c int) uint8 { return uint8(spread(c)) }, []uint8{0, 255, 128, 127, 100, 200})
	regCmp("i16", func(c int) int16 { return int16(spread(c)) }, []int16{0, -1, math.MinInt16, math.MaxInt16})
	regCmp("u16", func(c int) uint16 { return uint16(spread(c)) }, []uint16{0, math.MaxUint16, 1 << 15})
	regCmp("i32", func(c int) int32 { return int32(spread(c)-1<<19) * 4093 }, []int32{0, -1, math.MinInt32, math.MaxInt32})
	regCmp("u32", func(c int) uint32 { return uint32(spread(c)) * 4093 }, []uint32{0, math.MaxUint32, 1 << 31, 1<<31 - 1})
	regCmp("i64", func(c int) int64 { return int64(spread(c)-1<<19) << 43 }, []int64{0, -1, math.MinInt64, math.MaxInt64, math.MinInt32 - 1, math.MaxUint32 + 1})
	regCmp("u64", func(c int) uint64 { return uint64(spread(c)) << 44 }, []uint64{0, math.MaxUint64, 1 << 63, 1<<63 - 1, math.MaxUint32 + 1, 1<<63 + 1})
	regCmp("uint", func(c int) uint { return uint(spread(c)) << 44 }, []uint{0, math.MaxUint, 1 << 63, 1<<63 - 1})
	regCmp("uptr", func(c int) uintptr { return uintptr(spread(c)) << 40 }, []uintptr{0, math.MaxUint64, 1 << 63, 10, 255})
	regCmp("rune", func(c int) rune { return rune(spread(c) % 0x11000) }, []rune{0, 'a', -1, 0x10FFFF, 0xFFFD})
	regCmp("bool", func(c int) bool { return spread(c)&1 == 1 }, []bool{false, true})
	// floats of both widths with texts that depend on the width
	regElem("f32", func() *desc[float32] {
		return &desc[float32]{name: "f32", nspecial: len(f32specials), eq: f32eq, val: mkval(f32of, f32specials)}
	})
	regElem("f64d", func() *desc[float64] {
		return &desc[float64]{name: "f64d", nspecial: len(f64specials), eq: f64eq, val: mkval(f64of, f64specials)}
	})
	regElem("c64", func() *desc[complex64] {
		nz := float32(math.Copysign(0, -1))
		return &desc[complex64]{name: "c64", nspecial: 5,
			eq:  func(a, b complex64) bool { return f32eq(real(a), real(b)) && f32eq(imag(a), imag(b)) },
			val: mkval(func(c int) complex64 { return complex(f32of(c), -f32of(c+1)) }, []complex64{0, complex(nz, nz), complex(0.1, 3.3), complex(float32(math.NaN()), 1e-7), complex(float32(math.Inf(-1)), 1e21)})}
	})
	regElem("c128d", func() *desc[complex128] {
		return &desc[complex128]{name: "c128d", nspecial: 3,
			eq:  func(a, b complex128) bool { return f64eq(real(a), real(b)) && f64eq(imag(a), imag(b)) },
			val: mkval(func(c int) complex128 { return complex(f64of(c), -f64of(c+1)) }, []complex128{0, complex(0.1, 0.1+0.2), complex(1e21, 1e-7)})}
	})
	regElem("temp32", func() *desc[temp32] {
		return &desc[temp32]{name: "temp32", nspecial: 4, eq: func(a, b temp32) bool { return f32eq(float32(a), float32(b)) },
			val: mkval(func(c int) temp32 { return temp32(f32of(c)) }, []temp32{0, 0.1, -3.3, 1e-7})}
	})
	regElem("temp64", func() *desc[temp64] {
		return &desc[temp64]{name: "temp64", nspecial: 3, eq: func(a, b temp64) bool { return f64eq(float64(a), float64(b)) },
			val: mkval(func(c int) temp64 { return temp64(f64of(c)) }, []temp64{0, 0.1, temp64(float32(0.1))})}
	})
	regElem("f32x3", func() *desc[[3]float32] {
		return &desc[[3]float32]{name: "f32x3", nspecial: 2,
			eq:  func(a, b [3]float32) bool { return f32eq(a[0], b[0]) && f32eq(a[1], b[1]) && f32eq(a[2], b[2]) },
			val: mkval(func(c int) [3]float32 { return [3]float32{f32of(c), 0.1, -f32of(c)} }, [][3]float32{{}, {0.1, 3.3, 1e-7}})}
	})
	regElem("f32pair", func() *desc[f32pair] {
		return &desc[f32pair]{name: "f32pair", nspecial: 2, eq: func(a, b f32pair) bool { return f32eq(a.A, b.A) && f64eq(a.B, b.B) },
			val: mkval(func(c int) f32pair { return f32pair{A: f32of(c), B: f64of(c)} }, []f32pair{{}, {A: 0.1, B: 0.1}})}
	})
	regElem("mixed", func() *desc[mixed] {
		return &desc[mixed]{name: "mixed", nspecial: 2, eq: func(a, b mixed) bool { return a.I == b.I && a.U == b.U && f32eq(a.F, b.F) && a.S == b.S },
			val: mkval(func(c int) mixed { return mixed{I: int8(spread(c)), U: uint8(spread(c) >> 8), F: f32of(c), S: strconv.Itoa(c % 11)} }, []mixed{{}, {I: -128, U: 255, F: 0.1}})}
	})
	regElem("bytes", func() *desc[[]byte] {
		return &desc[[]byte]{name: "bytes", nspecial: 3,
			eq: func(a, b []byte) bool {
				return (a == nil) == (b == nil) && len(a) == len(b) && (len(a) == 0 || &a[0] == &b[0])
			},
			val: mkval(memo(func(c int) []byte { return []byte{byte(spread(c)), byte(c), 200} }), [][]byte{nil, {}, {0, 255}})}
	})
	regCmp("u8x4", func(c int) [4]uint8 { s := spread(c); return [4]uint8{uint8(s), uint8(s >> 8), uint8(c), 255} }, [][4]uint8{{}, {255, 128, 127, 1}})
	regCmp("i8x2", func(c int) [2]int8 { s := spread(c); return [2]int8{int8(s), int8(s >> 8)} }, [][2]int8{{}, {-128, 127}})
	// named types with formatting methods of every flavour
	regCmp("ptrstringer", func(c int) ptrStringer { return ptrStringer{V: int8(spread(c))} }, []ptrStringer{{}, {V: -128}})
	regElem("ptrstringerp", func() *desc[*ptrStringer] {
		return &desc[*ptrStringer]{name: "ptrstringerp", nspecial: 1, eq: func(a, b *ptrStringer) bool { return a == b },
			val: mkval(memo(func(c int) *ptrStringer { return &ptrStringer{V: int8(spread(c))} }), []*ptrStringer{nil})}
	})
	regCmp("formatter", func(c int) formatter { return formatter(spread(c)) }, []formatter{0, math.MaxUint16})
	regCmp("errstringer", func(c int) errStringer { return errStringer(spread(c) - 1<<19) }, []errStringer{0, math.MinInt32})
	regCmp("gostringer", func(c int) goStringer { return goStringer(spread(c)) }, []goStringer{0, math.MaxUint32})
	regElem("f32stringer", func() *desc[f32Stringer] {
		return &desc[f32Stringer]{name: "f32stringer", nspecial: 3, eq: func(a, b f32Stringer) bool { return f32eq(float32(a), float32(b)) },
			val: mkval(func(c int) f32Stringer { return f32Stringer(f32of(c)) }, []f32Stringer{0, 0.1, 1e-7})}
	})
	regCmp("panicky", func(c int) panicky { return panicky(spread(c) - 1<<19) }, []panicky{0, 1, -1})
	regCmp("label", func(c int) label { return label("l" + strconv.Itoa(spread(c))) }, []label{"", " ", "] ["})
	regCmp("plainlabel", func(c int) plainLabel { return plainLabel("p" + strconv.Itoa(spread(c))) }, []plainLabel{"", "\n", "%d"})
	regCmp("duration", func(c int) time.Duration { return time.Duration(spread(c)-1<<19) * 1_000_003 }, []time.Duration{0, math.MinInt64, math.MaxInt64, 1, 1500 * time.Millisecond})
	regCmp("stringerif", func(c int) fmt.Stringer {
		s := spread(c)
		switch s % 4 {
		case 0:
			return celsius(s)
		case 1:
			return label(strconv.Itoa(s))
		case 2:
			return f32Stringer(f32of(c))
		}
		return time.Duration(s)
	}, []fmt.Stringer{nil, celsius(0), (*ptrStringer)(nil)})
	// interface cells holding values of all those types (float32 next to float64 of the "same" value, ...)
	regElem("anynum", func() *desc[any] {
		return &desc[any]{name: "anynum", nspecial: 12, eq: anyEq,
			val: mkval(memo(func(c int) any {
				s := spread(c)
				switch s % 16 {
				case 0:
					return f32of(c)
				case 1:
					return f64of(c)
				case 2:
					return int8(s >> 4)
				case 3:
					return uint8(s >> 4)
				case 4:
					return uint64(s)<<44 | 1<<63
				case 5:
					return int64(s-1<<19) << 43
				case 6:
					return temp32(f32of(c))
				case 7:
					return complex(f32of(c), float32(0.1))
				case 8:
					return [2]float32{f32of(c), 3.3}
				case 9:
					return f32pair{A: f32of(c), B: f64of(c)}
				case 10:
					return s&16 != 0
				case 11:
					return uintptr(s)
				case 12:
					return formatter(s)
				case 13:
					return int16(s)
				case 14:
					return uint32(s) * 4093
				}
				return f32Stringer(f32of(c))
			}), []any{nil, float32(0.1), float64(0.1), float64(float32(0.1)), float32(1e-7), uint64(math.MaxUint64), int8(-128), uint8(255), float32(16777216), float32(1e21), uint(1 << 63), true})}
	})
	localA()
	localB()
}

// elemShapes: small shapes of every kind, two shapes with more than 256 cells (every int8/uint8 value occurs)
// and two with a row of more than 64 cells.
func elemShapes(tier string) [][2]int {
	s := [][2]int{{1, 0}, {1, 1}, {3, 2}, {2, 3}, {17, 16}, {129, 3}}
	if tier == "thorough" {
		s = append(s, [][2]int{{0, 0}, {0, 2}, {4, 4}, {70, 1}, {1, 70}, {3, 3}, {5, 2}, {2, 5}, {33, 2}, {2, 33}, {16, 33}, {3, 130}, {257, 2}, {40, 40}}...)
	}
	return s
}

var specElem = pbt.Register(&pbt.Spec[Case]{
	Property: "C08", Name: "C08.elem",
	Rule: "enumerated: every element type of {i8 int8, u8w uint8 (all 256 values of both, spread by a hash of the value code), i16, u16, i32, u32, i64 (MinInt64, MaxInt64), u64 / uint / uptr uintptr " +
		"(values above 2^63, MaxUint64), rune, bool, f32 float32 with values k/1000 that are not exactly representable plus 0.1, 3.3, 1e-7, 2^24, 2^24+1, 1e6, 999999.94, 1e20, 1e21, 1e-4, 1e-5, 1/3, " +
		"MaxFloat32, the smallest denormal, -0.0, NaN, +-Inf; f64d float64 with many-digit values plus the same magnitudes, float64(float32(0.1)), 2^53+2, 0.1+0.2, 1e23; c64 complex64, c128d complex128, " +
		"temp32 / temp64 named floats without methods, f32x3 [3]float32, f32pair struct{float32; float64}, mixed struct{int8; uint8; float32; string}, bytes []byte, u8x4 [4]uint8, i8x2 [2]int8, " +
		"ptrstringer (String on the pointer receiver only; as value and as pointer cells incl. nil), formatter (fmt.Formatter and String), errstringer (Error and String), gostringer (GoString only), " +
		"f32stringer (float32 with String), panicky (String panics for odd values), label (named string with String), plainlabel (named string; \"\\n\", \"%d\"), duration time.Duration, " +
		"stringerif (fmt.Stringer cells holding four dynamic types, nil, a nil pointer), anynum (any cells holding float32 next to float64, int8, uint8, uint64 above 2^63, int64, named float32, complex64, " +
		"[2]float32, structs, bool, uintptr, formatter, int16, uint32, a Stringer float32), cellA / cellB and numA / numB (two pairs of DISTINCT types with the same printed name c08.cell / c08.num, declared " +
		"locally in two functions: struct{int} vs struct{float32; string}, int8 vs float32; all cases run in one process)} x shapes 1x0, 1x1, 3x2, 2x3 and, in quick with the jagged constructor alone (every cell a value of its own), 17x16, 129x3 " +
		"(shapes of more than 100 cells: the jagged constructor alone, in both tiers; thorough: also 0x0, 0x2, 4x4, 70x1, 1x70, 3x3, 5x2, 2x5, 33x2, 2x33, 16x33, 3x130, 257x2, 40x40) x the canonical cases of C08.enum (constructors alone incl. New2DFilled with the ordinary value and with EVERY special " +
		"value of the type, 10 jagged inputs; the two-array script; the scripts set/row/span/fill/clone/keep on each constructor; thorough: all scripts). Values are compared by bit pattern " +
		"(floats) or identity (slices, pointers), String with the per-cell fmt.Fprint rendering of the model (whatever fmt prints for the type, incl. its %!v(PANIC=...) text); " + rule,
	Enum: func(shard, shards int, tier string, yield func(Case) bool) {
		for i, T := range elemOrder {
			if strings.HasPrefix(T, "cell") || strings.HasPrefix(T, "num") {
				i = 0 // the same-named local types all run in the process of shard 0
			}
			if i%shards != shard {
				continue
			}
			for _, s := range elemShapes(tier) {
				if s[0]*s[1] > 100 { // in both tiers (the full scripts on these shapes did not finish within the thorough budget)
					// more than 256 cells, each with a value of its own: the jagged constructor alone
					for _, j := range jagVariants(s[0], s[1]) {
						if !yield(Case{T: T, W: s[0], H: s[1], Ctor: 2, Jag: j}) {
							return
						}
					}
					continue
				}
				if !enumShape(T, s[0], s[1], tier != "thorough", yield) {
					return
				}
			}
		}
	},
	Run: Run, Replicas: 4, ReplicaEvery: 16,
})

func TestC08Elem(t *testing.T) { pbt.Check(t, specElem) }
