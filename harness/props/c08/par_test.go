package c08

import (
	"bytes"
	"fmt"
	"math/bits"
	"runtime"
	"testing"

	"gopkg.in/typ.v4/arrays"
	"verifharness/internal/pbt"
)

// leanMax bounds the grids of the row-wise executor.
const leanMax = 1 << 28

// rowEq compares a row window with the expected cells; it returns the first index that differs, or -1.
func rowEq[T any](row, want []T, d *desc[T]) int {
	n := len(row)
	if len(want) < n {
		n = len(want)
	}
	switch r := any(row).(type) {
	case []uint8:
		w := any(want).([]uint8)
		if bytes.Equal(r[:n], w[:n]) {
			return -1
		}
		for i := 0; i < n; i++ {
			if r[i] != w[i] {
				return i
			}
		}
	case []int:
		w := any(want).([]int)
		for i := 0; i < n; i++ {
			if r[i] != w[i] {
				return i
			}
		}
		return -1
	}
	for i := 0; i < n; i++ {
		if !d.eq(row[i], want[i]) {
			return i
		}
	}
	return -1
}

// fillSlice assigns v to every element (by doubling copies, so that a model of 2^26 cells costs little).
func fillSlice[T any](s []T, v T) {
	if len(s) == 0 {
		return
	}
	s[0] = v
	for n := 1; n < len(s); n *= 2 {
		copy(s[n:], s[:n])
	}
}

// leanDiff compares the array with the model row by row: Row(y) must have the width as its length and show the
// model's cells, and Get must return the model's cell in the columns xs - in every row if there are at most
// 4096 rows, else in about 4096 rows spread over the grid and in the rows ys (and their neighbours). "" if equal.
func leanDiff[T any](a arrays.Array2D[T], m *model[T], d *desc[T], xs, ys []int) (msg string) {
	y := 0
	var cols []int
	for _, x := range xs {
		if x >= 0 && x < m.w {
			cols = append(cols, x)
		}
	}
	every := m.h/4096 + 1
	gets := func(y int, want []T) bool {
		for _, x := range cols {
			if got := a.Get(x, y); !d.eq(got, want[x]) {
				msg = fmt.Sprintf("Get(%d,%d) = %v, want %v", x, y, got, want[x])
				return false
			}
		}
		return true
	}
	p := try(func() {
		for y = 0; y < m.h; y++ {
			row := a.Row(y)
			want := m.cells[y*m.w : (y+1)*m.w]
			if len(row) != m.w {
				msg = fmt.Sprintf("Row(%d) has length %d, want %d", y, len(row), m.w)
				return
			}
			if i := rowEq(row, want, d); i >= 0 {
				msg = fmt.Sprintf("cell (%d,%d), read through Row(%d), = %v, want %v", i, y, y, row[i], want[i])
				return
			}
			if y%every == 0 && !gets(y, want) {
				return
			}
		}
		if every > 1 {
			for _, y0 := range append([]int{0, m.h - 1}, ys...) {
				for y = y0 - 1; y <= y0+1; y++ {
					if y >= 0 && y < m.h && !gets(y, m.cells[y*m.w:(y+1)*m.w]) {
						return
					}
				}
			}
		}
	})
	if p != nil {
		return fmt.Sprintf("Row(%d) / Get(..,%d) (inside the bounds) panicked: %v", y, y, p)
	}
	return msg
}

func log2Label(prefix string, n int) string {
	if n <= 0 {
		return prefix + "0"
	}
	k := bits.Len(uint(n)) - 1
	if k < 18 {
		return prefix + "<2^18"
	}
	return fmt.Sprintf("%s2^%d..2^%d-1", prefix, k, k+1)
}

// runLean executes a case on a very large grid. The cell model is the same as in runT; what differs is how the
// array is read back after every operation: through Row(y) for every row (compared as a block) plus Get in a
// handful of columns of every row (the edges of the last rectangle and of the grid), and one Get over the
// whole grid at the end of the case. Scripts are short; String is not called (the text would be gigabytes).
func runLean[T any](c Case, d *desc[T]) pbt.Outcome {
	out := pbt.Outcome{}
	w, h := c.W, c.H
	if w < 0 || h < 0 || w > leanMax || h > leanMax || w*h > leanMax || d.zeroSize {
		out.Skipped = true
		return out
	}
	lab := func(l string) { out.Labels = append(out.Labels, l) }
	shape := fmt.Sprintf("%dx%d", w, h)
	tn := d.name
	if tn == "" {
		tn = "int"
	}
	shape += " " + tn
	lab("type:" + tn)
	lab("lean(row-wise read-back)")
	lab(log2Label("cells:", w*h))
	procs := runtime.GOMAXPROCS(0)
	m := &model[T]{w: w, h: h, cells: make([]T, w*h)}
	// a table of values, neighbours all different: value number i of a large input is table[i % 251]
	table := make([]T, 251)
	for i := range table {
		table[i] = d.val(3000 + i)
	}
	tval := func(code int) T { return table[code%len(table)] }
	var a arrays.Array2D[T]
	var ctor string
	var p any
	var jin *jagInput[T]
	switch mod(c.Ctor, 3) {
	case 0:
		ctor = fmt.Sprintf("New2D(%d,%d)", w, h)
		p = try(func() { a = arrays.New2D[T](w, h) })
		lab("ctor:New2D")
	case 1:
		code := c.FillV
		if code == 0 {
			code = 7
		}
		v := d.val(code)
		ctor = fmt.Sprintf("New2DFilled(%d,%d,%s)", w, h, valName(code, v))
		fillSlice(m.cells, v)
		p = try(func() { a = arrays.New2DFilled(w, h, v) })
		lab("ctor:New2DFilled")
	case 2:
		jin = buildJagged(c, w, h, tval, m, 2*leanMax)
		if jin == nil {
			out.Skipped = true
			return out
		}
		ctor = fmt.Sprintf("New2DFromJagged(%d,%d, %s)", w, h, jin.text)
		p = try(func() { a = arrays.New2DFromJagged(w, h, jin.rows) })
		lab("ctor:New2DFromJagged")
		out.Labels = append(out.Labels, jin.labels...)
	}
	ctor += fmt.Sprintf(" with GOMAXPROCS=%d", procs)
	if p != nil {
		return pbt.Fail("%s (element type %s) panicked: %v", ctor, typeName(d), p)
	}
	if a.Width() != w || a.Height() != h {
		return pbt.Fail("%s: Width,Height = %d,%d", ctor, a.Width(), a.Height())
	}
	edge := []int{0, 1, w / 2, w - 2, w - 1}
	if df := leanDiff(a, m, d, edge, nil); df != "" {
		return pbt.Fail("%s (element type %s): %s", ctor, typeName(d), df)
	}
	if jin != nil {
		if jin.overwrite(func(code int) T { return table[(code+100)%len(table)] }) > 0 {
			if df := leanDiff(a, m, d, edge, nil); df != "" {
				return pbt.Fail("%s (element type %s), then the caller overwrote the jagged input: the array changed: %s", ctor, typeName(d), df)
			}
			lab("jag:input-overwritten-afterwards")
		}
		jin = nil // the input may be collected
	}
	out.Evals = 1

	next := 1000
	fresh := func() (T, int) {
		next++
		return d.val(next), next
	}
	type leanKept struct {
		win  []T
		m    *model[T]
		off  int
		what string
	}
	var wit *witness[T]
	var keeps []leanKept
	var calls []string
	history := func() string {
		hs := ctor + ";"
		for _, s := range calls {
			hs += " " + s + ";"
		}
		return hs
	}
	verify := func(step int, call string, xs, ys []int) string {
		if df := leanDiff(a, m, d, xs, ys); df != "" {
			return fmt.Sprintf("%s array, step %d, after %s: %s; history: %s", shape, step, call, df, history())
		}
		if wit != nil {
			if df := leanDiff(wit.a, wit.m, d, nil, nil); df != "" {
				return fmt.Sprintf("%s array, step %d, after %s on the other side: the %s changed: %s; history: %s", shape, step, call, wit.what(), df, history())
			}
		}
		for _, k := range keeps {
			if i := rowEq(k.win, k.m.cells[k.off:k.off+len(k.win)], d); i >= 0 {
				return fmt.Sprintf("%s array, step %d, after %s: the slice returned earlier by %s is no longer a live window: slice[%d] = %v, the cell = %v; history: %s",
					shape, step, call, k.what, i, k.win[i], k.m.cells[k.off+i], history())
			}
		}
		return ""
	}
	big := false
	for step, op := range c.Ops {
		k := mod(op.K, int(nOps))
		call := opName[k]
		xs := edge
		var ys []int
		fail := func(format string, args ...any) pbt.Outcome {
			return pbt.Fail("%s array, step %d, %s: %s; history: %s", shape, step, call, fmt.Sprintf(format, args...), history())
		}
		switch k {
		case OpSet, OpGet:
			x, y := op.X1, op.Y1
			in := m.inX(x) && m.inY(y)
			if k == OpSet {
				v, code := fresh()
				if op.V < 0 && d.nspecial > 0 {
					v, code = d.val(op.V), op.V
				}
				call = fmt.Sprintf("Set(%d,%d,%s)", x, y, valName(code, v))
				p := try(func() { a.Set(x, y, v) })
				if in != (p == nil) {
					return fail("panic = %v, but the coordinate is inside the bounds: %v", p, in)
				}
				if in {
					m.cells[y*w+x] = v
					lab("Set:in")
				} else {
					lab("Set:oob")
				}
			} else {
				call = fmt.Sprintf("Get(%d,%d)", x, y)
				var got T
				p := try(func() { got = a.Get(x, y) })
				if in != (p == nil) {
					return fail("panic = %v, but the coordinate is inside the bounds: %v", p, in)
				}
				if in && !d.eq(got, m.cells[y*w+x]) {
					return fail("= %v, want %v", got, m.cells[y*w+x])
				}
				lab("Get")
			}
			xs, ys = append([]int{x - 1, x, x + 1}, edge...), []int{y}
		case OpRow, OpRowSpan:
			y := op.Y1
			x1, x2 := 0, w-1
			var win []T
			var p any
			valid := m.inY(y)
			if k == OpRow {
				call = fmt.Sprintf("Row(%d)", y)
				p = try(func() { win = a.Row(y) })
			} else {
				x1, x2 = op.X1, op.X2
				if m.inX(x1) && m.inX(x2) && x1 > x2 {
					x1, x2 = x2, x1
				}
				valid = valid && m.inX(x1) && m.inX(x2)
				call = fmt.Sprintf("RowSpan(%d,%d,%d)", x1, x2, y)
				p = try(func() { win = a.RowSpan(x1, x2, y) })
			}
			if valid != (p == nil) {
				return fail("panic = %v, but the coordinates are inside the bounds: %v", p, valid)
			}
			if !valid {
				lab(opName[k] + ":oob")
				break
			}
			if len(win) != x2-x1+1 {
				return fail("returned a slice of length %d, want %d", len(win), x2-x1+1)
			}
			off := y*w + x1
			if i := rowEq(win, m.cells[off:off+len(win)], d); i >= 0 {
				return fail("slice[%d] = %v, want cell (%d,%d) = %v", i, win[i], x1+i, y, m.cells[off+i])
			}
			// write through every element of the window: exactly those cells change
			for i := range win {
				win[i] = table[(i+step)%len(table)]
			}
			copy(m.cells[off:off+len(win)], win)
			call += " and writing every element of the returned slice"
			if df := verify(step, call, append([]int{x1 - 1, x1, x2, x2 + 1}, edge...), []int{y}); df != "" {
				return pbt.Fail("%s", df)
			}
			// Set on the array is seen through the slice
			for _, i := range []int{0, len(win) / 2, len(win) - 1} {
				if i < 0 || i >= len(win) {
					continue
				}
				v, code := fresh()
				if p := try(func() { a.Set(x1+i, y, v) }); p != nil {
					return fail("then Set(%d,%d,%s) panicked inside the bounds: %v", x1+i, y, valName(code, v), p)
				}
				m.cells[off+i] = v
				if !d.eq(win[i], v) {
					return fail("slice is not a live window: after Set(%d,%d,%s) slice[%d] = %v", x1+i, y, valName(code, v), i, win[i])
				}
			}
			if len(keeps) >= 2 {
				keeps = keeps[1:]
			}
			keeps = append(keeps, leanKept{win: win, m: m, off: off, what: fmt.Sprintf("%s at step %d", call, step)})
			xs, ys = append([]int{x1 - 1, x1, x2, x2 + 1}, edge...), []int{y}
			lab(opName[k] + ":in")
			lab(log2Label(opName[k]+":window-cells:", len(win)))
		case OpFill:
			x1, y1, x2, y2 := op.X1, op.Y1, op.X2, op.Y2
			v, code := fresh()
			if op.V < 0 && d.nspecial > 0 {
				v, code = d.val(op.V), op.V
			}
			call = fmt.Sprintf("Fill(%d,%d,%d,%d,%s)", x1, y1, x2, y2, valName(code, v))
			p := try(func() { a.Fill(x1, y1, x2, y2, v) })
			valid := m.inX(x1) && m.inX(x2) && m.inY(y1) && m.inY(y2)
			if valid != (p == nil) {
				return fail("panic = %v, but all corners are inside the bounds: %v", p, valid)
			}
			if !valid {
				lab("Fill:oob")
				break
			}
			switch {
			case x1 > x2 && y1 > y2:
				lab("Fill:both-swapped")
			case x1 > x2:
				lab("Fill:x-swapped")
			case y1 > y2:
				lab("Fill:y-swapped")
			default:
				lab("Fill:sorted")
			}
			if x1 > x2 {
				x1, x2 = x2, x1
			}
			if y1 > y2 {
				y1, y2 = y2, y1
			}
			for y := y1; y <= y2; y++ {
				fillSlice(m.cells[y*w+x1:y*w+x2+1], v)
			}
			cells, rows := (x2-x1+1)*(y2-y1+1), y2-y1+1
			lab(log2Label("Fill:region-cells:", cells))
			if cells >= 1<<18 {
				big = true
				switch {
				case procs == 1:
					lab("Fill:big-region,GOMAXPROCS=1")
				case rows-1 >= procs:
					lab("Fill:big-region,rows-after-the-first>=GOMAXPROCS>1")
				default:
					lab("Fill:big-region,fewer-rows-than-GOMAXPROCS")
				}
			}
			xs, ys = append([]int{x1 - 1, x1, x1 + 1, (x1 + x2) / 2, x2 - 1, x2, x2 + 1}, edge...), []int{y1, y2, (y1 + y2) / 2}
		case OpClone:
			call = "Clone()"
			var cl arrays.Array2D[T]
			if p := try(func() { cl = a.Clone() }); p != nil {
				return fail("panicked: %v", p)
			}
			if cl.Width() != w || cl.Height() != h {
				return fail("clone has Width,Height = %d,%d", cl.Width(), cl.Height())
			}
			if df := leanDiff(cl, m, d, edge, nil); df != "" {
				return fail("clone differs from the original: %s", df)
			}
			if mod(op.B, 2) == 0 {
				wit = &witness[T]{a: cl, m: m.clone(), step: step}
				lab("Clone:continue-on-original")
			} else {
				wm := m.clone()
				wit = &witness[T]{a: a, m: wm, step: step, orig: true}
				for i := range keeps {
					if keeps[i].m == m {
						keeps[i].m = wm
					}
				}
				a = cl
				lab("Clone:continue-on-clone")
			}
		case OpDims:
			call = "Width(),Height()"
			if a.Width() != w || a.Height() != h {
				return fail("= %d,%d", a.Width(), a.Height())
			}
		case OpGC:
			call = "runtime.GC()"
			runtime.GC()
			lab("GC")
		default:
			lab(opName[k] + ":not-run-on-large-grids")
			continue
		}
		out.Evals++
		if df := verify(step, call, xs, ys); df != "" {
			return pbt.Fail("%s", df)
		}
		if len(calls) < 20 {
			calls = append(calls, call)
		}
	}
	// end of case: Get over the whole grid (up to 2^20 cells; beyond that at 2^20 cells spread evenly over it)
	if n := w * h; n <= 1<<20 {
		if df := diff(a, m, d); df != "" {
			return pbt.Fail("%s array, at the end of the script: %s; history: %s", shape, df, history())
		}
	} else {
		x, y := 0, 0
		msg := ""
		p := try(func() {
			for i, stride := 0, n>>20|1; i < n; i += stride {
				x, y = i%w, i/w
				if got := a.Get(x, y); !d.eq(got, m.cells[i]) {
					msg = fmt.Sprintf("Get(%d,%d) = %v, want %v", x, y, got, m.cells[i])
					return
				}
			}
		})
		if p != nil {
			msg = fmt.Sprintf("Get(%d,%d) (inside the bounds) panicked: %v", x, y, p)
		}
		if msg != "" {
			return pbt.Fail("%s array, at the end of the script: %s; history: %s", shape, msg, history())
		}
	}
	if a.Width() != w || a.Height() != h {
		return pbt.Fail("%s array: Width,Height = %d,%d at the end; history: %s", shape, a.Width(), a.Height(), history())
	}
	out.NonTrivial = w != h && big
	return out
}

// ---------------------------------------------------------------- C08.par

// parShapes returns shapes with about n cells (never fewer): rows much wider than there are rows, a few very
// long rows, many short rows, one row, about square.
func parShapes(n int) [][2]int {
	s := 1
	for (s+1)*(s+1) <= n {
		s++
	}
	up := func(a, b int) int { return (a + b - 1) / b }
	ww := 2*s + 37
	tw := 5
	if n > 5<<19 {
		tw = up(n, 1<<19)
	}
	return [][2]int{
		{ww, up(n, ww)},       // e.g. 11621 x 2888 for 2^25
		{tw, up(n, tw)},       // very tall: 5 columns (at most 2^19 rows)
		{up(n, 3), 3},         // three rows
		{up(n, 17), 17},       // 17 rows: one more than 16 workers
		{129, up(n, 129)},     // tall
		{s + 1, s + 1},        // square
		{up(n, 8), 8},         // 8 rows
		{n, 1},                // one row
		{up(n, 1000), 1000},   // 1000 rows
		{up(n, 33) + 1, 33},   // 33 rows
		{4097, up(n, 4097)},   // rows of 4097
		{up(n, 2), 2},         // two rows
		{up(n, 65537), 65537}, // 65537 rows
	}
}

// parScript: the first Fill covers everything but a thin border (so the region has about as many cells as the
// grid), the later ones the whole grid and everything below the first row.
func parScript(w, h, variant int, short bool) []Op {
	bx, by := 3, 2
	if w < 16 {
		bx = 0
	}
	if h < 16 {
		by = 0
	}
	ops := []Op{{K: OpFill, X1: w - 1 - bx, Y1: by, X2: bx, Y2: h - 1 - by}} // x corners exchanged
	if variant&1 == 1 {
		ops[0] = Op{K: OpFill, X1: bx, Y1: h - 1 - by, X2: w - 1 - bx, Y2: by} // y corners exchanged
	}
	if variant&2 == 2 {
		ops = append(ops, Op{K: OpGC})
	}
	if !short {
		ops = append(ops, Op{K: OpFill, X1: w - 1, Y1: h - 1, X2: 0, Y2: 0, V: -1}) // the zero value over everything, both exchanged
	}
	ops = append(ops, Op{K: OpClone, B: variant >> 2})
	if h >= 2 {
		ops = append(ops, Op{K: OpFill, X1: 0, Y1: 1, X2: w - 1, Y2: h - 1}) // everything below the first row
	} else {
		ops = append(ops, Op{K: OpFill, X1: 1, Y1: 0, X2: w - 1, Y2: 0})
	}
	ops = append(ops, Op{K: OpRow, Y1: h - 1})
	if !short {
		ops = append(ops, Op{K: OpRowSpan, X1: w / 2, X2: w - 1, Y1: h / 2}, Op{K: OpSet, X1: w - 1, Y1: h - 1})
	}
	ops = append(ops, Op{K: OpFill, X1: 0, Y1: 0, X2: w, Y2: h - 1})
	if !short {
		ops = append(ops, Op{K: OpSet, X1: 0, Y1: h}, Op{K: OpRow, Y1: -1})
	}
	return ops
}

var parProcs = []int{2, 3, 5, 6, 7, 16, 1}

func parCases(shard, shards int, tier string, yield func(Case) bool) {
	maxK, crossK := 26, 0
	if tier == "thorough" {
		maxK, crossK = 27, 23
	}
	i := 0
	emit := func(c Case) bool {
		i++
		if i%shards != shard {
			return true
		}
		return yield(c)
	}
	mk := func(T string, k, si, pi, variant int) Case {
		n := 1<<k + 1<<(k-4) // the first rectangle, a border smaller, still has 2^k cells
		shapes := parShapes(n)
		s := shapes[si%len(shapes)]
		w, h := s[0], s[1]
		c := Case{T: T, Lean: true, W: w, H: h, Procs: parProcs[pi%len(parProcs)], Ops: parScript(w, h, variant, k >= 25)}
		switch variant % 5 {
		case 0:
			c.Ctor = 0
		case 1:
			c.Ctor, c.FillV = 1, 0
		case 2:
			c.Ctor, c.FillV = 1, -1
		case 3: // separately allocated rows, one row too many, each a value too long
			if h <= 1<<17 {
				c.Ctor, c.Jag, c.JagN = 2, []int{w + 1}, h+1
			}
		case 4: // the rows of a flat matrix, in order / two of them exchanged
			if h <= 1<<17 {
				c.Ctor, c.Jag, c.JagN = 2, []int{w}, h
				c.View = &View{Stride: w, Rows: h, Via: variant&8 == 8}
				if variant&16 == 16 && h >= 4 {
					c.View.Set = [][2]int{{1, (h - 2) * w}, {h - 2, w}}
				}
			}
		}
		return c
	}
	nshapes := len(parShapes(1 << 20))
	for k := 18; k <= maxK; k++ {
		switch {
		case k <= crossK: // every shape with every GOMAXPROCS
			for si := 0; si < nshapes; si++ {
				for pi := range parProcs {
					if !emit(mk("u8", k, si, pi, si*7+pi+k)) {
						return
					}
				}
			}
		case k <= 24: // every shape once (quick: 9 of the 13 for 2^22, 6 for 2^23 and 2^24), with GOMAXPROCS in turn; other pairs for every k
			for si := 0; si < nshapes; si++ {
				if tier != "thorough" && (k >= 23 && (si+k)%13 >= 6 || k == 22 && (si+k)%13 >= 9) {
					continue
				}
				if !emit(mk("u8", k, si, si+k, si*3+k)) {
					return
				}
			}
		default: // the shapes in turn, with GOMAXPROCS 2, 16, 3, 7, 1, 5 for 2^25 and 5, 2, 16 for 2^26 (thorough: all seven, twice)
			procs := []int{0, 5, 1, 4, 6, 2}
			if k >= 26 {
				procs = []int{2, 0, 5}
			}
			if tier == "thorough" {
				procs = []int{0, 1, 2, 3, 4, 5, 6, 1, 0, 3, 2, 5, 4, 6}
			}
			for j, pi := range procs {
				if !emit(mk("u8", k, j+k*3, pi, j*3+k)) {
					return
				}
			}
		}
	}
	// another goroutine flips GOMAXPROCS between 2 and 7 while the big calls run
	flipK := []int{20, 21, 22, 22, 23}
	if tier == "thorough" {
		flipK = []int{18, 19, 20, 20, 21, 21, 22, 22, 23, 23, 24, 24, 25, 26}
	}
	for j, k := range flipK {
		c := mk("u8", k, j*4+k, 0, j*3+k+1)
		c.Procs, c.Flip = 0, true
		if !emit(c) {
			return
		}
	}
	// wider cells: the same number of BYTES is reached with fewer cells
	for _, t := range []struct {
		T          string
		minK, maxK int
	}{{"", 18, 22}, {"f64x2", 18, 20}, {"padded", 17, 17}, {"any", 18, 18}, {"slice", 18, 18}} {
		maxk, per := t.maxK, 2
		if tier == "thorough" {
			maxk, per = t.maxK+2, 6
		}
		for k := t.minK; k <= maxk; k++ {
			for j := 0; j < per; j++ {
				if tier != "thorough" && k > 20 && j > 0 {
					continue
				}
				if !emit(mk(t.T, k, j*5+k, j*2+k, j+k*3)) {
					return
				}
			}
		}
	}
}

var specPar = pbt.Register(&pbt.Spec[Case]{
	Property: "C08", Name: "C08.par",
	Rule: "enumerated, very large grids under different GOMAXPROCS: for every k = 18..26 (thorough 27) a grid of 2^k + 2^(k-4) cells of 1 byte (u8) in the shapes {about 2s x s/2, 5 x n/5 (at most 2^19 rows), n/3 x 3, " +
		"n/17 x 17, 129 x n/129, square, n/8 x 8, n x 1, n/1000 x 1000, n/33 x 33, 4097 x n/4097, n/2 x 2, n/65537 x 65537} with runtime.GOMAXPROCS set to 2, 3, 5, 6, 7, 16 and 1 inside the case " +
		"(k <= 21: every shape once, k = 22: 9 and k = 23, 24: 6 of the 13, each k pairing shapes and GOMAXPROCS differently; k = 25: GOMAXPROCS 2, 16, 3, 7, 1, 5 and k = 26: 5, 2, 16 with the shapes in turn; " +
		"thorough: k <= 23 every shape with every GOMAXPROCS, above every GOMAXPROCS twice); constructor in turn New2D, New2DFilled (ordinary value, zero value), " +
		"New2DFromJagged with h+1 separately allocated rows of w+1 values, New2DFromJagged with the rows of a flat matrix or of another Array2D as views (in order / two rows exchanged); script: " +
		"Fill of everything but a border of 3 columns and 2 rows (so a rectangle of at least 2^k cells whose rows are NOT adjacent in memory) with x or y corners exchanged, [runtime.GC()], " +
		"Fill of the whole grid with the zero value (both corners exchanged), Clone (continue on either side, the other a frozen witness), Fill of everything below the first row, Row and RowSpan " +
		"written through and kept, Set, three calls just outside the bounds (k >= 25: without the zero-value Fill, RowSpan and Set, one call outside). The same with 8-byte (int, k = 18..22), 16-byte (f64x2, k <= 20; " +
		"any, k = 18), 24-byte (slice, k = 18) and 96-byte (padded, k = 17) cells (thorough: two powers more). " +
		"Also five cases (k = 20, 21, 22, 22, 23; thorough 14, k = 18..26) during which ANOTHER goroutine flips runtime.GOMAXPROCS between 2 and 7 in a loop. " +
		"Read-back after the constructor and after EVERY operation: Row(y) of every row compared with the model as a block (length = width) and Get in the columns at the edges of the grid and of " +
		"the last rectangle / window (in every row up to 4096 rows, else in 4096 rows spread over the grid and those around the rectangle's first, middle and last row); all kept windows and the clone witness likewise; at the end Get over the whole grid (above 2^20 cells: at 2^20 cells spread evenly over it). non-trivial = w != h and a Fill of at least 2^18 cells succeeded",
	Enum:   parCases,
	Crashy: true,            // a recursion per element or per chunk would overflow the stack on these sizes
	Run:    Run, Retries: 3, // what a defect in a parallel path does depends on the scheduling: a replay may need more than one attempt
})

func TestC08Par(t *testing.T) { pbt.Check(t, specPar) }
