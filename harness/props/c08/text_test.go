package c08

import (
	"fmt"
	"math/bits"
	"runtime"
	"runtime/debug"
	"strconv"
	"strings"
	"sync"
	"sync/atomic"
	"testing"
	"time"

	"gopkg.in/typ.v4/arrays"
	"verifharness/internal/pbt"
)

// ---------------------------------------------------------------- String() results of exact lengths

// Text describes a case about the texts returned by String (Case.T = textT or indepT).
//
// textT: the main array (Case.W x Case.H, element type Elem) is built so that its String() is exactly Len bytes
// long; its result is kept by the caller, then String is called on unrelated arrays (Others) and on the array
// itself after a Set / on its Clone, and every text returned earlier must still read the same.
//
// indepT: Workers goroutines, each with an array of its own (shapes, element types and lengths derived from
// the worker's number), call String Iters times in a tight loop; every result must be the text of that
// goroutine's own array.
type Text struct {
	Elem string `json:"elem,omitempty"` // "str" Array2D[string], "int" Array2D[int], "any" Array2D[any] holding strings and ints
	Len  int    `json:"len,omitempty"`
	// Dist says where the bytes go that exceed one byte per cell: 0 first cell, 1 last cell, 2 spread evenly,
	// 3 middle cell, 4 half into the first and half into the last cell. (int cells take at most 18 digits:
	// always spread evenly.)
	Dist   int      `json:"dist,omitempty"`
	Others [][3]int `json:"others,omitempty"` // {w, h, len}: unrelated Array2D[string] printed in between; len 0 = New2DFilled(w, h, "b")
	GC     int      `json:"gc,omitempty"`     // bit 0: runtime.GC() twice before the case (package-level pools start empty), bit 1: runtime.GC() in the middle
	// indepT
	Workers int  `json:"workers,omitempty"`
	Iters   int  `json:"iters,omitempty"`
	Flip    bool `json:"flip,omitempty"` // another goroutine flips runtime.GOMAXPROCS between 2 and 7 meanwhile
}

const (
	textT  = "text"
	indepT = "indep"
)

// textOverhead is the number of bytes of String() that are not cell text: "[" + rows "[..]" joined by " " + "]".
func textOverhead(w, h int) int { return 1 + 2*h + h*w }

// textLens returns the printed length of every cell such that String() has exactly L bytes; nil if impossible.
func textLens(w, h, L, dist, maxCell int) []int {
	n := w * h
	if w <= 0 || h <= 0 || n > 1<<20 {
		return nil
	}
	e := L - textOverhead(w, h) - n
	if e < 0 {
		return nil
	}
	lens := make([]int, n)
	for i := range lens {
		lens[i] = 1
	}
	if maxCell > 0 {
		dist = 2
	}
	switch mod(dist, 5) {
	case 0:
		lens[0] += e
	case 1:
		lens[n-1] += e
	case 2:
		for i := range lens {
			lens[i] += e / n
			if i < e%n {
				lens[i]++
			}
		}
	case 3:
		lens[n/2] += e
	case 4:
		lens[0] += e / 2
		lens[n-1] += e - e/2
	}
	if maxCell > 0 && lens[0] > maxCell {
		return nil
	}
	return lens
}

// cellText is the printed text of a cell: n letters (or, digits = true, n digits not starting with 0).
func cellText(n, salt int, digits bool) string {
	if digits {
		return strings.Repeat(string(rune('1'+mod(salt, 9))), n)
	}
	if n <= 2 {
		return strings.Repeat(string(rune('a'+mod(salt, 26))), n)
	}
	return string(rune('A'+mod(salt, 26))) + strings.Repeat(string(rune('a'+mod(salt/26+salt, 26))), n-2) + string(rune('a'+mod(salt+7, 26)))
}

// tgrid is an array whose cells are known by their printed text.
type tgrid struct {
	w, h  int
	elem  string
	cells []string                 // model: the printed text of every cell
	str   func() string            // String() of the array
	set   func(i int, text string) // Set(i%w, i/w, value printed as text)
	clone func() *tgrid            // Clone()
}

func (g *tgrid) want() string {
	var sb strings.Builder
	sb.WriteByte('[')
	for y := 0; y < g.h; y++ {
		if y > 0 {
			sb.WriteByte(' ')
		}
		sb.WriteByte('[')
		for x := 0; x < g.w; x++ {
			if x > 0 {
				sb.WriteByte(' ')
			}
			sb.WriteString(g.cells[y*g.w+x])
		}
		sb.WriteByte(']')
	}
	sb.WriteByte(']')
	return sb.String()
}

func isDigits(s string) bool {
	for i := 0; i < len(s); i++ {
		if s[i] < '0' || s[i] > '9' {
			return false
		}
	}
	return len(s) > 0 && len(s) <= 18
}

func wrapGrid[T any](a arrays.Array2D[T], elem string, cells []string, conv func(string) T) *tgrid {
	g := &tgrid{w: a.Width(), h: a.Height(), elem: elem, cells: cells}
	g.str = func() string { return a.String() }
	g.set = func(i int, text string) {
		a.Set(i%g.w, i/g.w, conv(text))
		g.cells[i] = text
	}
	g.clone = func() *tgrid { return wrapGrid(a.Clone(), elem, append([]string(nil), g.cells...), conv) }
	return g
}

func newGrid[T any](w, h int, elem string, cells []string, conv func(string) T, jagged bool) *tgrid {
	var a arrays.Array2D[T]
	if jagged {
		rows := make([][]T, h)
		for y := range rows {
			rows[y] = make([]T, w)
			for x := range rows[y] {
				rows[y][x] = conv(cells[y*w+x])
			}
		}
		a = arrays.New2DFromJagged(w, h, rows)
	} else {
		a = arrays.New2D[T](w, h)
		for i, s := range cells {
			a.Set(i%w, i/w, conv(s))
		}
	}
	return wrapGrid(a, elem, cells, conv)
}

// buildText builds a w x h array of the element type elem whose String() is exactly L bytes long; nil if there is none.
func buildText(elem string, w, h, L, dist, salt int) *tgrid {
	maxCell := 0
	if elem == "int" {
		maxCell = 18
	}
	lens := textLens(w, h, L, dist, maxCell)
	if lens == nil {
		return nil
	}
	cells := make([]string, len(lens))
	for i, n := range lens {
		digits := elem == "int" || elem == "any" && i%2 == 1 && n <= 18
		cells[i] = cellText(n, salt+i, digits)
	}
	jagged := mod(salt, 2) == 1
	switch elem {
	case "int":
		return newGrid(w, h, elem, cells, func(s string) int { v, _ := strconv.Atoi(s); return v }, jagged)
	case "any":
		return newGrid(w, h, elem, cells, func(s string) any {
			if isDigits(s) {
				v, _ := strconv.Atoi(s)
				return v
			}
			return s
		}, jagged)
	case "str":
		return newGrid(w, h, elem, cells, func(s string) string { return s }, jagged)
	}
	return nil
}

// firstDiff describes where got differs from want.
func firstDiff(got, want string) string {
	i := 0
	for i < len(got) && i < len(want) && got[i] == want[i] {
		i++
	}
	end := func(s string) string {
		lo, hi := i-8, i+24
		if lo < 0 {
			lo = 0
		}
		if hi > len(s) {
			hi = len(s)
		}
		if i > len(s) {
			return `""`
		}
		return strconv.Quote(s[lo:hi])
	}
	return fmt.Sprintf("length %d (want %d), first difference at byte %d: got ...%s..., want ...%s...", len(got), len(want), i, end(got), end(want))
}

func pow2Label(prefix string, n int) string {
	if n <= 0 {
		return prefix + "0"
	}
	k := bits.Len(uint(n)) - 1
	switch {
	case n == 1<<k:
		return fmt.Sprintf("%s=2^%d", prefix, k)
	case n == 1<<k+1:
		return fmt.Sprintf("%s=2^%d+1", prefix, k)
	case n == 1<<(k+1)-1:
		return fmt.Sprintf("%s=2^%d-1", prefix, k+1)
	}
	return fmt.Sprintf("%s:2^%d..2^%d", prefix, k, k+1)
}

// runText: see Text.
func runText(c Case) pbt.Outcome {
	out := pbt.Outcome{}
	t := c.Text
	if t == nil || t.Len > 1<<21 || len(t.Others) > 64 {
		out.Skipped = true
		return out
	}
	lab := func(l string) { out.Labels = append(out.Labels, l) }
	if t.GC&1 == 1 {
		runtime.GC()
		runtime.GC()
		lab("text:GC-twice-before-the-case")
	}
	g := buildText(t.Elem, c.W, c.H, t.Len, t.Dist, t.Len+c.W)
	if g == nil {
		out.Skipped = true
		return out
	}
	head := fmt.Sprintf("%dx%d Array2D[%s] whose String() is %d bytes long (cell texts of %s bytes)", c.W, c.H, t.Elem, t.Len, lensText(g.cells))
	lab("text:elem:" + t.Elem)
	lab(pow2Label("text:len", t.Len))
	lab(fmt.Sprintf("text:dist:%d", mod(t.Dist, 5)))
	type keptText struct{ got, want, what string }
	var keeps []keptText
	var calls []string
	print := func(g *tgrid, what string) string {
		var s string
		if p := try(func() { s = g.str() }); p != nil {
			return fmt.Sprintf("%s: %s panicked: %v; calls so far: %s", head, what, p, strings.Join(calls, "; "))
		}
		out.Evals++
		want := g.want()
		if s != want {
			return fmt.Sprintf("%s: %s is wrong: %s; calls so far: %s", head, what, firstDiff(s, want), strings.Join(calls, "; "))
		}
		calls = append(calls, what)
		for _, k := range keeps {
			if k.got != k.want {
				return fmt.Sprintf("%s: the string returned earlier by %s changed after %s: %s; calls so far: %s", head, k.what, what, firstDiff(k.got, k.want), strings.Join(calls, "; "))
			}
		}
		keeps = append(keeps, keptText{s, want, what})
		return ""
	}
	if v := print(g, "a.String()"); v != "" {
		return pbt.Fail("%s", v)
	}
	for j, o := range t.Others {
		var b *tgrid
		what := fmt.Sprintf("String() of an unrelated %dx%d Array2D[string] of %d bytes", o[0], o[1], o[2])
		if o[2] > 0 {
			b = buildText("str", o[0], o[1], o[2], 2, j+3)
		} else if o[0] > 0 && o[1] > 0 && o[0]*o[1] <= 1<<16 {
			cells := make([]string, o[0]*o[1])
			for i := range cells {
				cells[i] = "b"
			}
			b = wrapGrid(arrays.New2DFilled(o[0], o[1], "b"), "str", cells, func(s string) string { return s })
			what = fmt.Sprintf(`New2DFilled(%d,%d,"b").String()`, o[0], o[1])
		}
		if b == nil {
			continue
		}
		if v := print(b, what); v != "" {
			return pbt.Fail("%s", v)
		}
		lab("text:other-array-printed-in-between")
		if j == 0 && t.GC&2 == 2 {
			runtime.GC()
			calls = append(calls, "runtime.GC()")
			lab("text:GC-in-the-middle")
		}
	}
	// the array itself again; after a Set of same-sized content; its clone
	if v := print(g, "a.String() again"); v != "" {
		return pbt.Fail("%s", v)
	}
	i := len(g.cells) / 2
	digits := isDigits(g.cells[i])
	g.set(i, cellText(len(g.cells[i]), t.Len+i+5, digits))
	if v := print(g, fmt.Sprintf("a.Set(%d,%d, a value that prints with the same length); a.String()", i%g.w, i/g.w)); v != "" {
		return pbt.Fail("%s", v)
	}
	cl := g.clone()
	cl.set(0, cellText(len(cl.cells[0]), t.Len+11, isDigits(cl.cells[0])))
	if v := print(cl, "b := a.Clone(); b.Set(0,0, a value that prints with the same length); b.String()"); v != "" {
		return pbt.Fail("%s", v)
	}
	if v := print(g, "a.String() once more"); v != "" {
		return pbt.Fail("%s", v)
	}
	out.NonTrivial = len(t.Others) > 0 && t.Len >= 1<<10
	return out
}

// lensText summarises the cell lengths: "65532" or "1, 1, 32766, ... (12 cells)".
func lensText(cells []string) string {
	var sb strings.Builder
	for i, s := range cells {
		if i == 4 {
			fmt.Fprintf(&sb, ", ... (%d cells)", len(cells))
			break
		}
		if i > 0 {
			sb.WriteString(", ")
		}
		sb.WriteString(strconv.Itoa(len(s)))
	}
	return sb.String()
}

func init() { runners[textT] = runText; runners[indepT] = runIndep }

// ---------------------------------------------------------------- independent arrays printed in parallel

// indepGrid builds the private array of worker number g: kinds in turn, lengths around the powers of two 2^12..2^16
// (larger ones make the goroutines allocate faster than a starved collector can free: gigabytes of garbage).
func indepGrid(g int) (*tgrid, string) {
	k := 12 + (g/4)%5
	var elem string
	var w, h, L, dist int
	switch g % 4 {
	case 0: // one long string cell: String() is little more than two copies of it
		elem, w, h, L, dist = "str", 1, 1, 1<<k, 0
	case 1:
		elem, w, h, L, dist = "str", 3, 2, 1<<k+1, 2
	case 2: // digits only
		elem, w, h = "int", 16, 8
		L, dist = textOverhead(w, h)+w*h*(1+g%17)+g%5, 2
	default:
		elem, w, h, L, dist = "any", 5, 3, 1<<k-1, 3
	}
	return buildText(elem, w, h, L, dist, g*31+7), fmt.Sprintf("%dx%d Array2D[%s] whose String() is %d bytes long", w, h, elem, L)
}

// runIndep: see Text. The verdict depends on the scheduling only if the library shares state between arrays.
func runIndep(c Case) pbt.Outcome {
	out := pbt.Outcome{}
	t := c.Text
	if t == nil || t.Workers < 1 || t.Workers > 512 || t.Iters < 1 || t.Iters > 1<<22 {
		out.Skipped = true
		return out
	}
	lab := func(l string) { out.Labels = append(out.Labels, l) }
	lab(fmt.Sprintf("indep:workers=%d", t.Workers))
	procs := runtime.GOMAXPROCS(0)
	if t.Workers > procs {
		lab("indep:more-goroutines-than-GOMAXPROCS")
	}
	grids := make([]*tgrid, t.Workers)
	heads := make([]string, t.Workers)
	for g := range grids {
		if grids[g], heads[g] = indepGrid(g); grids[g] == nil {
			out.Skipped = true
			return out
		}
	}
	// the goroutines produce pointer-free garbage at memory speed: collect early, else the heap grows by gigabytes
	defer debug.SetGCPercent(debug.SetGCPercent(40))
	fails := make([]string, t.Workers)
	var evals, stop atomic.Int64
	var gate, done sync.WaitGroup
	gate.Add(1)
	for g := range grids {
		done.Add(1)
		go func(g int) {
			defer done.Done()
			a := grids[g]
			want := a.want()
			gate.Wait()
			n := 0
			defer func() { evals.Add(int64(n)) }()
			for ; n < t.Iters && stop.Load() == 0; n++ {
				var s string
				if p := try(func() { s = a.str() }); p != nil {
					fails[g] = fmt.Sprintf("call %d of String() panicked: %v", n, p)
					stop.Store(1)
					return
				}
				if s != want {
					fails[g] = fmt.Sprintf("call %d of String() returned a text that is not that of this goroutine's array: %s", n, firstDiff(s, want))
					stop.Store(1)
					return
				}
				if n%32 == 31 { // the array changes from time to time (same printed length)
					i := (n / 32) % len(a.cells)
					a.set(i, cellText(len(a.cells[i]), g*31+n, isDigits(a.cells[i])))
					want = a.want()
				}
			}
		}(g)
	}
	unflip := func() {}
	if t.Flip {
		lab("indep:GOMAXPROCS-flipped-between-2-and-7-meanwhile")
		unflip = flipProcs()
	}
	gate.Done()
	done.Wait()
	unflip()
	out.Evals = int(evals.Load())
	for g, f := range fails {
		if f != "" {
			return pbt.Fail("%d goroutines, each calling String() %d times on an array of its own (no array is shared; GOMAXPROCS=%d%s): goroutine %d, %s: %s",
				t.Workers, t.Iters, procs, map[bool]string{true: ", flipped between 2 and 7 by another goroutine meanwhile"}[t.Flip], g, heads[g], f)
		}
	}
	out.NonTrivial = t.Workers >= 2 && t.Iters >= 100
	return out
}

// ---------------------------------------------------------------- units

// gcOf: one case in 16 starts with empty pools, one in 32 has a GC in the middle.
func gcOf(j int) int {
	gc := 0
	if j%16 == 0 {
		gc = 1
	}
	if j%32 == 5 {
		gc |= 2
	}
	return gc
}

func textCases(shard, shards int, tier string, yield func(Case) bool) {
	maxK := 17
	if tier == "thorough" {
		maxK = 20
	}
	i := 0
	emit := func(c Case) bool {
		i++
		if i%shards != shard {
			return true
		}
		c.T = textT
		return yield(c)
	}
	others := func(L, j int) [][3]int {
		switch j % 6 {
		case 0:
			return [][3]int{{3, 2, 0}}
		case 1:
			return [][3]int{{3, 2, 0}, {1, 1, L}, {2, 2, 0}}
		case 2:
			return [][3]int{{2, 2, L - 1}, {1, 1, 64}}
		case 3:
			return [][3]int{{1, 1, L + 1}, {3, 2, 0}}
		case 4:
			return [][3]int{{4, 4, L/2 + 1}, {1, 1, 0}, {4, 4, L / 2}}
		}
		return [][3]int{{1, 2, 2 * L}, {5, 1, 0}}
	}
	strShapes := [][2]int{{1, 1}, {2, 1}, {1, 2}, {3, 2}, {7, 5}, {16, 16}}
	anyShapes := [][2]int{{2, 2}, {5, 3}, {32, 8}}
	if tier == "thorough" {
		strShapes = append(strShapes, [][2]int{{2, 3}, {64, 1}, {1, 64}, {100, 30}}...)
		anyShapes = append(anyShapes, [][2]int{{1, 1}, {3, 50}}...)
	}
	j := 0
	for k := 6; k <= maxK; k++ {
		for _, delta := range []int{-1, 0, 1} {
			L := 1<<k + delta
			for si, s := range strShapes {
				for dist := 0; dist < 5; dist++ {
					// 1x1: one way; 2x1, 1x2: first / last; 16x16 and larger: spread / middle; 3x2, 7x5 and (thorough) the others: all five
					n := s[0] * s[1]
					if n == 1 && dist > 0 || n == 2 && dist > 1 || n >= 256 && dist != 2 && dist != 3 {
						continue
					}
					j++
					gc := 0
					if delta == 0 && dist%2 == 0 && (si == 0 || si == 3 || si == 5) || j%24 == 0 || tier == "thorough" && j%4 == 0 { // the pools start empty
						gc = 1
					}
					if (j+si)%32 == 5 {
						gc |= 2
					}
					if !emit(Case{W: s[0], H: s[1], Text: &Text{Elem: "str", Len: L, Dist: dist, Others: others(L, j), GC: gc}}) {
						return
					}
				}
			}
			// digits only: 1, 3, 16 rows with about 1.5 and about 9 digits per cell
			for _, h := range []int{1, 3, 16} {
				for _, per := range []int{5, 20} { // bytes per cell incl. separator, times two
					w := (L - 1 - 2*h) * 2 / (h * per)
					if w < 1 {
						w = 1
					}
					j++
					if !emit(Case{W: w, H: h, Text: &Text{Elem: "int", Len: L, Dist: 2, Others: others(L, j), GC: gcOf(j)}}) {
						return
					}
				}
			}
			for _, s := range anyShapes {
				for _, dist := range []int{0, 2, 3} {
					if j++; tier != "thorough" && (j+k)%3 == 0 { // quick: two of the three
						continue
					}
					if !emit(Case{W: s[0], H: s[1], Text: &Text{Elem: "any", Len: L, Dist: dist, Others: others(L, j), GC: gcOf(j)}}) {
						return
					}
				}
			}
		}
	}
}

var specText = pbt.Register(&pbt.Spec[Case]{
	Property: "C08", Name: "C08.text",
	Rule: "enumerated: arrays whose String() is EXACTLY L bytes long for every L in {2^k - 1, 2^k, 2^k + 1}, k = 6..17 (thorough ..20): Array2D[string] in the shapes 1x1, 2x1, 1x2, 3x2, 7x5, 16x16 " +
		"(thorough also 2x3, 64x1, 1x64, 100x30) with the bytes beyond one per cell put into the first cell / the last cell / spread evenly / the middle cell / half first half last (two cells: first, last; " +
		"256 cells and more: spread, middle; else all five); Array2D[int] of 1, 3, 16 rows with about 1.5 and about 9 digits per cell (width chosen to fit, digits spread evenly); Array2D[any] holding strings " +
		"and ints in the shapes 2x2, 5x3, 32x8 (thorough also 1x1, 3x50) with the excess in the first cell / spread / in the middle cell (quick: two of the three per shape and L); arrays built by Set or by " +
		"New2DFromJagged in turn; for 2^k bytes in the shapes 1x1, 3x2, 16x16 and in one other case of 16 to 24 (thorough: 4) runtime.GC() twice before the case (package-level pools then start empty), in one " +
		"of 32 a runtime.GC() in the middle. History: a.String(); String() of one to three UNRELATED arrays " +
		"(New2DFilled(3,2,\"b\") and others; Array2D[string] of exactly L, L-1, L+1, 64, L/2, L/2+1, 2L bytes); a.String() again; a.Set of a value that prints with the same length, a.String(); " +
		"Clone, Set on the clone, String of the clone; a.String(). Oracle: every result equals the model rendering [[a b] [c d]] built independently, and EVERY string returned earlier in the case is compared " +
		"again with its expected text after every later String call (a result that aliases a reused buffer changes). One case in sixteen is run again as 4 parallel independent copies. " +
		"non-trivial = L >= 1024 with another array printed in between",
	Enum: textCases,
	Run:  Run, Retries: 3, // which pooled buffer a call gets depends on the P the test goroutine runs on
	Replicas: 4, ReplicaEvery: 16,
})

func TestC08Text(t *testing.T) { pbt.Check(t, specText) }

func indepCases(shard, shards int, tier string, yield func(Case) bool) {
	i := 0
	emit := func(c Case) bool {
		i++
		if i%shards != shard {
			return true
		}
		c.T = indepT
		return yield(c)
	}
	rounds, iters := 1, 400
	if tier == "thorough" {
		rounds, iters = 8, 1000
	}
	for r := 0; r < rounds; r++ {
		for _, p := range []struct {
			workers, procs int
			flip           bool
		}{{64, 0, false}, {24, 0, true}, {2, 0, false}, {128, 7, false}, {16, 3, false}, {32, 1, false}, {48, 2, true}, {96, 0, false}, {4, 2, false}, {40, 5, true}} {
			n := iters
			if p.procs > 0 && p.procs < 8 {
				n = iters * p.procs / 8
			}
			if !emit(Case{Procs: p.procs, Text: &Text{Workers: p.workers, Iters: n + r, Flip: p.flip}}) {
				return
			}
		}
	}
}

var specIndep = pbt.Register(&pbt.Spec[Case]{
	Property: "C08", Name: "C08.indep",
	Rule: "enumerated: INDEPENDENT arrays printed in parallel: 2, 4, 16, 24, 32, 40, 48, 64, 96, 128 goroutines (mostly more than GOMAXPROCS = 16 / 1, 2, 3, 5, 7 set inside the case), each with a private array " +
		"that no other goroutine ever sees (in turn: 1x1 Array2D[string] with one cell of 2^k - 4 bytes, 3x2 Array2D[string] of 2^k + 1 bytes, 16x8 Array2D[int] of 1..17 digits per cell, 5x3 Array2D[any] of 2^k - 1 bytes, " +
		"k = 12..16; every array has contents of its own), calling String() 400 times (thorough 1000, eight rounds; fewer with fewer than 8 Ps) in a tight loop, with a Set of a same-length value every 32 calls; in some cases another " +
		"goroutine flips runtime.GOMAXPROCS between 2 and 7 meanwhile. Oracle: every result equals the model rendering of that goroutine's own array. Two goroutines never touch the same array (Array2D is not documented " +
		"as safe for concurrent use, and that is not asserted). non-trivial = at least 2 goroutines and 100 calls each",
	Enum: indepCases,
	Run:  Run, Retries: 5, // the verdict of a defective library depends on the scheduling
	CaseCPU: 10 * time.Minute, // up to 128 goroutines work in one case
})

func TestC08Indep(t *testing.T) { pbt.Check(t, specIndep) }
