package c08

import (
	"fmt"
	"testing"
	"time"
)

func TestZZTiming(t *testing.T) {
	specWrap32.Enum(0, 1, "quick", func(c Case) bool {
		c.Loop = 1 << 26
		t0 := time.Now()
		out := Run(c)
		d := time.Since(t0)
		fmt.Printf("wrap %s: %v = %.1f ns/iter viol=%q evals=%d\n", opName[c.Ops[0].K], d.Round(time.Millisecond), float64(d.Nanoseconds())/float64(c.Loop), out.Violation, out.Evals)
		return true
	})
}
