package c08

import (
	"fmt"
	"testing"

	"gopkg.in/typ.v4/arrays"
	"verifharness/internal/pbt"
)

// View makes the jagged rows of a case views of ONE shared buffer instead of separately allocated slices: the
// rows of a flattened matrix, the Row/RowSpan windows of another Array2D, the same slice given for several rows.
// The buffer has Stride*Rows+Tail values, every one different from its neighbours. Row r of the jagged input
// starts at offset r*Stride unless Set names another offset for it (offsets are reduced modulo the buffer
// length + 1), and has the length the case gives it (Case.Jag), cut at the end of the buffer. So the rows may
// lie back to back, in another order, overlap, repeat, or leave gaps - all of which are ordinary [][]T values:
// the new array must hold jagged[y][x], whatever the memory behind the rows looks like.
type View struct {
	Stride int      `json:"stride"`
	Rows   int      `json:"rows"`
	Tail   int      `json:"tail,omitempty"`
	Set    [][2]int `json:"set,omitempty"`  // {row, offset}
	Clip   bool     `json:"clip,omitempty"` // the rows are three-index slices (capacity == length); otherwise their capacity reaches to the end of the buffer
	Via    bool     `json:"via,omitempty"`  // the buffer is the store of another Array2D (Stride x Rows); the rows are taken with Row and RowSpan
}

// jagLens expands the jagged row lengths of a case (Jag continued cyclically up to JagN rows, then JagSet).
func jagLens(c Case, limit int) []int {
	n := len(c.Jag)
	if c.JagN > n {
		n = c.JagN
	}
	if n > limit {
		n = limit
	}
	out := make([]int, n)
	for i := range out {
		out[i] = -1
		if len(c.Jag) > 0 {
			out[i] = c.Jag[i%len(c.Jag)]
		}
	}
	for _, s := range c.JagSet {
		if s[0] >= 0 && s[0] < n {
			out[s[0]] = s[1]
		}
	}
	for i, l := range out {
		if l < -1 {
			out[i] = -1
		}
	}
	return out
}

// jagInput is the jagged argument built for one case.
type jagInput[T any] struct {
	rows   [][]T
	flat   []T // view mode: the shared buffer
	text   string
	labels []string
}

// overwrite gives every value of the jagged input (spare capacity included) a new value, as a caller that
// reuses its buffers would; it returns the number of values written.
func (j *jagInput[T]) overwrite(val func(code int) T) int {
	n := 0
	if j.flat != nil {
		for i := range j.flat {
			j.flat[i] = val(900_000_000 + n)
			n++
		}
		return n
	}
	for _, r := range j.rows {
		r = r[:cap(r)]
		for x := range r {
			r[x] = val(900_000_000 + n)
			n++
		}
	}
	return n
}

// buildJagged builds the jagged argument of a ctor-2 case and enters the expected cells into m: cell (x,y) is
// jagged[y][x] where that exists and the zero value elsewhere. It returns nil if the case is larger than limit values.
// val maps a value code to a value (d.val, or a cheaper table for very large inputs).
func buildJagged[T any](c Case, w, h int, val func(code int) T, m *model[T], limit int) *jagInput[T] {
	lens := jagLens(c, limit)
	j := &jagInput[T]{rows: make([][]T, len(lens))}
	lab := func(l string) { j.labels = append(j.labels, l) }
	if len(lens) <= 20 {
		j.text = fmt.Sprintf("rows with lengths %v (-1 = nil)", lens)
	} else {
		j.text = fmt.Sprintf("%d rows with lengths %v... (-1 = nil)", len(lens), lens[:20])
	}
	more, fewer, longer, shorter, nilrow := len(lens) > h, len(lens) < h, false, false, false
	enter := func(r int) { // row r is final: copy what is inside the bounds into the model, classify
		row := j.rows[r]
		if r < h {
			copy(m.cells[r*w:(r+1)*w], row)
		}
		if row == nil {
			nilrow = true
		}
		if len(row) > w {
			longer = true
		}
		if len(row) < w && r < h {
			shorter = true
		}
	}
	if v := c.View; v != nil {
		if v.Stride < 0 || v.Rows < 0 || v.Tail < 0 || v.Stride > limit || v.Rows > limit || v.Stride*v.Rows > limit || v.Stride*v.Rows+v.Tail > limit {
			return nil
		}
		L := v.Stride*v.Rows + v.Tail
		var src arrays.Array2D[T]
		via := v.Via
		if via {
			L = v.Stride * v.Rows
			src = arrays.New2D[T](v.Stride, v.Rows)
			switch {
			case L == 0:
				j.flat = []T{}
			case cap(src.Row(0)) >= L: // as it is today: the first row's capacity reaches to the end of the store
				j.flat = src.Row(0)[:L:L]
			default: // nothing promises that capacity: without it the buffer is an ordinary slice
				via = false
			}
		}
		if !via {
			j.flat = make([]T, L)
		}
		for i := range j.flat {
			j.flat[i] = val(2_000_000_000 + i)
		}
		offs := make([]int, len(lens))
		for r := range offs {
			offs[r] = r * v.Stride
		}
		moved := 0
		for _, s := range v.Set {
			if s[0] >= 0 && s[0] < len(offs) {
				offs[s[0]] = s[1]
			}
		}
		for r, n := range lens {
			off := mod(offs[r], L+1)
			if off != r*v.Stride && r < h {
				moved++
			}
			offs[r] = off
			if n < 0 {
				enter(r)
				continue
			}
			if n > L-off {
				n = L - off
			}
			var row []T
			switch {
			case via && v.Stride > 0 && off < L:
				y, x0 := off/v.Stride, off%v.Stride
				if n >= 1 && x0+n <= v.Stride && r%2 == 0 {
					row = src.RowSpan(x0, x0+n-1, y)
				} else if base := src.Row(y); x0+n <= cap(base) {
					row = base[x0 : x0+n] // may reach past the row's length, inside its capacity
				} else {
					row = j.flat[off : off+n]
				}
			default:
				row = j.flat[off : off+n]
			}
			if v.Clip {
				row = row[:n:n]
			}
			j.rows[r] = row
			lens[r] = n
			enter(r)
		}
		what := fmt.Sprintf("views of one buffer of %d values", L)
		if via {
			what = fmt.Sprintf("Row/RowSpan windows of another Array2D (%dx%d)", v.Stride, v.Rows)
		}
		if len(lens) <= 20 {
			j.text = fmt.Sprintf("rows = %s, starting at offsets %v with lengths %v (-1 = nil)", what, offs, lens)
		} else {
			j.text = fmt.Sprintf("%d rows = %s, starting at offsets %v... with lengths %v... (-1 = nil)", len(lens), what, offs[:20], lens[:20])
		}
		if v.Clip {
			j.text += ", capacity == length"
			lab("jagview:capacity==length")
		} else {
			lab("jagview:capacity-reaches-to-the-end-of-the-buffer")
		}
		if via {
			lab("jagview:windows-of-another-Array2D")
		} else {
			lab("jagview:sub-slices-of-a-flat-buffer")
		}
		// classes: do the rows look like one contiguous block when only some of them are looked at?
		full := func(r int) bool { return r < len(lens) && lens[r] >= w && offs[r] == r*w }
		switch {
		case w == 0 || h == 0:
			lab("jagview:zero-dim")
		case v.Stride == w && moved == 0 && !shorter && !fewer && L >= w*h:
			lab("jagview:exactly-the-rows-of-a-flat-matrix")
		case v.Stride == w && h >= 3 && L >= w*h && full(0) && full(h-1):
			lab("jagview:first-and-last-row-in-place,a-row-between-them-elsewhere-or-shorter")
		case v.Stride == w && h >= 2 && L >= w*h && full(0) && full(1):
			lab("jagview:first-two-rows-in-place,a-later-row-elsewhere-or-shorter")
		case moved > 0:
			lab("jagview:rows-moved(order,overlap,repeat)")
		default:
			lab("jagview:in-order(other stride, shorter or fewer rows)")
		}
	} else {
		total := 0
		spare := c.Spare
		if spare < 0 || spare > 1<<16 {
			spare = 0
		}
		for r, n := range lens {
			if n < 0 {
				enter(r)
				continue
			}
			if total+n+spare > limit {
				n = 0
			}
			total += n + spare
			row := make([]T, n, n+spare)
			for x := range row {
				row[x] = val(jagCode(r, x))
			}
			for x, sp := 0, row[n:n+spare]; x < len(sp); x++ {
				sp[x] = val(800_000_000 + total + x) // what lies behind the row's length is not part of the row
			}
			j.rows[r] = row
			enter(r)
		}
		if spare > 0 {
			j.text += fmt.Sprintf(", every row with %d values of spare capacity", spare)
			lab("jag:rows-with-spare-capacity")
		}
	}
	for _, x := range []struct {
		on bool
		l  string
	}{{more, "jag:more-rows"}, {fewer, "jag:fewer-rows"}, {!more && !fewer, "jag:exact-rows"}, {longer, "jag:row-longer"},
		{shorter, "jag:row-shorter"}, {nilrow, "jag:nil-row"}, {len(lens) == 0, "jag:no-rows"}} {
		if x.on {
			lab(x.l)
		}
	}
	return j
}

// ---------------------------------------------------------------- C08.views

// viewVariants yields the jagged view inputs of one shape: the row length, the number of rows given, the
// rows with another length, and the view.
func viewVariants(w, h int, thorough bool, yield func(rowLen, nrows int, jagset [][2]int, v View) bool) bool {
	strides := []int{w, w + 1}
	if w >= 2 {
		strides = append(strides, w-1)
	}
	if thorough {
		strides = append(strides, 2*w, w+3)
	}
	for _, s := range strides {
		for _, nrows := range []int{h, h + 1, h - 1} { // jagged rows given
			if nrows < 1 {
				continue
			}
			rowLens := []int{w, w + 1}
			if s != w && s != w+1 {
				rowLens = append(rowLens, s)
			}
			for _, rowLen := range rowLens {
				bufRows := nrows
				if bufRows < h {
					bufRows = h
				}
				base := View{Stride: s, Rows: bufRows, Tail: 2}
				emit := func(set [][2]int, jagset [][2]int) bool {
					for variant := 0; variant < 4; variant++ {
						v := base
						v.Set = set
						v.Clip = variant&1 == 1
						v.Via = variant&2 == 2
						if v.Via {
							v.Tail = 0
						}
						if !yield(rowLen, nrows, jagset, v) {
							return false
						}
					}
					return true
				}
				// in order
				if !emit(nil, nil) {
					return false
				}
				n := nrows
				// every two rows exchanged
				for i := 0; i < n; i++ {
					for k := i + 1; k < n; k++ {
						if !emit([][2]int{{i, k * s}, {k, i * s}}, nil) {
							return false
						}
					}
				}
				// every row given once more in place of another one
				for i := 0; i < n; i++ {
					for k := 0; k < n; k++ {
						if i != k && !emit([][2]int{{i, k * s}}, nil) {
							return false
						}
					}
				}
				// every row one value earlier / later; every row shorter (each length), empty or nil
				for i := 0; i < n; i++ {
					if !emit([][2]int{{i, i*s + 1}}, nil) || (i > 0 && !emit([][2]int{{i, i*s - 1}}, nil)) {
						return false
					}
					for l := -1; l < w; l++ {
						if (l > 1 && l < w-1) && !thorough {
							continue
						}
						if !emit(nil, [][2]int{{i, l}}) {
							return false
						}
					}
				}
				// reversed, all rows the same one, rotated by one
				var rev, same, rot [][2]int
				for i := 0; i < n; i++ {
					rev = append(rev, [2]int{i, (n - 1 - i) * s})
					same = append(same, [2]int{i, (n / 2) * s})
					rot = append(rot, [2]int{i, ((i + 1) % n) * s})
				}
				if !emit(rev, nil) || !emit(same, nil) || !emit(rot, nil) {
					return false
				}
			}
		}
	}
	return true
}

func viewCases(shard, shards int, tier string, yield func(Case) bool) {
	thorough := tier == "thorough"
	maxW, maxH := 4, 5
	if thorough {
		maxW, maxH = 6, 7
	}
	i := 0
	for w := 1; w <= maxW; w++ {
		for h := 1; h <= maxH; h++ {
			i++
			if i%shards != shard {
				continue
			}
			n := 0
			ok := viewVariants(w, h, thorough, func(rowLen, nrows int, jagset [][2]int, v View) bool {
				n++
				vv := v
				c := Case{W: w, H: h, Ctor: 2, Jag: []int{rowLen}, JagN: nrows, JagSet: jagset, View: &vv}
				if n%16 == 5 { // a short script afterwards: the array must be a grid of its own
					c.Ops = []Op{{K: OpFill, X1: w - 1, Y1: h - 1, X2: 0, Y2: h / 2}, {K: OpRow, Y1: 0}, {K: OpClone, B: n}, {K: OpSet, X1: w - 1, Y1: 0}}
				}
				if n%7 == 3 {
					c.T = []string{"u8", "slice", "any", "padded", "unit", "stringer", "str", "f64"}[(n/7)%8]
				}
				return yield(c)
			})
			if !ok {
				return
			}
		}
	}
	// spare capacity behind separately allocated rows; every canonical jagged input of C08.enum
	for w := 0; w <= maxW; w++ {
		for h := 0; h <= maxH; h++ {
			i++
			if i%shards != shard {
				continue
			}
			for k, jv := range jagVariants(w, h) {
				for _, spare := range []int{1, w, 3*w + 5} {
					T := ""
					if (k+spare)%4 == 1 {
						T = []string{"u8", "slice", "any", "padded"}[(k+w+h)%4]
					}
					if !yield(Case{T: T, W: w, H: h, Ctor: 2, Jag: jv, Spare: spare}) {
						return
					}
				}
			}
		}
	}
	// larger blocks: a one-copy path may exist only from some size on
	sizes := [][2]int{{16, 16}, {64, 3}, {3, 64}, {100, 7}, {33, 33}, {256, 4}, {4, 256}, {1024, 3}, {5, 1000}, {4096, 4}, {129, 65}}
	if thorough {
		sizes = append(sizes, [][2]int{{65536, 3}, {3, 65536}, {1000, 1000}, {4097, 17}, {17, 4097}, {512, 512}}...)
	}
	for k, s := range sizes {
		i++
		if i%shards != shard {
			continue
		}
		w, h := s[0], s[1]
		for variant := 0; variant < 8; variant++ {
			v := &View{Stride: w, Rows: h, Clip: variant&1 == 1, Via: variant&2 == 2}
			c := Case{W: w, H: h, Ctor: 2, Jag: []int{w}, JagN: h, View: v}
			a, b := 1, h-2
			if b <= a {
				b = a + 1
			}
			if b >= h {
				b = h - 1
			}
			switch variant / 2 {
			case 0: // in order
			case 1: // two rows between the first and the last exchanged
				v.Set = [][2]int{{a, b * w}, {b, a * w}}
			case 2: // a row between the first and the last one value short
				c.JagSet = [][2]int{{h / 2, w - 1}}
			case 3: // a row given twice
				v.Set = [][2]int{{h / 2, 0}}
			}
			if (k+variant)%5 == 0 {
				c.T = []string{"u8", "padded", "any"}[(k+variant)/5%3]
			}
			if !yield(c) {
				return
			}
		}
	}
}

var specViews = pbt.Register(&pbt.Spec[Case]{
	Property: "C08", Name: "C08.views",
	Rule: "enumerated: New2DFromJagged with unusual but legal jagged arguments. (1) rows that are VIEWS OF ONE SHARED BUFFER: for every shape 1..4 x 1..5 (thorough 1..6 x 1..7), " +
		"buffer row stride in {w, w+1, w-1 (thorough also 2w, w+3)}, h, h+1 or h-1 rows given, row length w, w+1 or the stride: the rows in order; every two rows exchanged; every row given a second " +
		"time in place of every other one; every row starting one value earlier / later; every single row nil, empty or shorter (lengths 0, 1, w-1; thorough every length); all rows reversed, " +
		"all rows the same one, rotated by one - each as plain sub-slices of a flat buffer (capacity reaching to the end of the buffer) and as three-index slices (capacity == length), and each also as " +
		"Row/RowSpan windows of ANOTHER Array2D (stride x rows); every seventh case on another element type (u8, slice, any, padded, unit, stringer, str, f64); every 16th followed by " +
		"Fill/Row/Clone/Set. (2) separately allocated rows with 1, w and 3w+5 values of spare capacity holding other values, for the 10 canonical jagged inputs of all shapes 0..4 x 0..5. " +
		"(3) larger blocks 16x16, 64x3, 3x64, 100x7, 33x33, 256x4, 4x256, 1024x3, 5x1000, 4096x4, 129x65 (thorough also 65536x3, 3x65536, 1000x1000, 4097x17, 17x4097, 512x512): " +
		"exactly the rows of a flat matrix; two middle rows exchanged; one middle row a value short; one middle row replaced by the first. Oracle: cell (x,y) = jagged[y][x] where that " +
		"exists, else the zero value (the expectation is taken from the row slices themselves, not from their addresses), and the array is unaffected when the buffer is overwritten afterwards; " + rule,
	Enum: viewCases,
	Run:  Run, Replicas: 4, ReplicaEvery: 8,
})

func TestC08Views(t *testing.T) { pbt.Check(t, specViews) }
